"""Common check driver: build, proof status, correspondence slice, verdict, evidence, replay."""
import os, sys, json, time, re, hashlib, random
import build, tie

ROOT = build.ROOT
EVID = os.path.join(ROOT, "evidence")
REPLAYS = os.path.join(ROOT, "replays")
KNOWN = os.path.join(ROOT, "known_findings.json")

TRUSTED_BASE = [
    "Coq 8.16.1 kernel and coqc; vm_compute (bytecode VM) for finite-domain table theorems; no native_compute",
    "axioms: none declared; every pinned theorem must print 'Closed under the global context'",
    "translators /verif/translate/gen_tables.py (tables, constants, flag/escape/category arms from /repo source; ICU data dumped by the harness)",
    "extraction: Require Extraction + ExtrOcamlBasic only (bool, option, unit, list, prod, sumbool, sumor -> OCaml; andb/orb inlined); nat, positive, N, Z stay Coq inductives; OCaml 4.13.1 ocamlopt; /verif/driver/driver.ml (parsing, printing)",
    "correspondence check: differential run of the extracted model against the Rust build of /repo's working tree through the public API (plus the regexml_verif hook constructors)",
    "modelled, not verified: icu_collections inversion-list builder (Base/InvList.v), ICU4X data (dumped tables), Rust std Vec/HashMap/RefCell/Box<dyn Iterator> (resumable streams), 64-bit usize arithmetic (N with explicit checks)",
]


class Case:
    """one correspondence case"""
    __slots__ = ("cid", "dialect", "flags", "pattern", "input", "repl", "apis", "tag")

    def __init__(self, cid, dialect, flags, pattern, inp="", repl="", apis="m", tag=None):
        self.cid, self.dialect, self.flags, self.pattern = str(cid), dialect, flags, pattern
        self.input, self.repl, self.apis, self.tag = inp, repl, apis, tag

    def line(self):
        return tie.case_line(self.cid, self.dialect, self.flags, self.pattern, self.input, self.repl, self.apis)

    def key(self):
        return (self.dialect, self.flags, self.pattern, self.input, self.repl, self.apis)

    def to_json(self):
        return {"dialect": self.dialect, "flags": self.flags, "pattern": self.pattern, "input": self.input,
                "replacement": self.repl, "apis": self.apis}

    @staticmethod
    def from_json(d, cid="replay"):
        return Case(cid, d["dialect"], d["flags"], d["pattern"], d.get("input", ""), d.get("replacement", ""),
                    d.get("apis", "mrta"))


def load_known(prop):
    if not os.path.exists(KNOWN):
        return []
    data = json.load(open(KNOWN))
    return [k for k in data.get("findings", []) if k["property"] == prop and k.get("status") == "known"]


def theorem_names(prop):
    path = os.path.join(build.COQ, "Properties", prop + ".v")
    if not os.path.exists(path):
        return []
    text = open(path).read()
    text = re.sub(r"\(\*.*?\*\)", "", text, flags=re.S)
    return re.findall(r"^\s*Theorem\s+(\w+)", text, re.M)


def proof_status(prop, built):
    """returns dict(obligations, discharged, theorems, problems[])"""
    names = theorem_names(prop)
    problems = []
    pf = f"Properties/{prop}.v"
    vo = os.path.join(build.COQ, "Properties", prop + ".vo")
    # any failed file that this property depends on (conservatively: any failed file at all under
    # Base/Model/Spec/Tables, or this property's own Proofs/Properties files)
    failed = built["coq_failed"]
    dep_failed = [f for f in failed if not f.startswith("Properties/") or f == pf]
    own_deps = _deps_of(prop)
    dep_failed = [f for f in dep_failed if f == pf or f in own_deps]
    if dep_failed:
        problems.append("does not compile: " + ", ".join(dep_failed))
    if built.get("translator_error"):
        problems.append("translator: " + built["translator_error"])
    if not os.path.exists(vo):
        problems.append(f"{pf} has no .vo")
    bad = build.scan_forbidden()
    if bad:
        problems.append("forbidden constructs: " + "; ".join(bad[:5]))
    discharged = 0
    axioms = []
    if not problems:
        ok, blocks, raw = build.assumptions_of(pf)
        if not ok:
            problems.append(f"coqc {pf} failed: " + raw[-800:])
        else:
            if len(blocks) != len(names):
                problems.append(f"{pf}: {len(names)} theorems but {len(blocks)} Print Assumptions reports")
            for nm, b in zip(names, blocks):
                if b == "closed":
                    discharged += 1
                else:
                    axioms.append((nm, b))
            if axioms:
                problems.append("theorems depend on axioms: " + json.dumps(axioms))
    return {"obligations": len(names), "discharged": discharged, "theorems": names, "problems": problems}


def coqchk_status(prop):
    """thorough tier: re-check Properties/<prop>.vo and everything it depends on with the independent
    checker and read the axiom summary; the result is cached on the hash of the compiled files it
    covers (the checker takes about a minute per property)"""
    import subprocess
    vo = os.path.join(build.COQ, "Properties", prop + ".vo")
    if not os.path.exists(vo):
        return [f"coqchk: Properties/{prop}.vo missing"]
    h = hashlib.sha1()
    for f in sorted(_deps_of(prop)):
        fv = os.path.join(build.COQ, f + "o")
        if os.path.exists(fv):
            h.update(f.encode()); h.update(open(fv, "rb").read())
    key = h.hexdigest()
    cdir = os.path.join(ROOT, ".cache")
    os.makedirs(cdir, exist_ok=True)
    cfile = os.path.join(cdir, f"coqchk_{prop}.json")
    if os.path.exists(cfile):
        try:
            c = json.load(open(cfile))
            if c.get("key") == key:
                return c["problems"]
        except Exception:
            pass
    try:
        r = subprocess.run(["coqchk", "-o", "-silent", "-Q", ".", "RX", f"RX.Properties.{prop}"], cwd=build.COQ,
                           capture_output=True, text=True, timeout=1800)
        out = r.stdout + r.stderr
    except subprocess.TimeoutExpired:
        return ["coqchk: timed out after 1800 s"]
    problems = []
    if r.returncode != 0:
        problems.append("coqchk failed: " + out[-600:])
    else:
        for label in ("Axioms", "Constants/Inductives relying on type-in-type", "Constants/Inductives relying on unsafe (co)fixpoints",
                      "Inductives whose positivity is assumed"):
            m = re.search(r"\* " + re.escape(label) + r":\s*(.*?)\n\s*\n", out, re.S)
            val = m.group(1).strip() if m else "?"
            if val != "<none>":
                problems.append(f"coqchk: {label}: {val[:300]}")
    json.dump({"key": key, "problems": problems}, open(cfile, "w"))
    return problems


def _deps_of(prop):
    """transitive .v dependencies of Properties/<prop>.v inside the project, via coqdep output"""
    dfile = os.path.join(build.COQ, ".Makefile.d")
    deps = {}
    if os.path.exists(dfile):
        for line in open(dfile):
            if ":" not in line:
                continue
            lhs, rhs = line.split(":", 1)
            tgt = [t for t in lhs.split() if t.endswith(".vo")]
            srcs = [s[:-1] for s in rhs.split() if s.endswith(".vo")]
            for t in tgt:
                deps[t[:-1]] = srcs
    seen = set()
    stack = [f"Properties/{prop}.v"]
    while stack:
        x = stack.pop()
        if x in seen:
            continue
        seen.add(x)
        stack.extend(deps.get(x, []))
    return seen


def write_replay(prop, payload):
    d = os.path.join(REPLAYS, prop)
    os.makedirs(d, exist_ok=True)
    h = hashlib.sha1(json.dumps(payload, sort_keys=True).encode()).hexdigest()[:12]
    path = os.path.join(d, h + ".json")
    json.dump(payload, open(path, "w"), indent=1, ensure_ascii=True)
    return path


def write_evidence(prop, ev):
    os.makedirs(EVID, exist_ok=True)
    json.dump(ev, open(os.path.join(EVID, prop + ".json"), "w"), indent=1, ensure_ascii=True)


def show(s):
    return s.encode("unicode_escape").decode()


def finish(prop, tier, seed, t0, pstat, sl, known_hits):
    """sl: slice result dict with keys evaluations, distinct_nontrivial, rule, samples, disagreements
    (list of dict), violations (list of dict, each with 'known': id or None), extra (dict)"""
    viol_unknown = [v for v in sl["violations"] if not v.get("known")]
    exit_code = 0
    lines = []
    for kid, what in sorted(known_hits.items()):
        lines.append(f"KNOWN-FINDING: property={prop} {kid} {what}")
    if viol_unknown:
        v = viol_unknown[0]
        path = write_replay(prop, {"property": prop, "kind": "failing-input", **v})
        lines.append(f"VIOLATION property={prop} replay={path}")
        exit_code = 1
    elif sl["disagreements"]:
        d = sl["disagreements"][0]
        path = write_replay(prop, {"property": prop, "kind": "correspondence-broken",
                                   "what": "model and code disagree on this case; the property's oracle found no failing input",
                                   **d})
        lines.append(f"VIOLATION property={prop} replay={path} no-failing-input-found")
        exit_code = 1
    elif pstat["problems"]:
        path = write_replay(prop, {"property": prop, "kind": "proof-broken", "theorems": pstat["theorems"],
                                   "problems": pstat["problems"]})
        lines.append(f"VIOLATION property={prop} replay={path} no-failing-input-found")
        exit_code = 1
    ev = {
        "property_id": prop, "tier": tier, "seed": seed, "level": "proof",
        "coverage": {
            "obligations": max(1, pstat["obligations"]), "discharged": pstat["discharged"],
            "checker_cmd": f"cd /verif/coq && make Properties/{prop}.vo  (coqc 8.16.1, full .vo build; Print Assumptions per theorem)"
                           + (f"; coqchk -o -silent -Q . RX RX.Properties.{prop}: {pstat['coqchk']}" if pstat.get("coqchk") else ""),
            "trusted_base": TRUSTED_BASE,
            "theorems": pstat["theorems"], "proof_problems": pstat["problems"],
            "evaluations": sl["evaluations"], "distinct_nontrivial": sl["distinct_nontrivial"],
            "rule": sl["rule"], "samples": sl["samples"][:8],
            "model_vs_code_disagreements": len(sl["disagreements"]),
            "oracle_violations": len(sl["violations"]), "known_finding_hits": {k: v for k, v in known_hits.items()},
            "extraction_cross_check": sl.get("xcheck", {}),
            **sl.get("extra", {}),
        },
        "assumptions": sl.get("assumptions", []),
        "wall_s": round(time.time() - t0, 2),
        "violations": len(viol_unknown) + (1 if exit_code and not viol_unknown else 0),
    }
    write_evidence(prop, ev)
    for l in lines:
        print(l)
    print(f"{prop}: tier={tier} theorems={pstat['discharged']}/{pstat['obligations']} cases={sl['evaluations']} "
          f"nontrivial={sl['distinct_nontrivial']} disagreements={len(sl['disagreements'])} "
          f"violations={len(sl['violations'])} known={len(sl['violations']) - len(viol_unknown)} "
          f"wall={ev['wall_s']}s -> exit {exit_code}")
    return exit_code
