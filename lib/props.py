"""Per-property correspondence slices and oracles.  Each slice function takes a Ctx and returns the
dict core.finish expects: evaluations, distinct_nontrivial, rule, samples, disagreements, violations."""
import os, sys, json, random, itertools, re, subprocess, collections
import tie, gen, core
from core import Case, show

ASTRAL = "\U0001F600"      # one supplementary-plane character
COMB = "é"           # base + combining mark


class Ctx:
    def __init__(self, prop, tier, seed):
        self.prop, self.tier, self.seed = prop, tier, seed
        self.rng = random.Random(seed * 1000003 + int(prop[1:]))
        self.quick = tier == "quick"

    def n(self, quick, thorough):
        return quick if self.quick else thorough


# ================================================================ helpers
def parse_analyze(a):
    """'ok:N(61)M(S(61)G1(S(62)))' -> list of ('N', text) | ('M', tree); tree = list of ('S', text) |
    ('G', nr, tree).  None for errors / abnormal endings."""
    if not a or not a.startswith("ok:") or "!" in a:
        return None
    s = a[3:]
    pos = 0

    def entries():
        nonlocal pos
        out = []
        while pos < len(s) and s[pos] != ")":
            if s[pos] == "S":
                j = s.index(")", pos)
                out.append(("S", tie.dec(s[pos + 2:j])))
                pos = j + 1
            elif s[pos] == "G":
                j = s.index("(", pos)
                nr = int(s[pos + 1:j])
                pos = j + 1
                sub = entries()
                pos += 1
                out.append(("G", nr, sub))
            else:
                raise ValueError(s[pos:])
        return out

    res = []
    while pos < len(s):
        if s[pos] == "N":
            j = s.index(")", pos)
            res.append(("N", tie.dec(s[pos + 2:j])))
            pos = j + 1
        elif s[pos] == "M":
            pos += 2
            t = entries()
            pos += 1
            res.append(("M", t))
        else:
            raise ValueError(s[pos:])
    return res


def tree_text(t):
    return "".join(x[1] if x[0] == "S" else tree_text(x[2]) for x in t)


def tree_groups(t, out=None):
    out = {} if out is None else out
    for x in t:
        if x[0] == "G":
            out[x[1]] = tree_text(x[2])
            tree_groups(x[2], out)
    return out


def code_spans(a):
    """spans and per-match group dicts from a parsed analyze result"""
    pos, spans, groups, trees = 0, [], [], []
    for e in a:
        if e[0] == "N":
            pos += len(e[1])
        else:
            t = tree_text(e[1])
            spans.append((pos, pos + len(t)))
            groups.append(tree_groups(e[1]))
            trees.append(e[1])
            pos += len(t)
    return spans, groups, trees


def parse_tokens(t):
    if not t or not t.startswith("ok:[") or not t.endswith("]"):
        return None
    body = t[4:-1]
    return [] if body == "" else [tie.dec(x) for x in body.split("|")]


def spec_call(lines):
    """id -> the text after the id ('slow' / 'ABORT' when the oracle itself did not come back)"""
    return tie.run_spec(lines)


def spec_match(cases):
    lines = ["\t".join([c.cid, "match", c.dialect, tie.enc(c.flags), tie.enc(c.pattern), tie.enc(c.input)])
             for c in cases]
    raw = spec_call(lines)
    out = {}
    for cid, rest in raw.items():
        out[cid] = dict(kv.split("=", 1) for kv in rest.split("\t") if "=" in kv)
    return out


def spec_spans(sp):
    spans, groups = [], []
    if sp:
        for part in sp.split(";"):
            s, _, gs = part.partition(":")
            x, y = s.split("-")
            spans.append((int(x), int(y)))
            groups.append(gs.split(",") if gs else [])
    return spans, groups


def diff_fields(c, m, fields=None):
    ks = fields if fields is not None else sorted(set(c or {}) | set(m or {}))
    return {k: {"code": (c or {}).get(k), "model": (m or {}).get(k)} for k in ks
            if (c or {}).get(k) != (m or {}).get(k)}


XCHECK = {"cases": 0, "mismatches": 0}
XCHECK_N = int(os.environ.get("VERIF_XCHECK", "0") or 0)


def run_slice(cases, fields=None):
    code, model = tie.run_both([c.line() for c in cases], "p")
    dis = []
    for c in cases:
        d = diff_fields(code.get(c.cid), model.get(c.cid), fields)
        if d:
            dis.append({"case": c.to_json(), "tag": c.tag, "differs": d})
    # extraction + driver are checked, not trusted outright: a sample of this run's cases is evaluated
    # inside Coq (vm_compute on the model itself) and compared with what the extracted driver printed
    k = XCHECK_N
    if k and len(cases) > 1:
        import coqcheck
        rng = random.Random(len(cases))
        pool = [c for c in cases if c.apis != "sweep" and model.get(c.cid, {}).get("C") not in ("SLOW", None)
                and len(c.pattern) <= 40 and len(c.input) <= 12]
        sample = [Case(f"x{i}", c.dialect, c.flags, c.pattern, c.input, c.repl, "mr")
                  for i, c in enumerate(rng.sample(pool, min(k, len(pool))))]
        if sample:
            _, m2 = tie.run_both([c.line() for c in sample], "x", code=False)
            bad = coqcheck.cross_check(sample, m2)
            XCHECK["cases"] += len(sample)
            XCHECK["mismatches"] += len(bad)
            for b in bad[:3]:
                dis.append({"case": b.get("case") if isinstance(b, dict) else None, "tag": "extraction-cross-check",
                            "differs": {"in_coq_vs_extracted": b}})
    return code, model, dis


def viol(c, expected, got, why, spec=None, same=None):
    v = {"case": c.to_json(), "expected": expected, "got": got, "why": why}
    if spec is not None:
        v["spec"] = {k: spec.get(k) for k in ("V", "bf", "bok", "strict", "k1", "k2", "k3") if k in spec}
    if same is not None:
        v["code_equals_model"] = same
    return v


def result(ctx, cases, dis, violations, nontrivial, rule, extra=None):
    k = min(6, len(cases))
    return {"xcheck": dict(XCHECK, what="cases evaluated inside Coq by vm_compute and compared with the extracted driver"),
            "evaluations": len(cases), "distinct_nontrivial": len(nontrivial), "rule": rule,
            "samples": [c.to_json() for c in ctx.rng.sample(cases, k)] if k else [],
            "disagreements": dis, "violations": violations, "extra": extra or {}}


def mk_cases(tuples, apis, start=0):
    """tuples: (dialect, flags, pattern, input, repl[, tag])"""
    out = []
    for i, t in enumerate(tuples):
        out.append(Case(start + i, t[0], t[1], t[2], t[3], t[4], apis, tag=t[5] if len(t) > 5 else None))
    return out


def same_as_model(code, model, cid):
    return code.get(cid) == model.get(cid)


# ---------------------------------------------------------------- exhaustive small ASTs
LEAVES = [("chr", "a"), ("chr", "b"), ("dot",), ("cls", False, [("c", "a"), ("c", "b")], None),
          ("cls", True, [("c", "a")], None), ("bol",), ("eol",), ("chr", "\n")]
QUANTS = [(0, 1), (0, None), (1, None), (2, 2), (1, 2), (2, None)]


def enum_asts(size, memo={}):
    if size in memo:
        return memo[size]
    if size == 1:
        out = list(LEAVES)
    else:
        out = []
        for body in enum_asts(size - 1):
            out.append(("grp", body))
            for mn, mx in QUANTS:
                out.append(("q", body, mn, mx, True))
                out.append(("q", body, mn, mx, False))
        for k in range(1, size - 1):
            for l in enum_asts(k):
                for r in enum_asts(size - 1 - k):
                    out.append(("seq", [l, r]))
                    out.append(("alt", [l, r]))
    memo[size] = out
    return out


def random_stream(ctx, count, feats=None, flagsets=None, alphabets=None, per_pattern=4, size=(1, 9),
                  dialects=("xpath",), extra_inputs=(), groups=0.0, brefs=0.0, shapes=0.0):
    rng = ctx.rng
    flagsets = flagsets or ["", "i", "m", "s", "im", "ms", "is", "ims"]
    alphabets = alphabets or ["ab", "abc", "ab\n", "aAb", "aAbB", "ab" + ASTRAL]
    out = []
    while len(out) < count:
        d = rng.choice(dialects)
        al = rng.choice(alphabets)
        g = gen.Gen(rng, alphabet=al, dialect=d, feats=set(feats) if feats else None)
        ast = gen.shaped(rng, al.replace("\n", "") or "ab") if (shapes and rng.random() < shapes) else g.re(rng.randint(*size))
        if groups:
            ast = gen.wrap_groups(rng, ast, groups)
        if brefs and d == "xpath":
            ast = gen.add_brefs(rng, ast, brefs)
        ast = g.fix_brefs(ast)
        pat = gen.pp(ast, d, rng)
        fl = rng.choice(flagsets) if d == "xpath" else rng.choice(["", "i", "s", "is"])
        for inp in gen.inputs_for(rng, al, per_pattern) + list(extra_inputs):
            out.append((d, fl, pat, inp, ast))
    return out


def capalt_stream(ctx, count, repl="[$1|$2|$3]"):
    """an alternation all of whose branches are bare capturing groups, followed by a term that can
    fail, on inputs where an earlier start position gets into one branch and fails and a later one
    succeeds through another: what a failed attempt leaves in the capture arrays must not show"""
    rng = random.Random(ctx.seed * 982451653 + 5)
    out = []
    while len(out) < count:
        a, b, c, d = rng.sample("abcdx", 4)
        g1 = rng.choice([("chr", a), ("q", ("chr", a), 1, None, True)])
        alt = ("alt", [("grp", g1), ("grp", ("chr", b))] + ([("grp", ("chr", d))] if rng.random() < 0.3 else []))
        core = rng.choice([("nc", alt), ("q", ("nc", alt), 1, None, True), ("nc", alt)])
        tail = rng.choice([("chr", c), ("nc", ("alt", [("chr", c), ("grp", ("chr", d))]))])
        parts = [core, tail]
        if rng.random() < 0.3:
            parts.insert(0, ("chr", "x"))
        ast = ("seq", parts)
        if rng.random() < 0.2:
            ast = ("alt", [ast, ("grp", ("chr", d))])
        pat = gen.pp(ast)
        pre = "x" if parts[0] == ("chr", "x") else ""
        inputs = [pre + a + " " + pre + b + c, pre + a * 3 + " " + pre + b + c, pre + b + " " + pre + a + c, a + " " + d,
                  pre + a + "-" + pre + b + "-" + pre + (d if len(alt[1]) > 2 else b) + c, pre + b + c, ""]
        for inp in inputs:
            out.append(("xpath", rng.choice(["", "", "i"]), pat, inp, repl))
    return out



def relgroup_stream(ctx, count, repl="[$1|$2|$3]"):
    """every capturing group sits directly under a fixed-length quantifier (reluctant or greedy,
    minimum 0), with literal separators between them, on inputs where an earlier start position
    captures the first group and then fails while the reported match leaves it out:
    (a)??x(b)??y on "axz xby"; own generator state"""
    rng = random.Random(ctx.seed * 982451653 + 9)
    out = []
    while len(out) < count:
        a, b, c = rng.sample("abcd", 3)
        x, y = rng.sample("xyz", 2)
        qs = ["??", "??", "*?", "{0,2}?", "?", "*", "{0,1}?"]
        q1, q2 = rng.choice(qs), rng.choice(qs)
        pat = f"({a}){q1}{x}({b}){q2}{y}"
        if rng.random() < 0.3:
            pat += f"({c}){rng.choice(qs)}"
        if rng.random() < 0.2:
            pat = f"(?:{pat})"
        inputs = [f"{a}{x}z {x}{b}{y}", f"{a}{x}{b}z {x}{y}", f"{a}{x} {a}{x}{y}", f"{a}{x}{y}", f"{x}{b}{y}{c}", f"{a}{a}{x}{b}{b}{y}",
                  f"{a}{x}{b} {b}{x}{y}{c}", f"{x}{y} {a}{x}{b}{y}", ""]
        for inp in inputs:
            out.append(("xpath", rng.choice(["", "", "i"]), pat, inp, repl))
    return out


def staleend_stream(ctx, count, repl="[$1|$2]"):
    """a group that completes on a path which is then abandoned, starting exactly where the engine
    backtracks to and ending beyond the end of the match finally reported: a(bc)?b on "abcx",
    x(?:(abc)|a)b on "xabcb"; own generator state"""
    rng = random.Random(ctx.seed * 982451653 + 11)
    out = []
    while len(out) < count:
        a, b, c = rng.sample("abcd", 3)
        k = rng.random()
        if k < 0.4:
            pat = f"{a}({b}{c}){rng.choice(['?', '??', '*', '{0,2}'])}{b}"
            inputs = [f"{a}{b}{c}x", f"{a}{b}{c}{b}", f"{a}{b}", f"x{a}{b}{c}{c} {a}{b}{c}{b}", f"{a}{b}{c}{b}{c}x"]
        elif k < 0.7:
            pat = f"x(?:({a}{b}{c})|{a}){b}"
            inputs = [f"x{a}{b}{c}x x{a}{b}{c}{b}", f"x{a}{b}{c}", f"x{a}{b}", f"x{a}{b}{c}{b}", f"xx{a}{b}{c}x"]
        elif k < 0.85:
            pat = f"({a})?(?:({a}{b}{c})|{a}{b}){rng.choice(['', '?'])}{c}?"
            inputs = [f"{a}{a}{b}{c}", f"{a}{b}{c}", f"{a}{a}{b}", f"{a}{b}", f"x{a}{a}{b}{c}{c}"]
        else:
            pat = f"{a}(?:({b}+){c}|{b})"
            inputs = [f"{a}{b}{b}{b}x", f"{a}{b}{b}{c}", f"{a}{b}", f"{a}{b}{b}", f"{a}{a}{b}{b}x{a}{b}{c}"]
        for inp in inputs:
            out.append(("xpath", rng.choice(["", "", "i"]), pat, inp, repl))
    return out


def grammar_tree_stream(ctx, count, repl=""):
    """pattern texts printed from random trees of the grammar of coq/Proofs/GroupGrammar.v (runs of
    ordinary characters, quantified characters c? c* c+ c{n} c{n,} c{n,m} and their reluctant forms, the dot and the
    class escapes \\s \\S \\i \\I \\c \\C \\d \\D \\w \\W (bare or quantified), the anchors ^ $ under XPath, alternation, capturing and non-capturing groups, empty branches, any nesting): the domain of the theorems
    C01_group_grammar_end_to_end_partial / C06_group_grammar_tokenize_end_to_end_partial, on which model = specification
    is proved; here the code is compared with both.  Own generator state."""
    rng = random.Random(ctx.seed * 32452843 + 13)
    ordinary = "abcAB-,: 1xé" + ASTRAL

    def run(al):
        return "".join(rng.choice(al) for _ in range(rng.choice([0, 1, 1, 2, 3])))

    def branch(depth, al, xpath):
        out = ""
        for _ in range(rng.choice([0, 1, 1, 2, 3])):
            k = rng.random()
            if k < 0.4:
                out += run(al)
            elif k < 0.75:
                q = rng.choice(["?", "*", "+", "?", "*", "+", "{2}", "{0,2}", "{1,}", "{2,3}", "{0,1}", "{3}", "{10,12}", "{02,3}"])
                if xpath and rng.random() < 0.4:
                    q += "?"
                r_ = rng.random()
                atom = "." if r_ < 0.2 else ("\\" + rng.choice("sSiIcCdDwW") if r_ < 0.4 else rng.choice(al))
                out += run(al) + atom + q
            elif k < 0.80:
                out += run(al) + ("." if rng.random() < 0.5 else "\\" + rng.choice("sSiIcCdDwW"))
            elif k < 0.88 and xpath:
                out += run(al) + rng.choice("^$")
            elif depth > 0:
                cap = (not xpath) or rng.random() < 0.5
                out += run(al) + ("(" if cap else "(?:") + alt(depth - 1, al, xpath) + ")"
        return out + run(al)

    def alt(depth, al, xpath):
        return "|".join(branch(depth, al, xpath) for _ in range(rng.choice([1, 1, 2, 3])))

    out = []
    while len(out) < count:
        d = rng.choice(["xpath", "xpath", "xsd"])
        al = rng.choice(["ab", "abc", "aAb", ordinary])
        pat = alt(rng.choice([0, 1, 2, 3]), al, d == "xpath")
        fl = rng.choice(["", "", "i", "m", "s", "im"])
        for inp in gen.inputs_for(rng, al + ("\n" if ("^" in pat or "$" in pat or "." in pat) else "") + (" 1_-\u0663\u00e9:" if "\\" in pat else ""), 4):
            out.append((d, fl, pat, inp, repl))
    return out


def sizes_stream(ctx, repl=""):
    """patterns and inputs whose sizes lie just past 64, 128 and 255: long inputs for small patterns (matches
    that start or end beyond those offsets), counted repeats, many alternatives, many class members, many
    groups.  Own generator state."""
    rng_z = random.Random(ctx.seed * 86028157 + 71)
    out = []
    for _ in range(ctx.n(60, 600)):
        al = rng_z.choice(["ab", "abc"])
        g = gen.Gen(rng_z, alphabet=al, feats={"cls", "grp", "alt", "quant", "nc", "reluctant", "anchor"})
        _, p_ = g.pattern(rng_z.randint(1, 5))
        for n_ in (65, 129, 257):
            base = "".join(rng_z.choice(al[:2]) for _ in range(n_))
            out.append(("xpath", rng_z.choice(["", "", "i", "m"]), p_, base, repl))
            out.append(("xpath", "", p_, base[:n_ - 3] + al[-1] + base[n_ - 3:], repl))
    for n_ in (63, 64, 65, 127, 128, 129, 255, 256, 257, 300):
        out.append(("xpath", "", "^a{%d}$" % n_, "a" * n_, repl))
        out.append(("xpath", "", "^a{%d}$" % n_, "a" * (n_ - 1), repl))
        out.append(("xpath", "", "(?:ab){%d}c" % n_, "ab" * n_ + "c", repl))
        out.append(("xpath", "", "[ab]{%d,}c" % n_, "ab" * (n_ // 2) + "c", repl))
        out.append(("xpath", "", "x" * n_ + "y", "x" * n_ + "y", repl))
        out.append(("xpath", "", "x" * n_ + "y", "x" * (n_ + 1) + "y", repl))
        alts = "|".join("a%d" % k for k in range(n_))
        out.append(("xpath", "", "^(?:%s)$" % alts, "a%d" % (n_ - 1), repl))
        out.append(("xpath", "", "^(?:%s)$" % alts, "a%d" % n_, repl))
        members = "".join(chr(0x100 + 2 * k) for k in range(n_))
        out.append(("xpath", "", "^[%s]+$" % members, chr(0x100 + 2 * (n_ - 1)) + chr(0x100), repl))
        out.append(("xpath", "", "^[%s]+$" % members, chr(0x100 + 2 * n_ - 1), repl))
        out.append(("xpath", "", "b*[^%s]" % members, "bb", repl))
        out.append(("xpath", "", "(a)" * n_ + "\\%d" % n_, "a" * (n_ + 1), repl))
        out.append(("xpath", "", "(a)" * (n_ - 1) + "(b)\\%d" % n_, "a" * (n_ - 1) + "bb", repl))
    return out


# ================================================================ C01
def slice_C01(ctx):
    rng = ctx.rng
    tuples = []
    # (a) exhaustive small ASTs x exhaustive short inputs
    maxsize = ctx.n(3, 4)
    inputs = gen.all_strings("ab\n", 3)
    flagsets = ["", "m"] if ctx.quick else ["", "m", "s", "i"]
    n_exh = 0
    for size in range(1, maxsize + 1):
        for ast in enum_asts(size):
            pat = gen.pp(ast)
            for fl in flagsets:
                for inp in inputs:
                    tuples.append(("xpath", fl, pat, inp, "", "exhaustive"))
                    n_exh += 1
    # (a') the grammar of the end-to-end theorems
    for d, fl, pat, inp, _ in grammar_tree_stream(ctx, ctx.n(6000, 60000)):
        tuples.append((d, fl, pat, inp, "", "grammar"))
    for d, fl, pat, inp, _ in altfollow_stream(ctx, ctx.n(2000, 20000)):
        tuples.append((d, fl, pat, inp, "", "altfollow"))
    for d, fl, pat, inp, _ in counted_nullable_stream(ctx, ctx.n(2000, 20000)):
        tuples.append((d, fl, pat, inp, "", "counted-nullable"))
    # a quantifier binds to the single character (or escape) before it - also when that is an escape at
    # the end of a literal run and the quantifier is the last character of the pattern (own generator state)
    rng_e = random.Random(ctx.seed * 32452843 + 37)
    for _ in range(ctx.n(400, 4000)):
        lit = "".join(rng_e.choice("abx") for _ in range(rng_e.randint(1, 3)))
        esc = rng_e.choice(["\\.", "\\-", "\\\\", "\\|", "\\*", "\\?", "\\(", "\\[", "\\n", "\\$"])
        q = rng_e.choice(["*", "+", "?", "{2}", "*?", "{0,1}"])
        tail = rng_e.choice(["", "", "", "c", "$"])
        pat_ = lit + esc + q + tail
        ch = {"\\n": "\n", "\\\\": "\\"}.get(esc, esc[-1])
        for inp in ("b", "xyz", lit, lit + ch, lit + ch * 2, lit * 2 + ch, lit[:-1] + ch, lit + ch + lit + ch + "c", ""):
            tuples.append(("xpath", "", pat_, inp, "", "escape-quantified"))
    # the dot against every character around the two it excludes (and the other Unicode line breaks,
    # which it does not exclude), with and without flag s
    for pat_ in ["^.$", ".", "a.b", "^.+$", "^(?:.|x)*$", "[^a].", "^.{2}$", "^..?$"]:
        for fl in ("", "s", "m", "i"):
            for ch in "\t\n\x0b\x0c\r\x0e\x1c\x1e\x85\u2028\u2029 \x00\x7f\x80\u07ff\u0800\ud7ff\ue000\uffff\U00010000\U0010ffff":
                for inp in (ch, "a" + ch + "b", ch + ch, "x" + ch):
                    tuples.append(("xpath", fl, pat_, inp, "", "dot-controls"))
    # an alternation whose first branch is empty (or zero-width) and whose other branches have no fixed
    # length, bare, quantified, after ^ and before a literal
    for pat_ in ["^(?:|a+)b", "^(?:|a+)*$", "^(|a+|b*){2,}$", "(?:|a*b)c", "x(?:|a+)+y", "^(?:^|a+)b", "(?:|a+|bb)b", "^(?:|a+)?b$", "(?:$|a+b?)b",
                 "^(?:|[ab]+)a$", "^(?:a+|)b", "(?:|a{2,})b"]:
        for inp in gen.all_strings("ab", 4) + ["xy", "xaay", "aabc", "bc", "c"]:
            tuples.append(("xpath", "", pat_, inp, "", "empty-first"))
    # alternatives of equal length that set different groups, then a back-reference to a later one: the
    # alternation has to be re-entered when the reference fails
    for pat_ in ["^(?:(a)|(.))\\2$", "(?:(a)|(b)|(.))\\3", "^(?:(ab)|(a.))\\2", "(?:(a)|(a))\\2b", "^(?:(a)|(.))(?:\\2|b)$", "(?:(.)|(a))\\2",
                 "^(?:(aa)|(a.)|(..))\\3$", "x(?:(a)|([ab]))\\2"]:
        for inp in gen.all_strings("ab", 4) + ["xaa", "xbb", "abab", "aaaa", "baba"]:
            tuples.append(("xpath", "", pat_, inp, "", "equal-length-alternatives"))
    # sizes just past 64 / 128 / 255 of something: input length and offsets, repeat counts, number of
    # alternatives, number of class members, number of groups (own generator state)
    for d, fl, pat, inp, _ in sizes_stream(ctx):
        tuples.append((d, fl, pat, inp, "", "sizes"))
    # (b) seeded random structured patterns incl. back-references
    for d, fl, pat, inp, ast in random_stream(ctx, ctx.n(24000, 240000), shapes=0.3, per_pattern=5):
        tuples.append((d, fl, pat, inp, "", "random"))
    for _ in range(ctx.n(600, 6000)):
        ast, inps = gen.fixedrep(rng)
        pat = gen.pp(ast)
        for inp in inps:
            tuples.append(("xpath", rng.choice(["", "i", "m"]), pat, inp, "", "fixedrep"))
    for d, fl, pat, inp, _ in bigfollow_stream(ctx, ctx.n(3000, 30000)):
        tuples.append((d, fl, pat, inp, "", "bigfollow"))
    cases = mk_cases(tuples, "m")
    code, model, dis = run_slice(cases)
    spec = spec_match(cases)
    violations, nontrivial = [], set()
    hist = collections.Counter()
    for c in cases:
        s, r = spec.get(c.cid, {}), code.get(c.cid, {})
        hist["V=" + s.get("V", "?")] += 1
        if s.get("V") != "valid" or r.get("C") != "ok" or s.get("bok") != "1":
            continue
        exp = s.get("L") if "L" in s else s.get("RM")
        hist["match" if exp == "1" else "nomatch"] += 1
        nontrivial.add((c.flags, c.pattern, c.input))
        if r.get("M") != exp:
            violations.append(viol(c, "is_match=" + exp, "is_match=" + str(r.get("M")),
                                   "is_match differs from membership of some substring in the pattern's language",
                                   s, same_as_model(code, model, c.cid)))
    return result(ctx, cases, dis, violations, nontrivial,
                  f"(a) every pattern AST of size <= {maxsize} over 8 leaf kinds, 13 unary and 2 binary operators x every input of length <= 3 over {{a,b,LF}} x flags {flagsets} ({n_exh} cases); (a') pattern texts printed from random trees of the grammar of the end-to-end theorems (coq/Proofs/GroupGrammar.v: runs, quantified characters, alternation, nested groups; both dialects) x 4 inputs; (b) seeded random structured patterns (size <= 9, classes, groups, alternation, greedy/reluctant quantifiers, anchors, back-references) x 4 inputs each x 8 flag subsets; non-trivial = distinct (flags,pattern,input) accepted by code and spec",
                  {"distribution": dict(hist), "exhaustive": False})


# ================================================================ C02
def slice_C02(ctx):
    tuples = []
    feats = {"cls", "grp", "nc", "reluctant", "alt", "quant", "dot", "anchor"}
    for d, fl, pat, inp, ast in random_stream(ctx, ctx.n(15000, 150000), feats=feats,
                                              alphabets=["ab", "abc", "aab", "ab" + ASTRAL, "ab́"],
                                              per_pattern=5, shapes=0.25):
        tuples.append((d, fl, pat, inp, "", None))
    for d, fl, pat, inp, _ in bigfollow_stream(ctx, ctx.n(3000, 30000)):
        tuples.append((d, fl, pat, inp, "", "bigfollow"))
    for d, fl, pat, inp, _ in fixedrep_stream(ctx, ctx.n(2000, 20000)):
        tuples.append((d, fl, pat, inp, "", "fixedrep"))
    for d, fl, pat, inp, _ in revisit_stream(ctx, ctx.n(3000, 30000)):
        tuples.append((d, fl, pat, inp, "", "revisit"))
    for d, fl, pat, inp, _ in overlap_prefix_stream(ctx, ctx.n(2000, 20000)):
        tuples.append((d, fl, pat, inp, "", "overlap-prefix"))
    for d, fl, pat, inp, _ in nullfirst_stream(ctx, ctx.n(2000, 20000)):
        tuples.append((d, fl, pat, inp, "", "null-first"))
    # overlapping alternatives / greedy vs reluctant followed by optional terms
    hand = ["a|ab", "ab|a", "(?:a|ab)(?:c|bcd)", "a*?b?", "a+?b*", "(?:ab|a)(?:b|bc)?", "a{1,2}?a", "(?:a|b)*?b",
            "(?:aa|a)+", "(?:a|aa)+?b", ASTRAL + "|a", "[ab" + ASTRAL + "]+?" + ASTRAL, "a.b", "(?:.a|a.)"]
    for p in hand:
        for inp in gen.all_strings("ab", 4) + ["a" + ASTRAL + "b", ASTRAL + "ab" + ASTRAL, "abcbcd", "aab́"]:
            tuples.append(("xpath", "", p, inp, "", "hand"))
    # consecutive whole-line matches: each match ends where the next line starts
    for p in ["^.*\n", "^a\n", "^[ab]+\n", "^.*$\n?", "^a?\n", "(?:^b\n)+?", "^.\n|^..\n"]:
        for inp in gen.all_strings("a\n", 5) + ["l1\nl2\nl3", "a\nb\na\n", "ab\n\nab\n"]:
            tuples.append(("xpath", "m", p, inp, "", "lines"))
    # one-character alternatives with a longer (or empty, or grouped) alternative between them: the order
    # of the alternatives is their priority
    for p in ["a|bc|b", "b|ab|a", "(?:a|bc|b)(c?)", "a|(bc)|b", "a||b", "a|b*c|b", "c|ab|a|b", "x(?:a|bc|b)", "(?:a|bc|b)+", "a|bc|b|c", "(a|bc|b)c?"]:
        for inp in gen.all_strings("abc", 4) + ["xbcx", "xbccx", "abcabc"]:
            tuples.append(("xpath", "", p, inp, "", "single-char-alternatives"))
    for p in [",|;;|;", "x|(yz)|y", ";|,,|,"]:
        for inp in ["a;;b,c;d", "yz", "xyzy", "a,,b;c,d", ";;", ",;;,", "y", ""]:
            tuples.append(("xpath", "", p, inp, "", "single-char-alternatives"))
    # an exact count over a body that can match in more than one way: an earlier repetition has to be
    # revised when a later one (or what follows) fails
    for p in ["(?:a|ab){2}c", "(?:a+){2}b", "(?:ab?){2}b", "(?:a|ab){3}", "(?:ab|a){2}bc", "x(?:a|ab|abc){2}c", "(?:a*b?){2}c", "(?:a|ab){2}?c",
              "(?:[ab]|ab){2}b", "(?:a|ab){2,2}c"]:
        for inp in gen.all_strings("abc", 5) + ["xabac-aac", "aaab", "ababc", "xaabcc", "abababc"]:
            tuples.append(("xpath", "", p, inp, "", "exact-count"))
    # long inputs: a start position that needs well over a thousand single give-backs of a greedy
    # repeat before it succeeds (or before the scan may move on) - no bound on backtracking depth
    for p, inp in [("[ab][^b]*c", "ac" + "z" * 1500 + "bc"), (".*x", "x" + "a" * 1200), ("a[^c]*cd", "a" + "b" * 1100 + "cd" + "b" * 1100 + "c"),
                   ("[ab]+b", "a" * 1300 + "b" + "a" * 1300), ("(?:a|b)[ab]*ba", "ba" + "b" * 1250), ("a.*?bc", "a" + "b" * 1150 + "c"),
                   # a starred group inside a loop, visited at offsets more than 64 apart
                   ("(?:x(?:ab|c)*y)+", "xy" * 33), ("^(?:x(?:ab|c)*y)+$", "xy" * 35), ("(?:x(?:ab|c)*y)+z", "xy" * 34 + "z"),
                   ("(?:a(?:bc|d)*)+e", "a" * 70 + "e"), ("(?:x(?:ab|c)*?y)+", "xcy" * 24)]:
        tuples.append(("xpath", "", p, inp, "", "long"))
    cases = mk_cases(tuples, "art")
    for c in cases:
        c.repl = "\u0001$0\u0002"
    code, model, dis = run_slice(cases)
    spec = spec_match(cases)
    violations, nontrivial = [], set()
    weak_lines, weak_cases = [], {}
    hist = collections.Counter()
    for c in cases:
        s, r = spec.get(c.cid, {}), code.get(c.cid, {})
        if s.get("V") != "valid" or r.get("C") != "ok" or s.get("bok") != "1" or s.get("nullable") != "0":
            continue
        a = parse_analyze(r.get("A", ""))
        if a is None:
            violations.append(viol(c, "analyze completes", r.get("A"), "abnormal analyze outcome", s,
                                   same_as_model(code, model, c.cid)))
            continue
        spans, _, _ = code_spans(a)
        # the three APIs must be driven by the same spans (code points)
        toks = parse_tokens(r.get("T", ""))
        rep = r.get("R", "")
        exp_toks, pos = [], 0
        for (i, j) in spans:
            exp_toks.append(c.input[pos:i])
            pos = j
        exp_toks.append(c.input[pos:])
        if c.input == "":
            exp_toks = []
        exp_rep, pos = "", 0
        for (i, j) in spans:
            exp_rep += c.input[pos:i] + "\u0001" + c.input[i:j] + "\u0002"
            pos = j
        exp_rep += c.input[pos:]
        if toks != exp_toks or rep != "ok:" + tie.enc(exp_rep):
            violations.append(viol(c, {"tokens": exp_toks, "replace": exp_rep}, {"T": r.get("T"), "R": rep},
                                   "tokenize / replace_all are not driven by the spans analyze reports", s,
                                   same_as_model(code, model, c.cid)))
            continue
        nontrivial.add((c.flags, c.pattern, c.input))
        if s.get("strict") == "1":
            hist["strict"] += 1
            sspans, _ = spec_spans(s.get("SP", ""))
            if spans != sspans:
                violations.append(viol(c, {"spans": sspans}, {"spans": spans},
                                       "reported spans differ from leftmost / ordered-choice selection", s,
                                       same_as_model(code, model, c.cid)))
        else:
            hist["weak"] += 1
            weak_lines.append("\t".join([c.cid, "weak", c.dialect, tie.enc(c.flags), tie.enc(c.pattern),
                                         tie.enc(c.input), ";".join(f"{i}-{j}" for i, j in spans) or "-"]))
            weak_cases[c.cid] = (c, spans, s)
    for cid, verdict in spec_call(weak_lines).items():
        if verdict == "bad":
            c, spans, s = weak_cases[cid]
            violations.append(viol(c, "every span a member of the match relation, leftmost, in order", {"spans": spans},
                                   "weak clause of C02 fails", s, same_as_model(code, model, cid)))
    return result(ctx, cases, dis, violations, nontrivial,
                  "seeded random structured patterns (alternations, greedy/reluctant quantifiers, classes, anchors) x 5 inputs incl. supplementary-plane and combining characters, plus hand-picked overlapping-alternative shapes x all inputs <= 4 over {a,b}; spans reconstructed from analyze, tokenize and replace_all; strict clause where no quantifier body is nullable, weak clause otherwise; non-trivial = distinct accepted non-nullable (flags,pattern,input)",
                  {"distribution": dict(hist)})


# ================================================================ C03
def parent_map(pattern):
    """group -> parent group (0 = none) from the pattern text, independently of the code"""
    parents, stack, group, i, depth_cls = {}, [0], 0, 0, 0
    kinds = []
    while i < len(pattern):
        ch = pattern[i]
        if ch == "\\":
            i += 2
            continue
        if ch == "[":
            depth_cls += 1
        elif ch == "]":
            depth_cls -= 1
        elif ch == "(" and depth_cls == 0:
            if pattern[i + 1:i + 3] == "?:":
                kinds.append(False)
            else:
                group += 1
                parents[group] = stack[-1]
                stack.append(group)
                kinds.append(True)
        elif ch == ")" and depth_cls == 0:
            if kinds.pop():
                stack.pop()
        i += 1
    return parents


def check_tree(tree, parents, parent=0, seen=None):
    """group entries properly nested according to the pattern's parenthesis nesting"""
    seen = set() if seen is None else seen
    for x in tree:
        if x[0] == "G":
            nr = x[1]
            if nr in seen:
                return f"group {nr} reported twice"
            seen.add(nr)
            # the nearest reported ancestor must be an ancestor in the pattern
            p, ok = parents.get(nr), False
            while p is not None:
                if p == parent:
                    ok = True
                    break
                p = parents.get(p) if p != 0 else None
            if not ok:
                return f"group {nr} is reported inside group {parent}, which does not enclose it in the pattern"
            e = check_tree(x[2], parents, nr, seen)
            if e:
                return e
    return None


def slice_C03(ctx):
    rng = ctx.rng
    tuples = []
    feats = {"grp", "alt", "quant", "reluctant", "cls", "nc"}
    for d, fl, pat, inp, ast in random_stream(ctx, ctx.n(12000, 120000), feats=feats, flagsets=["", "i", "s"],
                                              alphabets=["ab", "abc", "aab"], per_pattern=5, size=(2, 9), groups=0.3):
        if gen.count_groups(ast) == 0:
            continue
        tuples.append((d, fl, pat, inp, "", "random"))
    hand = ["(a|b)*b", "((a)|(b))+", "(a+)+b", "(a|ab)(c|bcd)(d*)", "(a*)*b", "(a)*ab", "(?:(a)|b)*", "(a|b)*?b", "(a)|b", "(a)?b", "(a*)b", "a(b?)c", "(a)(b)?(c)", "((a)(b))", "((a)|(b))c", "(a|(b))(c)", "()a", "(a|)b",
            "(a)(b)(c)(d)(e)(f)(g)(h)(i)(j)(k)", "((((a))))", "(a(b(c)))", "(a)b|a(c)", "(?:(a)|b)c", "(a)+", "(a|b)+c",
            "(a+)(b+)", "(a*?)(b)", "x(a)?y",
            # a sequence inside a loop (or an alternative) that matched once and is then exhausted on backtracking:
            # its groups go back to what they were
            "(?:(\\w)x?)*c", "(?:(a)x?|ab)c", "(?:([ab])x?)*c", "(?:(a)b?)*c", "(?:(a)x?)+b", "(?:(a)(b)?x?)*c", "(?:(a)x?|(b))+c", "(?:x?(a))*ab"]
    for p in hand:
        for inp in gen.all_strings("abc", 3) + ["abcdefghijk", "xay", "xy", "aabb", "abc", "aabc", "axbc", "abac", "aab"]:
            tuples.append(("xpath", "", p, inp, "", "hand"))
    for d, fl, pat, inp, _ in capalt_stream(ctx, ctx.n(1200, 12000)):
        tuples.append((d, fl, pat, inp, "", "capalt"))
    for d, fl, pat, inp, _ in relgroup_stream(ctx, ctx.n(1200, 12000)):
        tuples.append((d, fl, pat, inp, "", "relgroup"))
    for d, fl, pat, inp, _ in staleend_stream(ctx, ctx.n(600, 6000)):
        tuples.append((d, fl, pat, inp, "", "staleend"))
    cases = mk_cases(tuples, "ra")
    code0 = None
    # the replacement asks for every group
    for c in cases:
        ng = len(parent_map(c.pattern))
        c.repl = "".join(f"<{k}:${k}>" for k in range(1, ng + 1)) + "!"
    code, model, dis = run_slice(cases)
    spec = spec_match(cases)
    violations, nontrivial = [], set()
    hist = collections.Counter()
    for c in cases:
        s, r = spec.get(c.cid, {}), code.get(c.cid, {})
        if s.get("V") != "valid" or r.get("C") != "ok" or s.get("bok") != "1" or s.get("nullable") != "0":
            continue
        same = same_as_model(code, model, c.cid)
        a = parse_analyze(r.get("A", ""))
        if a is None:
            violations.append(viol(c, "analyze completes", r.get("A"), "abnormal analyze outcome", s, same))
            continue
        spans, groups, trees = code_spans(a)
        if "".join(e[1] if e[0] == "N" else tree_text(e[1]) for e in a) != c.input:
            violations.append(viol(c, "concatenated analyze texts = input", r.get("A"), "leaves do not add up", s, same))
            continue
        parents = parent_map(c.pattern)
        ng = len(parents)
        bad = None
        for t in trees:
            bad = bad or check_tree(t, parents)
        if bad:
            violations.append(viol(c, "group entries nested as the parentheses of the pattern", r.get("A"), bad, s, same))
            continue
        if not spans:
            continue
        nontrivial.add((c.flags, c.pattern, c.input))
        if s.get("strict") != "1":
            hist["non-strict (tree checks only)"] += 1
            continue
        sspans, sgroups = spec_spans(s.get("SP", ""))
        if sspans != spans:
            hist["spans differ (C02's business)"] += 1
            continue
        hist["groups compared"] += 1
        # expected replace output and analyze group presence from the selected path
        exp_rep, pos, badg = "", 0, None
        for k, (i, j) in enumerate(spans):
            exp_rep += c.input[pos:i]
            for gi in range(1, ng + 1):
                g = sgroups[k][gi - 1] if gi - 1 < len(sgroups[k]) else "~"
                if g == "~":
                    txt, present = "", False
                else:
                    x, y = g.split("-")
                    txt, present = c.input[int(x):int(y)], True
                exp_rep += f"<{gi}:{txt}>"
                got_present = gi in groups[k]
                if present != got_present or (present and groups[k][gi] != txt):
                    badg = f"match {k}: group {gi} expected {'absent' if not present else repr(txt)}, analyze has {groups[k].get(gi, 'absent')!r}"
            exp_rep += "!"
            pos = j
        exp_rep += c.input[pos:]
        if badg:
            violations.append(viol(c, {"groups": sgroups}, r.get("A"), badg, s, same))
        elif r.get("R") != "ok:" + tie.enc(exp_rep):
            violations.append(viol(c, "ok:" + tie.enc(exp_rep), r.get("R"),
                                   "$N in replace_all differs from the text captured on the selected path", s, same))
    return result(ctx, cases, dis, violations, nontrivial,
                  "seeded random patterns with >= 1 capturing group (groups in alternations, under quantifiers, nested, empty) x 5 inputs, plus 20 hand-picked group shapes (incl. 11 groups) x all inputs <= 3 over {a,b,c}; $1..$N through replace_all and Group entries of analyze against the head of the ordered-choice semantics; tree checks (nesting, inside match, leaves add up) on every case",
                  {"distribution": dict(hist)})


# ================================================================ C04
def lines_stream(ctx, repl=""):
    """a pattern led by ^ under flag m: the scan has to come back to the start-of-line search after every
    match (several lines, each with a match), in all three APIs alike.  Own generator state."""
    rng_l = random.Random(ctx.seed * 32452843 + 4)
    out = []
    line_pats = ["^-", "^a", "^a+", "^(?:a|b)", "^[ab]", "^a|^b", "^.", "^ab?", "^(a)(b)?", "^a+?b", "^\\w+", "^[^a\n]", "^b", "^bb?$",
                 "^(?:(a)|(b))", "^(?:(a)|(b)|c)", "^(a)?(b)?-"]
    line_inps = ["-a\n-b\n-c", "a\na\na", "ab\nba\nab", "\na\n\nb", "a", "b\na", "aa\r\naa\naa", "ab\nab", "a\n", "\n\na\nab\n-",
                 "a\nbb\nc", "x\n\nb\nbb\nab\nb"]
    for p_ in line_pats:
        for fl in ("m", "ms", "im"):
            for inp in line_inps:
                out.append(("xpath", fl, p_, inp, repl))
    for _ in range(ctx.n(150, 1500)):
        g = gen.Gen(rng_l, alphabet="ab", feats={"cls", "grp", "alt", "quant", "nc"})
        _, p_ = g.pattern(rng_l.randint(1, 4))
        inp = "\n".join("".join(rng_l.choice("ab-") for _ in range(rng_l.randint(0, 3))) for _ in range(rng_l.randint(2, 4)))
        out.append(("xpath", rng_l.choice(["m", "ms"]), "^" + p_, inp, repl))
    return out


def slice_C04(ctx):
    tuples = []
    for d, fl, pat, inp, ast in random_stream(ctx, ctx.n(12000, 120000), dialects=("xpath", "xpath", "xsd"),
                                              alphabets=["ab", "abc", "ab" + ASTRAL, "ab́", "ab\n"],
                                              per_pattern=5, extra_inputs=("",)):
        tuples.append((d, fl, pat, inp, "", None))
    # metacharacters as ordinary members of classes and as escaped literals: what analyze reads off
    # the pattern text (the nesting table) must not take them for syntax (own generator state)
    rng_p = random.Random(ctx.seed * 15487469 + 4)
    hand_p = ["\\([^)]*\\)", "[()]+", "([)])", "[(]+", "[^(]x", "(?:[)]|a)b", "[|)(]x", "(a[)]b)", "[\\]\\[]+", "\\)\\(", "([(])([)])",
              "[a)]+|b", "(?:a|[(])+x", "[)]", "([^)]+)\\)"]
    for p_ in hand_p:
        for inp in ["", "f(x) + g(y)", "(a)(b)", "a)b))", "((", ")x", "a)b", "[]", "x(a)x"]:
            tuples.append(("xpath", "", p_, inp, "", "punct"))
    for _ in range(ctx.n(300, 3000)):
        al = rng_p.choice(["a()", "a)|", "a[](", "ab){"])
        g = gen.Gen(rng_p, alphabet=al, feats={"cls", "grp", "alt", "quant", "nc"})
        _, p_ = g.pattern(rng_p.randint(1, 6))
        for inp in gen.inputs_for(rng_p, al, 4):
            tuples.append(("xpath", rng_p.choice(["", "i"]), p_, inp, "", "punct"))
    for d, fl, pat, inp, _ in staleend_stream(ctx, ctx.n(600, 6000)):
        tuples.append((d, fl, pat, inp, "", "staleend"))
    for d, fl, pat, inp, _ in lines_stream(ctx):
        tuples.append((d, fl, pat, inp, "", "lines"))
    for d, fl, pat, inp, _ in sizes_stream(ctx):
        tuples.append((d, fl, pat, inp, "", "sizes"))
    # a pattern that starts with a literal, under flag i, on inputs that hold it only in the other case (or in
    # mixed case): every API has to find the same occurrences
    for pat_ in ["sep", "ab", "a+b", "ab|cd", "x(?:y|z)", "\u00e9t", "\u03c3\u03c4"]:
        for fl in ("i", "im", ""):
            for inp in ("oneSEPtwoSePthree", "ABab-Ab", "AAB", "xCDx", "XY xz Xz", "\u00c9T\u00e9t", "\u03a3\u03a4 \u03c3\u03a4", "sepSEP", "", "S"):
                tuples.append(("xpath", fl, pat_, inp, "", "other-case"))
    # a single separator character as the pattern, on inputs with leading, doubled and trailing separators:
    # the empty tokens between them are tokens, and the three APIs see the same matches
    for sep, pat_ in ((" ", " "), (",", ","), ("-", "-"), (";", ";"), ("|", "\\|"), (" ", "\\s"), ("a", "a"), (" ", "[ ]"), (".", "\\.")):
        for shape in ("{s}a{s}{s}b", "a{s}{s}b{s}", "{s}", "{s}{s}", "a{s}b", "{s}{s}a", "a", "", "{s}a{s}", "ab{s}{s}{s}cd"):
            for d_ in ("xpath", "xsd"):
                tuples.append((d_, "", pat_, shape.replace("{s}", sep), "", "separators"))
    cases = []
    cid = 0
    for t in tuples:
        for repl in ("$0", "-", "xy"):
            cases.append(Case(cid, t[0], t[1], t[2], t[3], repl, "rta"))
            cid += 1
    code, model, dis = run_slice(cases)
    violations, nontrivial = [], set()
    hist = collections.Counter()
    for c in cases:
        r = code.get(c.cid, {})
        if r.get("C") != "ok":
            continue
        same = same_as_model(code, model, c.cid)
        if r.get("R") == "E:MatchesEmptyString":
            hist["nullable"] += 1
            continue
        a = parse_analyze(r.get("A", ""))
        toks = parse_tokens(r.get("T", ""))
        if a is None or toks is None or not r.get("R", "").startswith("ok:"):
            violations.append(viol(c, "all three APIs complete", r, "abnormal outcome on a non-nullable regex", None, same))
            continue
        texts = [e[1] if e[0] == "N" else tree_text(e[1]) for e in a]
        spans, _, _ = code_spans(a)
        pieces, pos = [], 0
        for (i, j) in spans:
            pieces.append(c.input[pos:i])
            pos = j
        pieces.append(c.input[pos:])
        exp_toks = [] if c.input == "" else pieces
        rep = tie.dec(r["R"][3:])
        exp_rep = c.input if c.repl == "$0" else c.repl.join(pieces)
        problems = []
        if "".join(texts) != c.input:
            problems.append("concatenated analyze texts differ from the input")
        if any(e[0] == "N" and e[1] == "" for e in a):
            problems.append("analyze reports an empty non-match")
        if toks != exp_toks:
            problems.append("tokenize differs from the pieces between analyze's matches")
        if rep != exp_rep:
            problems.append("replace_all differs from the pieces joined by the replacement")
        hist["matches>0" if spans else "no match"] += 1
        if spans:
            nontrivial.add((c.dialect, c.flags, c.pattern, c.input))
        if problems:
            violations.append(viol(c, {"tokens": exp_toks, "replace": exp_rep}, r, "; ".join(problems), None, same))
    return result(ctx, cases, dis, violations, nontrivial,
                  "seeded random patterns in both dialects x 6 inputs (incl. empty, supplementary-plane, combining) x replacements {$0, '-', 'xy'}; analyze / tokenize / replace_all cross-checked on the code's own results; non-trivial = distinct (dialect,flags,pattern,input) with >= 1 match",
                  {"distribution": dict(hist)})


# ================================================================ C05 / C06
META18 = "()[]{}|*+?\\^$-.,a1"
EXTREME = ["a{2,9223372036854775808}", "b(?:ab){2,9223372036854775808}a", "(?:a|bc){18446744073709551615}a",
           "a{18446744073709551615}", "a{18446744073709551616}", "a{0,18446744073709551615}b",
           "^a{18446744073709551615}b", "(a{4611686018427387904}){4}", "a{99999999999999999999}",
           "(?:ab){9223372036854775807,}", "[ab]{3,9223372036854775807}c", "(?:a?){18446744073709551615}",
           "(?:a|^){4294967296}b", "a{1,2}{3}", "(a){0}\\1", "(?:){5}a", "(" * 300 + "a" + ")" * 300,
           "(?:" * 300 + "a" + ")" * 300, "[" + "a-[" * 100 + "b" + "]" * 101, "a" * 3000, "(a|b)" * 200,
           "\\p{IsBasicLatin}{2,}", "\\P{Cn}*", "[\\x]", "\\", "(?:", "(?", "[", "[^", "[a-", "a{", "a{1", "a{1,",
           "$1", "\\1", "(a)\\2", "(a)\\10", "(\\1)", "[\\1]", "a**", "a??+", "^*$+", "(^)*", "($|^)+a"]


def arbitrary_stream(ctx):
    rng = ctx.rng
    pats = gen.all_strings(META18, ctx.n(3, 4))
    if ctx.quick:
        pats = pats + ["".join(rng.choice(META18) for _ in range(4)) for _ in range(4000)]
    for _ in range(ctx.n(3000, 30000)):
        g = gen.Gen(rng, alphabet=rng.choice(["ab", "ab\n", "aA" + ASTRAL]))
        _, p = g.pattern(rng.randint(1, 10))
        for _ in range(rng.randint(1, 3)):
            p = gen.mutate(rng, p)
        pats.append(p)
    for _ in range(ctx.n(1000, 10000)):
        pats.append("".join(chr(rng.choice([rng.randrange(0x20, 0x7f), rng.randrange(0xa0, 0x2000),
                                            rng.randrange(0x10000, 0x10ffff), 0xd7ff, 0xe000, 0, 10, 13]))
                            for _ in range(rng.randint(1, 6))))
    pats += EXTREME
    tuples = []
    # valid structured patterns with groups and classes that contain escaped brackets / hyphens /
    # carets, on inputs over their own alphabet (analyze and its nesting table get real work)
    for _ in range(ctx.n(2500, 25000)):
        al = rng.choice(["ab]", "a[b", "a-b", "a^b", "a\\b", "(a)b", "ab", "a]b["])
        g = gen.Gen(rng, alphabet=al)
        ast = g.fix_brefs(gen.wrap_groups(rng, g.re(rng.randint(1, 8)), 0.35))
        p = gen.pp(ast, "xpath", rng)
        for inp in gen.inputs_for(rng, al, 3):
            tuples.append(("xpath", rng.choice(["", "i", "x", "s"]), p, inp, rng.choice(["$1", "-", "$0"])))
    flagpool = ["", "", "", "i", "m", "s", "x", "q", "imsx", "qi", ";", "z", "i;k", "xq", ASTRAL]
    inputs = ["", "a", "ab\n", "aab1(", ASTRAL + "a"]
    repls = ["", "$0", "$1", "\\", "$", "x$9y", "\\$"]
    for p in pats:
        tuples.append((rng.choice(["xpath", "xpath", "xsd"]), rng.choice(flagpool), p, rng.choice(inputs),
                       rng.choice(repls)))
    # minimum lengths that saturate (a count of usize::MAX, nested counts whose product overflows) next
    # to what the search shortcuts read: a literal prefix of several characters, a leading class, a
    # leading '^' - every arithmetic on lengths must saturate, not wrap (fixed flags, both dialects)
    big = ["{18446744073709551615}", "{18446744073709551614,}", "{9223372036854775808}", "{4294967296}"]
    for head in ["ab", "abc", "xyz", "[ab]c", "^ab", "a", "(ab)", "ab|cd"]:
        for b in big:
            for p in (head + "c" + b, head + "(?:z" + big[3] + ")" + big[3], head + "(?:cd)" + b + "e", "(?:" + head + ")" + b + "xy",
                      head + "c" + b + "d" + b):
                for d in ("xpath", "xsd"):
                    if d == "xsd" and ("(?:" in p or "^" in p):
                        continue
                    tuples.append((d, "", p, rng.choice(["", "abccc", "ab", "xyzzz"]), "-"))
    return tuples


def precond_stream(ctx, count, repl="-"):
    """positional-precondition shapes (gen.precond) on short inputs; its own generator state, so the
    other streams of a slice are what they were before this one was added"""
    rng = random.Random(ctx.seed * 7919 + 17)
    out = []
    while len(out) < count:
        al = rng.choice(["ab", "abc", "ab\n", "aAb"])
        pat = gen.pp(gen.precond(rng, al.replace("\n", "") or "ab"), "xpath", rng)
        fl = rng.choice(["", "", "i", "m", "s", "im"])
        for inp in ["", rng.choice(al)] + gen.inputs_for(rng, al, 2):
            out.append(("xpath", fl, pat, inp, repl))
    return out


def bigfollow_stream(ctx, count, repl=""):
    """gen.bigfollow shapes with their own inputs; own generator state (see precond_stream)"""
    rng = random.Random(ctx.seed * 104729 + 5)
    out = []
    while len(out) < count:
        ast, inputs = gen.bigfollow(rng) if rng.random() < 0.6 else gen.groupfollow(rng, rng.choice(["xyz", "abc", "ab"]))
        pat = gen.pp(ast, "xpath", rng)
        fl = rng.choice(["", "", "i", "s", "m"])
        for inp in inputs:
            out.append(("xpath", fl, pat, inp, repl))
    return out


def fixedrep_stream(ctx, count, repl=""):
    """gen.fixedrep shapes (a counted repeat of a multi-character word, bare or captured, with inputs
    made of copies of the word); own generator state"""
    rng = random.Random(ctx.seed * 86028121 + 2)
    out = []
    while len(out) < count:
        ast, inputs = gen.fixedrep(rng, rng.choice(["ab", "abc"]))
        if rng.random() < 0.5:
            # a captured body keeps the repeat a backtracking one whatever follows
            q = ast[1][-2] if ast[1][-2][0] == "q" else ast[1][0]
            parts = [("q", ("grp", x[1]), *x[2:]) if x is q else x for x in ast[1]]
            ast = ("seq", parts)
        pat = gen.pp(ast, "xpath", rng)
        for inp in inputs:
            out.append(("xpath", rng.choice(["", "", "i"]), pat, inp, repl))
    return out


def overlap_prefix_stream(ctx, count, repl=""):
    """a pattern that begins with a literal of two or more characters which can overlap itself (aa, aba,
    abab), on inputs where an occurrence of the literal is rejected by what follows and the leftmost
    match starts inside that occurrence: aab+ on aaab; own generator state"""
    rng = random.Random(ctx.seed * 86028121 + 17)
    out = []
    while len(out) < count:
        x, y, z = rng.sample("abc", 3)
        lit = rng.choice([x + x, x + y + x, x + y + x + y, x + x + x, x + x + y + x + x])
        tail = rng.choice([y + "+", z, y + "?" + z, "[" + y + z + "]", y + z, "(?:" + y + "|" + z + z + ")", y + "{2}", "$"])
        pat = lit + tail
        for _ in range(4):
            k = rng.randint(1, 3)
            inp = rng.choice(["", z, y]) + x * rng.randint(0, 2) + lit[:rng.randint(1, len(lit))] * k + lit + rng.choice([y, z, y + z, y + y, ""]) + rng.choice(["", x, lit])
            out.append(("xpath", rng.choice(["", "", "i"]), pat, inp, repl))
    return out


def altfollow_stream(ctx, count, repl=""):
    """a repeat of a character followed by a group of single-character alternatives, one of which - not
    the first - is the repeated character: x*(?:a|x)y on xxy (the repeat must give a character back
    to a later alternative); own generator state"""
    rng = random.Random(ctx.seed * 86028157 + 29)
    out = []
    while len(out) < count:
        x, a_, y = rng.sample("abcxy", 3)
        members = [a_] + ([rng.choice("dz")] if rng.random() < 0.3 else []) + [x]
        rng.shuffle(members)
        if members[0] == x:
            members.reverse()
        q = rng.choice(["*", "+", "{0,2}", "{1,}", "*?"])
        pat = rng.choice(["", "^", "c"]) + x + q + rng.choice(["(?:%s)", "(%s)"]) % "|".join(members) + rng.choice([y, y + "$", ""])
        for inp in (x * 2 + y, x + y, x * 3, a_ + y, x + a_ + y, "c" + x * 2 + y, x):
            out.append(("xpath", rng.choice(["", "", "i"]), pat, inp, repl))
    return out


def counted_nullable_stream(ctx, count, repl=""):
    """a finite counted quantifier over a body that can match the empty string, on inputs with more
    repetitions than the bound allows: ^(a?){2}$ on aaa; own generator state"""
    rng = random.Random(ctx.seed * 86028157 + 31)
    out = []
    while len(out) < count:
        a, b = rng.sample("abc", 2)
        body = rng.choice(["%s?" % a, "%s|" % a, "|%s" % a, "%s*" % a, "%s?%s?" % (a, b), "(?:%s|%s)?" % (a, b), "%s{0,1}" % a])
        lo = rng.choice([0, 1, 2, 2, 3])
        hi = lo + rng.choice([0, 0, 1, 2])
        if hi == 0:
            hi = 1
        q = "{%d}" % lo if (lo == hi and lo > 0) else "{%d,%d}" % (lo, hi)
        grp = rng.choice(["(?:%s)", "(%s)"]) % body
        pre, post = rng.choice([("^", "$"), ("x", "y"), ("^x", "y$"), ("", "$")])
        pat = pre + grp + q + post
        core_pre = pre.replace("^", "")
        core_post = post.replace("$", "")
        for k in (hi - 1 if hi > 0 else 0, hi, hi + 1, hi + 2):
            out.append(("xpath", "", pat, core_pre + a * k + core_post, repl))
        out.append(("xpath", "", pat, core_pre + (a + b) * hi + core_post, repl))
    return out


def nullfirst_stream(ctx, count, repl=""):
    """an alternation whose EARLIER branch can match the empty string through a star / {0,n} over a
    variable-length group, and whose later branch starts with the next input character: the earlier
    branch wins (with the empty match) - x(?:(?:ab|c)*|d) on xd selects x, not xd; own generator state"""
    rng = random.Random(ctx.seed * 86028157 + 41)
    out = []
    while len(out) < count:
        x, a, b, c, d = rng.sample("abcdx", 5)
        body = rng.choice(["%s%s|%s" % (a, b, c), "%s|%s%s" % (c, a, b), "%s%s?" % (a, b), "%s+%s" % (a, b)])
        q = rng.choice(["*", "*", "{0,2}", "{0,3}", "*?"])
        first = "(?:%s)%s" % (body, q)
        later = rng.choice([d, d + a, "[%s%s]" % (d, x), "(%s)" % d])
        grp = rng.choice(["(?:%s|%s)", "(%s|%s)"]) % (first, later)
        pat = x + grp + rng.choice(["", "", d + "?"])
        for inp in (x + d, x + d + d, x + a + b + d, x + c + d, "y" + x + d + x + a + b, x, x + a):
            out.append(("xpath", rng.choice(["", "", "i"]), pat, inp, repl))
    return out


def reluctant_nullable_stream(ctx, count, repl=""):
    """a reluctant (and, for comparison, greedy) star / {0,n} over a nullable, variable-length body - the
    repeat the optimiser may only touch when it is greedy: x(?:a?)*? on xaa selects x; own generator state"""
    rng = random.Random(ctx.seed * 86028157 + 43)
    out = []
    while len(out) < count:
        x, a, b = rng.sample("abx;", 3)
        body = rng.choice(["%s?" % a, "%s|" % a, "|%s" % a, "%s*%s?" % (a, b), "(?:%s|%s)?" % (a, b), " ?", "%s?%s?" % (a, b)])
        q = rng.choice(["*?", "*?", "{0,3}?", "{0,}?", "*", "{0,2}"])
        grp = rng.choice(["(?:%s)", "(%s)"]) % body
        pat = rng.choice([x, x, "", x + x]) + grp + q + rng.choice(["", "", "", b, "$"])
        for inp in (x + a * 2, x + a + b, a + x + a * 3, x, x + b + a, x + " " + a + x + a, ""):
            out.append(("xpath", rng.choice(["", "", "i"]), pat, inp, repl))
    return out


def revisit_stream(ctx, count):
    """a bounded min-0 repeat over a variable-length body that is entered more than once at the same
    offset (an optional or repeated term before it gives the position back) and must backtrack
    into an earlier repetition: q?(?:a|ab){0,2}c on qabaac; own generator state"""
    rng = random.Random(ctx.seed * 86028121 + 7)
    out = []
    while len(out) < count:
        pre = rng.choice(["q?", "q*", "q+", "(?:q|)", "q{0,2}", "(?:q|qa)?", "q??", "(q)?", "[qa]?"])
        body = rng.choice(["a|ab", "ab|a", "a|aa", "aa|a", "ab?", "a+", "a|ab|b", "(a)|(ab)", "a|ba"])
        lo = rng.choice([0, 0, 0, 1])
        hi = rng.choice([1, 2, 2, 3, 4])
        hi = max(hi, lo)
        q = "{%d,%d}" % (lo, hi) + rng.choice(["", "", "?"])
        post = rng.choice(["c", "c", "ac", "bc", "$", "(?:c|$)", "c+"])
        grp = rng.choice(["(?:%s)", "(?:%s)", "(%s)"]) % body
        pat = pre + grp + q + post
        for _ in range(4):
            k = rng.randint(0, 2)
            inp = "q" * k + "".join(rng.choice(["a", "ab", "aa", "b", "ab"]) for _ in range(rng.randint(1, 4))) + rng.choice(["c", "c", "", "ac", "cc"])
            if rng.random() < 0.3:
                inp = rng.choice(["", "x", "c", "q"]) + inp
            out.append(("xpath", "", pat, inp, ""))
    return out


def slice_C05(ctx):
    # a group inside a loop that is entered again and fails, then a back-reference to it (D30)
    reentry = []
    for p_ in ["(x|(a))|(\\2b|([ab])[ab]\\4?){2}", "(?:([ab])[ab]\\1?){2}", "(?:(a)|b\\1?){2,3}", "(?:([ab])(?:b|$)\\1?)+a", "(?:(a)b?\\1*){2}",
               "(?:x|(a))*(?:\\1b|([ab])[ab]\\2?){2}", "((a)|b)+\\2?(?:\\2a)?", "(?:(a+)b|\\1?b){2,}"]:
        for inp in gen.all_strings("ab", 4) + ["abab", "babab", "aabba"]:
            reentry.append(("xpath", "", p_, inp, "[$1]"))
    cases = mk_cases(arbitrary_stream(ctx) + precond_stream(ctx, ctx.n(2000, 20000)) + capalt_stream(ctx, ctx.n(1500, 15000)) + lines_stream(ctx, "-") + reentry, "mrta")
    code, model, dis = run_slice(cases)
    violations, nontrivial = [], set()
    hist = collections.Counter()
    for c in cases:
        r = code.get(c.cid, {})
        hist[r.get("C", "?")] += 1
        bad = [k for k, v in r.items() if "PANIC" in v or "ABORT" in v or "E:Internal" in v]
        if r.get("C") == "ok":
            nontrivial.add(c.key())
        if bad:
            violations.append(viol(c, "Ok or a classified Err from every call", r,
                                   "panic / abort / Error::Internal in " + ",".join(bad), None,
                                   same_as_model(code, model, c.cid)))
    return result(ctx, cases, dis, violations, nontrivial,
                  f"every string of length <= {ctx.n(3, 4)} over the 18-symbol metacharacter alphabet, token-level mutations of generated patterns, random Unicode strings (incl. U+0000, U+D7FF/E000 neighbours, supplementary planes), extreme quantifier bounds and deep nesting (300 levels); random dialect, flags (valid and invalid), input and replacement; every API and iterator step under catch_unwind, overflow checks on; non-trivial = distinct cases whose pattern compiled",
                  {"distribution": dict(hist)})


def slice_C06(ctx):
    rng = ctx.rng
    tuples = arbitrary_stream(ctx)
    # quantifiers over nullable / zero-width / first-attempt-failing bodies; empty back-references
    bodies = ["a?", "a*", "(?:a|)", "(?:|a)", "^", "$", "(?:^|a)", "(?:a|$)", "()", "(a*)", "(?:a*)*", "(?:a?b?)",
              "(?:b|a*)", "(a|b*)", "\\1", "(?:^^)", "(?:a|bb)", "(?:a|ab)", "(?:ab|c)", "[ab]?", "(?:a*?)"]
    quants = ["*", "+", "?", "{2}", "{0,3}", "{2,}", "*?", "+?", "??", "{2,3}?", "{1,}?", "{7}", "{9,}", "{6,8}", "{5000}"]
    for b in bodies:
        for q in quants:
            for pre, post in (("", ""), ("", "c"), ("(x?)", "c"), ("^", "$")):
                p = pre + (b if not b.startswith("\\1") or pre == "(x?)" else "(?:a)") + q + post
                for inp in ("", "a", "aab", "cc", "abc", "bbbbbbbb"):
                    tuples.append(("xpath", rng.choice(["", "m"]), p, inp, "-"))
    # a quantified back-reference as the last term of the pattern (nothing follows it: the only follower
    # for which the compiler's ambiguity test has nothing to compare), to a group that is empty or has
    # not taken part
    for pre in ("(x?)", "(x)?b", "(x?)b", "(a*)", "(?:(a)|b)", "(a|)c?"):
        for q in quants:
            for inp in ("", "a", "b", "abc", "xbx", "c"):
                tuples.append(("xpath", "", pre + "\\1" + q, inp, "-"))
    # a greedy repeat over a fixed-length unit of 255, 256, 257 and 512 characters that has to step back
    for u in (255, 256, 257, 512):
        for p_ in ("(?:a{%d})*b" % u, "(?:.{%d})*;" % u, "(?:[ab]{%d})+a" % u, "x(?:a{%d}){0,3}a" % u):
            for inp in ("ab", "a" * u + "b", "a" * (u + 3), "x" + "a" * (2 * u), ";", "a" * u + ";" + "b" * u + ";"):
                tuples.append(("xpath", "", p_, inp, "-"))
    # counted repeats whose count exceeds what is left of the input, over terms that are zero-width only
    # at run time (an anchor alternative tried second, a back-reference to an empty group): the work must
    # follow the input, not the number in the quantifier
    for p in ["(?:a|^){7}ab", "(?:a|^){7,}ab", "(?:b|$){6}", "a(?:b|$){9}", "(c?)(?:b|\\1){3}b", "(c?)(?:b|\\1){4,}b", "(b?)(?:\\1){8,}c",
              "(?:a|^){200000}b", "(?:^|a){4000000000}b", "a(?:b|$){18446744073709551615}", "(?:a|^){2,4000000000}ab", "(a|^){7}b"]:
        for inp in ("", "a", "ab", "aab", "b", "c", "ab\nab"):
            for fl in ("", "m"):
                tuples.append(("xpath", fl, p, inp, "-"))
    # a counted greedy repeat with a finite bound over a nullable, variable-length body, on an input of a
    # few dozen characters on which the match fails: the number of ways to distribute empty and non-empty
    # iterations is exponential, the engine's progress guard keeps the work small
    for p in ["x(?:a?){0,40}b", "x(?:a|){1,30}b", "(?:a?b?){0,25}c", "x(a?){0,40}b", "x(?:a*){0,20}b"]:
        for inp in ("x" + "a" * 36 + "-b", "x" + "a" * 28, "ab" * 14 + "-", "x" + "a" * 5 + "b"):
            tuples.append(("xpath", "", p, inp, "-"))
    cases = mk_cases(tuples, "mrta")
    code, model, dis = run_slice(cases)
    violations, nontrivial = [], set()
    hist = collections.Counter()
    for c in cases:
        r = code.get(c.cid, {})
        n = len(c.input)
        bad = [k for k, v in r.items() if "HANG" in v or "!INF" in v or "UNFUSED" in v]
        toks = parse_tokens(r.get("T", ""))
        a = parse_analyze(r.get("A", ""))
        if toks is not None and len(toks) > n + 1:
            bad.append(f"{len(toks)} tokens for {n} characters")
        if a is not None and len(a) > 2 * n + 1:
            bad.append(f"{len(a)} analyze entries for {n} characters")
        if r.get("C") == "ok":
            nontrivial.add(c.key())
            hist["tokens=%s" % (len(toks) if toks is not None else "-")] += 1
        if bad:
            violations.append(viol(c, "every call returns; tokens <= len+1; entries <= 2len+1; fused iterators", r,
                                   "; ".join(bad), None, same_as_model(code, model, c.cid)))
    return result(ctx, cases, dis, violations, nontrivial,
                  "the C05 stream plus 21 nullable / zero-width / first-attempt-failing bodies x 11 quantifier forms x 4 contexts x 6 inputs; per-case watchdog (10 s without progress = HANG) against a model whose loops run on explicit fuel; iterator item counts and three extra next() calls after None",
                  {"distribution": dict(hist)})


# ================================================================ C07 / C17 (grammar)
def grammar_stream(ctx, dialects):
    rng = ctx.rng
    tuples = []
    alphabet = "()[]{}|*+?\\^$-.,a1"
    for p in gen.all_strings(alphabet, ctx.n(3, 4)):
        tuples.append((rng.choice(dialects), "", p, "", "", "short"))
    if ctx.quick:
        for _ in range(6000):
            tuples.append((rng.choice(dialects), "", "".join(rng.choice(alphabet) for _ in range(rng.randint(4, 6))), "", "", "short"))
    for _ in range(ctx.n(6000, 60000)):
        d = rng.choice(dialects)
        g = gen.Gen(rng, alphabet=rng.choice(["ab", "a-b", "ab^"]), dialect=d)
        _, p = g.pattern(rng.randint(1, 10))
        tuples.append((d, rng.choice(["", "x", "i"]), p, "", "", "rendered"))
        tuples.append((d, "", gen.mutate(rng, p), "", "", "mutated"))
        # flag x belongs to the grammar too: the pattern is accepted iff the pattern without the
        # whitespace outside classes is - whitespace between tokens and inside multi-character
        # tokens ({ 1 , 2 }, \p{ L }, an escaped bracket before it), valid and mutated patterns
        g2 = gen.Gen(rng, alphabet=rng.choice(["ab", "a[b", "a]b", "a\\b", "a-b"]), dialect=d)
        _, p2 = g2.pattern(rng.randint(1, 8))
        if rng.random() < 0.5:
            p2 = rng.choice(["\\[", "\\]", "[\\[]", "[\\]]", "\\[\\]"]) + p2
        if rng.random() < 0.15:
            p2 = gen.mutate(rng, p2)
        wsp = ""
        for t in tokenise_pattern(p2):
            if rng.random() < 0.3:
                wsp += rng.choice("\t\n\r ")
            if not t.startswith("[") and len(t) > 1 and rng.random() < 0.5:
                k = rng.randrange(1, len(t))
                t = t[:k] + rng.choice("\t\n\r ") + t[k:]
            wsp += t
        tuples.append((d, rng.choice(["x", "x", "ix", "xm"]), wsp, "", "", "x-ws"))
    for p in ["\\[a{ 2}", "\\[ \\p{ L }+", "[\\[]a{ 2}", "\\] a{ 1 , 2 }", "[a-z-[aeiou] ]", "[a-z-[aeiou]] b", "a{ 2", "a { 2 }", "( ? : a )",
              "( ?: a)", "\\ n", "\\p { L }", "[ ]", "[ a - b ]", "a | b", " ", "a* ?", "a* +", "(a) \\ 1", "\\[ ]", "[\\]] {2}"]:
        for d in dialects:
            tuples.append((d, "x", p, "", "", "x-special"))
    # an XPath extension grafted onto a generated pattern: a reluctant marker after a quantifier, a
    # non-capturing group, a back-reference, \$ (all must be rejected under XSD, accepted under XPath)
    for _ in range(ctx.n(3000, 30000)):
        d = rng.choice(dialects)
        g = gen.Gen(rng, alphabet="ab", dialect="xsd", feats={"cls", "grp", "alt", "quant", "dot"})
        _, p = g.pattern(rng.randint(2, 8))
        qpos = [i for i, ch in enumerate(p) if ch in "*+?}" and (i == 0 or p[i - 1] != "\\")]
        k = rng.random()
        if qpos and k < 0.6:
            i = rng.choice(qpos)
            p = p[:i + 1] + "?" + p[i + 1:]
        elif k < 0.75 and "(" in p:
            i = p.index("(")
            p = p[:i + 1] + "?:" + p[i + 1:]
        elif k < 0.9 and ")" in p:
            p = p + "\\1"
        else:
            p = p + "\\$"
        tuples.append((d, "", p, "", "", "extension"))
    special = ["(a*)??b", "x(a?)??", "(a|)??y", "(())??d", "(a*)*?", "(a?)+?", "(a|b*)??", "a*??", "\\p{L}", "\\p{Lx}", "\\p{}", "\\p{IsGreek}", "\\p{IsNoSuchBlock}", "\\p{Is}", "\\p{Cs}", "\\P{Zs}", "\\pL",
               "\\e", "\\0", "\\", "a\\", "[b-a]", "[a-a]", "[]", "[^]", "[a", "a]", "(a", "a)", "a{2,1}", "a{1,2}", "a{,2}",
               "a{1,", "a{a}", "a{1}{2}", "a**", "a+*", "*a", "+", "?", "|", "a|", "|a", "()", "(?:)", "(?:a", "(?a)",
               "(a)\\1", "(a)\\2", "\\1(a)", "(a\\1)", "(a)[\\1]", "(a)(b)(c)(d)(e)(f)(g)(h)(i)(j)\\10", "(a)\\10",
               "^*", "$+", "^{2}", "^*?a", "a*?", "a??", "a{2}?", "\\$", "\\^", "[\\$]", "[a-[b]]", "[a-[^b]]", "[-a]", "[a-]",
               "[a-z-[aeiou]]", "[\\d-[5]]", "[\\p{L}-[a-z]]", "[^a-[b]]", "\\n\\r\\t\\\\\\|\\.\\-\\^\\?\\*\\+\\{\\}\\(\\)\\[\\]"]
    for p in special:
        for d in dialects:
            tuples.append((d, "", p, "", "", "special"))
    # back-references with two digits: the number is extended digit by digit as long as it names a group
    # opened so far, wherever the reference stands - also inside a still-open group whose own number
    # is the first digit (own generator state)
    rng_b = random.Random(ctx.seed * 15485867 + 7)
    for _ in range(ctx.n(150, 1500)):
        k = rng_b.randint(9, 13)
        inner = "".join("(%s)" % rng_b.choice("abc") for _ in range(k))
        n_ref = rng_b.randint(1, k + 3)
        ref = "\\%d" % n_ref
        shape = rng_b.random()
        if shape < 0.4:
            p_ = "(x" + inner + ref + ")"            # inside open group 1; inner groups are 2..k+1
        elif shape < 0.6:
            p_ = "(x)(y" + inner + ref + ")"          # inside open group 2
        elif shape < 0.8:
            p_ = inner + ref
        else:
            p_ = "(" + inner + ")" + ref
        for d in dialects:
            tuples.append((d, "", p_, "", "", "backref-digits"))
    # a counted quantifier ends with '}' and nothing else
    for body in ("a{1,2", "a{1,", "a{1", "a{12,3", "(a{1,2", "ab{2,3", "a{,2", "a{1,2,3"):
        for close in (")", "]", "|", "}", "x", ",", "{", "?", ")}", "})", ""):
            for tail in ("", "c", ")"):
                for d in dialects:
                    tuples.append((d, "", body + close + tail, "", "", "brace-endings"))
    # block names are matched as written (only under flag x is white space removed first): spaces,
    # underscores, hyphens and case variants of a real block name are not names
    for nm in ["BasicLatin", "Basic_Latin", "Basic Latin", "_BasicLatin", "BasicLatin_", "Basic-Latin", "basiclatin", "BASICLATIN", "Cyrillic",
               "_Cyrillic", "Cyr illic", "Latin-1Supplement", "Latin-1 Supplement", "Latin_1Supplement", "Latin1Supplement", "GreekandCoptic",
               "Greek and Coptic", "Greek_and_Coptic", "Greek", "PrivateUse", "Private Use", "Private_Use", "CJKUnifiedIdeographs", "CJK_Unified_Ideographs"]:
        for neg in ("p", "P"):
            for d in dialects:
                for fl in ("", "x"):
                    tuples.append((d, fl, "\\" + neg + "{Is" + nm + "}", "", "", "block-names"))
                    tuples.append((d, fl, "[\\" + neg + "{Is" + nm + "}a]", "", "", "block-names"))
    return tuples


def flag_stream(ctx, dialects):
    tuples = []
    for f in gen.all_strings("smixq;gkKzS", 3):
        for d in dialects:
            tuples.append((d, f, "a", "", "", "flags"))
    # flag letters are the ASCII letters themselves: not characters that share their low byte, their
    # full-width or dotted / dotless forms, nor their upper case
    odd = ["\u0169", "\u016d", "\u0173", "\u0171", "\u0178", "\u0269", "\uff49", "\uff4d", "\u0131", "\u0130", "I", "M", "X", "Q",
           "\U00010069", "\u2170", "\u00ed"]
    for o in odd:
        for f in (o, "i" + o, o + "m", o + ";", "q" + o):
            for d in dialects:
                tuples.append((d, f, "a", "A", "", "flags-odd"))
    return tuples


def grammar_check(ctx, dialects, prop):
    tuples = grammar_stream(ctx, dialects) + flag_stream(ctx, dialects)
    cases = mk_cases(tuples, "m")
    code, model, dis = run_slice(cases)
    spec = spec_match(cases)
    violations, nontrivial = [], set()
    hist = collections.Counter()
    for c in cases:
        s, r = spec.get(c.cid, {}), code.get(c.cid, {})
        v = s.get("V")
        hist[f"{c.tag}:{v}"] += 1
        if v == "unspec":
            continue
        nontrivial.add((c.dialect, c.flags, c.pattern))
        same = same_as_model(code, model, c.cid)
        if v == "valid" and r.get("C") != "ok":
            violations.append(viol(c, "accepted (grammar-valid)", r.get("C"), "a grammar-valid pattern / flag string is rejected", s, same))
        elif v == "invalid":
            # which error is expected: flags are checked first
            fl_ok = all(ch in "smixq" for ch in c.flags.split(";")[0]) and not ("q" in c.flags and c.dialect == "xsd")
            exp = "E:Syntax" if fl_ok else "E:InvalidFlags"
            if r.get("C") != exp:
                violations.append(viol(c, exp, r.get("C"), "a malformed pattern / flag string is not rejected with the classified error", s, same))
    return result(ctx, cases, dis, violations, nontrivial,
                  f"every string of length <= {ctx.n(3, 4)} over the metacharacter alphabet ()[]{{}}|*+?\\^$-.,a1, patterns rendered from generated ASTs (must be accepted), token-level mutations, patterns under flag x with whitespace between and inside tokens (accepted iff the stripped pattern is), 90 hand-written boundary cases, and every flag string of length <= 3 over {{s,m,i,x,q,;,g,k,K,z,S}}; dialects {list(dialects)}; acceptance compared with the three-valued grammar (no claim on its Unspecified band); non-trivial = distinct (dialect,flags,pattern) with a Valid/Invalid verdict",
                  {"distribution": dict(hist)})


def slice_C07(ctx):
    return grammar_check(ctx, ("xpath",), "C07")


# ================================================================ C08
def slice_C08(ctx):
    rng = ctx.rng
    tuples = []
    for d, fl, pat, inp, ast in random_stream(ctx, ctx.n(12000, 120000), per_pattern=4, shapes=0.3,
                                              alphabets=["ab", "abc", "ab\n", "aAb", "ab1"]):
        tuples.append((d, fl, pat, inp, "[$1]"))
    tuples += precond_stream(ctx, ctx.n(3000, 30000), "[$1]")
    # a '^' that is not the first term, with mandatory terms after it, matched on a later line
    for p_ in ["(^abc)", "x*^a", "x*^[0-9]+", "(^a)+b", "\\s*^foo", "(\\n)^a", "$\\n^b+", "(?:x|y)?^ab", "(^a)b{2}", "(?:^a|^b)c", "(x?)^ab"]:
        for fl in ("m", "", "ms", "s", "im"):
            for inp in ["x\nabc", "ab\n12", "z\nab", "bar\nfoo", "b\na\nc", "a\nbb\nc", "abc", "x\nab", "\nabb", "q\nac", ""]:
                tuples.append(("xpath", fl, p_, inp, "<$0>"))
    tuples += bigfollow_stream(ctx, ctx.n(3000, 30000), "[$1]")
    # the grammar of the end-to-end theorems (proved for the hook constructor: the shortcuts must not matter)
    tuples += grammar_tree_stream(ctx, ctx.n(4000, 40000), "[$1]")
    tuples += overlap_prefix_stream(ctx, ctx.n(2000, 20000), "<$0>")
    tuples += altfollow_stream(ctx, ctx.n(2000, 20000), "<$0>")
    tuples += reluctant_nullable_stream(ctx, ctx.n(2000, 20000), "<$0>")
    # shapes that trigger each shortcut
    # (pattern text, a text it matches)
    heads = [("ab", "ab"), ("a", "a"), ("[ab]", "b"), ("\\d", "1"), ("^", ""), ("^a", "a"), (".", "b"), ("(a)", "a"),
             ("(?:ab|a)", "ab")]
    reps = [("a*", "a"), ("a+", "a"), ("[ab]*", "b"), ("\\s*", " "), ("\\d+", "1"), ("a{2}", "a"), ("a{2,3}", "a"),
            ("[a-c]{1,2}", "c"), ("a*?", "a"), ("a+?", "a"), ("(?:ab)*", "ab"), (".*", "b"), ("\\n*", "\n"), ("A*", "A"),
            ("(?:ab){2}", "ab"), ("(?:ab){3}", "ab"), ("(?:aba){2,2}", "aba"), ("(?:ab){2,3}", "ab"), ("(?:ab){1,}?", "ab")]
    tails = [("a", "a"), ("b", "b"), ("$", ""), ("^", ""), ("\n", "\n"), ("\\n", "\n"), ("[bc]", "c"), ("\\d", "1"),
             ("1", "1"), ("A", "A"), ("", ""), ("(?:a|b)", "b"), ("b?", "b"), ("$\nb", "\nb"), ("^a", "a"), ("\\s", " "),
             ("c", "c"), ("ab", "ab")]
    for h, ht in heads:
        for r_, unit in reps:
            for t, tt in tails:
                p = h + r_ + t
                for fl in ("", "i", "m", "im", "s"):
                    inp = "".join(rng.choice("ab\nA1 ") for _ in range(rng.randint(0, 7)))
                    tuples.append(("xpath", fl, p, inp, "<$0>"))
                # inputs made of the pattern's own parts: head, k repeat units, tail (and one spoiled)
                for k in (1, 2, 3):
                    tuples.append(("xpath", rng.choice(["", "m"]), p, ht + unit * k + tt, "<$0>"))
                tuples.append(("xpath", "", p, "x" + ht + unit * 2 + "x" + tt, "<$0>"))
    # a repeated class that is not closed under case (category escapes, one-case ranges) followed by a
    # literal or class of the other case, under flag i: the first sets overlap through the case mapping
    for cls in ["\\p{Lu}", "\\p{Ll}", "[\\p{Lu}]", "\\P{Ll}", "[A-Z]", "[a-z]", "[\\p{Lu}-[A]]", "\\p{Lt}", "[\\p{Ll}0-9]"]:
        for q in ("+", "*", "{1,3}", "+?", "{2,}"):
            for t in ("b", "B", "[b]", "\u00e9", "\u00c9", "(?:b|c)", "b$"):
                p = cls + q + t
                for fl in ("i", "", "im"):
                    for inp in ("AB", "ab", "Ab", "aB", "xABy", "xaby", "AAB", "aab", "\u00c9\u00e9", "\u00e9\u00c9", "Bb", "bB"):
                        tuples.append(("xpath", fl, p, inp, "<$0>"))
    # a repeated character that lies strictly inside a range of the class that follows (the two overlap in
    # the middle of the range, not at its ends); a fixed-count repeat inside a counted group
    for p in ["b*[a-c]", "5{2,}[0-9]", "[m-n]+[a-z]", "m*[l-n]$", "b+[a-c]c", "[b-c]*[a-d]x", "b*?[a-c]$", "^(?:a{2}){1,2}$", "^x(?:(?:ab){2})?$",
              "(?:[ab]{2}){1,2}", "(?:a{3}){0,2}b", "^(?:(?:ab){2}){2,3}$", "(?:a{2}){1,}b"]:
        for fl in ("", "i"):
            for inp in ("bb", "bbxbb", "55", "555x", "mn", "mm", "MM", "bbc", "aaa", "aa", "aaaa", "xab", "xabab", "aba-", "aaab", "aaaaab", "abababab",
                        "ababab", "aab", ""):
                tuples.append(("xpath", fl, p, inp, "<$0>"))
    longs = ["abcabcabc", "a{5}b{5}", "(?:abc){3}", "[ab]{6}c"]
    for p in longs:
        for inp in ("", "abcabcab", "abcabcabc", "aaaaabbbbb", "ababab" + "c"):
            tuples.append(("xpath", "", p, inp, "-"))
    cases = mk_cases(tuples, "mrtau")
    code, model, dis = run_slice(cases)
    violations, nontrivial = [], set()
    hist = collections.Counter()
    for c in cases:
        r = code.get(c.cid, {})
        if r.get("C") != "ok":
            if r.get("C") != r.get("uC"):
                violations.append(viol(c, {"C": r.get("uC")}, {"C": r.get("C")}, "acceptance differs with optimisations off",
                                       None, same_as_model(code, model, c.cid)))
            continue
        nontrivial.add(c.key())
        diffs = {k: (r.get(k), r.get("u" + k)) for k in ("C", "M", "R", "T", "A") if r.get(k) != r.get("u" + k)}
        hist["match" if r.get("M") == "1" else "nomatch"] += 1
        if diffs:
            violations.append(viol(c, {k: v[1] for k, v in diffs.items()}, {k: v[0] for k, v in diffs.items()},
                                   "results differ from the same engine with all compile-time shortcuts switched off",
                                   None, same_as_model(code, model, c.cid)))
    # class information for the attribution of known findings (only the violating cases)
    if violations:
        vc = [Case.from_json(v["case"], cid=str(i)) for i, v in enumerate(violations)]
        sp = spec_match(vc)
        for i, v in enumerate(violations):
            s_ = sp.get(str(i), {})
            v["spec"] = {k: s_.get(k) for k in ("V", "bf", "bok", "strict", "k1", "k2", "k3") if k in s_}
    return result(ctx, cases, dis, violations, nontrivial,
                  "four-way: code optimised / code unoptimised (hook constructor) / model optimised / model unoptimised; seeded random patterns x 4 inputs x 8 flag subsets, plus 9 heads x 14 repeats x 16 followers x 5 flag sets (leading literal / class / ^, X*Y with related and unrelated first sets incl. anchors, newlines and case variants) and long-minimum-length shapes; all five APIs compared",
                  {"distribution": dict(hist)})


# ================================================================ C09 / C10 (character sets)
def boundary_points():
    """range boundaries +-1 of every dumped General_Category set, plus fixed interesting points"""
    pts = set([0, 9, 10, 13, 32, 0x2d, 0x2e, 0x30, 0x39, 0x3a, 0x41, 0x5a, 0x5f, 0x61, 0x7a, 0xb7, 0xd7ff, 0xe000, 0xfffd,
               0xffff, 0x10000, 0xeffff, 0xf0000, 0x10fffd, 0x10ffff, 0x17f, 0x212a, 0x3c2, 0x3c3, 0x130, 0x131,
               0x7e, 0x7f, 0x80, 0x81, 0xfe, 0xff, 0x100, 0x7ff, 0x800, 0xfffe, 0x10001, 0x1ffff, 0x20000, 0x10041, 0x10030])
    dump = os.path.join(tie.WORK, "dump", "gc.txt")
    for line in open(dump):
        for r in line.split()[1:]:
            a, b = (int(x, 16) for x in r.split("-"))
            for p in (a - 1, a, b, b + 1):
                pts.add(p)
    for rng_ in ((0x41, 0x5b), (0x61, 0x7b), (0x370, 0x400), (0x400, 0x460), (0x10400, 0x10450), (0xc0, 0x100)):
        pts.update(range(*rng_))
    # the ranges of the XML NameStartChar / NameChar productions, +-1
    for a, b in ((0x3a, 0x3a), (0x41, 0x5a), (0x5f, 0x5f), (0x61, 0x7a), (0xc0, 0xd6), (0xd8, 0xf6), (0xf8, 0x2ff), (0x370, 0x37d),
                 (0x37f, 0x1fff), (0x200c, 0x200d), (0x2070, 0x218f), (0x2c00, 0x2fef), (0x3001, 0xd7ff), (0xf900, 0xfdcf),
                 (0xfdf0, 0xfffd), (0x10000, 0xeffff), (0x2d, 0x2e), (0x30, 0x39), (0xb7, 0xb7), (0x300, 0x36f), (0x203f, 0x2040)):
        pts.update((a - 1, a, a + 1, b - 1, b, b + 1))
    return sorted(p for p in pts if 0 <= p <= 0x10ffff and not (0xd800 <= p <= 0xdfff))


def wide_points():
    """the thorough point set: every code point below U+3100, every 61st scalar value above, and
    the boundary points of the quick tier"""
    pts = set(boundary_points()) | set(range(0, 0x3100)) | set(range(0x3100, 0x110000, 61))
    return sorted(p for p in pts if not (0xd800 <= p <= 0xdfff))


def sweep_compare(ctx, pats, points, prop, why):
    """pats: list of (dialect, flags, pattern, tag).  Code membership (is_match on one-character
    inputs) against the specification's membership, on the given points.  points == 'wide': the
    code is first swept over every scalar value; each pattern is then compared on wide_points()
    plus the boundaries (+-1) of the set the code itself reported - two unions of ranges that differ
    differ at a boundary of one of them, and the code's boundaries are all there."""
    own = {}
    if points == "wide":
        base = wide_points()
        all_lines = ["\t".join([str(i), d, tie.enc(fl), tie.enc(p), "all"]) for i, (d, fl, p, tag) in enumerate(pats)]
        for cid, r in tie.run_tool([tie.HARNESS, "sweep"], all_lines, "sweep").items():
            extra = set()
            if r and r.startswith("ok"):
                for rg in r.split()[1:]:
                    a, b = (int(x, 16) for x in rg.split("-"))
                    extra.update((a - 1, a, a + 1, b - 1, b, b + 1))
            own[cid] = sorted(x for x in set(base) | extra if 0 <= x <= 0x10ffff and not (0xd800 <= x <= 0xdfff))
        points = base
    code_lines, spec_lines, model_lines = [], [], []
    for i, (d, fl, p, tag) in enumerate(pats):
        pts = ".".join("%x" % q for q in own.get(str(i), points))
        code_lines.append("\t".join([str(i), d, tie.enc(fl), tie.enc(p), pts]))
        spec_lines.append("\t".join([str(i), "clsmem", d, tie.enc(fl), tie.enc(p), pts]))
    code = tie.run_tool([tie.HARNESS, "sweep"], code_lines, "sweep")
    spec = spec_call(spec_lines)
    model = tie.run_tool([tie.DRIVER, "mem"], code_lines, "mem")
    violations, dis, nontrivial = [], [], set()
    npts = len(points)
    no_verdict = 0
    for i, (d, fl, p, tag) in enumerate(pats):
        cid = str(i)
        c = Case(cid, d, fl, p, "", "", "sweep", tag)
        cr, sr = code.get(cid), spec.get(cid)
        if model and model.get(cid) != cr:
            dis.append({"case": c.to_json(), "tag": tag, "differs": {"members": {"code": (cr or "")[:300], "model": (model.get(cid) or "")[:300]}}})
        if sr in ("slow", "ABORT"):
            # no verdict from the specification side (a loaded machine can make its evaluation of a
            # big case-insensitive class miss the watchdog): no claim on this pattern, but counted
            no_verdict += 1
            continue
        if sr in ("unspec", "not-a-class", None):
            continue
        nontrivial.add((d, fl, p))
        if sr == "invalid":
            if cr and cr.startswith("ok"):
                violations.append(viol(c, "rejected", cr[:200], "an invalid class expression / escape is accepted"))
            continue
        if cr != sr:
            violations.append(viol(c, sr[:400], (cr or "")[:400], why))
    # an oracle that answers for (almost) nothing is a broken check, not a passing one
    if no_verdict * 4 > max(4, len(pats)):
        raise RuntimeError(f"{prop}: the specification oracle gave no verdict on {no_verdict} of {len(pats)} patterns")
    return pats, dis, violations, nontrivial, npts


def slice_C09(ctx):
    rng = ctx.rng
    pats = []
    g = gen.Gen(rng, alphabet="abcxyzABC019-^ \n", dialect="xpath")
    for _ in range(ctx.n(300, 120)):
        ce = g.cls()
        fl = rng.choice(["", "", "i"])
        pats.append(("xpath", fl, gen.pp_cls(ce), "class"))
        # the same class under a quantifier and inside a group must match the same set
        if rng.random() < 0.3:
            pats.append(("xpath", fl, "(?:" + gen.pp_cls(ce) + ")", "class-in-group"))
    hand = ["[a]", "a", "[a-c]", "[^a-c]", "[a-cx-z]", "[a-z-[aeiou]]", "[a-z-[a-c-[b]]]", "[^a-z-[^x]]", "[\\d-[5]]",
            "[\\D]", "[\\w-[\\d]]", "[\\W\\d]", "[\\s\\S]", "[^\\s\\S]", "[\\i-[:]]", "[\\c-[\\i]]", "[\\I]", "[\\C]",
            "[\\p{L}-[\\p{Lu}]]", "[\\P{L}]", "[^\\P{L}]", "[\\p{IsGreek}-[\\p{L}]]", "[\\-a]", "[a\\-]", "[-a]", "[a-]",
            "[\\^a]", "[\\[\\]]", "[.]", "[$]", "[\\n-\\r]", "[ -~]", "[x]", "x", "[\\\\]", "[aA]", "[k]", "[K]",
            "[K]", "[s]", "[ſ]", "[σ]", "[ς]", "[i]", "[İ]", "[ı]"]
    for h in hand:
        for fl in ("", "i"):
            pats.append(("xpath", fl, h, "hand"))
    points = boundary_points() if ctx.quick else "wide"
    pats, dis, violations, nontrivial, npts = sweep_compare(
        ctx, pats, points, "C09", "the set of characters matched differs from the set algebra on the expression's parts")
    cases = [Case(i, p[0], p[1], p[2], "", "", "sweep", p[3]) for i, p in enumerate(pats)]
    r = result(ctx, cases, dis, violations, nontrivial,
               f"generated class expressions (nesting <= 3: single characters, ranges, multi-character and category escapes, negation, subtraction; with and without flag i) and 45 hand-written ones; membership of {'every code point below U+3100, every 61st scalar value above, the boundary points, and the boundaries +-1 of the set the code reports over all 1,112,064 scalar values' if points == 'wide' else str(npts) + ' points (all General_Category range boundaries +-1, name-character boundaries, ASCII/Latin-1/Greek/Cyrillic/Deseret letters, special-casing characters)'} through the public API against the specification's class_mem",
               {"points_per_pattern": npts, "membership_evaluations": npts * len(pats), "exhaustive": False})
    return r


def slice_C10(ctx):
    rng = ctx.rng
    pats = []
    for c in gen.CATS:
        pats.append(("xpath", "", "\\p{%s}" % c, "cat"))
        pats.append(("xpath", "", "\\P{%s}" % c, "cat"))
    for e in gen.MULTI:
        pats.append(("xpath", "", e, "multi"))
        pats.append(("xsd", "", e, "multi"))
    for bad in ["\\p{Cs}", "\\p{X}", "\\p{Lx}", "\\p{l}", "\\p{LU}", "\\p{IsNoSuch}", "\\p{IsBasic Latin}", "\\p{Isbasiclatin}",
                "\\p{Is}", "\\p{Greek}", "\\p{IsPrivate Use}", "\\p{L }", "\\p{InGreek}", "\\P{InBasicLatin}", "[\\p{InCyrillic}]", "\\p{In}",
                "\\p{isGreek}", "\\p{ISGreek}", "\\p{Is-Greek}", "\\p{IsGreek }", "\\p{ IsGreek}", "\\p{IsGreekX}", "\\p{BlockGreek}", "\\p{Is_Greek}",
                "\\p{Lul}", "\\p{L&}", "\\p{Letter}", "\\p{IsL}", "\\p{IsLu}"]:
        pats.append(("xpath", "", bad, "unknown"))
    # every block of the shipped list, by its space-stripped name
    blocks = []
    for fn in ("Blocks.txt", "CompatBlocks.txt"):
        for line in open(f"/repo/regexml-ucd-blocks/src/{fn}"):
            t = line.strip()
            if t and not t.startswith("#"):
                rng_, name = t.split(";")
                blocks.append((name.strip().replace(" ", ""), rng_.strip()))
    blocks.append(("PrivateUse", ""))
    bl = blocks if not ctx.quick else blocks
    for name, _ in bl:
        pats.append(("xpath", "", "\\p{Is%s}" % name, "block"))
    for name, _ in rng.sample(blocks, 30):
        pats.append(("xpath", "", "\\P{Is%s}" % name, "block"))
    pts = set(boundary_points())
    for _, r_ in blocks:
        if r_:
            a, b = (int(x, 16) for x in r_.split(".."))
            pts.update(p for p in (a - 1, a, b, b + 1) if 0 <= p <= 0x10ffff and not (0xd800 <= p <= 0xdfff))
    points = sorted(pts)
    if not ctx.quick:
        # thorough: categories and multi-character escapes on the wide point set plus every boundary of the
        # set the code reports over all scalar values; since the boundaries of the specification's sets (the
        # General_Category tables, the XML name ranges) are among the points too, agreement on these points
        # is agreement everywhere: two unions of ranges that differ differ next to a boundary of one of them
        small = [p for p in pats if p[3] in ("cat", "multi", "unknown")]
        big = [p for p in pats if p[3] == "block"]
        _, dis1, v1, n1, np1 = sweep_compare(ctx, small, "wide", "C10", "the escape matches a different set than the Unicode / XML data")
        _, dis2, v2, n2, np2 = sweep_compare(ctx, big, points, "C10", "the block escape matches a different range than the shipped block list")
        dis, violations, nontrivial = dis1 + dis2, v1 + v2, n1 | n2
        evals = np1 * len(small) + np2 * len(big)
    else:
        _, dis, violations, nontrivial, npts = sweep_compare(ctx, pats, points, "C10", "the escape matches a different set than the Unicode / XML data")
        evals = npts * len(pats)
    cases = [Case(i, p[0], p[1], p[2], "", "", "sweep", p[3]) for i, p in enumerate(pats)]
    return result(ctx, cases, dis, violations, nontrivial,
                  f"the 36 category names (\\p and \\P), \\d \\w \\s \\i \\c and complements in both dialects, every block of Blocks.txt + CompatBlocks.txt + PrivateUse, and unknown names (must be rejected); membership on {'every code point below U+3100, every 61st above, and every boundary +-1 of the sets on both sides (the code swept over all scalar values, the General_Category tables, the XML name ranges) for categories and multi-character escapes, boundary points for blocks' if not ctx.quick else str(len(points)) + ' boundary points'} against the specification (General_Category tables, XML name-character ranges, block list parsed independently)",
                  {"membership_evaluations": evals, "exhaustive": False})


SLICES = {}


# ================================================================ C11
CLEAN = {
    "ascii": ("abxyz", "ABXYZ"), "latin1": ("àéöþ", "ÀÉÖÞ"), "greek": ("αβγω", "ΑΒΓΩ"),
    "cyrillic": ("абжя", "АБЖЯ"), "deseret": ("\U00010428\U00010429", "\U00010400\U00010401"),
}
CASELESS = "019 \n-_!"


def swapcase_map(lower, upper):
    m = {}
    for a, b in zip(lower, upper):
        m[a], m[b] = b, a
    return m


def swap_ast(node, m, rng, p=0.6):
    t = node[0]
    if t == "chr":
        return ("chr", m.get(node[1], node[1])) if rng.random() < p else node
    if t == "cls":
        items = []
        for it in node[2]:
            if it[0] == "c":
                items.append(("c", m.get(it[1], it[1])) if rng.random() < p else it)
            else:
                items.append(it)
        return ("cls", node[1], items, swap_ast(node[3], m, rng, p) if node[3] else None)
    if t in ("grp", "nc"):
        return (t, swap_ast(node[1], m, rng, p))
    if t in ("seq", "alt"):
        return (t, [swap_ast(x, m, rng, p) for x in node[1]])
    if t == "q":
        return ("q", swap_ast(node[1], m, rng, p), node[2], node[3], node[4])
    return node


def slice_C11(ctx):
    rng = ctx.rng
    shaped_rng = random.Random(ctx.seed * 15485863 + 11)
    cases, groups_ = [], []
    cid = 0
    for _ in range(ctx.n(2500, 25000)):
        name = rng.choice(list(CLEAN))
        lower, upper = CLEAN[name]
        m = swapcase_map(lower, upper)
        al = lower + upper[:2] + rng.choice(CASELESS) + rng.choice(CASELESS)
        g = gen.Gen(rng, alphabet=al, feats={"cls", "grp", "nc", "reluctant", "alt", "quant", "bref", "dot"})
        # ranges only inside one case of one script, so that the range is within the clean alphabet
        if shaped_rng.random() < 0.3:
            # X-repeat, optional middle, X again over the cased letters: after the case swap the
            # repeated letter and the one that follows can be the two case forms of one letter
            ast = gen.shaped(shaped_rng, lower[:2] + upper[:1])
        else:
            ast, _ = g.pattern(rng.randint(1, 8))
        pat = gen.pp(ast)              # both spellings printed the same way: only the letters differ
        ast2 = swap_ast(ast, m, rng)
        pat2 = gen.pp(ast2)
        for inp in gen.inputs_for(rng, al, 3)[1:] + ["".join(rng.choice(lower + upper) for _ in range(4))]:
            inp2 = "".join(m.get(ch, ch) if rng.random() < 0.6 else ch for ch in inp)
            ids = []
            for (p_, i_, f_) in ((pat, inp, "i"), (pat2, inp, "i"), (pat, inp2, "i"), (pat2, inp2, "i"), (pat, inp, "")):
                cases.append(Case(cid, "xpath", f_, p_, i_, "", "ma", tag=name))
                ids.append(str(cid))
                cid += 1
            groups_.append(ids)
    # ranges whose two end points are case-less but which hold letters of one case (or both) between them:
    # under i the letters' counterparts belong to the class as well
    for pat_ in ["^[ -_]+$", "^[^ -_]$", "^[\\[-~]+$", "^[^\\[-~]+$", "^[\u00d7-\u00f7]$", "[0-_]x", "^[!-`]+$", "^[ -_-[A-M]]+$",
                 "x[ -_]{2}", "^[^!-@\\[-`]+$", "^[\u00bf-\u00d7]+$"]:
        for inp in ["HELLO WORLD", "Q", "az", "\u00c0\u00d8", "Mx", "abc XYZ", "m", "\u00f8", "xAb", "zz", "\u00e0\u00c9"]:
            inp2 = inp.swapcase()
            ids = []
            for (p_, i_, f_) in ((pat_, inp, "i"), (pat_, inp, "i"), (pat_, inp2, "i"), (pat_, inp2, "i"), (pat_, inp, "")):
                cases.append(Case(cid, "xpath", f_, p_, i_, "", "ma", tag="caseless-range"))
                ids.append(str(cid))
                cid += 1
            groups_.append(ids)
    # a repeat over a one-case class escape followed by a repeated group whose first literal is written in the
    # other case: under i the repeat has to be able to give characters back to the group
    for cls in ("\\p{Ll}", "\\p{Lu}", "[a-z]", "[\\p{Ll}]"):
        for q in ("*", "+"):
            for (g1, g2) in (("(?:Ab?)+", "(?:ab?)+"), ("(?:A|B)+", "(?:a|b)+"), ("(?:aB)*a", "(?:ab)*a"), ("(A)+", "(a)+")):
                pat_, pat2_ = "^" + cls + q + g1 + "$", "^" + cls + q + g2 + "$"
                for inp in ("aa", "aab", "AA", "aA", "abab", "b", "aAbB", "Aa", "AAB"):
                    # only the literal letters of the pattern change case: a category escape is not
                    # closed under case, so the input is left as it is
                    ids = []
                    for (p_, i_, f_) in ((pat_, inp, "i"), (pat2_, inp, "i"), (pat_, inp, "i"), (pat2_, inp, "i"), (pat_, inp, "")):
                        cases.append(Case(cid, "xpath", f_, p_, i_, "", "ma", tag="class-then-group"))
                        ids.append(str(cid))
                        cid += 1
                    groups_.append(ids)
    # without i a literal matches only the identical character; class escapes ignore the flag
    exact = []
    for name, (lower, upper) in CLEAN.items():
        for a, b in zip(lower, upper):
            for (p_, i_) in ((a, b), (b, a), ("[" + a + "]", b), (a + "+", b + b),
                             # a back-reference is a copy of what was captured, letter for letter
                             ("^(" + a + ")\\1$", a + b), ("^(" + a + b + ")\\1$", a + b + a + a), ("^(.)x\\1$", a + "x" + b),
                             ("^([" + a + b + "]+)-\\1$", a + b + "-" + b + a)):
                cases.append(Case(cid, "xpath", "", p_, i_, "", "m", tag="exact"))
                exact.append(str(cid))
                cid += 1
    escs = []
    for e in ["\\p{Lu}", "\\p{Ll}", "\\P{Lu}", "\\d", "\\w", "\\s", "\\i", "\\c", "[\\p{Lu}]", "[^\\p{Ll}]", "\\p{IsBasicLatin}"]:
        for name, (lower, upper) in CLEAN.items():
            for ch in lower + upper + "1 ":
                a = Case(cid, "xpath", "", e, ch, "", "m", tag="escape")
                b = Case(cid + 1, "xpath", "i", e, ch, "", "m", tag="escape")
                cases += [a, b]
                escs.append((str(cid), str(cid + 1)))
                cid += 2
    # ... also where the escape is not the first term of the pattern (the search then reaches the
    # class through the engine's CharClass operation, not through the first-character filter)
    for e in ["\\p{Ll}", "\\P{Lu}", "\\p{Lu}", "\\p{IsBasicLatin}", "[\\p{L}-[\\p{Lu}]]", "\\w", "[^\\p{Ll}]"]:
        for name, (lower, upper) in list(CLEAN.items())[:4]:
            for ch in lower[:2] + upper[:2] + "1":
                for (p_, i_) in (("x" + e, "x" + ch), ("^" + e + "+$", ch + ch), ("(?:y|x)" + e + "z", "x" + ch + "z"), (e + e, ch + ch)):
                    a = Case(cid, "xpath", "", p_, i_, "", "m", tag="escape")
                    b = Case(cid + 1, "xpath", "i", p_, i_, "", "m", tag="escape")
                    cases += [a, b]
                    escs.append((str(cid), str(cid + 1)))
                    cid += 2
    code, model, dis = run_slice(cases)
    byid = {c.cid: c for c in cases}
    violations, nontrivial = [], set()
    hist = collections.Counter()

    def spans_of(r):
        a = parse_analyze(r.get("A", ""))
        return None if a is None else code_spans(a)[0]

    for ids in groups_:
        rs = [code.get(i, {}) for i in ids]
        if any(r.get("C") != "ok" for r in rs):
            continue
        base = rs[0]
        nontrivial.add(byid[ids[0]].key())
        hist["match" if base.get("M") == "1" else "nomatch"] += 1
        for k in (1, 2, 3):
            if rs[k].get("M") != base.get("M") or spans_of(rs[k]) != spans_of(base):
                violations.append(viol(byid[ids[k]], {"M": base.get("M"), "spans": spans_of(base)},
                                       {"M": rs[k].get("M"), "spans": spans_of(rs[k])},
                                       "replacing letters by their case counterparts changes the result under flag i (base case: %r on %r)"
                                       % (byid[ids[0]].pattern, byid[ids[0]].input), None,
                                       same_as_model(code, model, ids[k])))
                break
        # monotonicity is a consequence only where nothing is complemented: under i a negated class
        # or a subtrahend excludes the case counterparts too
        p0 = byid[ids[0]].pattern
        if rs[4].get("M") == "1" and base.get("M") != "1" and "[^" not in p0 and "-[" not in p0:
            violations.append(viol(byid[ids[0]], "a match without i is a match with i", {"i": base.get("M"), "no-i": "1"},
                                   "flag i loses a match", None, same_as_model(code, model, ids[0])))
    # class information for the attribution of known findings (only the violating cases)
    if violations:
        vc = [Case.from_json(v["case"], cid=str(i)) for i, v in enumerate(violations)]
        sp = spec_match(vc)
        for i, v in enumerate(violations):
            s_ = sp.get(str(i), {})
            v["spec"] = {k: s_.get(k) for k in ("V", "bf", "bok", "strict", "k1", "k2", "k3") if k in s_}
    for i in exact:
        if code.get(i, {}).get("M") == "1":
            violations.append(viol(byid[i], "is_match=0", "is_match=1", "without flag i a letter matches its case counterpart",
                                   None, same_as_model(code, model, i)))
    for a, b in escs:
        if code.get(a, {}).get("M") != code.get(b, {}).get("M"):
            violations.append(viol(byid[b], code.get(a, {}).get("M"), code.get(b, {}).get("M"),
                                   "a class escape changes with flag i", None, same_as_model(code, model, b)))
    return result(ctx, cases, dis, violations, nontrivial,
                  "metamorphic quintuples over clean alphabets (ASCII, Latin-1, Greek, Cyrillic, Deseret letters + case-less characters): (pattern,input), pattern letters case-swapped, input case-swapped, both, and the original without i; is_match and spans must agree under i, a match without i must persist with i; plus exactness without i and flag-independence of class escapes",
                  {"distribution": dict(hist)})


# ================================================================ C12
def slice_C12(ctx):
    rng = ctx.rng
    inputs = gen.all_strings("ab\n\r", ctx.n(4, 5))
    pats = ["^", "$", "^a", "a$", "^a$", "^$", "a^b", "a$b", "a\n^b", "a$\nb", "(?:^a|b$)", "(?:^|a)b", "a(?:$|b)", "(^a)+", "(?:a$)+",
            "^*a", "$?b", "^+a", "${2}", "(?:^|$)a", "^^a", "a$$", ".", "a.b", ".*", "^.*$", "^.$", "[^a]", "(?:.|\n)a", "a.$", "^.a",
            "\n^", "$\n", "^\n", "\n$", "(?:^a$\n?)+", "^a\n", "^.*\n", "^[ab]*\n", "^b?\n", "^.\n?", "^(?:a|b)\n", "^a*$\n", "a*^b", "\n*$\nb", "(?:a|^)+b", "b(?:$|a)*", "^(?:a|b)*$", "(?:^a|^b)\n"]
    # every quantifier on every spelling of an anchor, in every position of a small context
    quants = ["?", "*", "+", "{0}", "{1}", "{2}", "{0,1}", "{0,2}", "{0,}", "{1,}", "{1,2}", "{2,3}", "{0,0}"]
    for a_ in ("^", "$", "(?:^)", "(?:$)", "(^)", "($)", "(?:^|$)"):
        for q in quants:
            for lazy in ("", "?"):
                aq = a_ + q + lazy
                pats.extend(["a" + aq + "b", aq + "a", "b" + aq, "(?:a|b" + aq + ")a", "a\n" + aq + "b", "a" + aq + "\nb"])
    for _ in range(ctx.n(60, 400)):
        g = gen.Gen(rng, alphabet="ab\n", feats={"anchor", "dot", "alt", "quant", "nc", "grp", "reluctant"})
        _, p = g.pattern(rng.randint(2, 6))
        if any(x in p for x in "^$."):
            pats.append(p)
    tuples = []
    for p in pats:
        for fl in ("", "m", "s", "ms"):
            for inp in (inputs if len(p) < 8 or not ctx.quick else rng.sample(inputs, 60 if "{" in p or len(p) > 12 else 120)):
                tuples.append(("xpath", fl, p, inp, ""))
    # the dot under the XSD dialect: flag s is read there as well (own generator state)
    rng_x = random.Random(ctx.seed * 49979693 + 12)
    for p in [".", "a.b", ".*", "<.*>", "a.+b", "[^a].", ".{2}", "a.?b", "(.)b", "a(?:.|x)b"]:
        for fl in ("", "s", "ms", "si"):
            for inp in rng_x.sample(inputs, 40) + ["a\nb", "a\rb", "<a\nb>", "\n", "a\n\nb"]:
                tuples.append(("xsd", fl, p, inp, ""))
    cases = mk_cases(tuples, "ma")
    code, model, dis = run_slice(cases)
    spec = spec_match(cases)
    violations, nontrivial = [], set()
    hist = collections.Counter()
    for c in cases:
        s, r = spec.get(c.cid, {}), code.get(c.cid, {})
        if s.get("V") != "valid" or r.get("C") != "ok" or s.get("bok") != "1":
            continue
        same = same_as_model(code, model, c.cid)
        nontrivial.add((c.flags, c.pattern, c.input))
        exp = s.get("L", s.get("RM"))
        hist["match" if exp == "1" else "nomatch"] += 1
        if r.get("M") != exp:
            violations.append(viol(c, "is_match=" + exp, "is_match=" + str(r.get("M")),
                                   "anchors / dot do not follow the position predicates of flags m and s", s, same))
            continue
        if s.get("nullable") == "0" and s.get("strict") == "1":
            a = parse_analyze(r.get("A", ""))
            if a is not None:
                spans = code_spans(a)[0]
                sspans, _ = spec_spans(s.get("SP", ""))
                if spans != sspans:
                    violations.append(viol(c, {"spans": sspans}, {"spans": spans},
                                           "match spans of a pattern with anchors / dot differ from the specification", s, same))
    return result(ctx, cases, dis, violations, nontrivial,
                  f"42 hand-written + seeded random patterns with ^, $ and . in every position (start, end, middle, inside groups and alternations, quantified) x every input of length <= {ctx.n(4, 5)} over {{a,b,LF,CR}} x the four combinations of m and s; is_match and spans against the position predicates of the specification",
                  {"distribution": dict(hist), "exhaustive": True})


# ================================================================ C13
def slice_C13(ctx):
    rng = ctx.rng
    alphabet = "()[]{}\\?*+|.^$ab A\n"
    pats = [p for p in gen.all_strings("([\\?*.^$a", 2) if p] + ["(", ")", "a(", "[a", "a]", "\\", "\\d", "a|b", "a{2}", "^a$", "(?:",
                                                                   "$1", ".*", " a ", "a\nb", "((", "))", "[]", "[^]", "{", "}", "a**"]
    for _ in range(ctx.n(400, 4000)):
        pats.append("".join(rng.choice(alphabet) for _ in range(rng.randint(1, 5))))
    tuples = []
    for p in pats:
        for fl in ("q", "qi", "qm", "qs", "qx", "iq", "qq"):
            for _ in range(ctx.n(2, 4)):
                k = rng.random()
                filler = "".join(rng.choice(alphabet) for _ in range(rng.randint(0, 4)))
                if k < 0.5:
                    inp = filler + p + filler[::-1] + (p if rng.random() < 0.3 else "")
                elif k < 0.7:
                    inp = filler + p.swapcase() + filler
                else:
                    inp = filler
                tuples.append(("xpath", fl, p, inp, rng.choice(["$1", "\\", "$", "x", "$0", "\\$", "(a)"])))
    # the empty literal occurs in every string, the empty one included, so it is rejected up front
    for fl in ("q", "qi", "qm", "qs", "qx"):
        for inp in ("", "a", "abc", "\n"):
            tuples.append(("xpath", fl, "", inp, "x"))
    tuples.append(("xsd", "q", "a", "a", "x"))
    # characters whose case mappings are not one-to-one or not ASCII (U+0130 lowercases to two characters,
    # sharp s uppercases to two, final sigma, Kelvin sign, long s, ligatures, Deseret): whatever the
    # case-blind comparison does with them, a literal occurs in an input that contains it verbatim -
    # a claim that needs no case-folding oracle (own generator state)
    rng_e = random.Random(ctx.seed * 15485863 + 13)
    special = "\u0130\u0131\u00df\u1e9e\u0149\u01f0\u0390\ufb01\u212a\u017f\u03a3\u03c3\u03c2\u01c5\u00b5\u039c\U00010400\U00010428iIkKsS ()$"
    n_embed = 0
    for _ in range(ctx.n(400, 4000)):
        pe = "".join(rng_e.choice(special) for _ in range(rng_e.randint(1, 5)))
        f1 = "".join(rng_e.choice(special) for _ in range(rng_e.randint(0, 3)))
        f2 = "".join(rng_e.choice(special) for _ in range(rng_e.randint(0, 3)))
        for fl in ("qi", "q", "iq"):
            tuples.append(("xpath", fl, pe, f1 + pe + f2, rng_e.choice(["$0\\", "x", ""]), "embed"))
            n_embed += 1
    cases = mk_cases(tuples, "mrta")
    code, model, dis = run_slice(cases)
    violations, nontrivial = [], set()
    hist = collections.Counter()
    for c in cases:
        r = code.get(c.cid, {})
        same = same_as_model(code, model, c.cid)
        if c.tag == "embed":
            nontrivial.add(c.key())
            hist["embed"] += 1
            if r.get("C") != "ok" or r.get("M") != "1":
                violations.append(viol(c, "is_match=1", {"C": r.get("C"), "M": r.get("M")},
                                       "with flag q a literal does not occur in an input that contains it verbatim", None, same))
            elif c.repl == "" and "q" in c.flags and r.get("R", "").startswith("ok:") and len(tie.dec(r["R"][3:])) > len(c.input) - len(c.pattern):
                violations.append(viol(c, "an occurrence removed", r.get("R"),
                                       "replace_all with the empty replacement does not remove an occurrence of the literal", None, same))
            continue
        if c.dialect == "xsd":
            if r.get("C") != "E:InvalidFlags":
                violations.append(viol(c, "E:InvalidFlags", r.get("C"), "flag q accepted in the XSD dialect", None, same))
            continue
        if r.get("C") != "ok":
            violations.append(viol(c, "accepted", r.get("C"), "a literal pattern is rejected under flag q", None, same))
            continue
        ci = "i" in c.flags
        # ASCII-only letters in this alphabet: simple case folding = str.lower
        hay, needle = (c.input.lower(), c.pattern.lower()) if ci else (c.input, c.pattern)
        exp_m = "1" if needle in hay else "0"
        nontrivial.add(c.key())
        hist["match" if exp_m == "1" else "nomatch"] += 1
        if r.get("M") != exp_m:
            violations.append(viol(c, "is_match=" + exp_m, "is_match=" + str(r.get("M")),
                                   "with flag q is_match is not plain substring search", None, same))
            continue
        if c.pattern == "":
            for k in ("R", "A"):
                if r.get(k) != "E:MatchesEmptyString":
                    violations.append(viol(c, "E:MatchesEmptyString", r.get(k), "empty literal", None, same))
            continue
        # occurrences, leftmost non-overlapping
        pieces, pos, n = [], 0, len(needle)
        occ = []
        while True:
            j = hay.find(needle, pos)
            if j < 0:
                break
            pieces.append(c.input[pos:j])
            occ.append((j, j + n))
            pos = j + n
        pieces.append(c.input[pos:])
        exp_rep = "ok:" + tie.enc(c.repl.join(pieces))
        exp_tok = pieces if c.input else []
        toks = parse_tokens(r.get("T", ""))
        a = parse_analyze(r.get("A", ""))
        problems = []
        if r.get("R") != exp_rep:
            problems.append("replace_all does not use the replacement verbatim")
        if toks != exp_tok:
            problems.append("tokenize differs from splitting at the literal")
        if a is None:
            problems.append("analyze fails")
        else:
            if code_spans(a)[0] != occ:
                problems.append("analyze spans differ from the occurrences of the literal")
            if any(any(x[0] == "G" for x in e[1]) for e in a if e[0] == "M"):
                problems.append("analyze reports a capture group for a literal pattern")
        if problems:
            violations.append(viol(c, {"R": exp_rep, "T": exp_tok, "spans": occ}, r, "; ".join(problems), None, same))
    return result(ctx, cases, dis, violations, nontrivial,
                  "all strings <= 2 over the metacharacter alphabet ([\\?*.^$a, hand-picked literals (unbalanced brackets, dangling backslash, quantifiers) and random strings over the full metacharacter alphabet, under q / qi / qm / qs / qx / iq / qq; inputs that contain the literal, its case-swapped form, or neither; all four APIs against substring search, str.replace and split",
                  {"distribution": dict(hist)})


# ================================================================ C14
WS = "\t\n\r "
NOT_WS = "\x0c\x0b\xa0 　"


def tokenise_pattern(p):
    """split a pattern into tokens between which whitespace may be inserted (outside classes)"""
    toks, i, depth = [], 0, 0
    cur = ""
    while i < len(p):
        ch = p[i]
        if ch == "\\" and i + 1 < len(p):
            unit = p[i:i + 2]
            if unit in ("\\p", "\\P") and i + 2 < len(p) and p[i + 2] == "{":
                j = p.find("}", i)
                unit = p[i:j + 1] if j > 0 else unit
            i += len(unit)
        else:
            unit = ch
            i += 1
            if ch == "[":
                depth += 1
            elif ch == "]":
                depth -= 1
        if depth > 0 or (unit == "]" and depth == 0 and cur):
            cur += unit
            if depth == 0:
                toks.append(cur)
                cur = ""
        else:
            toks.append(unit)
    if cur:
        toks.append(cur)
    return toks


def slice_C14(ctx):
    rng = ctx.rng
    cases, pairs = [], []
    cid = 0
    for _ in range(ctx.n(2500, 25000)):
        al = rng.choice(["ab", "abc", "ab1", "a[b", "a]b", "a\\b", "a[]b"])
        g = gen.Gen(rng, alphabet=al)
        ast, pat = g.pattern(rng.randint(1, 9))
        if rng.random() < 0.1:
            pat = gen.mutate(rng, pat)          # rejected iff the stripped pattern is
        toks = tokenise_pattern(pat)
        ws_pat = ""
        for t in toks:
            if rng.random() < 0.35:
                ws_pat += "".join(rng.choice(WS) for _ in range(rng.randint(1, 2)))
            if len(t) >= 2 and t[0] == "\\" and not t.startswith("[") and rng.random() < 0.3:
                t = "\\" + rng.choice(WS) + t[1:]          # whitespace after the backslash itself
            ws_pat += t
            # whitespace after a backslash belongs to the property too: "\ n" -> "\n"
        if rng.random() < 0.3:
            ws_pat += rng.choice(WS)
        fl = rng.choice(["", "i", "m", "s"])
        for inp in gen.inputs_for(rng, al + " ", 3):
            a = Case(cid, "xpath", fl, pat, inp, "<$0>", "mrta", tag="orig")
            b = Case(cid + 1, "xpath", fl + "x", ws_pat, inp, "<$0>", "mrta", tag="ws")
            cases += [a, b]
            pairs.append((str(cid), str(cid + 1)))
            cid += 2
    # the same under the XSD dialect (own generator state; only syntax both dialects have)
    rng_x = random.Random(ctx.seed * 15487469 + 14)
    for _ in range(ctx.n(500, 5000)):
        al = rng_x.choice(["ab", "abc", "ab1", "a[b", "a]b"])
        g = gen.Gen(rng_x, alphabet=al, feats={"cls", "grp", "alt", "quant", "esc", "dot"})
        ast, pat = g.pattern(rng_x.randint(1, 7))
        toks = tokenise_pattern(pat)
        ws_pat = ""
        for t in toks:
            if rng_x.random() < 0.4:
                ws_pat += "".join(rng_x.choice(WS) for _ in range(rng_x.randint(1, 2)))
            ws_pat += t
        if rng_x.random() < 0.3:
            ws_pat += rng_x.choice(WS)
        fl = rng_x.choice(["", "i", "s"])
        for inp in gen.inputs_for(rng_x, al + " ", 3):
            a = Case(cid, "xsd", fl, pat, inp, "<$0>", "mrta", tag="orig-xsd")
            b = Case(cid + 1, "xsd", fl + "x", ws_pat, inp, "<$0>", "mrta", tag="ws-xsd")
            cases += [a, b]
            pairs.append((str(cid), str(cid + 1)))
            cid += 2
    # whitespace inside classes is kept; other characters are never removed
    keep = []
    for p, inp, exp in [("[ ]", " ", "1"), ("[ ]", "a", "0"), ("[a b]", " ", "1"), ("a[ ]b", "a b", "1"), ("a[ ]b", "ab", "0"),
                        ("[^ ]", " ", "0"), ("[a-[ ]]", "a", "1"), ("\\[ a", "[a", "1"),
                        ("a\\ b", "ab", None), ("[\\] ]", " ", "1"), ("[\\]] a", "]a", "1"),
                        # line feed, carriage return and tab inside a class are members like the blank
                        ("[\n]", "\n", "1"), ("[\n]", "a", "0"), ("[a\nb]", "\n", "1"), ("a[\r\n]b", "a\nb", "1"), ("a[\r\n]b", "a\rb", "1"),
                        ("[^\r]", "\r", "0"), ("[\t\n]+x", "\t\nx", "1"), ("[;\n] +", ";", "1"), ("[;\n] +", "\n", "1"), ("[\t]", "\t", "1"),
                        ("[a-[\n]]", "\n", "0"), ("[\n-\r]", "\x0b", "1")]:
        c = Case(cid, "xpath", "x", p, inp, "", "m", tag="class-ws")
        cases.append(c)
        keep.append((str(cid), exp))
        cid += 1
    # '#' is an ordinary character under flag x: it starts no remark
    for (p, inp, exp) in (("a#b", "a", "0"), ("a#b", "a#b", "1"), ("a #b", "a#b", "1"), ("a#\nb", "a#b", "1"), ("a#\nb", "ab", "0"), ("#", "#", "1"),
                          ("a # b\n c", "a#bc", "1"), ("a # b\n c", "ac", "0"), ("# a", "a", "0"), ("[#] a", "#a", "1")):
        c = Case(cid, "xpath", "x", p, inp, "", "m", tag="not-ws")
        cases.append(c)
        keep.append((str(cid), exp))
        cid += 1
    for p in ("a #(", "a#(", "#)", "a # [", "a#*"):
        for inp in ("a", "a#"):
            a = Case(cid, "xpath", "", p.replace(" ", ""), inp, "<$0>", "mrta", tag="orig")
            b = Case(cid + 1, "xpath", "x", p, inp, "<$0>", "mrta", tag="ws")
            cases += [a, b]
            pairs.append((str(cid), str(cid + 1)))
            cid += 2
    for w in NOT_WS:
        for (p, inp, exp) in (("a" + w + "b", "ab", "0"), ("a" + w + "b", "a" + w + "b", "1")):
            c = Case(cid, "xpath", "x", p, inp, "", "m", tag="not-ws")
            cases.append(c)
            keep.append((str(cid), exp))
            cid += 1
    code, model, dis = run_slice(cases)
    byid = {c.cid: c for c in cases}
    violations, nontrivial = [], set()
    hist = collections.Counter()
    for a, b in pairs:
        ra, rb = code.get(a, {}), code.get(b, {})
        hist[ra.get("C", "?")] += 1
        if ra.get("C") == "ok":
            nontrivial.add(byid[b].key())
        if ra != rb:
            violations.append(viol(byid[b], ra, rb, "under flag x the pattern with whitespace inserted behaves differently from the pattern without it (%r)" % byid[a].pattern,
                                   None, same_as_model(code, model, b)))
    for i, exp in keep:
        r = code.get(i, {})
        if exp is not None and r.get("M") != exp:
            violations.append(viol(byid[i], "is_match=" + exp, r, "whitespace inside a class must be kept / a non-whitespace character must never be removed",
                                   None, same_as_model(code, model, i)))
    return result(ctx, cases, dis, violations, nontrivial,
                  "metamorphic pairs: a generated (sometimes mutated, hence invalid) pattern without x vs the same pattern with U+9/A/D/20 inserted at token boundaries outside classes (also after backslashes, next to escaped brackets, at the end) under x: all five API results must be identical; plus whitespace inside classes and FF, VT, NBSP, U+2028, U+3000 which must stay",
                  {"distribution": dict(hist)})


# ================================================================ C15
C15_PATTERNS = [
    ("ab", 0), ("a+", 0), ("(a)b", 1), ("(a)|b", 1), ("(a)(b)?", 2), ("((a)|(b))c", 3),
    ("(a)(b)(c)(d)(e)(f)(g)(h)(i)", 9), ("(a)(b)(c)(d)(e)(f)(g)(h)(i)(j)", 10),
    ("(a)(b)(c)(d)(e)(f)(g)(h)(i)(j)(k)(l)", 12), ("(a)(b)(c)(d)(e)(f)(g)(h)(i)(j)(k)?(l)?", 12),
    # more than nine groups of which none beyond the ninth takes part in some matches: whether $10 is group 10
    # or group 1 followed by 0 depends on the pattern, not on the match at hand
    ("(a)(b)(c)(d)(e)(f)(g)(h)(i)(j)?(k)?", 11),
    # groups the compiler can discard (quantified {0}) still count as groups of the pattern
    ("(a)(b){0}(c)", 3), ("(a)(b)(c)(d)(e)(f)(g)(h)(i){0}(j)", 10), ("(a)(){0}(c)(d)(e)(f)(g)(h)(i)(j)(k){0,0}", 11),
]
C15_INPUTS = ["", "xyz", "ab", "xabcdefghijklx", "abcdefghijklabcdefghij", "bcacab", "aab ac", "abcdefghi", "abcdefghij-abcdefghi", "xacx", "abcdefghj", "acdefghij"]


def slice_C15(ctx):
    rng = ctx.rng
    alphabet = "$\\0129a"
    repls = gen.all_strings(alphabet, ctx.n(3, 4))
    for _ in range(ctx.n(300, 3000)):
        repls.append("".join(rng.choice(alphabet + "1$") for _ in range(rng.randint(4, 8))))
    # what follows '$' or '\\' must be judged as the grammar says: ASCII digits only, '$' and '\\' only -
    # not "numeric" or "punctuation" in some wider sense (own generator state)
    rng_u = random.Random(ctx.seed * 49979687 + 15)
    odd = "\u00b2\u00bd\u0663\u2167\uff11\u0967\U0001d7d1 \u00a0\uff04\uff3c\u0024x"
    for _ in range(ctx.n(250, 2500)):
        k = rng_u.randint(1, 4)
        t = "".join(rng_u.choice(["$" + rng_u.choice(odd), "\\" + rng_u.choice(odd), rng_u.choice("a1$\\"), "$1", rng_u.choice(odd)])
                    for _ in range(k))
        repls.append(t)
    cases, meta = [], {}
    cid = 0
    for pat, k in C15_PATTERNS:
        for inp in C15_INPUTS:
            rs = repls if (not ctx.quick or k in (1, 11, 12)) else rng.sample(repls, 160) + ['$10', '<$10>', '[$1|$2|$3]', '$3', '$11', '$2$3']
            for r in rs:
                c = Case(cid, "xpath", "", pat, inp, r, "ra", tag=f"groups={k}")
                cases.append(c)
                meta[c.cid] = k
                cid += 1
    code, model, dis = run_slice(cases)
    # oracle: the code's replace_all against Spec.Repl applied to the code's own analyze output
    spec_lines, plan = [], {}
    for c in cases:
        a = parse_analyze(code.get(c.cid, {}).get("A", ""))
        if a is None:
            continue
        k = meta[c.cid]
        plan[c.cid] = []
        for j, e in enumerate(a):
            if e[0] == "M":
                groups = tree_groups(e[1])
                caps = [tree_text(e[1])] + [groups.get(g) for g in range(1, k + 1)]
                sid = f"{c.cid}.{j}"
                spec_lines.append("\t".join([sid, "expand", str(k), tie.enc(c.repl),
                                             "|".join("~" if x is None else tie.enc(x) for x in caps)]))
                plan[c.cid].append(("M", sid))
            else:
                plan[c.cid].append(("N", e[1]))
    spec = spec_call(spec_lines)
    violations, nontrivial = [], set()
    hist = collections.Counter()
    for c in cases:
        same = same_as_model(code, model, c.cid)
        if c.cid not in plan:
            violations.append(viol(c, "analyze and replace_all complete normally", code.get(c.cid, {}),
                                   "abnormal outcome on a non-nullable pattern", None, same))
            continue
        got = code[c.cid].get("R")
        pl = plan[c.cid]
        if not any(x[0] == "M" for x in pl):
            expected = "ok:" + tie.enc(c.input)
            hist["no_match"] += 1
        else:
            outs = [spec[x[1]] if x[0] == "M" else "ok:" + tie.enc(x[1]) for x in pl]
            if any(o == "invalid" for o in outs):
                expected = "E:InvalidReplacementString"
                hist["invalid_repl"] += 1
            else:
                expected = "ok:" + tie.enc("".join(tie.dec(o[3:]) for o in outs))
                hist["expanded"] += 1
            nontrivial.add(c.key())
        if got != expected:
            violations.append(viol(c, expected, got, "replace_all differs from the replacement grammar applied to the code's own matches and groups",
                                   None, same))
    # "a group that did not participate contributes nothing": here the groups come from the
    # specification's selected path, not from the code's own analyze output - alternatives that match
    # and are abandoned, groups under reluctant quantifiers left out of the reported match
    tuples2 = []
    for d, fl, pat, inp, rp in capalt_stream(ctx, ctx.n(600, 6000)) + staleend_stream(ctx, ctx.n(300, 3000)) + relgroup_stream(ctx, ctx.n(600, 6000)):
        tuples2.append((d, fl, pat, inp, rp, "participation"))
    cases2 = mk_cases(tuples2, "ra")
    for c in cases2:
        c.cid = "p" + str(c.cid)
    code2, model2, dis2 = run_slice(cases2)
    spec2 = spec_match(cases2)
    for c in cases2:
        s_, r_ = spec2.get(c.cid, {}), code2.get(c.cid, {})
        if s_.get("V") != "valid" or r_.get("C") != "ok" or s_.get("bok") != "1" or s_.get("nullable") != "0" or s_.get("strict") != "1":
            continue
        # the spans too are the specification's: a change that corrupts the captures may corrupt what
        # analyze reports as well
        sspans, sgroups = spec_spans(s_.get("SP", ""))
        spans = sspans
        if not spans:
            continue
        ng = len(parent_map(c.pattern))
        exp, pos = "", 0
        for k, (i, j) in enumerate(spans):
            exp += c.input[pos:i]
            txts = []
            for gi in range(1, c.repl.count("$") + 1):
                g = sgroups[k][gi - 1] if (gi <= ng and gi - 1 < len(sgroups[k])) else "~"
                txts.append("" if g == "~" else c.input[int(g.split("-")[0]):int(g.split("-")[1])])
            # $N with N above the group count: a single digit is read, the group does not exist
            exp += "[" + "|".join(txts) + "]"
            pos = j
        exp += c.input[pos:]
        nontrivial.add(c.key())
        hist["participation"] += 1
        if r_.get("R") != "ok:" + tie.enc(exp):
            violations.append(viol(c, "ok:" + tie.enc(exp), r_.get("R"),
                                   "$N gives the text of a group that did not take part in the match (or not the text it captured on the selected path)",
                                   s_, same_as_model(code2, model2, c.cid)))
    cases = cases + cases2
    dis = dis + dis2
    return result(ctx, cases, dis, violations, nontrivial,
                  "all replacement strings up to length %d over {$,\\,0,1,2,9,a} plus a seeded random stream, x 10 patterns with 0..12 groups x 7 inputs (0/1/2+ matches); alternations of capturing groups / groups under reluctant quantifiers / groups completed on an abandoned path with the replacement [$1|$2|$3] against the specification's selected path; non-trivial = distinct (pattern,input,replacement) with at least one match" % ctx.n(3, 4),
                  {"distribution": dict(hist), "exhaustive": False})


# ================================================================ C16
def slice_C16(ctx):
    rng = ctx.rng
    tuples = []
    hand = ["", "a?", "a*", "a*?", "(?:a|)", "(a)?", "^", "$", "^$", "^*", "(?:^|a)", "a|", "|a", "()", "(a*)(b*)", "a{0}", "a{0,2}", "(?:a?)+",
            "(?:a|b?)", "(a?)\\1", "(a)?\\1", "(a|b)*\\1?", "(?:(a)|b)\\1", "a", "a+", "ab?", "^a", "a$", "(a)\\1", "(a?)b\\1", "\\n?", ".?", ".*",
            "[ab]*", "(?:a*)*", "(?:a+)?", "(?:a|^)", "(?:$|a)+", "(?:a(A))*\\1", "(^a)?", "(?:^a)*b?"]
    for p in hand:
        for fl in ("", "m", "i"):
            for inp in ("", "a", "ab", "ba\n", "aab"):
                tuples.append(("xpath", fl, p, inp, "-"))
    for d, fl, pat, inp, ast in random_stream(ctx, ctx.n(8000, 80000), per_pattern=3, size=(1, 6),
                                              dialects=("xpath", "xpath", "xsd"), extra_inputs=("",)):
        tuples.append((d, fl, pat, inp, "-"))
    # a counted repeat over a body that is zero-width only where an anchor or a back-reference to
    # an empty group holds: on the empty input every repetition is empty (own generator state)
    rng_c = random.Random(ctx.seed * 49979687 + 3)
    for _ in range(ctx.n(400, 4000)):
        z = rng_c.choice(["^", "$", "^", "$", "\\1", "(?:^|$)", "^$"])
        l = rng_c.choice(["a", "b", "ab", "[ab]"])
        body = rng_c.choice(["%s|%s", "%s|%s", "%s|%s|c"]) % ((z, l) if rng_c.random() < 0.6 else (l, z))
        n = rng_c.choice([2, 2, 3, 4])
        q = rng_c.choice(["{%d}" % n, "{%d,}" % n, "{%d,%d}" % (n, n + 1), "{%d}?" % n])
        pre = "(x?)" if "\\1" in z else rng_c.choice(["", "", "b?", "(?:)"])
        post = rng_c.choice(["", "", "b?", "$"])
        p_ = pre + "(?:" + body + ")" + q + post
        for inp in ("", "ab", "b", "aab", "ba"):
            tuples.append(("xpath", rng_c.choice(["", "m"]), p_, inp, "X"))
    # flag q: the empty literal is the one literal that matches the zero-length string
    for fl in ("q", "qi", "qm", "qx"):
        for p in ("", "a", "(", "a*"):
            for inp in ("", "a", "abc", "a*a"):
                tuples.append(("xpath", fl, p, inp, "-"))
    cases = mk_cases(tuples, "mrta")
    code, model, dis = run_slice(cases)
    spec = spec_match(cases)
    violations, nontrivial = [], set()
    hist = collections.Counter()
    for c in cases:
        s, r = spec.get(c.cid, {}), code.get(c.cid, {})
        if r.get("C") != "ok":
            continue
        same = same_as_model(code, model, c.cid)
        errs = [r.get("R") == "E:MatchesEmptyString", r.get("A") == "E:MatchesEmptyString"]
        if "q" in c.flags:
            # a literal matches the zero-length string iff it is empty
            nullable_q = (c.pattern == "")
            if errs[0] != nullable_q or errs[1] != nullable_q or (c.input != "" and (r.get("T") == "E:MatchesEmptyString") != nullable_q):
                violations.append(viol(c, "MatchesEmptyString iff the literal is empty", r,
                                       "the up-front rejection of a literal (flag q) regex is wrong in one of the three APIs", None, same))
            continue
        tok_err = r.get("T") == "E:MatchesEmptyString"
        problems = []
        if errs[0] != errs[1]:
            problems.append("replace_all and analyze disagree about MatchesEmptyString")
        if c.input == "":
            if r.get("T") != "ok:[]":
                problems.append("tokenize on the empty input does not return no tokens")
        elif tok_err != errs[0]:
            problems.append("tokenize disagrees with replace_all about MatchesEmptyString")
        if s.get("V") == "valid" and s.get("bok") == "1":
            nullable = s.get("nullable") == "1"
            nontrivial.add((c.dialect, c.flags, c.pattern))
            hist["nullable" if nullable else "non-nullable"] += 1
            if nullable != errs[0]:
                problems.append(f"the regex {'matches' if nullable else 'does not match'} the zero-length string but replace_all returns {r.get('R')}")
        if not errs[0] and not problems:
            a = parse_analyze(r.get("A", ""))
            if a is None:
                problems.append("analyze does not complete")
            elif any(e[0] == "M" and tree_text(e[1]) == "" for e in a):
                problems.append("a zero-length match is reported")
        if problems:
            violations.append(viol(c, "MatchesEmptyString iff the regex matches the zero-length string; no zero-length match otherwise",
                                   r, "; ".join(problems), s, same))
    return result(ctx, cases, dis, violations, nontrivial,
                  "41 hand-written nullable / non-nullable / anchors-only / optional-group / back-reference shapes x 3 flag sets x 5 inputs, plus seeded random patterns in both dialects x 4 inputs; the up-front error of replace_all / analyze / tokenize against the specification's 'matches the zero-length string', tokenize on the empty input, and absence of zero-length matches",
                  {"distribution": dict(hist)})


# ================================================================ C17
def slice_C17(ctx):
    rng = ctx.rng
    base = grammar_check(ctx, ("xsd",), "C17")
    # the common subset: identical results under both dialects
    cases, pairs = [], []
    cid = 10 ** 7
    ext = ["a*?", "a+?b", "a??", "a{1,2}?", "(?:a)", "(?:a|b)c", "(a)\\1", "\\$", "a\\$b", "(a)(b)\\2", "^a", "a$", "^", "$", "a^b", "a$b", "[$^]", "a|^", "(^)", "\\^",
           # ^ and $ as quantified ordinary characters
           "^+a", "^{2}a", "^?a", "^*b", "a$+", "$+b", "(^)+a", "^+$+"]
    extra = []
    for p in ext:
        for inp in ("", "a", "ab", "aa", "a$b", "a^b", "^a", "a$", "$", "^", "$^", "x^ay", "b\n^a", "a$\nb", "b^a", "b^^a", "^^a", "ba$$", "x$$b", "^$"):
            # the flags do not change what is syntax: ^ and $ stay ordinary characters under m as well
            for fl in ("", "m", "ms", "i"):
                extra.append(("xsd", fl, p, inp, "-", "ext"))
                # the XPath spelling of what the XSD pattern means: ^ and $ escaped
                extra.append(("xpath", fl, p.replace("\\^", "^").replace("^", "\\^").replace("$", "\\$"), inp, "-", "ext-twin"))
            extra.append(("xpath", "", p, inp, "-", "ext"))
    for d, fl, pat, inp, ast in random_stream(ctx, ctx.n(6000, 60000), feats={"cls", "esc", "grp", "alt", "quant", "dot"},
                                              flagsets=["", "i", "s", "is", "x"], per_pattern=3, dialects=("xsd",)):
        a = Case(cid, "xsd", fl, pat, inp, "[$1]", "mrta", tag="common")
        b = Case(cid + 1, "xpath", fl, pat, inp, "[$1]", "mrta", tag="common")
        cases += [a, b]
        pairs.append((str(cid), str(cid + 1)))
        cid += 2
    # text that only looks like an XPath extension: an escaped or bracketed '(' before '?:', an escaped
    # backslash before a digit, '??' / '*?' whose first character is escaped or in a class
    for pat in ["\\(?:\\d+", "[(?:]+", "a\\(?:b", "[(]?:", "\\(?:", "x\\(?:y|z", "\\\\1a", "[\\\\]1", "a\\??", "[?]?a", "a\\*?b", "[*]?b", "(a)\\\\1"]:
        for inp in ("a(:1b:22", "(:", "a(:b", "(?:", "\\1a", "a?", "a*b", "ab", "x(:y", "a", ""):
            for fl in ("", "i"):
                a = Case(cid, "xsd", fl, pat, inp, "[$1]", "mrta", tag="common")
                b = Case(cid + 1, "xpath", fl, pat, inp, "[$1]", "mrta", tag="common")
                cases += [a, b]
                pairs.append((str(cid), str(cid + 1)))
                cid += 2
    ext_cases = mk_cases(extra, "mrta", start=cid)
    code, model, dis = run_slice(cases + ext_cases)
    byid = {c.cid: c for c in cases + ext_cases}
    violations = base["violations"]
    nontrivial = set()
    for a, b in pairs:
        ra, rb = code.get(a, {}), code.get(b, {})
        if ra.get("C") != rb.get("C") and rb.get("C") == "ok":
            violations.append(viol(byid[a], "accepted (it uses no XPath extension: " + str(rb.get("C")) + " under XPath)", ra.get("C"),
                                   "a pattern of the common subset is rejected by Regex::xsd", None,
                                   same_as_model(code, model, a) and same_as_model(code, model, b)))
        if ra.get("C") == "ok" and rb.get("C") == "ok" and "^" not in byid[a].pattern and "$" not in byid[a].pattern:
            nontrivial.add(byid[a].key())
            if ra != rb:
                violations.append(viol(byid[a], rb, ra, "a pattern of the common subset behaves differently under the two dialects",
                                       None, same_as_model(code, model, a) and same_as_model(code, model, b)))
    xpath_only = {"a*?", "a+?b", "a??", "a{1,2}?", "(?:a)", "(?:a|b)c", "(a)\\1", "\\$", "a\\$b", "(a)(b)\\2"}
    twins = {(c.flags, c.pattern, c.input): c for c in ext_cases if c.dialect == "xpath" and c.tag == "ext-twin"}
    for c in ext_cases:
        if c.dialect == "xsd" and c.pattern not in xpath_only:
            t = twins.get((c.flags, c.pattern.replace("\\^", "^").replace("^", "\\^").replace("$", "\\$"), c.input))
            if t is not None:
                rx, rt = code.get(c.cid, {}), code.get(t.cid, {})
                if rx.get("C") == "ok" and rt.get("C") == "ok" and any(rx.get(k) != rt.get(k) for k in ("M", "R", "T", "A")):
                    violations.append(viol(c, {k: rt.get(k) for k in ("M", "R", "T", "A")}, {k: rx.get(k) for k in ("M", "R", "T", "A")},
                                           "^ / $ do not behave as ordinary characters in the XSD dialect (compared with the XPath pattern %r)" % t.pattern,
                                           None, same_as_model(code, model, c.cid)))
    for c in ext_cases:
        r = code.get(c.cid, {})
        same = same_as_model(code, model, c.cid)
        if c.dialect != "xsd":
            continue
        if c.pattern in xpath_only:
            if r.get("C") == "ok":
                violations.append(viol(c, "rejected with an error", r.get("C"), "an XPath extension is accepted by Regex::xsd", None, same))
        else:
            # ^ and $ are ordinary characters
            lit = c.pattern.replace("\\^", "^")
            if r.get("C") != "ok":
                violations.append(viol(c, "accepted", r.get("C"), "^ / $ are not ordinary characters in the XSD dialect", None, same))
            elif c.pattern in ("^a", "a$", "^", "$", "a^b", "a$b", "\\^"):
                exp = "1" if lit in c.input else "0"
                if r.get("M") != exp:
                    violations.append(viol(c, "is_match=" + exp, r.get("M"), "^ / $ do not match themselves in the XSD dialect", None, same))
    allcases = cases + ext_cases
    r = result(ctx, allcases, base["disagreements"] + dis, violations, nontrivial | set(),
               base["rule"] + "; plus every generated XSD pattern compiled under both dialects (all five API results must be identical when both accept and the pattern has no ^ or $), the XPath extensions (reluctant quantifiers, (?:), back-references, \\$) which Regex::xsd must reject, and ^ / $ as ordinary characters",
               base["extra"])
    r["evaluations"] += base["evaluations"]
    r["distinct_nontrivial"] += base["distinct_nontrivial"]
    return r


# ================================================================ C18
def slice_C18(ctx):
    rng = ctx.rng
    # a pool of regexes and a history of calls with interleaved, partially consumed iterators
    pool = []        # (dialect, flags, pattern, alphabet its inputs are drawn from)
    while len(pool) < 5:
        al = rng.choice(["ab", "abc", "aAb"])
        g = gen.Gen(rng, alphabet=al)
        _, p = g.pattern(rng.randint(1, 7))
        pool.append(("xpath", rng.choice(["", "i", "m", "s"]), p, al))
    # shapes whose matching goes through the per-matcher scratch state (zero-length memo of a
    # variable-length repeat, captures, back-references) and the process-wide block table
    while len(pool) < 14:
        w1 = "".join(rng.choice("abc") for _ in range(rng.randint(1, 2)))
        w2 = "".join(rng.choice("abc") for _ in range(rng.randint(1, 2)))
        if len(w1) == len(w2):
            w2 += rng.choice("abc")
        tail = rng.choice("xd1")
        shape = rng.choice(["(?:%s|%s)*%s", "(%s|%s)*%s", "%s?(?:%s)*%s", "(?:%s|%s)*?%s", "(?:%s|%s){0,3}%s"])
        pool.append(("xpath", rng.choice(["", "", "i"]), shape % (w1, w2, tail), "abc" + tail + tail))
    pool += [("xpath", "", "^(?:yy|y|(?:ab|c)*d){3}$", "ydabc"), ("xpath", "", "(?:a|bc)*x", "abcxx1"),
             ("xpath", "", "(a|b)*\\1x", "abxx"), ("xpath", "", "(a)|(b)\\1?c", "abc"),
             ("xpath", "", "\\p{IsGreek}+|\\p{IsBasicLatin}", "aβγ1"), ("xsd", "", "[a-c]+", "abcx"),
             # the same flag string under both dialects, on syntax where the dialects differ: nothing
             # compiled earlier in the process may decide how these are read
             ("xsd", "", "a$", "a$"), ("xsd", "", "^a", "^a"), ("xpath", "", "^a$", "a^$"), ("xpath", "", "a$|^b", "ab$"),
             # the same pattern text and flags under both dialects, compiled one after the other, where
             # the two readings differ in whether the empty string matches
             ("xpath", "", "$", "a$b"), ("xsd", "", "$", "a$b"), ("xsd", "", "^a*", "a^b"), ("xpath", "", "^a*", "a^b"),
             ("xpath", "m", "(^|b)", "ab^\n"), ("xsd", "m", "(^|b)", "ab^\n"),
             # a class that is not the first term, on inputs that mix a BMP character with supplementary-plane
             # characters whose low 16 bits are the same
             ("xpath", "", "x[A-Z]", "xA\U00010041\U00020041Z"), ("xpath", "", "-[0-9]+", "-17\U00010037\U00010031a"),
             # patterns whose parentheses stand at the same offsets but nest differently or mean something else
             ("xpath", "", "(a|b)\\1", "ab"), ("xpath", "", "(x|y)\\1", "xy1"), ("xpath", "", "^(a|b|c)\\1$", "abc"),
             ("xpath", "", "(?:a(b?))", "ab"), ("xpath", "", "(aaa(b?))", "ab"), ("xpath", "", "(xy)(z\\))", "xyz)"), ("xpath", "", "(a\\)(b?))", "a)b")]
    ops, expect_cases = [], []
    handles = 0
    live = []
    nops = ctx.n(4000, 40000)
    for k in range(nops):
        r = rng.randrange(len(pool))
        inp = "".join(rng.choice(pool[r][3]) for _ in range(rng.randint(0, 9)))
        if live and rng.random() < 0.6:
            # another call on the very object (and often the very input) a live iterator is working on
            _, _, r, inp0 = rng.choice(live)
            inp = inp0 if rng.random() < 0.6 else "".join(rng.choice(pool[r][3]) for _ in range(rng.randint(0, 9)))
        kind = rng.random()
        if len(live) < 4 and kind < 0.25:
            which = "T" if rng.random() < 0.5 else "A"
            ops.append((which, r, inp, handles))
            live.append((which.lower(), handles, r, inp))
            handles += 1
        elif live and kind < 0.70:
            h = rng.choice(live)
            ops.append(("N", h[1]))
        elif live and kind < 0.74:
            h = live.pop(rng.randrange(len(live)))
            ops.append(("D", h[1]))
        elif kind < 0.87:
            ops.append(("m", r, inp))
        else:
            ops.append(("r", r, inp, rng.choice(["-", "$0", "[$1]"])))
    # a systematic tail: every regex of the pool, in pool order, analyzed and tokenized to the end on a few
    # inputs over its own alphabet (the random part reaches a given (regex, input, API) only now and then)
    for h in live:
        ops.append(("D", h[1]))
    live = []
    for r in range(len(pool)):
        al = pool[r][3]
        sys_inps = [al[:1] * 3, al[:1] * 4 + al[1:2], (al[:2] * 2)[:4], al[:3], "".join(rng.choice(al) for _ in range(5)), ""]
        for inp in sys_inps:
            for which in ("A", "T"):
                ops.append((which, r, inp, handles))
                for _ in range(2 * len(inp) + 3):
                    ops.append(("N", handles))
                ops.append(("D", handles))
                handles += 1
            ops.append(("m", r, inp))
            ops.append(("r", r, inp, "[$1]"))
    nops = len(ops)
    lines = []
    for i, (d, f, p, _al) in enumerate(pool):
        lines.append("\t".join(["R", str(i), d, tie.enc(f), tie.enc(p)]))
    for k, op in enumerate(ops):
        if op[0] == "m":
            lines.append("\t".join(["m", str(k), str(op[1]), tie.enc(op[2])]))
        elif op[0] == "r":
            lines.append("\t".join(["r", str(k), str(op[1]), tie.enc(op[2]), tie.enc(op[3])]))
        elif op[0] in ("T", "A"):
            lines.append("\t".join([op[0], str(k), str(op[1]), tie.enc(op[2]), str(op[3])]))
        else:
            lines.append("\t".join([op[0], str(k), str(op[1])]))
    os.makedirs(tie.WORK, exist_ok=True)
    path = os.path.join(tie.WORK, f"hist_{ctx.seed}.txt")
    open(path, "w").write("\n".join(lines) + "\n")
    outs = {}
    for mode in ("shared", "threads", "fresh", "threads-fresh"):
        p = subprocess.run([tie.HARNESS, "history", mode], stdin=open(path), capture_output=True, text=True)
        if p.returncode != 0:
            raise RuntimeError("history harness failed: " + p.stderr[-500:])
        outs[mode] = dict(l.split("\t", 1) for l in p.stdout.splitlines() if "\t" in l)
    # the model's pure function for every call: compile fresh, run the whole iterator
    cases, where = [], {}
    cid = 0
    hinfo = {}
    for k, op in enumerate(ops):
        if op[0] in ("m", "r"):
            d, f, p, _al = pool[op[1]]
            c = Case(cid, d, f, p, op[2], op[3] if op[0] == "r" else "", op[0])
            cases.append(c)
            where[k] = (c.cid, "M" if op[0] == "m" else "R")
            cid += 1
        elif op[0] in ("T", "A"):
            d, f, p, _al = pool[op[1]]
            c = Case(cid, d, f, p, op[2], "", op[0].lower())
            cases.append(c)
            hinfo[op[3]] = (c.cid, op[0], 0)
            where[k] = (c.cid, "open" + op[0])
            cid += 1
    code, model, dis = run_slice(cases)
    violations, nontrivial = [], set()
    byid = {c.cid: c for c in cases}
    # expected item sequence per handle from the model
    def items_of(res, kind):
        if res is None:
            return None
        v = res.get("T" if kind == "T" else "A")
        if v is None:
            return ["C:" + res.get("C", "?")]
        if not v.startswith("ok:"):
            return ["ERR:" + v]
        if kind == "T":
            toks = parse_tokens(v)
            return None if toks is None else ["tok:" + tie.enc(t) for t in toks]
        a = parse_analyze(v)
        if a is None:
            return None
        # re-encode each entry as the harness prints it
        out, pos, s = [], 3, v
        depth, start = 0, 3
        for i in range(3, len(s)):
            if s[i] == "(":
                depth += 1
            elif s[i] == ")":
                depth -= 1
                if depth == 0:
                    out.append("ent:" + s[start:i + 1])
                    start = i + 1
        return out
    progress = {}
    for k, op in enumerate(ops):
        for mode in ("shared", "threads", "fresh", "threads-fresh"):
            got = outs[mode].get(str(k))
            if op[0] in ("m", "r"):
                cidk, fld = where[k]
                res = model.get(cidk, {})
                exp = res.get(fld) if res.get("C") == "ok" else "C:" + res.get("C", "?")
                if got != exp:
                    violations.append({"case": byid[cidk].to_json(), "expected": exp, "got": got, "mode": mode, "op_index": k,
                                       "why": "a call's result differs from the pure function of (pattern, flags, dialect, arguments)",
                                       "history_file": path})
                else:
                    nontrivial.add((byid[cidk].key(), mode))
            elif op[0] in ("T", "A"):
                cidk, _ = where[k]
                res = model.get(cidk, {})
                seq = items_of(res, op[0])
                first = seq[0] if seq and (seq[0].startswith("ERR:") or seq[0].startswith("C:")) else "open"
                if got != first:
                    violations.append({"case": byid[cidk].to_json(), "expected": first, "got": got, "mode": mode, "op_index": k,
                                       "why": "opening an iterator gives a different outcome than on a fresh regex", "history_file": path})
            elif op[0] == "N":
                h = op[1]
                cidk, kind, _ = hinfo[h]
                seq = items_of(model.get(cidk, {}), kind)
                n = progress.get((mode, h), 0)
                if seq is None or (seq and (seq[0].startswith("ERR:") or seq[0].startswith("C:"))):
                    exp = "closed"
                else:
                    exp = seq[n] if n < len(seq) else "none"
                progress[(mode, h)] = n + 1
                if got != exp:
                    violations.append({"case": byid[cidk].to_json(), "expected": exp, "got": got, "mode": mode, "op_index": k,
                                       "why": f"item {n} of an interleaved iterator differs from the same iterator run alone on a fresh regex",
                                       "history_file": path})
                else:
                    nontrivial.add((byid[cidk].key(), mode, n))
    r = result(ctx, cases, dis, violations[:50], nontrivial,
               f"one seeded history of {nops} operations (is_match, replace_all, open tokenize/analyze, next on a live iterator, drop) over a pool of {len(pool)} regexes with interleaved, partially consumed iterators; executed on shared objects sequentially, from 8 threads on shared objects (each thread the whole history), on freshly compiled objects, and from 8 threads each compiling a fresh object for every use (compilations in both dialects concurrent with each other and with matching); every result compared with the model's pure function of (pattern, flags, dialect, arguments)",
               {"operations": nops, "modes": ["shared", "threads(8)", "fresh", "threads(8)-fresh"], "send_sync_assert": "compile-time assert in the harness"})
    r["evaluations"] = nops * 4
    return r


# ================================================================ C19
def slice_C19(ctx):
    rng = ctx.rng
    tuples = []
    hand = ["(a)\\1", "(a|b)\\1", "(a*)\\1", "(a)(b)\\2\\1", "(?:(a)|b)\\1", "(a)?\\1", "(a)|\\1b"[:0] or "(a)|b\\1", "(?:(a)|(b))\\2", "(a)\\1*", "(a\\1)"[:0] or "(a)(\\1)",
            "((a)\\2)", "(a+)b\\1", "(a+?)\\1", "(a|ab)\\1", "([ab])\\1", "(.)\\1", "(a)(b)(c)(d)(e)(f)(g)(h)(i)(j)\\10", "(a)(b)(c)(d)(e)(f)(g)(h)(i)(j)\\1" + "0",
            "(a)\\10", "(a)\\11", "(a)(b)\\12", "(a)\\1{2}", "(?:(a)\\1)+", "(a)(?:\\1|b)", "(a*)b\\1", "(a?)\\1c", "^(a)\\1$", "(a)x\\1", "(A)\\1", "(a)\\1\\1",
            # the group is entered more than once before the path that succeeds is found
            "^(a|ab)+?\\1$", "(a|ab)+?b\\1", "^((a|ab)b?)+?\\2$", "^(a|ab)*?\\1$", "^(?:(a|ab)b?)+?\\1$", "^(a+?b?)+?\\1$",
            "^(a|ab){1,2}?\\1$", "^(ab|a)+?\\1b?$",
            # a reluctant repeat over a one-character body whose later round can bypass the group
            # a repeat directly followed by a back-reference has to be able to give characters back to it
            "(a)a*\\1", "^(a|b)[ab]*\\1c$", "(b)b*\\1", "(a)[ab]+\\1", "(a)a*?\\1", "(a)a{1,3}\\1b", "([ab])[ab]*\\1$", "(a)a*\\1a",
            "^(?:b|(a)){1,2}?\\1c$", "(?:b|(a)){1,3}?\\1c", "^(?:(a)|b){2}?\\1$", "(?:b|(a))+?\\1c", "^(?:(a)|b){1,3}?b\\1$", "(?:(a)|[bc]){2,3}?\\1"]
    for p in hand:
        for fl in ("", "i"):
            for inp in gen.all_strings("ab", 4) + ["aA", "Aa", "abcdefghijj", "abcdefghija0", "a0", "aa0", "a1", "ab12", "aab", "aAa",
                                                    "abc", "abac", "bac", "abcc", "bbac", "ac", "aac", "bc", "abbc", "baac"]:
                tuples.append(("xpath", fl, p, inp, "<$1>"))
    # a group that captures differently from different start positions, a greedy variable-length star, then
    # the back-reference: the attempt from a later start position must not inherit what the star was
    # offered (and refused) at the same offset during an earlier attempt
    for p in ["(x?)y(?:ab|a)*\\1c", "(a?)b(?:ab|b)*\\1c", "(x?)y(?:ab|a)*?\\1c", "(x|)y(?:a|bc)*\\1c", "(x?)(?:ab|a)*\\1c", "(x?)y(z|ab)*\\1c",
              "(?:(x)|y)(?:ab|a)*\\1c", "(x??)y(?:ab|a)*\\1c"]:
        for inp in ("xyc", "yc", "xyxc", "xyac", "xyabc", "abc", "aabc", "xc", "c", "xxyc", "xyaxc"):
            tuples.append(("xpath", "", p, inp, "<$1>"))
    for d, fl, pat, inp, ast in random_stream(ctx, ctx.n(15000, 150000), feats={"grp", "bref", "alt", "quant", "reluctant", "nc", "cls"},
                                              flagsets=["", "i"], alphabets=["ab", "aAb", "abc"], per_pattern=5, size=(2, 8), groups=0.3, brefs=0.35):
        if gen.has(ast, {"bref"}):
            tuples.append((d, fl, pat, inp, "<$1>"))
    # a hundred groups and more: the number after the backslash is extended digit by digit as long as it
    # names a group, so \\100 is group 100 there and group 10 followed by a literal 0 with fewer groups
    for ng in (99, 100, 101, 105):
        head = "(a)" * (ng - 1) + "(b)"
        for ref, tail_in in (("\\100", "b"), ("\\100", "a0"), ("\\10", "a"), ("\\1000", "b0"), ("\\99", "a"), ("\\101", "b"), ("\\%d" % ng, "b")):
            for anch in (("^", "$"), ("", "")):
                pat_ = anch[0] + head + ref + anch[1]
                tuples.append(("xpath", "", pat_, "a" * (ng - 1) + "b" + tail_in, "<$1>"))
                tuples.append(("xpath", "", pat_, "a" * (ng - 1) + "b" + "a0", "<$1>"))
    # flag i compares a back-reference with its group case-blind - for every cased letter, not the
    # ASCII ones only (own generator state)
    rng_n = random.Random(ctx.seed * 32452867 + 19)
    pairs = ["\u00e9\u00c9", "\u0434\u0414", "\u03c3\u03a3", "\u00fc\u00dc", "kK", "\U00010428\U00010400"]
    for _ in range(ctx.n(300, 3000)):
        lo, up = rng_n.choice(pairs)
        x = rng_n.choice([lo, up])
        pat_ = rng_n.choice(["^(%s)\\1$", "(%s)\\1", "(%s+)-\\1", "(%sa|%s)\\1", "([%s])b\\1"]).replace("%s", x)
        for inp in (lo + up, up + lo, lo + lo, up + up, lo + "-" + up, up + "b" + lo, lo + "a" + up + "a", "a" + lo + up + "a", lo):
            tuples.append(("xpath", rng_n.choice(["i", "i", ""]), pat_, inp, "<$1>"))
    cases = mk_cases(tuples, "mra")
    code, model, dis = run_slice(cases)
    spec = spec_match(cases)
    violations, nontrivial = [], set()
    hist = collections.Counter()
    for c in cases:
        s, r = spec.get(c.cid, {}), code.get(c.cid, {})
        same = same_as_model(code, model, c.cid)
        if s.get("V") == "valid" and r.get("C") != "ok":
            violations.append(viol(c, "accepted", r.get("C"), "a valid pattern with back-references is rejected", s, same))
            continue
        if s.get("V") == "invalid" and r.get("C") == "ok":
            violations.append(viol(c, "E:Syntax", r.get("C"), "an ill-scoped back-reference is accepted", s, same))
            continue
        if s.get("V") != "valid" or s.get("bok") != "1" or r.get("C") != "ok":
            continue
        nontrivial.add((c.flags, c.pattern, c.input))
        hist["match" if s.get("RM") == "1" else "nomatch"] += 1
        if r.get("M") != s.get("RM"):
            violations.append(viol(c, "is_match=" + s.get("RM"), "is_match=" + str(r.get("M")),
                                   "is_match differs from an exhaustive exploration of all match paths with back-references as copies of their group", s, same))
            continue
        if s.get("nullable") == "0" and s.get("strict") == "1":
            a = parse_analyze(r.get("A", ""))
            if a is None:
                violations.append(viol(c, "analyze completes", r.get("A"), "abnormal analyze outcome", s, same))
                continue
            spans, groups, _ = code_spans(a)
            sspans, sgroups = spec_spans(s.get("SP", ""))
            if spans != sspans:
                violations.append(viol(c, {"spans": sspans}, {"spans": spans}, "spans differ from the ordered-choice reference", s, same))
    return result(ctx, cases, dis, violations, nontrivial,
                  "32 hand-written back-reference shapes (groups in sequence, in an earlier alternative, inside repetitions, optional, nested, 10+ groups with the longest-number rule) x {'', i} x every input <= 4 over {a,b} and digit-suffixed inputs, plus seeded random patterns containing back-references x 5 inputs; acceptance, is_match (all paths) and spans (ordered-choice reference)",
                  {"distribution": dict(hist)})


# ================================================================ C20
def rewrite_once(rng, node, alphabet):
    """apply one law of regular-expression algebra somewhere in the AST.  Returns (new, law, order_ok)
    or None.  order_ok: the law also preserves ordered choice (spans are compared)."""
    sites = []

    def walk(nd, path):
        sites.append((nd, path))
        t = nd[0]
        if t in ("grp", "nc"):
            walk(nd[1], path + (1,))
        elif t in ("seq", "alt"):
            for i, x in enumerate(nd[1]):
                walk(x, path + (1, i))
        elif t == "q":
            walk(nd[1], path + (1,))

    walk(node, ())
    rng.shuffle(sites)

    def nocap(nd):
        return gen.count_groups(nd) == 0

    for nd, path in sites:
        t = nd[0]
        opts = []
        if t not in ("alt",):
            opts.append((("nc", nd), "wrap in (?:)", True))
        opts.append((("q", nd, 1, 1, True), "r{1} = r", True))
        if t == "q" and nocap(nd[1]):
            body, mn, mx, gr = nd[1], nd[2], nd[3], nd[4]
            if gr and mx is not None and mx <= 4 and (mn, mx) != (1, 1):
                opt = ("q", ("nc", body), 0, 1, True)
                opts.append((("seq", [body] * mn + [opt] * (mx - mn)) if mx > 0 else ("seq", []),
                             "r{n,m} = n copies then m-n optional copies", True))
            if gr and mx is None and mn <= 4:
                opts.append((("seq", [body] * mn + [("q", body, 0, None, True)]), "r{n,} = n copies then r*", True))
            if gr and (mn, mx) == (1, None):
                opts.append((("seq", [body, ("q", body, 0, None, True)]), "r+ = rr*", True))
        if t == "chr":
            opts.append((("cls", False, [("c", nd[1])], None), "x = [x]", True))
        if t == "cls" and not nd[1] and nd[3] is None and all(it[0] == "c" for it in nd[2]) and len(nd[2]) == 2:
            opts.append((("nc", ("alt", [("chr", nd[2][0][1]), ("chr", nd[2][1][1])])), "[xy] = (?:x|y)", True))
        if nocap(nd):
            opts.append((("nc", ("alt", [nd, nd])), "r|r = r", True))
        if t == "seq" and len(nd[1]) >= 2 and nd[1][0][0] == "alt" and len(nd[1][0][1]) == 2 and nocap(nd):
            r_, s_ = nd[1][0][1]
            rest = nd[1][1:]
            opts.append((("nc", ("alt", [("seq", [r_] + rest), ("seq", [s_] + rest)])), "(?:r|s)t = rt|st", True))
        if t == "grp":
            opts.append((("__ungroup__", nd[1]), "unreferenced capturing group -> (?:)", True))
        if not opts:
            continue
        new, law, order_ok = rng.choice(opts)

        def rebuild(cur, pth):
            if not pth:
                return new
            t2 = cur[0]
            if t2 in ("grp", "nc"):
                return (t2, rebuild(cur[1], pth[1:]))
            if t2 == "q":
                return ("q", rebuild(cur[1], pth[1:]), cur[2], cur[3], cur[4])
            i = pth[1]
            l = list(cur[1])
            l[i] = rebuild(l[i], pth[2:])
            return (t2, l)

        out = rebuild(node, path)
        if new[0] == "__ungroup__":
            if gen.has(node, {"bref"}):
                continue
            out = rebuild(node, path)

            def fix(n_):
                if n_[0] == "__ungroup__":
                    return ("nc", fix(n_[1]))
                if n_[0] in ("grp", "nc"):
                    return (n_[0], fix(n_[1]))
                if n_[0] in ("seq", "alt"):
                    return (n_[0], [fix(x) for x in n_[1]])
                if n_[0] == "q":
                    return ("q", fix(n_[1]), n_[2], n_[3], n_[4])
                return n_
            out = fix(out)
        return out, law, order_ok
    return None


def slice_C20(ctx):
    rng = ctx.rng
    cases, pairs = [], []
    cid = 0
    laws = collections.Counter()
    # second stream (own generator state): flag i over alphabets with case-less characters and both
    # case forms of one letter, where "x = [x]" and the optimiser's first-character sets interact
    rng_i = random.Random(ctx.seed * 32452843 + 20)
    streams = [(rng, ["ab", "abc", "ab\n"], ["", "i", "m", "s"], ctx.n(4000, 40000)),
               (rng_i, ["a1", "aA", "01", "a-", "aA0"], ["i", "i", "i", ""], ctx.n(1200, 12000))]
    for rng, alphabets_, flags_, target in streams:
      npairs0 = len(pairs)
      while len(pairs) - npairs0 < target:
        al = rng.choice(alphabets_)
        g = gen.Gen(rng, alphabet=al, feats={"cls", "grp", "nc", "alt", "quant", "dot", "anchor", "reluctant"}, max_rep=2)
        special_inputs = None
        k_ = rng.random()
        if k_ < 0.15:
            ast, special_inputs = gen.fixedrep(rng, al.replace("\n", "") or "ab")
            pat = gen.pp(ast)
        elif k_ < 0.5:
            ast = gen.shaped(rng, al.replace("\n", ""))
            pat = gen.pp(ast)
        else:
            ast, pat = g.pattern(rng.randint(1, 7))
        rw = rewrite_once(rng, ast, al)
        if rw is None:
            continue
        ast2, law, order_ok = rw
        try:
            pat2 = gen.pp(ast2)
        except Exception:
            continue
        # the group-removal law changes group numbers: compare spans only, not $N
        fl = rng.choice(flags_)
        for inp in (special_inputs or gen.inputs_for(rng, al, 4)):
            a = Case(cid, "xpath", fl, pat, inp, "<$0>", "mra", tag=law)
            b = Case(cid + 1, "xpath", fl, pat2, inp, "<$0>", "mra", tag=law)
            cases += [a, b]
            pairs.append((str(cid), str(cid + 1), law, order_ok))
            cid += 2
        laws[law] += 1
    rng = ctx.rng
    # third stream (own generator state): quantified zero-width groups, with an earlier brace
    # quantifier in the pattern; besides the rewriting laws, the symbol and the brace spelling of
    # one quantifier (r? / r{0,1}, r* / r{0,}, r+ / r{1,}: instances of the listed expansion laws)
    class _Braces:
        def random(self):
            return 1.0
    rng_z = random.Random(ctx.seed * 67867967 + 20)
    for _ in range(ctx.n(500, 5000)):
        zw = rng_z.choice([("nc", ("alt", [("bol",), ("eol",)])), ("nc", ("seq", [("bol",), ("eol",)])), ("grp", ("bol",)),
                           ("grp", ("eol",)), ("nc", ("alt", [("bol",), ("chr", "a")])), ("grp", ("seq", [])),
                           ("nc", ("alt", [("eol",), ("chr", "b")]))])
        mn, mx = rng_z.choice([(1, None), (0, 1), (0, None), (1, 2), (2, None), (0, 2)])
        parts = [("q", zw, mn, mx, rng_z.random() < 0.8), ("chr", rng_z.choice("ab"))]
        if rng_z.random() < 0.6:
            parts.insert(0, ("q", ("chr", rng_z.choice("ab")), *rng_z.choice([(1, 2), (2, 2), (1, None), (2, 3), (0, 2)]), True))
        if rng_z.random() < 0.3:
            parts.insert(0, ("chr", rng_z.choice("ab")))
        ast = ("seq", parts)
        pat = gen.pp(ast)
        # (greedy quantifiers only: the listed expansion laws are about r{n,m}, not r{n,m}?)
        variants = ([(gen.pp(ast, "xpath", _Braces()), "quantifier symbol = brace spelling", True)]
                    if all(x[4] for x in parts if x[0] == "q") else [])
        rw = rewrite_once(rng_z, ast, "ab")
        if rw is not None:
            try:
                variants.append((gen.pp(rw[0]), rw[1], rw[2]))
            except Exception:
                pass
        fl = rng_z.choice(["", "", "m"])
        for pat2, law, order_ok in variants:
            if pat2 == pat:
                continue
            for inp in ["", "a", "b", "ba", "ab", "bba", "a\nb", "aXa".replace("X", "b")] :
                a = Case(cid, "xpath", fl, pat, inp, "<$0>", "mra", tag=law)
                b = Case(cid + 1, "xpath", fl, pat2, inp, "<$0>", "mra", tag=law)
                cases += [a, b]
                pairs.append((str(cid), str(cid + 1), law, order_ok))
                cid += 2
            laws[law] += 1
    # fourth stream (own generator state): a repeat of a character followed by a class of single
    # characters, one of which - not the first - is the repeated one, against the alternation spelling
    # of that class ([xy] = (?:x|y)) and the distributed spelling ((?:r|s)t = rt|st): what the
    # optimiser concludes about the alternation's first characters must not depend on the spelling
    rng_a = random.Random(ctx.seed * 86028157 + 23)
    for _ in range(ctx.n(500, 5000)):
        x, a_, y = rng_a.sample("abcxy", 3)
        members = [a_] + ([rng_a.choice("dz")] if rng_a.random() < 0.3 else []) + [x]
        rng_a.shuffle(members)
        if members[0] == x:
            members.reverse()
        q = rng_a.choice(["*", "+", "{0,2}", "{1,}", "*?"])
        pre = rng_a.choice(["", "^", "c"])
        post = rng_a.choice([y, y + "$", ""])
        grp = rng_a.choice(["(?:%s)", "(%s)"])
        p_cls = pre + x + q + "[" + "".join(members) + "]" + post
        p_alt = pre + x + q + grp % "|".join(members) + post
        p_dist = pre + "(?:" + "|".join(x + q + m + post for m in members) + ")"
        fl = rng_a.choice(["", "", "i"])
        for inp in (x * 2 + y, x + y, x * 3, a_ + y, x + a_ + y, "c" + x * 2 + y, x, ""):
            for pat2, law in ((p_alt, "[xy]=(?:x|y) after a repeat"), (p_dist, "(?:r|s)t=rt|st after a repeat")):
                a = Case(cid, "xpath", fl, p_cls, inp, "<$0>", "mra", tag=law)
                b = Case(cid + 1, "xpath", fl, pat2, inp, "<$0>", "mra", tag=law)
                cases += [a, b]
                pairs.append((str(cid), str(cid + 1), law, False))
                cid += 2
        laws["after a repeat"] += 1
    # fifth stream (own generator state): r{0,m} / r{n,m} over a body with alternatives of different
    # lengths against the expanded spelling r^n ((?:r)?)^(m-n), on inputs where the first repetitions
    # must switch to another alternative and all m repetitions are needed
    rng_b = random.Random(ctx.seed * 86028157 + 47)
    for _ in range(ctx.n(400, 4000)):
        a_, b_, c_ = rng_b.sample("abc", 3)
        body = rng_b.choice(["%s|%s%s" % (a_, a_, b_), "%s%s|%s" % (a_, b_, a_), "%s|%s%s|%s" % (a_, a_, b_, b_), "%s%s?" % (a_, b_)])
        n0 = rng_b.choice([0, 0, 1])
        m0 = n0 + rng_b.choice([1, 2, 2, 3])
        pre = rng_b.choice(["^", "", "x"])
        post = rng_b.choice([c_, c_ + "$", ""])
        counted = pre + "(?:%s){%d,%d}" % (body, n0, m0) + post
        expanded = pre + ("(?:%s)" % body) * n0 + ("(?:%s)?" % body) * (m0 - n0) + post
        units = [a_, a_ + b_, b_]
        px = pre.replace("^", "")
        for _i in range(6):
            inp = px + "".join(rng_b.choice(units) for _ in range(rng_b.randint(max(1, m0 - 1), m0 + 1))) + rng_b.choice([c_, c_, ""])
            a = Case(cid, "xpath", "", counted, inp, "<$0>", "mra", tag="r{n,m} expansion, alternatives of different lengths")
            b = Case(cid + 1, "xpath", "", expanded, inp, "<$0>", "mra", tag="r{n,m} expansion, alternatives of different lengths")
            cases += [a, b]
            pairs.append((str(cid), str(cid + 1), "r{n,m} expansion, alternatives of different lengths", False))
            cid += 2
        laws["r{n,m} varlen"] += 1
    # sixth stream (own generator state): r{n} for a group that holds a starred group of alternatives of
    # different lengths, against n copies of r, on inputs where the match does not start at the first
    # position tried (copies of the group's head character in front)
    rng_c = random.Random(ctx.seed * 49979687 + 53)
    for _ in range(ctx.n(300, 3000)):
        h_, a_, b_, c_ = rng_c.sample("xabcy", 4)
        inner = rng_c.choice(["(?:%s|%s%s)*" % (a_, b_, c_), "(?:%s%s|%s)*" % (a_, b_, a_), "(?:%s|%s%s)*?" % (a_, a_, b_), "(?:%s|%s)*" % (a_ + b_, c_)])
        n0 = rng_c.choice([2, 2, 3])
        tail = rng_c.choice(["y", "$", "z", h_ + "y"])
        unit = h_ + inner
        counted = "(?:%s){%d}%s" % (unit, n0, tail)
        expanded = unit * n0 + tail
        t_ = tail.replace("$", "")
        for extra in (0, 1, 2):
            for mid in ("", a_, b_ + c_, a_ + b_):
                inp = h_ * extra + (h_ + mid) * n0 + t_
                a = Case(cid, "xpath", "", counted, inp, "<$0>", "mra", tag="r{n} expansion, starred group inside")
                b = Case(cid + 1, "xpath", "", expanded, inp, "<$0>", "mra", tag="r{n} expansion, starred group inside")
                cases += [a, b]
                pairs.append((str(cid), str(cid + 1), "r{n} expansion, starred group inside", False))
                cid += 2
        laws["r{n} starred inside"] += 1
    # seventh stream (own generator state): r{n,m} over a body whose alternatives themselves hold a quantifier
    # (so that equal positions recur inside the loop), against the expanded spelling
    rng_d = random.Random(ctx.seed * 67867967 + 59)
    for _ in range(ctx.n(300, 3000)):
        a_, c_ = rng_d.sample("abc", 2)
        body = rng_d.choice(["%s?%s|%s|%s+" % (a_, c_, a_, c_), "%s|%s+" % (a_, c_), "%s?|%s+%s" % (a_, c_, a_), "%s%s?|%s+" % (a_, c_, c_),
                             "%s+|%s%s" % (c_, a_, c_)])
        n0 = rng_d.choice([1, 2, 2])
        m0 = n0 + rng_d.choice([0, 1, 1, 2])
        tail = rng_d.choice([c_, a_, c_ + "$", ""])
        counted = "(?:%s){%d,%d}%s" % (body, n0, m0, tail)
        expanded = ("(?:%s)" % body) * n0 + ("(?:%s)?" % body) * (m0 - n0) + tail
        for _i in range(8):
            inp = rng_d.choice(["", "x"]) + "".join(rng_d.choice([a_, c_, c_, a_ + c_]) for _ in range(rng_d.randint(1, 5))) + rng_d.choice(["", "x"])
            a = Case(cid, "xpath", "", counted, inp, "<$0>", "mra", tag="r{n,m} expansion, quantified alternatives")
            b = Case(cid + 1, "xpath", "", expanded, inp, "<$0>", "mra", tag="r{n,m} expansion, quantified alternatives")
            cases += [a, b]
            pairs.append((str(cid), str(cid + 1), "r{n,m} expansion, quantified alternatives", False))
            cid += 2
        laws["r{n,m} quantified alternatives"] += 1
    code, model, dis = run_slice(cases)
    spec = spec_match([c for c in cases])
    byid = {c.cid: c for c in cases}
    violations, nontrivial = [], set()
    for a, b, law, order_ok in pairs:
        ra, rb = code.get(a, {}), code.get(b, {})
        sa, sb = spec.get(a, {}), spec.get(b, {})
        if sa.get("V") != "valid" or sb.get("V") != "valid":
            continue
        same = same_as_model(code, model, a) and same_as_model(code, model, b)
        merged = dict(sa)
        for k in ("k1", "k2", "k3"):
            merged[k] = "1" if sa.get(k) == "1" or sb.get(k) == "1" else "0"
        if ra.get("C") != "ok" or rb.get("C") != "ok":
            violations.append(viol(byid[b], "both spellings accepted", {"lhs": ra.get("C"), "rhs": rb.get("C")},
                                   f"law '{law}': one spelling is rejected (lhs {byid[a].pattern!r})", merged, same))
            continue
        nontrivial.add(byid[a].key())
        if ra.get("M") != rb.get("M"):
            violations.append(viol(byid[b], {"M": ra.get("M")}, {"M": rb.get("M")},
                                   f"law '{law}' changes is_match (lhs {byid[a].pattern!r})", merged, same))
            continue
        if order_ok and sa.get("strict") == "1" and sb.get("strict") == "1" and ra.get("R") != "E:MatchesEmptyString":
            pa, pb = parse_analyze(ra.get("A", "")), parse_analyze(rb.get("A", ""))
            if pa is not None and pb is not None and code_spans(pa)[0] != code_spans(pb)[0]:
                violations.append(viol(byid[b], {"spans": code_spans(pa)[0]}, {"spans": code_spans(pb)[0]},
                                       f"law '{law}' changes the match spans (lhs {byid[a].pattern!r})", merged, same))
    return result(ctx, cases, dis, violations, nontrivial,
                  "one law applied at a random position of a generated pattern (wrap in (?:), r{1}=r, r{n,m} expansion, r{n,} expansion, r+=rr*, x=[x], [xy]=(?:x|y), r|r=r, (?:r|s)t=rt|st, unreferenced group -> (?:)); both spellings on 4 inputs x flags; is_match always, spans where the law preserves ordered choice and no quantifier body is nullable; expansion laws only on bodies without capturing groups",
                  {"laws": dict(laws)})


# ================================================================ registry, known findings, replay
SLICES = {"C01": slice_C01, "C02": slice_C02, "C03": slice_C03, "C04": slice_C04, "C05": slice_C05, "C06": slice_C06,
          "C07": slice_C07, "C08": slice_C08, "C09": slice_C09, "C10": slice_C10, "C11": slice_C11, "C12": slice_C12,
          "C13": slice_C13, "C14": slice_C14, "C15": slice_C15, "C16": slice_C16, "C17": slice_C17, "C18": slice_C18,
          "C19": slice_C19, "C20": slice_C20}


def attribute_known(prop, sl):
    """A violation is explained by a listed finding iff the pattern is in the finding's decidable
    class (computed by the extracted Coq predicate) AND the code's output equals the faithful
    model's (which pins the known wrong behaviour exactly).  Returns {finding id: text}."""
    known = core.load_known(prop)
    hits = {}
    for v in sl["violations"]:
        for k in known:
            cls = k["class"]
            in_class = (v.get("spec") or {}).get(cls) == "1" if cls in ("k1", "k2", "k3") else False
            if in_class and v.get("code_equals_model"):
                v["known"] = k["id"]
                hits[k["id"]] = k["what"]
                break
    for k in known:
        hits.setdefault(k["id"], k["what"])
    return hits


def replay(prop, path, tier, seed):
    d = json.load(open(path))
    if "case" not in d:
        print(f"{prop}: replay {path}: {d.get('kind')}: {json.dumps(d)[:800]}")
        return 1
    c = Case.from_json(d["case"])
    if c.apis == "sweep":
        print(f"{prop}: replay of a membership sweep: pattern {c.pattern!r} flags {c.flags!r}: expected {d.get('expected')} got {d.get('got')}")
        return 1
    code, model, dis = run_slice([c])
    print("case :", {k: show(v) for k, v in d["case"].items()})
    print("code :", code.get(c.cid))
    print("model:", model.get(c.cid))
    sp = spec_match([c]).get(c.cid)
    print("spec :", sp)
    if "expected" in d:
        print("expected:", d["expected"], "| recorded:", d.get("got"), "|", d.get("why"))
    print("model and code", "agree" if not dis else "DISAGREE")
    return 1 if ("expected" in d or dis) else 0
