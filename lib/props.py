"""Per-property correspondence slices and oracles.  Each slice function takes a Ctx and returns the
dict core.finish expects."""
import os, sys, json, random, itertools, re, subprocess
import tie, gen, core
from core import Case, show


class Ctx:
    def __init__(self, prop, tier, seed):
        self.prop, self.tier, self.seed = prop, tier, seed
        self.rng = random.Random(seed * 1000003 + int(prop[1:]))
        self.quick = tier == "quick"


# ---------------------------------------------------------------- helpers
def parse_analyze(a):
    """'ok:N(61)M(S(61)G1(S(62)))' -> list of ('N', text) | ('M', tree); tree = list of ('S', text) |
    ('G', nr, tree).  Returns None for errors / abnormal endings."""
    if not a.startswith("ok:") or "!" in a:
        return None
    s = a[3:]
    pos = 0

    def text(h):
        return tie.dec(h)

    def entries():
        nonlocal pos
        out = []
        while pos < len(s) and s[pos] != ")":
            if s[pos] == "S":
                j = s.index(")", pos)
                out.append(("S", text(s[pos + 2:j])))
                pos = j + 1
            elif s[pos] == "G":
                j = s.index("(", pos)
                nr = int(s[pos + 1:j])
                pos = j + 1
                sub = entries()
                pos += 1
                out.append(("G", nr, sub))
            else:
                raise ValueError(s[pos:])
        return out

    res = []
    while pos < len(s):
        if s[pos] == "N":
            j = s.index(")", pos)
            res.append(("N", text(s[pos + 2:j])))
            pos = j + 1
        elif s[pos] == "M":
            pos += 2
            t = entries()
            pos += 1
            res.append(("M", t))
        else:
            raise ValueError(s[pos:])
    return res


def tree_text(t):
    return "".join(x[1] if x[0] == "S" else tree_text(x[2]) for x in t)


def tree_groups(t, out=None):
    out = {} if out is None else out
    for x in t:
        if x[0] == "G":
            out[x[1]] = tree_text(x[2])
            tree_groups(x[2], out)
    return out


def spec_call(lines):
    return tie.run_tool([tie.DRIVER, "spec"], lines, "spec")


def diff_fields(c, m, fields=None):
    ks = fields if fields is not None else sorted(set(c or {}) | set(m or {}))
    return {k: {"code": (c or {}).get(k), "model": (m or {}).get(k)} for k in ks
            if (c or {}).get(k) != (m or {}).get(k)}


def run_slice(cases, fields=None):
    """run cases on both sides; returns (code, model, disagreements)"""
    code, model = tie.run_both([c.line() for c in cases], "p")
    dis = []
    for c in cases:
        d = diff_fields(code.get(c.cid), model.get(c.cid), fields)
        if d:
            dis.append({"case": c.to_json(), "tag": c.tag, "differs": d})
    return code, model, dis


# ---------------------------------------------------------------- C15
C15_PATTERNS = [
    ("ab", 0), ("a+", 0), ("(a)b", 1), ("(a)|b", 1), ("(a)(b)?", 2), ("((a)|(b))c", 3),
    ("(a)(b)(c)(d)(e)(f)(g)(h)(i)", 9), ("(a)(b)(c)(d)(e)(f)(g)(h)(i)(j)", 10),
    ("(a)(b)(c)(d)(e)(f)(g)(h)(i)(j)(k)(l)", 12), ("(a)(b)(c)(d)(e)(f)(g)(h)(i)(j)(k)?(l)?", 12),
]
C15_INPUTS = ["", "xyz", "ab", "xabcdefghijklx", "abcdefghijklabcdefghij", "bcacab", "aab ac"]


def slice_C15(ctx):
    rng = ctx.rng
    alphabet = "$\\0129a"
    repls = gen.all_strings(alphabet, 3 if ctx.quick else 4)
    # plus a random stream of longer ones
    for _ in range(300 if ctx.quick else 3000):
        repls.append("".join(rng.choice(alphabet + "1$") for _ in range(rng.randint(4, 8))))
    cases = []
    meta = {}
    cid = 0
    for pat, k in C15_PATTERNS:
        for inp in C15_INPUTS:
            rs = repls if (ctx.tier == "thorough" or k in (1, 12)) else rng.sample(repls, 120)
            for r in rs:
                c = Case(cid, "xpath", "", pat, inp, r, "ra", tag=f"groups={k}")
                cases.append(c)
                meta[c.cid] = (c, k)
                cid += 1
    code, model, dis = run_slice(cases)
    # oracle: the code's replace_all against Spec.Repl applied to the code's own analyze output
    spec_lines = []
    plan = {}
    for c in cases:
        res = code.get(c.cid, {})
        a = parse_analyze(res.get("A", ""))
        if a is None:
            continue
        k = meta[c.cid][1]
        plan[c.cid] = []
        for j, e in enumerate(a):
            if e[0] == "M":
                groups = tree_groups(e[1])
                caps = [tree_text(e[1])] + [groups.get(g) for g in range(1, k + 1)]
                sid = f"{c.cid}.{j}"
                spec_lines.append("\t".join([sid, "expand", str(k), tie.enc(c.repl),
                                             "|".join("~" if x is None else tie.enc(x) for x in caps)]))
                plan[c.cid].append(("M", sid))
            else:
                plan[c.cid].append(("N", e[1]))
    spec = spec_call(spec_lines) if spec_lines else {}
    violations = []
    nontrivial = set()
    hist = {"no_match": 0, "invalid_repl": 0, "expanded": 0}
    for c in cases:
        if c.cid not in plan:
            res = code.get(c.cid, {})
            violations.append({"case": c.to_json(), "expected": "analyze and replace_all complete normally",
                               "got": res, "why": "abnormal outcome on a non-nullable pattern"})
            continue
        got = code[c.cid].get("R")
        pl = plan[c.cid]
        if not any(x[0] == "M" for x in pl):
            expected = "ok:" + tie.enc(c.input)
            hist["no_match"] += 1
        else:
            outs = [spec[x[1]] if x[0] == "M" else "ok:" + tie.enc(x[1]) for x in pl]
            if any(o == "invalid" for o in outs):
                expected = "E:InvalidReplacementString"
                hist["invalid_repl"] += 1
            else:
                expected = "ok:" + tie.enc("".join(tie.dec(o[3:]) for o in outs))
                hist["expanded"] += 1
            nontrivial.add(c.key())
        if got != expected:
            violations.append({"case": c.to_json(), "expected": expected, "got": got,
                               "why": "replace_all differs from the replacement grammar applied to the code's own matches and groups"})
    return {"evaluations": len(cases), "distinct_nontrivial": len(nontrivial),
            "rule": "all replacement strings up to length %d over {$,\\,0,1,2,9,a} plus a seeded random stream, x 10 patterns with 0..12 groups x 7 inputs (0/1/2+ matches); non-trivial = distinct (pattern,input,replacement) with at least one match" % (3 if ctx.quick else 4),
            "samples": [c.to_json() for c in rng.sample(cases, 5)],
            "disagreements": dis, "violations": violations,
            "extra": {"distribution": hist, "exhaustive": False}}


SLICES = {"C15": slice_C15}


# ---------------------------------------------------------------- known findings, replay
def attribute_known(prop, sl):
    """mark violations that a listed known finding explains; returns {finding id: text}"""
    known = core.load_known(prop)
    hits = {}
    for v in sl["violations"]:
        for k in known:
            pred = KNOWN_CLASSES.get(k["class"])
            if pred and pred(v, k):
                v["known"] = k["id"]
                hits[k["id"]] = k["what"]
                break
    # listed findings are always announced, whether or not this run's sample hit them
    for k in known:
        hits.setdefault(k["id"], k["what"])
    return hits


KNOWN_CLASSES = {}


def replay(prop, path, tier, seed):
    d = json.load(open(path))
    if "case" not in d:
        print(f"{prop}: replay {path}: {d.get('kind')}: {json.dumps(d)[:600]}")
        return 1
    c = Case.from_json(d["case"])
    code, model, dis = run_slice([c])
    print("case :", {k: show(v) for k, v in d["case"].items()})
    print("code :", code.get(c.cid))
    print("model:", model.get(c.cid))
    if "expected" in d:
        print("expected:", d["expected"], " previously got:", d.get("got"))
    same = not dis
    print("model and code", "agree" if same else "DISAGREE")
    return 0 if same and "expected" not in d else 1
