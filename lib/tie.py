"""Runs case files through the real code (Rust harness) and through the extracted Coq model (OCaml
driver) in parallel shards, with a watchdog for the code side, and returns the parsed results."""
import os, subprocess, time, tempfile, shutil, sys

ROOT = os.path.dirname(os.path.dirname(os.path.abspath(__file__)))
HARNESS = os.path.join(ROOT, "harness", "target", "release", "regexml-verif-harness")
DRIVER = os.path.join(ROOT, "driver", "driver")
WORK = os.path.join(ROOT, "work")
JOBS = int(os.environ.get("VERIF_JOBS", "16"))
STALL_S = float(os.environ.get("VERIF_STALL_S", "10"))


def enc(s):
    return ".".join("%x" % ord(c) for c in s) if s else "-"


def dec(s):
    return "" if s == "-" else "".join(chr(int(h, 16)) for h in s.split("."))


def case_line(cid, dialect, flags, pattern, inp="", repl="", apis="m"):
    return "\t".join([str(cid), dialect, enc(flags), enc(pattern), enc(inp), enc(repl), apis])


def parse_result(line):
    f = line.rstrip("\n").split("\t")
    d = {}
    for kv in f[1:]:
        k, _, v = kv.partition("=")
        d[k] = v
    return f[0], d


def _shards(lines, k):
    k = max(1, min(k, (len(lines) + 199) // 200))
    return [lines[i::k] for i in range(k)]


def _run_code_shard(path, outpath):
    """run one shard through the harness with a stall watchdog; returns dict id -> result dict"""
    results = {}
    skip = 0
    nlines = sum(1 for _ in open(path))
    while skip < nlines:
        with open(path) as fin, open(outpath, "w") as fout:
            p = subprocess.Popen([HARNESS, "run", str(skip)], stdin=fin, stdout=fout, stderr=subprocess.DEVNULL)
            last_size, last_change = -1, time.time()
            stalled = False
            while p.poll() is None:
                time.sleep(0.05)
                sz = os.path.getsize(outpath)
                if sz != last_size:
                    last_size, last_change = sz, time.time()
                elif time.time() - last_change > STALL_S:
                    p.kill()
                    p.wait()
                    stalled = True
                    break
        cur = None
        done = 0
        for line in open(outpath):
            if line.startswith("@"):
                cur = line[1:].strip()
                continue
            cid, d = parse_result(line)
            results[cid] = d
            done += 1
            cur = None
        if stalled or (p.returncode != 0 and cur is not None):
            # the case whose marker was written but whose result never came
            results[cur] = {"C": "HANG" if stalled else "ABORT"}
            skip += done + 1
        elif p.returncode != 0:
            raise RuntimeError(f"harness failed rc={p.returncode} on {path}")
        else:
            break
    return results


def run_both(lines, tag="t", code=True, model=True):
    """lines: list of case lines.  Returns (code_results, model_results) dicts id -> field dict."""
    os.makedirs(WORK, exist_ok=True)
    d = tempfile.mkdtemp(prefix=f"tie_{tag}_", dir=WORK)
    try:
        shards = _shards(lines, JOBS)
        paths = []
        for i, sh in enumerate(shards):
            pth = os.path.join(d, f"c{i}.txt")
            with open(pth, "w") as f:
                f.write("\n".join(sh) + "\n")
            paths.append(pth)
        model_procs = []
        if model:
            for i, pth in enumerate(paths):
                fin = open(pth)
                fout = open(os.path.join(d, f"m{i}.out"), "w")
                model_procs.append((subprocess.Popen([DRIVER, "run"], stdin=fin, stdout=fout), fin, fout))
        code_res = {}
        if code:
            from concurrent.futures import ThreadPoolExecutor
            with ThreadPoolExecutor(max_workers=len(paths)) as ex:
                futs = [ex.submit(_run_code_shard, pth, os.path.join(d, f"r{i}.out")) for i, pth in enumerate(paths)]
                for fu in futs:
                    code_res.update(fu.result())
        model_res = {}
        for i, (p, fin, fout) in enumerate(model_procs):
            rc = p.wait()
            fin.close()
            fout.close()
            if rc != 0:
                raise RuntimeError(f"model driver failed rc={rc}")
            for line in open(os.path.join(d, f"m{i}.out")):
                cid, dd = parse_result(line)
                model_res[cid] = dd
        return code_res, model_res
    finally:
        shutil.rmtree(d, ignore_errors=True)


def run_tool(cmd, lines, tag="s"):
    """generic: feed lines to `cmd` (list) sharded, collect 'id \\t rest' lines -> dict"""
    os.makedirs(WORK, exist_ok=True)
    d = tempfile.mkdtemp(prefix=f"tool_{tag}_", dir=WORK)
    try:
        k = max(1, min(JOBS, len(lines)))
        shards = [lines[i::k] for i in range(k)]
        procs = []
        for i, sh in enumerate(shards):
            pth = os.path.join(d, f"c{i}.txt")
            open(pth, "w").write("\n".join(sh) + "\n")
            fin = open(pth)
            fout = open(os.path.join(d, f"o{i}.out"), "w")
            procs.append((subprocess.Popen(cmd, stdin=fin, stdout=fout, stderr=subprocess.DEVNULL), fin, fout, i))
        res = {}
        for p, fin, fout, i in procs:
            rc = p.wait()
            fin.close()
            fout.close()
            if rc != 0:
                raise RuntimeError(f"{cmd} failed rc={rc}")
            for line in open(os.path.join(d, f"o{i}.out")):
                cid, _, rest = line.rstrip("\n").partition("\t")
                res[cid] = rest
        return res
    finally:
        shutil.rmtree(d, ignore_errors=True)
