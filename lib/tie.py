"""Runs case files through the real code (Rust harness) and through the extracted Coq model (OCaml
driver) in parallel shards, with a watchdog for the code side, and returns the parsed results."""
import os, subprocess, time, tempfile, shutil, sys, resource


def _big_stack():
    try:
        resource.setrlimit(resource.RLIMIT_STACK, (resource.RLIM_INFINITY, resource.RLIM_INFINITY))
    except Exception:
        pass

ROOT = os.path.dirname(os.path.dirname(os.path.abspath(__file__)))
HARNESS = os.path.join(ROOT, "harness", "target", "release", "regexml-verif-harness")
DRIVER = os.path.join(ROOT, "driver", "driver")
WORK = os.path.join(ROOT, "work")
JOBS = int(os.environ.get("VERIF_JOBS", "16"))
STALL_S = float(os.environ.get("VERIF_STALL_S", "10"))


def enc(s):
    return ".".join("%x" % ord(c) for c in s) if s else "-"


def dec(s):
    return "" if s == "-" else "".join(chr(int(h, 16)) for h in s.split("."))


def case_line(cid, dialect, flags, pattern, inp="", repl="", apis="m"):
    return "\t".join([str(cid), dialect, enc(flags), enc(pattern), enc(inp), enc(repl), apis])


def parse_result(line):
    f = line.rstrip("\n").split("\t")
    d = {}
    for kv in f[1:]:
        k, _, v = kv.partition("=")
        d[k] = v
    return f[0], d


def _shards(lines, k):
    k = max(1, min(k, (len(lines) + 199) // 200))
    return [lines[i::k] for i in range(k)]


def _run_shard(cmd, path, outpath, stall_s, slow_tag, raw=False):
    """run one shard through `cmd run [skip]` with a stall watchdog; returns dict id -> result dict.
    A case with no progress for stall_s seconds gets {"C": slow_tag} and the run resumes after it."""
    results = {}
    skip = 0
    nlines = sum(1 for _ in open(path))
    while skip < nlines:
        with open(path) as fin, open(outpath, "w") as fout:
            p = subprocess.Popen(cmd + [str(skip)], stdin=fin, stdout=fout, stderr=subprocess.DEVNULL,
                                 preexec_fn=_big_stack)
            last_size, last_change = -1, time.time()
            stalled = False
            while p.poll() is None:
                time.sleep(0.05)
                sz = os.path.getsize(outpath)
                if sz != last_size:
                    last_size, last_change = sz, time.time()
                elif time.time() - last_change > stall_s:
                    p.kill()
                    p.wait()
                    stalled = True
                    break
        cur = None
        done = 0
        for line in open(outpath):
            if line.startswith("@"):
                cur = line[1:].strip()
                continue
            if not line.endswith("\n"):
                break          # a partial line of the killed process
            if raw:
                cid, _, rest = line.rstrip("\n").partition("\t")
                results[cid] = rest
            else:
                cid, d = parse_result(line)
                results[cid] = d
            done += 1
            cur = None
        if stalled or (p.returncode != 0 and cur is not None):
            tag_ = slow_tag if stalled else "ABORT"
            results[cur] = tag_ if raw else {"C": tag_}
            skip += done + 1
        elif p.returncode != 0:
            raise RuntimeError(f"{cmd} failed rc={p.returncode} on {path}")
        else:
            break
    return results


def run_both(lines, tag="t", code=True, model=True):
    """lines: list of case lines.  Returns (code_results, model_results) dicts id -> field dict.
    A case on which the model itself is slow (exponential backtracking, which the faithful model
    shares with the code) comes back as {"C": "SLOW"} on the model side; a code-side stall that the
    model does not share is re-run alone with a 6x deadline before it is called a HANG."""
    os.makedirs(WORK, exist_ok=True)
    d = tempfile.mkdtemp(prefix=f"tie_{tag}_", dir=WORK)
    try:
        shards = _shards(lines, JOBS)
        paths = []
        for i, sh in enumerate(shards):
            pth = os.path.join(d, f"c{i}.txt")
            with open(pth, "w") as f:
                f.write("\n".join(sh) + "\n")
            paths.append(pth)
        from concurrent.futures import ThreadPoolExecutor
        code_res, model_res = {}, {}
        with ThreadPoolExecutor(max_workers=2 * len(paths)) as ex:
            cf = [ex.submit(_run_shard, [HARNESS, "run"], pth, os.path.join(d, f"r{i}.out"), STALL_S, "HANG")
                  for i, pth in enumerate(paths)] if code else []
            mf = [ex.submit(_run_shard, [DRIVER, "run"], pth, os.path.join(d, f"m{i}.out"), STALL_S, "SLOW")
                  for i, pth in enumerate(paths)] if model else []
            for fu in cf:
                code_res.update(fu.result())
            for fu in mf:
                model_res.update(fu.result())
        # code stalls: confirm alone with a longer deadline unless the model is slow there too
        byid = {l.split("\t", 1)[0]: l for l in lines}
        confirmed = 0
        for cid, r in list(code_res.items()):
            if r.get("C") == "HANG":
                if confirmed >= 3:
                    continue          # three confirmed hangs are enough to report; do not wait for more
                confirmed += 1
                if model and model_res.get(cid, {}).get("C") == "SLOW":
                    code_res[cid] = {"C": "SLOW"}
                    continue
                pth = os.path.join(d, f"again_{cid}.txt")
                open(pth, "w").write(byid[cid] + "\n")
                again = _run_shard([HARNESS, "run"], pth, pth + ".out", 6 * STALL_S, "HANG")
                code_res[cid] = again.get(cid, {"C": "HANG"})
        if model and code:
            for cid, r in model_res.items():
                if r.get("C") == "SLOW":
                    code_res[cid] = {"C": "SLOW"}       # dropped from the comparison, counted by callers
        return code_res, model_res
    finally:
        shutil.rmtree(d, ignore_errors=True)


def run_tool(cmd, lines, tag="s"):
    """generic: feed lines to `cmd` (list) sharded, collect 'id \\t rest' lines -> dict"""
    os.makedirs(WORK, exist_ok=True)
    d = tempfile.mkdtemp(prefix=f"tool_{tag}_", dir=WORK)
    try:
        k = max(1, min(JOBS, len(lines)))
        shards = [lines[i::k] for i in range(k)]
        procs = []
        for i, sh in enumerate(shards):
            pth = os.path.join(d, f"c{i}.txt")
            open(pth, "w").write("\n".join(sh) + "\n")
            fin = open(pth)
            fout = open(os.path.join(d, f"o{i}.out"), "w")
            procs.append((subprocess.Popen(cmd, stdin=fin, stdout=fout, stderr=subprocess.DEVNULL, preexec_fn=_big_stack), fin, fout, i))
        res = {}
        for p, fin, fout, i in procs:
            rc = p.wait()
            fin.close()
            fout.close()
            if rc != 0:
                raise RuntimeError(f"{cmd} failed rc={rc}")
            for line in open(os.path.join(d, f"o{i}.out")):
                cid, _, rest = line.rstrip("\n").partition("\t")
                res[cid] = rest
        return res
    finally:
        shutil.rmtree(d, ignore_errors=True)


def run_spec(lines, tag="spec"):
    """the specification oracles (driver spec mode) with the stall watchdog: a call that does not
    come back within STALL_S is answered "slow" and skipped by the callers"""
    if not lines:
        return {}
    os.makedirs(WORK, exist_ok=True)
    d = tempfile.mkdtemp(prefix=f"spec_{tag}_", dir=WORK)
    try:
        k = max(1, min(JOBS, (len(lines) + 99) // 100))
        shards = [lines[i::k] for i in range(k)]
        from concurrent.futures import ThreadPoolExecutor
        res = {}
        futs = []
        with ThreadPoolExecutor(max_workers=k) as ex:
            for i, sh in enumerate(shards):
                pth = os.path.join(d, f"c{i}.txt")
                open(pth, "w").write("\n".join(sh) + "\n")
                futs.append(ex.submit(_run_shard, [DRIVER, "spec"], pth, os.path.join(d, f"o{i}.out"), STALL_S, "slow", True))
            for fu in futs:
                res.update(fu.result())
        return res
    finally:
        shutil.rmtree(d, ignore_errors=True)
