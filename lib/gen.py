"""Seeded generators of structured patterns (as ASTs, printed to pattern text), malformed patterns
and inputs.  Every random choice comes from the one random.Random passed in."""
import random

META = set("\\|.-^?*+{}()[]$")
CATS = ["L", "Lu", "Ll", "Lt", "Lm", "Lo", "M", "Mn", "Mc", "Me", "N", "Nd", "Nl", "No", "P", "Pc", "Pd",
        "Ps", "Pe", "Pi", "Pf", "Po", "Z", "Zs", "Zl", "Zp", "S", "Sm", "Sc", "Sk", "So", "C", "Cc", "Cf",
        "Co", "Cn"]
BLOCKS = ["BasicLatin", "Latin-1Supplement", "Greek", "Cyrillic", "GreekandCoptic", "PrivateUse",
          "Deseret", "CombiningDiacriticalMarks"]
MULTI = ["\\d", "\\D", "\\w", "\\W", "\\s", "\\S", "\\i", "\\I", "\\c", "\\C"]


def lit(c, dialect="xpath"):
    if c in META:
        if c == "$" and dialect == "xsd":
            return "$"
        if c == "^" and dialect == "xsd" and False:
            return "^"
        return "\\" + c
    if c == "\n":
        return "\\n"
    if c == "\r":
        return "\\r"
    if c == "\t":
        return "\\t"
    return c


def cls_char(c):
    if c in "\\[]-^":
        return "\\" + c
    if c == "\n":
        return "\\n"
    if c == "\r":
        return "\\r"
    if c == "\t":
        return "\\t"
    return c


def pp_cls(node):
    _, neg, items, sub = node
    s = "[" + ("^" if neg else "")
    for it in items:
        if it[0] == "c":
            s += cls_char(it[1])
        elif it[0] == "r":
            s += cls_char(it[1]) + "-" + cls_char(it[2])
        else:
            s += it[1]
    if sub is not None:
        s += "-" + pp_cls(sub)
    return s + "]"


def quant_str(mn, mx, greedy, rng=None):
    if (mn, mx) == (0, 1) and (rng is None or rng.random() < 0.8):
        q = "?"
    elif (mn, mx) == (0, None) and (rng is None or rng.random() < 0.8):
        q = "*"
    elif (mn, mx) == (1, None) and (rng is None or rng.random() < 0.8):
        q = "+"
    elif mx is None:
        q = "{%d,}" % mn
    elif mn == mx:
        q = "{%d}" % mn
    else:
        q = "{%d,%d}" % (mn, mx)
    return q + ("" if greedy else "?")


def pp(node, dialect="xpath", rng=None):
    t = node[0]
    if t == "chr":
        return lit(node[1], dialect)
    if t == "dot":
        return "."
    if t == "cls":
        return pp_cls(node)
    if t == "esc":
        return node[1]
    if t == "bol":
        return "^"
    if t == "eol":
        return "$"
    if t == "bref":
        return "\\%d" % node[1]
    if t == "grp":
        return "(" + pp(node[1], dialect, rng) + ")"
    if t == "nc":
        return "(?:" + pp(node[1], dialect, rng) + ")"
    if t == "seq":
        out = ""
        for x in node[1]:
            sx = pp(x, dialect, rng)
            if x[0] == "alt":
                sx = ("(?:" if dialect == "xpath" else "(") + sx + ")"
            # a back-reference followed by a digit would be read as a longer number
            if out and out[-1].isdigit() and False:
                pass
            out += sx
        return out
    if t == "alt":
        return "|".join(pp(x, dialect, rng) for x in node[1])
    if t == "q":
        body = node[1]
        sb = pp(body, dialect, rng)
        single = body[0] in ("chr", "dot", "cls", "esc", "grp", "nc", "bol", "eol", "bref")
        if not single or (body[0] == "bref"):
            sb = ("(?:" if dialect == "xpath" else "(") + sb + ")"
        return sb + quant_str(node[2], node[3], node[4], rng)
    raise ValueError(t)


class Gen:
    def __init__(self, rng, alphabet="ab", dialect="xpath", feats=None, max_rep=3):
        self.rng = rng
        self.alpha = alphabet
        self.dialect = dialect
        self.feats = feats if feats is not None else {"cls", "esc", "grp", "nc", "reluctant", "anchor",
                                                       "bref", "dot", "alt", "quant"}
        if dialect == "xsd":
            self.feats = self.feats - {"nc", "reluctant", "anchor", "bref"}
        self.max_rep = max_rep
        self.max_qdepth = 2          # deeper nesting of quantifiers only buys exponential backtracking

    def char(self):
        return self.rng.choice(self.alpha)

    def cls(self, depth=0):
        r = self.rng
        items = []
        for _ in range(r.randint(1, 3)):
            k = r.random()
            if k < 0.5:
                items.append(("c", self.char()))
            elif k < 0.8:
                a, b = sorted([self.char(), self.char()])
                items.append(("r", a, b))
            elif "esc" in self.feats:
                items.append(("e", r.choice(MULTI + ["\\p{L}", "\\P{L}", "\\p{Lu}", "\\p{Nd}", "\\n", "\\-"])))
            else:
                items.append(("c", self.char()))
        sub = self.cls(depth + 1) if (depth < 2 and r.random() < 0.2) else None
        return ("cls", r.random() < 0.3, items, sub)

    def leaf(self):
        r = self.rng
        choices = ["chr"] * 6
        if "dot" in self.feats:
            choices += ["dot"]
        if "cls" in self.feats:
            choices += ["cls"] * 2
        if "esc" in self.feats:
            choices += ["esc"]
        if "anchor" in self.feats:
            choices += ["bol", "eol"]
        if "bref" in self.feats:
            choices += ["bref"]
        k = r.choice(choices)
        if k == "chr":
            return ("chr", self.char())
        if k == "dot":
            return ("dot",)
        if k == "cls":
            return self.cls()
        if k == "esc":
            return ("esc", r.choice(MULTI + ["\\p{%s}" % r.choice(CATS), "\\P{%s}" % r.choice(CATS),
                                             "\\p{Is%s}" % r.choice(BLOCKS)]))
        if k == "bref":
            return ("bref", r.randint(1, 3))
        return (k,)

    def bounds(self):
        r = self.rng
        k = r.random()
        if k < 0.2:
            return (0, 1)
        if k < 0.4:
            return (0, None)
        if k < 0.55:
            return (1, None)
        mn = r.randint(0, self.max_rep)
        j = r.random()
        if j < 0.35:
            return (mn, mn)
        if j < 0.6:
            return (mn, None)
        return (mn, mn + r.randint(0, 2))

    def re(self, size, qdepth=0):
        r = self.rng
        if size <= 1:
            return self.leaf()
        k = r.random()
        if k < 0.35:
            n = r.randint(2, min(4, size))
            parts = self.split(size - 1, n)
            return ("seq", [self.re(p, qdepth) for p in parts])
        if k < 0.55 and "alt" in self.feats:
            n = r.randint(2, min(3, size))
            parts = self.split(size - 1, n)
            branches = [self.re(p, qdepth) for p in parts]
            if r.random() < 0.12:
                branches[r.randrange(len(branches))] = ("seq", [])      # an empty alternative
            return ("alt", branches)
        if k < 0.8 and "quant" in self.feats and qdepth < self.max_qdepth:
            mn, mx = self.bounds()
            greedy = not ("reluctant" in self.feats and r.random() < 0.35)
            return ("q", self.re(size - 1, qdepth + 1), mn, mx, greedy)
        if k < 0.92 and "grp" in self.feats:
            return ("grp", self.re(size - 1, qdepth))
        if "nc" in self.feats:
            return ("nc", self.re(size - 1, qdepth))
        return self.leaf()

    def split(self, total, n):
        r = self.rng
        parts = [1] * n
        for _ in range(max(0, total - n)):
            parts[r.randrange(n)] += 1
        return parts

    def fix_brefs(self, node):
        """make every back-reference refer to a group that is already closed, else a literal"""
        closed = []
        counter = [0]

        def go(nd):
            t = nd[0]
            if t == "grp":
                counter[0] += 1
                me = counter[0]
                body = go(nd[1])
                closed.append(me)
                return ("grp", body)
            if t == "nc":
                return ("nc", go(nd[1]))
            if t in ("seq", "alt"):
                return (t, [go(x) for x in nd[1]])
            if t == "q":
                return ("q", go(nd[1]), nd[2], nd[3], nd[4])
            if t == "bref":
                if closed:
                    return ("bref", self.rng.choice(closed))
                return ("chr", self.char())
            return nd

        return go(node)

    def pattern(self, size):
        ast = self.fix_brefs(self.re(size))
        return ast, pp(ast, self.dialect, self.rng)


def has(node, kinds):
    if node[0] in kinds:
        return True
    t = node[0]
    if t in ("grp", "nc"):
        return has(node[1], kinds)
    if t in ("seq", "alt"):
        return any(has(x, kinds) for x in node[1])
    if t == "q":
        return has(node[1], kinds)
    return False


def count_groups(node):
    t = node[0]
    if t == "grp":
        return 1 + count_groups(node[1])
    if t == "nc" or t == "q":
        return count_groups(node[1])
    if t in ("seq", "alt"):
        return sum(count_groups(x) for x in node[1])
    return 0


def inputs_for(rng, alphabet, n, maxlen=7, extra=""):
    """n inputs over alphabet+extra, short ones more likely; always includes the empty input"""
    al = alphabet + extra
    out = [""]
    for _ in range(n - 1):
        k = rng.choice([1, 1, 2, 2, 3, 3, 4, 5, 6, maxlen])
        out.append("".join(rng.choice(al) for _ in range(k)))
    return out


def mutate(rng, s):
    """token-level mutation of a pattern string (may or may not leave the grammar)"""
    if not s:
        return rng.choice("()[]{}*+?|\\")
    k = rng.random()
    i = rng.randrange(len(s))
    if k < 0.25:
        return s[:i] + s[i + 1:]
    if k < 0.5:
        return s[:i] + rng.choice("()[]{}*+?|\\^$-.,0123456789ab") + s[i:]
    if k < 0.7:
        return s[:i] + s[i] + s[i:]
    if k < 0.85:
        return s[:i]
    j = rng.randrange(len(s))
    l = list(s)
    l[i], l[j] = l[j], l[i]
    return "".join(l)


def all_strings(alphabet, maxlen):
    out = [""]
    frontier = [""]
    for _ in range(maxlen):
        frontier = [s + c for s in frontier for c in alphabet]
        out += frontier
    return out


def wrap_groups(rng, node, prob=0.3):
    """wrap random subtrees in capturing groups"""
    t = node[0]
    if t in ("grp", "nc"):
        out = (t, wrap_groups(rng, node[1], prob))
    elif t in ("seq", "alt"):
        out = (t, [wrap_groups(rng, x, prob) for x in node[1]])
    elif t == "q":
        out = ("q", wrap_groups(rng, node[1], prob), node[2], node[3], node[4])
    else:
        out = node
    if t not in ("grp", "bol", "eol", "bref") and rng.random() < prob:
        return ("grp", out)
    return out


def add_brefs(rng, node, prob=0.35):
    """insert back-reference leaves after sequence members (fix_brefs later makes them legal)"""
    t = node[0]
    if t in ("grp", "nc"):
        return (t, add_brefs(rng, node[1], prob))
    if t == "alt":
        return (t, [add_brefs(rng, x, prob) for x in node[1]])
    if t == "q":
        return ("q", add_brefs(rng, node[1], prob), node[2], node[3], node[4])
    if t == "seq":
        out = []
        for x in node[1]:
            out.append(add_brefs(rng, x, prob))
            if rng.random() < prob:
                br = ("bref", 1)
                if rng.random() < 0.3:
                    br = ("q", br, *rng.choice([(0, 1), (0, None), (1, 2)]), True)
                out.append(br)
        return ("seq", out)
    if rng.random() < prob:
        return ("seq", [node, ("bref", 1)])
    return node


def shaped(rng, alphabet="abc"):
    """X-repeat, optional / alternative middle, X again: the shapes on which the disjointness
    reasoning of the optimiser and the give-back of repeats matter"""
    a = rng.choice(alphabet)
    others = [c for c in alphabet if c != a] or [a]
    b0 = rng.choice(others)
    x = rng.choice([("chr", a), ("cls", False, [("c", a), ("c", rng.choice(alphabet))], None), ("dot",),
                    ("cls", False, [("c", a)], None), ("seq", [("chr", a), ("chr", b0)]),
                    ("seq", [("chr", a), ("chr", b0), ("chr", a)]), ("cls", False, [("r", min(a, b0), max(a, b0))], None)])
    rep = ("q", x, *rng.choice([(0, None), (1, None), (0, 2), (1, 3), (2, None), (0, 1), (2, 3), (2, 2), (3, None), (1, 2)]),
           rng.random() < 0.75)
    def word(k):
        return ("seq", [("chr", rng.choice(others)) for _ in range(k)]) if k != 1 else ("chr", rng.choice(others))
    mid_body = rng.choice([("alt", [word(1), word(2)]), ("alt", [word(2), word(1)]), word(1), word(2),
                           ("alt", [word(1), ("seq", [])]), ("alt", [("seq", []), word(1)]),
                           ("alt", [("chr", a), word(2)]), ("grp", ("alt", [word(1), word(2)]))])
    mid = rng.choice([("q", mid_body, 0, 1, True), ("q", mid_body, 0, 1, False), ("q", mid_body, 0, None, True),
                      mid_body, ("q", mid_body, 0, 2, False), ("nc", mid_body), ("bol",), ("eol",), ("seq", [])])
    tail = rng.choice([("chr", a), ("chr", rng.choice(others)), ("eol",), ("seq", [("chr", a), ("chr", a)]),
                       ("cls", False, [("c", a)], None)])
    parts = [rep, mid, tail]
    if rng.random() < 0.3:
        parts.insert(0, rng.choice([("bol",), ("chr", rng.choice(alphabet)), ("grp", ("chr", rng.choice(alphabet)))]))
    return ("seq", parts)


def fixedrep(rng, alphabet="abc"):
    """(?:W){n,m} T with W a word of 2-3 characters and T beginning like W: the fixed-length greedy
    repeat that must give repetitions back, with inputs made of copies of W"""
    w = "".join(rng.choice(alphabet) for _ in range(rng.randint(2, 3)))
    mn, mx = rng.choice([(2, 3), (2, 2), (2, None), (1, 3), (3, 4), (0, 2), (2, 4)])
    body = ("seq", [("chr", c) for c in w])
    tail = rng.choice([("chr", w[0]), ("seq", [("chr", w[0]), ("chr", w[1])]), ("seq", [("chr", w[0]), ("chr", rng.choice(alphabet))]),
                       ("cls", False, [("c", w[0]), ("c", rng.choice(alphabet))], None)])
    ast = ("seq", [("q", body, mn, mx, rng.random() < 0.8), tail])
    if rng.random() < 0.3:
        ast = ("seq", [rng.choice([("bol",), ("chr", rng.choice(alphabet))])] + ast[1])
    inputs = []
    for _ in range(5):
        k = rng.randint(0, 4)
        junk = "".join(rng.choice(alphabet + "x") for _ in range(rng.randint(0, 3)))
        inputs.append(rng.choice(["", "x", w[0]]) + w * k + junk + rng.choice(["", w[0], w, w[0] + w[1]]))
    return ast, inputs


def precond(rng, alphabet="abc"):
    """'^', then terms of known length that leave no positional precondition of their own (an
    alternation, a group around one, a back-reference-free capture), then a counted repeat of a
    single character or class: the shape whose positional precondition is probed at a fixed offset
    that may lie beyond a short input (Regex construction probes the empty input)"""
    def ch():
        return ("chr", rng.choice(alphabet))
    def fixed_alt():
        k = rng.randint(1, 2)
        def w():
            return ch() if k == 1 else ("seq", [ch() for _ in range(k)])
        return ("alt", [w(), w()])
    head = []
    if rng.random() < 0.85:
        head.append(("bol",))
    for _ in range(rng.randint(0, 2)):
        a = fixed_alt()
        head.append(rng.choice([("nc", a), ("grp", a), ("nc", ("grp", a))]))
    if rng.random() < 0.2:
        head.append(ch())
    atom = rng.choice([ch(), ("cls", False, [("c", rng.choice(alphabet)), ("c", rng.choice(alphabet))], None), ("dot",)])
    mn, mx = rng.choice([(2, 2), (3, 3), (2, None), (2, 4), (3, 5), (1, None), (1, 3), (0, 2), (2, 3)])
    rep = ("q", atom, mn, mx, rng.random() < 0.7)
    if rng.random() < 0.3:
        rep = ("grp", rep)
    tail = rng.choice([("seq", []), ch(), ("eol",), ("seq", [ch(), ch()]), ("nc", fixed_alt())])
    return ("seq", head + [rep, tail])


HIGH = ["x", "z", "o", "g", "\u00e9", "\U0001F600"]


def bigfollow(rng):
    """a quantified single character / class whose characters lie above the first hundred code
    points of the follower's first-character set, followed by a term with a large first-character
    set (., \\w, \\S, a negated class, a group): the shape on which a give-up path of the
    disjointness test decides whether the repeat may stop backtracking.  Returns (ast, inputs)."""
    x = rng.choice(HIGH)
    y = rng.choice([c for c in HIGH if c != x])
    rep_body = rng.choice([("chr", x), ("cls", False, [("c", x)], None), ("cls", False, [("c", x), ("c", y)], None)])
    mn, mx = rng.choice([(0, None), (1, None), (0, 1), (1, 3), (0, 2), (2, None)])
    rep = ("q", rep_body, mn, mx, rng.random() < 0.6)
    follower = rng.choice([("dot",), ("esc", "\\w"), ("esc", "\\S"), ("cls", True, [("c", "a")], None),
                           ("grp", ("seq", [("chr", x), ("chr", y)])), ("grp", ("chr", x)),
                           ("q", ("chr", x), 1, None, True), ("esc", "\\p{L}"), ("cls", True, [("r", "0", "9")], None)])
    parts = [rep, follower]
    if rng.random() < 0.4:
        parts.insert(0, rng.choice([("chr", "a"), ("bol",), ("chr", y)]))
    if rng.random() < 0.4:
        parts.append(rng.choice([("chr", y), ("eol",), ("chr", "-")]))
    inputs = ["", x, x * 2, x * 3, x * 2 + "-", "-" + x * 2 + "-" + x * 3, x * 2 + y, y + x + x, "a" + x * 2, x + y + x * 2 + y]
    return ("seq", parts), inputs


def groupfollow(rng, alphabet="xyz"):
    """X-repeat followed by a quantified group whose body is a sequence that starts with a
    nullable term and goes on with X: the first-character set of the group is that of a sequence
    with a nullable head, which the optimiser must not under-estimate.  Returns (ast, inputs)."""
    x = rng.choice(alphabet)
    others = [c for c in alphabet if c != x] or [x]
    y, z = rng.choice(others), rng.choice(others)
    rep_body = rng.choice([("chr", x), ("cls", False, [("c", x)], None), ("cls", False, [("c", x), ("c", y)], None), ("esc", "\\d")])
    if rep_body[0] == "esc":
        x = "1"
    rep = ("q", rep_body, *rng.choice([(0, None), (1, None), (0, 2), (1, 3)]), rng.random() < 0.7)
    head = rng.choice([("q", ("alt", [("chr", y), ("seq", [("chr", z), ("chr", z)])]), 0, 1, True),
                       ("q", ("alt", [("chr", y), ("seq", [("chr", z), ("chr", z)])]), 0, None, True),
                       ("q", ("chr", y), 0, 1, True), ("q", ("chr", y), 0, None, False),
                       ("alt", [("chr", y), ("seq", [])]), ("q", ("seq", [("chr", y), ("chr", z)]), 0, 1, True),
                       ("bol",), ("seq", [])])
    body = ("seq", [head, ("chr", x)] + ([("chr", rng.choice(alphabet))] if rng.random() < 0.3 else []))
    grp = rng.choice([("nc", body), ("nc", body), ("grp", body)])
    follower = rng.choice([("q", grp, 1, None, True), ("q", grp, 1, 2, True), ("q", grp, 2, 3, True), grp, ("q", grp, 1, None, False)])
    parts = [rep, follower]
    if rng.random() < 0.3:
        parts.insert(0, ("bol",))
        parts.append(("eol",))
    inputs = ["", x, x * 2, x * 3, x + y + x, x * 2 + z * 2 + x, y + x, "-" + x * 2 + "-", x + y, y, x * 2 + y + x + y + x]
    return ("seq", parts), inputs
