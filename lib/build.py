"""Rebuilds everything a check needs from /repo's current working tree: the Rust harness (with the
verification hook enabled), the generated Coq tables, the Coq development (full .vo build), the
extracted OCaml model and its driver.  Idempotent and serialised by a file lock."""
import os, subprocess, sys, fcntl, time, re, json, hashlib

ROOT = os.path.dirname(os.path.dirname(os.path.abspath(__file__)))
WORK = os.path.join(ROOT, "work")
COQ = os.path.join(ROOT, "coq")
ENV = dict(os.environ, CARGO_NET_OFFLINE="true")
ENV.pop("RUSTFLAGS", None)   # harness/.cargo/config.toml sets --cfg regexml_verif


def sh(cmd, cwd=None, timeout=3600, env=None):
    p = subprocess.run(cmd, cwd=cwd, shell=isinstance(cmd, str), capture_output=True, text=True,
                       timeout=timeout, env=env or ENV)
    return p.returncode, p.stdout + p.stderr


class BuildError(Exception):
    pass


def ensure_built(verbose=False):
    """returns dict: {'coq_failed': [files whose compilation failed], 'log': path}"""
    os.makedirs(WORK, exist_ok=True)
    lock = open(os.path.join(WORK, ".lock"), "w")
    fcntl.flock(lock, fcntl.LOCK_EX)
    try:
        t0 = time.time()
        # 1. harness from the working tree
        lockfile = os.path.join(ROOT, "harness", "Cargo.lock")
        if not os.path.exists(lockfile):
            subprocess.run(["cp", "/repo/Cargo.lock", lockfile])
        rc, out = sh(["cargo", "build", "--release", "--offline"], cwd=os.path.join(ROOT, "harness"))
        if rc != 0:
            raise BuildError("cargo build of the harness against /repo failed:\n" + out[-3000:])
        # 2. tables
        dump = os.path.join(WORK, "dump")
        rc, out = sh([os.path.join(ROOT, "harness", "target", "release", "regexml-verif-harness"),
                      "dump-tables", dump])
        if rc != 0:
            raise BuildError("table dump failed:\n" + out[-2000:])
        rc, out = sh([sys.executable, os.path.join(ROOT, "translate", "gen_tables.py"), dump])
        translator_error = None
        if rc != 0:
            translator_error = out.strip()[-1500:]
        # 3. Coq (full .vo build, keep going so that independent properties still build)
        if not os.path.exists(os.path.join(COQ, "Makefile")):
            rc, out = sh("coq_makefile -f _CoqProject -o Makefile", cwd=COQ)
            if rc != 0:
                raise BuildError("coq_makefile failed:\n" + out)
        log = os.path.join(WORK, "coq_make.log")
        # every file under its own time limit: a proof that no longer goes through can make coqc
        # evaluate a large term instead of failing (normal: < 40 s per file)
        rc, out = sh("timeout 3000 make -k -j16 COQC='timeout 300 coqc'", cwd=COQ)
        open(log, "w").write(out)
        failed = []
        if rc != 0:
            failed = sorted(set(re.findall(r'File "\./([\w/]+\.v)", line \d+, characters [\d-]+:\s*\nError', out)))
            more = re.findall(r"make.*\*\*\* \[[^\]]*?: ([\w/]+)\.vo\]", out)
            failed = sorted(set(failed) | set(m + ".v" for m in more))
        # 4. extraction + driver (only if the model itself built)
        model_ml = os.path.join(COQ, "model.ml")
        drv = os.path.join(ROOT, "driver")
        if os.path.exists(os.path.join(COQ, "Extract.vo")) and os.path.exists(model_ml):
            cur = os.path.join(drv, "model.ml")
            need = (not os.path.exists(os.path.join(drv, "driver"))
                    or not os.path.exists(cur)
                    or open(cur).read() != open(model_ml).read()
                    or os.path.getmtime(os.path.join(drv, "driver.ml")) > os.path.getmtime(os.path.join(drv, "driver")))
            if need:
                subprocess.run(["cp", model_ml, os.path.join(COQ, "model.mli"), drv], check=True)
                rc, out = sh("ocamlfind ocamlopt -w -a -o driver model.mli model.ml driver.ml", cwd=drv)
                if rc != 0:
                    raise BuildError("ocaml build failed:\n" + out[-3000:])
        else:
            raise BuildError("the Coq model itself does not build (see work/coq_make.log):\n" + out[-3000:])
        return {"coq_failed": failed, "log": log, "build_s": time.time() - t0,
                "translator_error": translator_error}
    finally:
        fcntl.flock(lock, fcntl.LOCK_UN)
        lock.close()


FORBIDDEN = re.compile(r"\b(Admitted|admit|Axiom|Axioms|Parameter|Parameters|Conjecture|Hypothesis|Variable"
                       r"|Unset Guard|bypass_check|type-in-type|impredicative-set|Admit Obligations)\b")


def scan_forbidden():
    """Admitted/Axiom/... anywhere in the development.  Variable/Hypothesis are allowed only inside
    a Section (checked by tracking Section/End nesting)."""
    bad = []
    for dp, _, fs in os.walk(COQ):
        for f in fs:
            if not f.endswith(".v"):
                continue
            depth = 0
            path = os.path.join(dp, f)
            text = open(path).read()
            text = re.sub(r"\(\*.*?\*\)", lambda m: " " * len(m.group(0)), text, flags=re.S)
            for ln, line in enumerate(text.splitlines(), 1):
                if re.match(r"\s*Section\s+\w+", line):
                    depth += 1
                elif re.match(r"\s*End\s+\w+\s*\.", line) and depth > 0:
                    depth -= 1
                for m in FORBIDDEN.finditer(line):
                    w = m.group(1)
                    if w in ("Variable", "Hypothesis") and depth > 0:
                        continue
                    bad.append(f"{os.path.relpath(path, COQ)}:{ln}: {w}")
    for line in open(os.path.join(COQ, "_CoqProject")):
        if "type-in-type" in line or "impredicative" in line:
            bad.append("_CoqProject: " + line.strip())
    return bad


def assumptions_of(prop_file):
    """re-run coqc on Properties/<file> (output discarded) and collect each Print Assumptions block.
    Returns (ok, {theorem: 'closed' | [axioms]}, raw)"""
    os.makedirs(os.path.join(WORK, "pa"), exist_ok=True)
    out_vo = os.path.join(WORK, "pa", os.path.basename(prop_file).replace(".v", ".vo"))
    rc, out = sh(["timeout", "900", "coqc", "-q", "-Q", ".", "RX", "-w",
                  "-notation-overridden,-deprecated-hint-without-locality,-deprecated-instance-without-locality",
                  "-o", out_vo, prop_file], cwd=COQ)
    if rc != 0:
        return False, {}, out
    blocks = []
    cur = None
    for line in out.splitlines():
        if line.startswith("Closed under the global context"):
            blocks.append("closed")
            cur = None
        elif line.startswith("Axioms:"):
            cur = []
            blocks.append(cur)
        elif cur is not None and line.strip():
            if re.match(r"^\S", line):
                cur.append(line.split(":")[0].strip())
    return True, blocks, out
