"""Cross-check of extraction + OCaml driver: a sample of cases is evaluated inside Coq (vm_compute on
the model's own definitions, no extraction) and compared field by field with what the extracted
driver printed for the same cases."""
import os, subprocess, re, tempfile, shutil
import tie, build


def nlist(s):
    return "[" + ";".join(str(ord(c)) for c in s) + "]%N"


def coq_eval(cases):
    """cases: list of core.Case with apis subset of 'mr'.  Returns list of (is_match, replace) strings
    as Coq prints them, one per case."""
    d = tempfile.mkdtemp(prefix="coqx_", dir=tie.WORK)
    try:
        lines = ["From RX Require Import Base.Prelude Model.Engine Model.Matcher Model.Compiler Model.Api.",
                 "Definition one (xpath : bool) (fl p s r : list N) :=",
                 "  match regex_new false xpath p fl with",
                 "  | Ok re => (Some (is_match re s), Some (replace_all re s r))",
                 "  | Err e => (None, None) | Panic _ => (None, None) | Out => (None, None) end.",
                 "Definition results := ["]
        items = []
        for c in cases:
            items.append(f"  one {'true' if c.dialect == 'xpath' else 'false'} {nlist(c.flags)} {nlist(c.pattern)} {nlist(c.input)} {nlist(c.repl)}")
        lines.append(";\n".join(items) + "].")
        # print one result per line in a canonical form
        lines.append("Definition showb (r : res bool) : list N := match r with Ok true => [49] | Ok false => [48] | Err _ => [69] | Panic _ => [80] | Out => [79] end%N.")
        lines.append("Definition showr (r : res (list N)) : list N := match r with Ok l => 111%N :: l | Err EMatchesEmpty => [69;49]%N | Err EInvalidRepl => [69;50]%N | Err _ => [69]%N | Panic _ => [80]%N | Out => [79]%N end.")
        lines.append("Eval vm_compute in flat_map (fun x => (match fst x with Some b => showb b | None => [67]%N end) ++ [1114112%N] ++ (match snd x with Some r => showr r | None => [67]%N end) ++ [1114113%N]) results.")
        path = os.path.join(d, "cases.v")
        open(path, "w").write("\n".join(lines) + "\n")
        p = subprocess.run(["coqc", "-q", "-noglob", "-Q", build.COQ, "RX", path], capture_output=True, text=True, timeout=1200)
        if p.returncode != 0:
            raise RuntimeError("in-Coq evaluation failed: " + (p.stdout + p.stderr)[-1500:])
        out = p.stdout
        body = out[out.index("= ") + 2:out.rindex(": list")]
        nums = [int(x) for x in re.findall(r"\d+", body)]
        res, cur, fields = [], [], []
        for x in nums:
            if x == 1114112:
                fields.append(cur); cur = []
            elif x == 1114113:
                fields.append(cur); cur = []
                res.append((fields[0], fields[1])); fields = []
            else:
                cur.append(x)
        return res
    finally:
        shutil.rmtree(d, ignore_errors=True)


def expected_from_driver(model_fields):
    """the same canonical form, from the driver's result fields"""
    c = model_fields.get("C")
    if c != "ok":
        return ([67], [67])
    m = model_fields.get("M")
    a = {"1": [49], "0": [48], "PANIC": [80], "HANG": [79]}.get(m, [69])
    r = model_fields.get("R", "")
    if r.startswith("ok:"):
        b = [111] + [ord(ch) for ch in tie.dec(r[3:])]
    elif r == "E:MatchesEmptyString":
        b = [69, 49]
    elif r == "E:InvalidReplacementString":
        b = [69, 50]
    elif r == "PANIC":
        b = [80]
    elif r == "HANG":
        b = [79]
    else:
        b = [69]
    return (a, b)


def cross_check(cases, model_results):
    """returns list of mismatching case descriptions (empty = extraction and driver agree with Coq)"""
    got = coq_eval(cases)
    bad = []
    if len(got) != len(cases):
        return [f"in-Coq evaluation returned {len(got)} results for {len(cases)} cases"]
    for c, g in zip(cases, got):
        e = expected_from_driver(model_results.get(c.cid, {}))
        if e != g:
            bad.append({"case": c.to_json(), "in_coq": g, "extracted": e})
    return bad
