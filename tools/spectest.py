#!/usr/bin/env python3
"""development aid: code vs specification oracle on random cases"""
import sys, os, random, time, collections
sys.path.insert(0, os.path.join(os.path.dirname(os.path.abspath(__file__)), "..", "lib"))
import gen, tie, props
seed = int(sys.argv[1]) if len(sys.argv) > 1 else 1
count = int(sys.argv[2]) if len(sys.argv) > 2 else 2000
feats = set(sys.argv[3].split(",")) if len(sys.argv) > 3 else None
rng = random.Random(seed)
lines, slines, meta = [], [], {}
FLAGS = ["", "i", "m", "s", "im", "ms", "is"]
i = 0
while len(lines) < count:
    dialect = "xpath" if rng.random() < 0.9 else "xsd"
    alpha = rng.choice(["ab", "abc", "ab\n", "aAb"])
    g = gen.Gen(rng, alphabet=alpha, dialect=dialect, feats=feats)
    ast, pat = g.pattern(rng.randint(1, 8))
    if rng.random() < 0.05:
        pat = gen.mutate(rng, pat)
    fl = rng.choice(FLAGS) if dialect == "xpath" else rng.choice(["", "i", "s"])
    for inp in gen.inputs_for(rng, alpha, 4):
        lines.append(tie.case_line(i, dialect, fl, pat, inp, "", "mra"))
        slines.append("\t".join([str(i), "match", dialect, tie.enc(fl), tie.enc(pat), tie.enc(inp)]))
        meta[str(i)] = (dialect, fl, pat, inp)
        i += 1
code, _ = tie.run_both(lines, "spec", model=False)
spec = tie.run_tool([tie.DRIVER, "spec"], slines)
stats = collections.Counter()
shown = collections.Counter()
def report(kind, cid, extra):
    stats[kind] += 1
    shown[kind] += 1
    if shown[kind] <= 6:
        print(kind, meta[cid], extra)
for cid in meta:
    c = code[cid]; s = dict(kv.split("=", 1) for kv in spec[cid].split("\t"))
    v = s["V"]; stats["V=" + v] += 1
    if v == "unspec": continue
    if v == "invalid":
        if c["C"] == "ok": report("ACCEPTS-INVALID", cid, c["C"])
        continue
    if c["C"] != "ok":
        report("REJECTS-VALID", cid, c["C"]); continue
    if s.get("bok") != "1": stats["bounds-skip"] += 1; continue
    if "L" in s and s["L"] != c["M"]: report("LANG", cid, f"spec={s['L']} code={c['M']}"); continue
    if s["RM"] != c["M"]: report("RMATCH", cid, f"spec={s['RM']} code={c['M']}"); continue
    nullable = s["nullable"] == "1"
    if nullable != (c["R"] == "E:MatchesEmptyString"): report("NULLABLE", cid, f"spec={nullable} code={c['R']}"); continue
    if nullable: stats["nullable"] += 1; continue
    a = props.parse_analyze(c["A"])
    if a is None: report("ANALYZE-ABNORMAL", cid, c["A"]); continue
    # code spans
    pos = 0; cspans = []; cgroups = []
    for e in a:
        if e[0] == "N": pos += len(e[1])
        else:
            t = props.tree_text(e[1]); cspans.append((pos, pos + len(t))); cgroups.append(props.tree_groups(e[1])); pos += len(t)
    sspans = []; sgroups = []
    if s["SP"]:
        for part in s["SP"].split(";"):
            sp, _, gs = part.partition(":")
            x, y = sp.split("-"); sspans.append((int(x), int(y)))
            sgroups.append(gs.split(",") if gs else [])
    if s["strict"] == "1":
        if cspans != sspans: report("SPANS", cid, f"spec={sspans} code={cspans}"); continue
        # groups
        inp = meta[cid][3]
        bad = False
        for k, gs in enumerate(sgroups):
            for gi, g in enumerate(gs, 1):
                exp = None if g == "~" else inp[int(g.split("-")[0]):int(g.split("-")[1])]
                got = cgroups[k].get(gi)
                if (exp or None) != (got or None): bad = True
        if bad: report("GROUPS", cid, f"spec={sgroups} code={cgroups}"); continue
    stats["ok"] += 1
print(dict(stats))
