#!/bin/bash
# run every quick check under several seeds on the unchanged tree; print only alarms
./setup.sh > /dev/null 2>&1 || { echo SETUP-FAILED; exit 1; }
for s in "$@"; do
  for p in C01 C02 C03 C04 C05 C06 C07 C08 C09 C10 C11 C12 C13 C14 C15 C16 C17 C18 C19 C20; do
    out=$(VERIF_SEED=$s ./check $p --no-build 2>&1)
    echo "$out" | grep -E "^VIOLATION" | sed "s/^/seed=$s /"
    echo "$out" | grep -E "Traceback|Error" | head -2 | sed "s/^/seed=$s $p /"
  done
  echo "seed $s done"
done
echo SWEEP-DONE
