#!/usr/bin/env python3
"""regenerate the table of DESIGN.md §14 (between the markers) from seeded/*/meta.json"""
import os, json, re
root = "/verif/seeded"
rows = []
for mid in sorted(x for x in os.listdir(root) if not x.startswith("_")):
    m = json.load(open(f"{root}/{mid}/meta.json"))
    vr = m.get("verif_run") or {}
    det = "detected" if vr.get("exit") == 1 and vr.get("violation_line") else "MISSED"
    kind = (vr.get("replay") or {}).get("kind", "-")
    def cell(t, n):
        t = (t or "").replace("|", "/").replace("\n", " ")
        return t[:n]
    rows.append(f"| {mid} | {m.get('property')} | {cell(m.get('mechanism') or m.get('what'), 170)} | {cell(m.get('needs') or m.get('what_it_needs'), 130)} | {det} | {kind} |")
table = "| seeded change | property | what it does | needs | `./check <prop> --tier quick` | replay kind |\n|---|---|---|---|---|---|\n" + "\n".join(rows)
p = "/verif/DESIGN.md"
s = open(p).read()
a, b = "<!-- seeded-table-begin -->", "<!-- seeded-table-end -->"
if a in s:
    s = s[:s.index(a) + len(a)] + "\n" + table + "\n" + s[s.index(b):]
else:
    # first use: replace the existing table (from its header row to the blank line after it)
    i = s.index("| seeded change | property |")
    j = s.index("\n\n", i)
    s = s[:i] + a + "\n" + table + "\n" + b + s[j:]
open(p, "w").write(s)
print(len(rows), "rows;", sum("MISSED" in r for r in rows), "missed")
