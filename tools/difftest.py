#!/usr/bin/env python3
"""ad-hoc mass differential run: model vs code on random structured cases (development aid)"""
import sys, os, random, time
sys.path.insert(0, os.path.join(os.path.dirname(os.path.abspath(__file__)), "..", "lib"))
import gen, tie
seed = int(sys.argv[1]) if len(sys.argv) > 1 else 1
count = int(sys.argv[2]) if len(sys.argv) > 2 else 2000
rng = random.Random(seed)
lines = []; meta = {}
FLAGS = ["", "i", "m", "s", "im", "ms", "x", "is"]
i = 0
while len(lines) < count:
    dialect = "xpath" if rng.random() < 0.85 else "xsd"
    alpha = rng.choice(["ab", "abc", "ab\n", "aAb", "ab1"])
    g = gen.Gen(rng, alphabet=alpha, dialect=dialect)
    ast, pat = g.pattern(rng.randint(1, 9))
    if rng.random() < 0.1:
        pat = gen.mutate(rng, pat)
    fl = rng.choice(FLAGS) if dialect == "xpath" else rng.choice(["", "i", "s"])
    for inp in gen.inputs_for(rng, alpha, 4, extra=rng.choice(["", "\n", "AB", "c"])):
        repl = rng.choice(["", "x", "$0", "[$1]", "$2$1", "\\$", "$", "a\\"])
        lines.append(tie.case_line(i, dialect, fl, pat, inp, repl, "mrtau"))
        meta[str(i)] = (dialect, fl, pat, inp, repl)
        i += 1
t0 = time.time()
code, model = tie.run_both(lines, "diff")
dt = time.time() - t0
bad = 0
for cid in meta:
    c, m = code.get(cid), model.get(cid)
    if c != m:
        bad += 1
        if bad <= 25:
            print("DIFF", meta[cid])
            for k in sorted(set(c or {}) | set(m or {})):
                if (c or {}).get(k) != (m or {}).get(k):
                    print("   ", k, "code:", (c or {}).get(k), " model:", (m or {}).get(k))
ok = sum(1 for cid in meta if code.get(cid, {}).get("C") == "ok")
print(f"cases={len(meta)} compiled_ok={ok} disagreements={bad} time={dt:.1f}s")
