#!/usr/bin/env python3
import sys, os, subprocess
sys.path.insert(0, os.path.join(os.path.dirname(os.path.abspath(__file__)), "..", "lib"))
import tie
d, fl, pat, inp = sys.argv[1:5]
repl = sys.argv[5] if len(sys.argv) > 5 else ""
apis = sys.argv[6] if len(sys.argv) > 6 else "mrta"
line = tie.case_line(0, d, fl, pat, inp, repl, apis) + "\n"
c = subprocess.run([tie.HARNESS, "run"], input=line, capture_output=True, text=True).stdout.splitlines()[-1]
m = subprocess.run([tie.DRIVER, "run"], input=line, capture_output=True, text=True).stdout.strip().splitlines()[-1]
print("code :", c); print("model:", m); print("SAME" if c == m else "DIFF")
