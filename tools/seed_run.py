#!/usr/bin/env python3
"""run the registered quick check of a seeded change's property against /repo with the change applied,
then undo the change; record the outcome in seeded/<id>/meta.json"""
import sys, os, json, subprocess, time
ids = sys.argv[1:] or sorted(x for x in os.listdir("/verif/seeded") if not x.startswith("_"))
for mid in ids:
    d = f"/verif/seeded/{mid}"
    meta = json.load(open(f"{d}/meta.json"))
    prop = meta.get("property", mid)
    subprocess.run(["git", "-C", "/repo", "checkout", "--", "."], check=True)
    r = subprocess.run(["git", "-C", "/repo", "apply", f"{d}/patch.diff"])
    if r.returncode != 0:
        print(mid, "APPLY FAILED"); continue
    t0 = time.time()
    try:
        p = subprocess.run(["./check", prop, "--tier", "quick"], cwd="/verif", capture_output=True, text=True, timeout=3000)
        out, rc = p.stdout, p.returncode
    finally:
        subprocess.run(["git", "-C", "/repo", "checkout", "--", "."], check=True)
    vio = [l for l in out.splitlines() if l.startswith("VIOLATION")]
    summary = [l for l in out.splitlines() if l.startswith(prop + ":")]
    replay = None
    if vio:
        path = vio[0].split("replay=")[1].split()[0]
        try:
            rj = json.load(open(path))
            replay = {k: rj.get(k) for k in ("kind", "case", "expected", "got", "why", "differs") if k in rj}
        except Exception as e:
            replay = {"error": str(e)}
    meta["verif_run"] = {"check": f"./check {prop} --tier quick", "seed": os.environ.get("VERIF_SEED", "default (20261002)"), "exit": rc, "violation_line": vio[0] if vio else None,
                         "summary": summary[-1] if summary else None, "replay": replay, "wall_s": round(time.time() - t0, 1)}
    json.dump(meta, open(f"{d}/meta.json", "w"), indent=1, ensure_ascii=False)
    print(mid, "->", "DETECTED" if rc == 1 and vio else f"MISSED rc={rc}", "|", (vio[0] if vio else "")[:120], "|", (summary[-1] if summary else "")[-120:])
# leave the harness built from the unchanged tree
subprocess.run(["cargo", "build", "--release", "--offline"], cwd="/verif/harness", capture_output=True)
