#!/bin/sh
# apply a seeded mutant to /repo, run the given property's slice, undo.  usage: try_mutant.sh <mutant id> [property] [tier]
id=$1; prop=${2:-$1}; tier=${3:-quick}
cd /verif
git -C /repo apply /verif/seeded/$id/patch.diff || exit 2
( cd harness && cargo build --release --offline 2>&1 | grep -E "^error" -A5 )
python3 tools/runslice.py $prop $tier 2>&1 | head -${LINES_OUT:-6} | cut -c1-420
git -C /repo checkout -- .
