#!/bin/bash
# run every thorough check once on the unchanged tree; print verdict lines and wall time
./setup.sh > /dev/null 2>&1 || { echo SETUP-FAILED; exit 1; }
for p in "$@"; do
  t0=$(date +%s)
  out=$(./check $p --tier thorough --no-build 2>&1)
  rc=$?
  t1=$(date +%s)
  echo "$out" | grep -E "^(VIOLATION|KNOWN-FINDING|$p:)" | cut -c1-260
  echo "$out" | grep -E "Traceback|Error" | head -3
  echo "== $p rc=$rc wall=$((t1-t0))s"
done
echo THOROUGH-DONE
