#!/usr/bin/env python3
"""development aid: run one property's slice and summarise (no proof step, no evidence)"""
import sys, os, time, json, collections
sys.path.insert(0, os.path.join(os.path.dirname(os.path.abspath(__file__)), "..", "lib"))
import props, core
prop = sys.argv[1]; tier = sys.argv[2] if len(sys.argv) > 2 else "quick"
seed = int(sys.argv[3]) if len(sys.argv) > 3 else 1
t0 = time.time()
sl = props.SLICES[prop](props.Ctx(prop, tier, seed))
hits = props.attribute_known(prop, sl)
unk = [v for v in sl["violations"] if not v.get("known")]
print(f"{prop}: cases={sl['evaluations']} nontrivial={sl['distinct_nontrivial']} disagreements={len(sl['disagreements'])} violations={len(sl['violations'])} unknown={len(unk)} t={time.time()-t0:.1f}s")
print("  extra:", json.dumps(sl.get("extra", {}))[:400])
for d in sl["disagreements"][:4]:
    print("  DIS", json.dumps(d)[:500])
whys = collections.Counter((v.get("why","")[:70], json.dumps(v.get("spec",{}),sort_keys=True), v.get("code_equals_model")) for v in sl["violations"])
for w, n in whys.most_common(12):
    print("  VIOL x%d" % n, w)
for v in unk[:6]:
    print("   e.g.", json.dumps({k: v[k] for k in ("case","expected","got","why") if k in v})[:600])
