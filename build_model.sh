#!/bin/sh
# rebuild Coq model + extraction + OCaml driver; prints only errors
set -e
cd /verif/coq
coq_makefile -f _CoqProject -o Makefile >/dev/null 2>&1
if ! timeout 3000 make -j16 > /verif/work/mk.log 2>&1; then grep -B2 -A20 -E "Error" /verif/work/mk.log | head -60; exit 1; fi
cd /verif/driver
if [ ! -f model.ml ] || ! cmp -s ../coq/model.ml model.ml || [ ! -x driver ] || [ driver.ml -nt driver ]; then
  cp ../coq/model.ml ../coq/model.mli .
  ocamlfind ocamlopt -w -a -o driver model.mli model.ml driver.ml
fi
echo build-ok
