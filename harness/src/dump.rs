// Table dumps (ICU data as linked into this build) and behavioural sweeps.
use icu_casemap::{CaseMapCloser, CaseMapper};
use icu_collections::codepointinvlist::CodePointInversionListBuilder;
use icu_properties::{maps, sets, GeneralCategory, GeneralCategoryGroup};
use regexml::Regex;
use std::fmt::Write as _;
use std::io::{BufRead, Write};
use std::panic::{catch_unwind, AssertUnwindSafe};

const GROUPS: &[(&str, GeneralCategoryGroup)] = &[
    ("Letter", GeneralCategoryGroup::Letter),
    ("UppercaseLetter", GeneralCategoryGroup::UppercaseLetter),
    ("LowercaseLetter", GeneralCategoryGroup::LowercaseLetter),
    ("TitlecaseLetter", GeneralCategoryGroup::TitlecaseLetter),
    ("ModifierLetter", GeneralCategoryGroup::ModifierLetter),
    ("OtherLetter", GeneralCategoryGroup::OtherLetter),
    ("Mark", GeneralCategoryGroup::Mark),
    ("NonspacingMark", GeneralCategoryGroup::NonspacingMark),
    ("SpacingMark", GeneralCategoryGroup::SpacingMark),
    ("EnclosingMark", GeneralCategoryGroup::EnclosingMark),
    ("Number", GeneralCategoryGroup::Number),
    ("DecimalNumber", GeneralCategoryGroup::DecimalNumber),
    ("LetterNumber", GeneralCategoryGroup::LetterNumber),
    ("OtherNumber", GeneralCategoryGroup::OtherNumber),
    ("Punctuation", GeneralCategoryGroup::Punctuation),
    ("ConnectorPunctuation", GeneralCategoryGroup::ConnectorPunctuation),
    ("DashPunctuation", GeneralCategoryGroup::DashPunctuation),
    ("OpenPunctuation", GeneralCategoryGroup::OpenPunctuation),
    ("ClosePunctuation", GeneralCategoryGroup::ClosePunctuation),
    ("InitialPunctuation", GeneralCategoryGroup::InitialPunctuation),
    ("FinalPunctuation", GeneralCategoryGroup::FinalPunctuation),
    ("OtherPunctuation", GeneralCategoryGroup::OtherPunctuation),
    ("Separator", GeneralCategoryGroup::Separator),
    ("SpaceSeparator", GeneralCategoryGroup::SpaceSeparator),
    ("LineSeparator", GeneralCategoryGroup::LineSeparator),
    ("ParagraphSeparator", GeneralCategoryGroup::ParagraphSeparator),
    ("Symbol", GeneralCategoryGroup::Symbol),
    ("MathSymbol", GeneralCategoryGroup::MathSymbol),
    ("CurrencySymbol", GeneralCategoryGroup::CurrencySymbol),
    ("ModifierSymbol", GeneralCategoryGroup::ModifierSymbol),
    ("OtherSymbol", GeneralCategoryGroup::OtherSymbol),
    ("Other", GeneralCategoryGroup::Other),
    ("Control", GeneralCategoryGroup::Control),
    ("Format", GeneralCategoryGroup::Format),
    ("PrivateUse", GeneralCategoryGroup::PrivateUse),
    ("Unassigned", GeneralCategoryGroup::Unassigned),
    ("Surrogate", GeneralCategoryGroup::Surrogate),
];

fn ranges_line(name: &str, ranges: impl Iterator<Item = std::ops::RangeInclusive<u32>>) -> String {
    let mut s = String::from(name);
    for r in ranges {
        write!(s, " {:x}-{:x}", r.start(), r.end()).unwrap();
    }
    s
}

pub fn dump_tables(outdir: &str) {
    std::fs::create_dir_all(outdir).unwrap();
    // general category groups, exactly the calls category.rs makes
    let mut gc = String::new();
    for (name, g) in GROUPS {
        let set = sets::for_general_category_group(*g);
        let il = set.to_code_point_inversion_list();
        let mut b = CodePointInversionListBuilder::new();
        b.add_set(&il);
        let built = b.build();
        gc.push_str(&ranges_line(name, built.iter_ranges()));
        gc.push('\n');
    }
    {
        let s = maps::general_category().get_set_for_value(GeneralCategory::DecimalNumber);
        let il = s.to_code_point_inversion_list();
        gc.push_str(&ranges_line("MapDecimalNumber", il.iter_ranges()));
        gc.push('\n');
    }
    std::fs::write(format!("{}/gc.txt", outdir), gc).unwrap();

    // case data: simple_lowercase (non-identity) and add_case_closure_to (non-empty)
    let cm = CaseMapper::new();
    let cc = CaseMapCloser::new();
    let mut lower = String::new();
    let mut closure = String::new();
    for cp in 0u32..=0x10FFFF {
        if let Some(c) = char::from_u32(cp) {
            let l = cm.simple_lowercase(c);
            if l != c {
                writeln!(lower, "{:x} {:x}", cp, l as u32).unwrap();
            }
            let mut b = CodePointInversionListBuilder::new();
            cc.add_case_closure_to(c, &mut b);
            let built = b.build();
            if built.size() > 0 {
                write!(closure, "{:x}", cp).unwrap();
                for r in built.iter_ranges() {
                    write!(closure, " {:x}-{:x}", r.start(), r.end()).unwrap();
                }
                closure.push('\n');
            }
        }
    }
    std::fs::write(format!("{}/lower.txt", outdir), lower).unwrap();
    std::fs::write(format!("{}/closure.txt", outdir), closure).unwrap();
}

fn dec(s: &str) -> String {
    if s == "-" {
        return String::new();
    }
    s.split('.')
        .map(|h| char::from_u32(u32::from_str_radix(h, 16).unwrap()).unwrap())
        .collect()
}

// sweep: stdin lines "id \t dialect \t flags \t pattern \t points" (points = "all" or hex list);
// output "id \t ok <ranges of matching code points among the points>" or "id \t E:..".
// The pattern is used as given (callers anchor it themselves).
pub fn sweep() {
    let stdin = std::io::stdin();
    let out = std::io::stdout();
    let mut w = std::io::BufWriter::new(out.lock());
    for line in stdin.lock().lines() {
        let line = line.unwrap();
        if line.is_empty() {
            continue;
        }
        let f: Vec<&str> = line.split('\t').collect();
        let (id, dialect, flags, pattern, points) = (f[0], f[1], dec(f[2]), dec(f[3]), f[4]);
        let re = catch_unwind(AssertUnwindSafe(|| match dialect {
            "xpath" => Regex::xpath(&pattern, &flags),
            _ => Regex::xsd(&pattern, &flags),
        }));
        let re = match re {
            Err(_) => {
                writeln!(w, "{}\tPANIC", id).unwrap();
                continue;
            }
            Ok(Err(e)) => {
                let k = match e {
                    regexml::Error::Syntax(_) => "E:Syntax",
                    regexml::Error::InvalidFlags(_) => "E:InvalidFlags",
                    _ => "E:Other",
                };
                writeln!(w, "{}\t{}", id, k).unwrap();
                continue;
            }
            Ok(Ok(re)) => re,
        };
        let pts: Vec<u32> = if points == "all" {
            (0u32..=0x10FFFF).filter(|c| char::from_u32(*c).is_some()).collect()
        } else {
            points.split('.').map(|h| u32::from_str_radix(h, 16).unwrap()).collect()
        };
        let mut s = String::new();
        let mut buf = [0u8; 4];
        let mut run: Option<(u32, u32)> = None;
        let mut panicked = false;
        for cp in pts {
            let c = char::from_u32(cp).unwrap();
            let st: &str = c.encode_utf8(&mut buf);
            let m = match catch_unwind(AssertUnwindSafe(|| re.is_match(st))) {
                Ok(m) => m,
                Err(_) => {
                    panicked = true;
                    break;
                }
            };
            if m {
                run = match run {
                    Some((a, b)) if b + 1 == cp || (b == 0xD7FF && cp == 0xE000) => Some((a, cp)),
                    Some((a, b)) => {
                        write!(s, " {:x}-{:x}", a, b).unwrap();
                        Some((cp, cp))
                    }
                    None => Some((cp, cp)),
                };
            } else if points != "all" {
                // in list mode report each point separately: runs only over adjacent listed points
                if let Some((a, b)) = run.take() {
                    write!(s, " {:x}-{:x}", a, b).unwrap();
                }
            } else if let Some((a, b)) = run.take() {
                write!(s, " {:x}-{:x}", a, b).unwrap();
            }
        }
        if let Some((a, b)) = run.take() {
            write!(s, " {:x}-{:x}", a, b).unwrap();
        }
        if panicked {
            writeln!(w, "{}\tPANIC", id).unwrap();
        } else {
            writeln!(w, "{}\tok{}", id, s).unwrap();
        }
    }
    w.flush().unwrap();
}

pub fn history() {
    crate::hist::run();
}
