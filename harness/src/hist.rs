// C18 histories: a pool of Regex objects and a sequence of calls with interleaved, partially
// consumed iterators, executed on shared objects, on fresh objects, and from several threads.
use crate::{dec, enc, entry, err};
use regexml::{AnalyzeEntry, Error, Regex};
use std::collections::HashMap;
use std::io::BufRead;
use std::panic::{catch_unwind, AssertUnwindSafe};

fn assert_send_sync<T: Send + Sync>() {}

enum Handle<'a> {
    Tok(Box<dyn Iterator<Item = String> + 'a>),
    An(Box<dyn Iterator<Item = AnalyzeEntry> + 'a>),
    Closed,
}

fn compile(d: &str, f: &str, p: &str) -> Result<Regex, Error> {
    if d == "xpath" {
        Regex::xpath(p, f)
    } else {
        Regex::xsd(p, f)
    }
}

fn an_entry(e: &AnalyzeEntry) -> String {
    let mut s = String::from("ent:");
    match e {
        AnalyzeEntry::NonMatch(t) => {
            s.push_str("N(");
            s.push_str(&enc(t));
            s.push(')');
        }
        AnalyzeEntry::Match(es) => {
            s.push_str("M(");
            for x in es {
                entry(&mut s, x);
            }
            s.push(')');
        }
    }
    s
}

// run the whole history; `get` yields the regex to use for pool index i (shared or fresh)
fn run_history<'a>(
    ops: &[Vec<String>],
    get: &dyn Fn(usize) -> &'a Result<Regex, Error>,
) -> Vec<(String, String)> {
    let mut out = Vec::new();
    let mut handles: HashMap<usize, Handle<'a>> = HashMap::new();
    // the inputs of is_match / replace_all live in one buffer that is refilled for every call (same
    // address, often the same length, different text): results must depend on the text alone
    let mut scratch = String::with_capacity(1 << 14);
    for op in ops {
        let k = op[1].clone();
        let res = match op[0].as_str() {
            "m" => match get(op[2].parse().unwrap()) {
                Err(e) => format!("C:{}", err(e)),
                Ok(re) => {
                    scratch.clear();
                    scratch.push_str(&dec(&op[3]));
                    let inp: &str = &scratch;
                    match catch_unwind(AssertUnwindSafe(|| re.is_match(inp))) {
                        Ok(true) => "1".into(),
                        Ok(false) => "0".into(),
                        Err(_) => "PANIC".into(),
                    }
                }
            },
            "r" => match get(op[2].parse().unwrap()) {
                Err(e) => format!("C:{}", err(e)),
                Ok(re) => {
                    scratch.clear();
                    scratch.push_str(&dec(&op[3]));
                    let (inp, rep): (&str, String) = (&scratch, dec(&op[4]));
                    match catch_unwind(AssertUnwindSafe(|| re.replace_all(inp, &rep))) {
                        Ok(Ok(s)) => format!("ok:{}", enc(&s)),
                        Ok(Err(e)) => err(&e).to_string(),
                        Err(_) => "PANIC".into(),
                    }
                }
            },
            "T" | "A" => {
                let h: usize = op[4].parse().unwrap();
                match get(op[2].parse().unwrap()) {
                    Err(e) => {
                        handles.insert(h, Handle::Closed);
                        format!("C:{}", err(e))
                    }
                    Ok(re) => {
                        let inp = dec(&op[3]);
                        if op[0] == "T" {
                            match catch_unwind(AssertUnwindSafe(|| re.tokenize(&inp))) {
                                Ok(Ok(it)) => {
                                    handles.insert(h, Handle::Tok(Box::new(it)));
                                    "open".into()
                                }
                                Ok(Err(e)) => {
                                    handles.insert(h, Handle::Closed);
                                    format!("ERR:{}", err(&e))
                                }
                                Err(_) => {
                                    handles.insert(h, Handle::Closed);
                                    "PANIC".into()
                                }
                            }
                        } else {
                            match catch_unwind(AssertUnwindSafe(|| re.analyze(&inp))) {
                                Ok(Ok(it)) => {
                                    handles.insert(h, Handle::An(Box::new(it)));
                                    "open".into()
                                }
                                Ok(Err(e)) => {
                                    handles.insert(h, Handle::Closed);
                                    format!("ERR:{}", err(&e))
                                }
                                Err(_) => {
                                    handles.insert(h, Handle::Closed);
                                    "PANIC".into()
                                }
                            }
                        }
                    }
                }
            }
            "N" => {
                let h: usize = op[2].parse().unwrap();
                match handles.get_mut(&h) {
                    None | Some(Handle::Closed) => "closed".into(),
                    Some(Handle::Tok(it)) => match catch_unwind(AssertUnwindSafe(|| it.next())) {
                        Ok(Some(t)) => format!("tok:{}", enc(&t)),
                        Ok(None) => "none".into(),
                        Err(_) => "PANIC".into(),
                    },
                    Some(Handle::An(it)) => match catch_unwind(AssertUnwindSafe(|| it.next())) {
                        Ok(Some(e)) => an_entry(&e),
                        Ok(None) => "none".into(),
                        Err(_) => "PANIC".into(),
                    },
                }
            }
            "D" => {
                let h: usize = op[2].parse().unwrap();
                handles.remove(&h);
                "dropped".into()
            }
            _ => "?".into(),
        };
        out.push((k, res));
    }
    out
}

pub fn run() {
    assert_send_sync::<Regex>();
    let mode = std::env::args().nth(2).unwrap_or_else(|| "shared".into());
    let mut defs: Vec<(String, String, String)> = Vec::new();
    let mut ops: Vec<Vec<String>> = Vec::new();
    for line in std::io::stdin().lock().lines() {
        let line = line.unwrap();
        if line.is_empty() {
            continue;
        }
        let f: Vec<String> = line.split('\t').map(|s| s.to_string()).collect();
        if f[0] == "R" {
            defs.push((f[2].clone(), dec(&f[3]), dec(&f[4])));
        } else {
            ops.push(f);
        }
    }
    let results = match mode.as_str() {
        "shared" => {
            let pool: Vec<Result<Regex, Error>> =
                defs.iter().map(|(d, f, p)| compile(d, f, p)).collect();
            run_history(&ops, &|i| &pool[i])
        }
        "fresh" => {
            // every use compiles a fresh object (leaked so that iterators may borrow it)
            let defs2 = defs.clone();
            let getter = move |i: usize| -> &'static Result<Regex, Error> {
                let (d, f, p) = &defs2[i];
                Box::leak(Box::new(compile(d, f, p)))
            };
            run_history(&ops, &getter)
        }
        "threads" => {
            let pool: Vec<Result<Regex, Error>> =
                defs.iter().map(|(d, f, p)| compile(d, f, p)).collect();
            let barrier = std::sync::Barrier::new(8);
            let all: Vec<Vec<(String, String)>> = std::thread::scope(|sc| {
                let hs: Vec<_> = (0..8)
                    .map(|_| {
                        sc.spawn(|| {
                            barrier.wait();
                            run_history(&ops, &|i| &pool[i])
                        })
                    })
                    .collect();
                hs.into_iter().map(|h| h.join().unwrap()).collect()
            });
            let mut first = all[0].clone();
            for other in &all[1..] {
                for (a, b) in first.iter_mut().zip(other.iter()) {
                    if a.1 != b.1 && !a.1.starts_with("THREAD-MISMATCH") {
                        a.1 = format!("THREAD-MISMATCH:{}|{}", a.1, b.1);
                    }
                }
            }
            first
        }
        "threads-fresh" => {
            // 8 threads, each compiling a fresh object for every use: compilations of patterns of
            // both dialects run concurrently with each other and with matching
            let barrier = std::sync::Barrier::new(8);
            let defs_ref = &defs;
            let all: Vec<Vec<(String, String)>> = std::thread::scope(|sc| {
                let hs: Vec<_> = (0..8)
                    .map(|_| {
                        sc.spawn(|| {
                            barrier.wait();
                            let getter = move |i: usize| -> &'static Result<Regex, Error> {
                                let (d, f, p) = &defs_ref[i];
                                Box::leak(Box::new(compile(d, f, p)))
                            };
                            run_history(&ops, &getter)
                        })
                    })
                    .collect();
                hs.into_iter().map(|h| h.join().unwrap()).collect()
            });
            let mut first = all[0].clone();
            for other in &all[1..] {
                for (a, b) in first.iter_mut().zip(other.iter()) {
                    if a.1 != b.1 && !a.1.starts_with("THREAD-MISMATCH") {
                        a.1 = format!("THREAD-MISMATCH:{}|{}", a.1, b.1);
                    }
                }
            }
            first
        }
        _ => panic!("mode"),
    };
    let mut out = String::new();
    for (k, r) in results {
        out.push_str(&k);
        out.push('\t');
        out.push_str(&r);
        out.push('\n');
    }
    print!("{}", out);
}
