// C18 histories: filled in below (see DESIGN.md §5 C18)
pub fn run() {
    unimplemented!()
}
