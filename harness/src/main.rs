// Harness side of the correspondence check: runs cases through the real regexml API and prints one
// canonical result line per case.  See /verif/DESIGN.md §2.3.2 for the format.
use regexml::{AnalyzeEntry, Error, MatchEntry, Regex};
use std::fmt::Write as _;
use std::io::{BufRead, BufWriter, Write};
use std::panic::{catch_unwind, AssertUnwindSafe};

mod dump;
mod hist;

pub(crate) fn dec(s: &str) -> String {
    if s == "-" {
        return String::new();
    }
    s.split('.')
        .map(|h| char::from_u32(u32::from_str_radix(h, 16).expect("hex")).expect("scalar"))
        .collect()
}

pub(crate) fn enc(s: &str) -> String {
    if s.is_empty() {
        return "-".to_string();
    }
    let mut out = String::new();
    for (i, c) in s.chars().enumerate() {
        if i > 0 {
            out.push('.');
        }
        write!(out, "{:x}", c as u32).unwrap();
    }
    out
}

pub(crate) fn err(e: &Error) -> &'static str {
    match e {
        Error::Internal => "E:Internal",
        Error::InvalidFlags(_) => "E:InvalidFlags",
        Error::Syntax(_) => "E:Syntax",
        Error::MatchesEmptyString => "E:MatchesEmptyString",
        Error::InvalidReplacementString(_) => "E:InvalidReplacementString",
    }
}

pub(crate) fn entry(out: &mut String, e: &MatchEntry) {
    match e {
        MatchEntry::String(s) => {
            out.push_str("S(");
            out.push_str(&enc(s));
            out.push(')');
        }
        MatchEntry::Group { nr, value } => {
            write!(out, "G{}(", nr).unwrap();
            for v in value {
                entry(out, v);
            }
            out.push(')');
        }
    }
}

fn guard<F: FnOnce() -> String>(f: F) -> String {
    match catch_unwind(AssertUnwindSafe(f)) {
        Ok(s) => s,
        Err(_) => "PANIC".to_string(),
    }
}

fn compile(dialect: &str, pattern: &str, flags: &str, unopt: bool) -> Result<Regex, Error> {
    if unopt {
        #[cfg(regexml_verif)]
        {
            return match dialect {
                "xpath" => Regex::xpath_unoptimized(pattern, flags),
                _ => Regex::xsd_unoptimized(pattern, flags),
            };
        }
        #[cfg(not(regexml_verif))]
        panic!("built without --cfg regexml_verif");
    }
    match dialect {
        "xpath" => Regex::xpath(pattern, flags),
        _ => Regex::xsd(pattern, flags),
    }
}

fn run_apis(out: &mut String, pfx: &str, re: &Regex, input: &str, repl: &str, apis: &str) {
    let cap_t = input.chars().count() + 3;
    let cap_a = 2 * input.chars().count() + 4;
    for api in apis.chars() {
        match api {
            'm' => {
                let r = guard(|| if re.is_match(input) { "1".into() } else { "0".into() });
                write!(out, "\t{}M={}", pfx, r).unwrap();
            }
            'r' => {
                let r = guard(|| match re.replace_all(input, repl) {
                    Ok(s) => format!("ok:{}", enc(&s)),
                    Err(e) => err(&e).to_string(),
                });
                write!(out, "\t{}R={}", pfx, r).unwrap();
            }
            't' => {
                let r = guard(|| match re.tokenize(input) {
                    Err(e) => err(&e).to_string(),
                    Ok(mut it) => {
                        let mut s = String::from("ok:[");
                        let mut n = 0usize;
                        loop {
                            let nx = catch_unwind(AssertUnwindSafe(|| it.next()));
                            match nx {
                                Err(_) => {
                                    s.push_str("]!PANIC");
                                    return s;
                                }
                                Ok(None) => break,
                                Ok(Some(tok)) => {
                                    if n > 0 {
                                        s.push('|');
                                    }
                                    s.push_str(&enc(&tok));
                                    n += 1;
                                    if n > cap_t {
                                        s.push_str("]!INF");
                                        return s;
                                    }
                                }
                            }
                        }
                        // fused: a few more calls must keep returning None
                        for _ in 0..3 {
                            match catch_unwind(AssertUnwindSafe(|| it.next())) {
                                Ok(None) => {}
                                Ok(Some(_)) => {
                                    s.push_str("]!UNFUSED");
                                    return s;
                                }
                                Err(_) => {
                                    s.push_str("]!PANIC");
                                    return s;
                                }
                            }
                        }
                        s.push(']');
                        s
                    }
                });
                write!(out, "\t{}T={}", pfx, r).unwrap();
            }
            'a' => {
                let r = guard(|| match re.analyze(input) {
                    Err(e) => err(&e).to_string(),
                    Ok(mut it) => {
                        let mut s = String::from("ok:");
                        let mut n = 0usize;
                        loop {
                            let nx = catch_unwind(AssertUnwindSafe(|| it.next()));
                            match nx {
                                Err(_) => {
                                    s.push_str("!PANIC");
                                    return s;
                                }
                                Ok(None) => break,
                                Ok(Some(AnalyzeEntry::NonMatch(t))) => {
                                    s.push_str("N(");
                                    s.push_str(&enc(&t));
                                    s.push(')');
                                    n += 1;
                                }
                                Ok(Some(AnalyzeEntry::Match(es))) => {
                                    s.push_str("M(");
                                    for e in &es {
                                        entry(&mut s, e);
                                    }
                                    s.push(')');
                                    n += 1;
                                }
                            }
                            if n > cap_a {
                                s.push_str("!INF");
                                return s;
                            }
                        }
                        for _ in 0..3 {
                            match catch_unwind(AssertUnwindSafe(|| it.next())) {
                                Ok(None) => {}
                                Ok(Some(_)) => {
                                    s.push_str("!UNFUSED");
                                    return s;
                                }
                                Err(_) => {
                                    s.push_str("!PANIC");
                                    return s;
                                }
                            }
                        }
                        s
                    }
                });
                write!(out, "\t{}A={}", pfx, r).unwrap();
            }
            _ => {}
        }
    }
}

// case line: id \t dialect \t flags \t pattern \t input \t repl \t apis
// apis: any of m r t a (run on the optimised regex), u (repeat the same through the unoptimised
// constructor, prefix "u"), 2 (compile a second time and repeat, prefix "2")
fn run_case(line: &str) -> String {
    let f: Vec<&str> = line.split('\t').collect();
    let (id, dialect, flags, pattern, input, repl, apis) =
        (f[0], f[1], dec(f[2]), dec(f[3]), dec(f[4]), dec(f[5]), f[6]);
    let mut out = String::new();
    out.push_str(id);
    let re = catch_unwind(AssertUnwindSafe(|| compile(dialect, &pattern, &flags, false)));
    match re {
        Err(_) => out.push_str("\tC=PANIC"),
        Ok(Err(e)) => write!(out, "\tC={}", err(&e)).unwrap(),
        Ok(Ok(re)) => {
            out.push_str("\tC=ok");
            run_apis(&mut out, "", &re, &input, &repl, apis);
        }
    }
    if apis.contains('u') {
        let re = catch_unwind(AssertUnwindSafe(|| compile(dialect, &pattern, &flags, true)));
        match re {
            Err(_) => out.push_str("\tuC=PANIC"),
            Ok(Err(e)) => write!(out, "\tuC={}", err(&e)).unwrap(),
            Ok(Ok(re)) => {
                out.push_str("\tuC=ok");
                run_apis(&mut out, "u", &re, &input, &repl, apis);
            }
        }
    }
    out
}

fn main() {
    // panics are outcomes here, not noise; VERIF_PANIC_MSG=1 shows where they come from
    if std::env::var_os("VERIF_PANIC_MSG").is_some() {
        std::panic::set_hook(Box::new(|info| eprintln!("PANIC: {}", info)));
    } else {
        std::panic::set_hook(Box::new(|_| {}));
    }
    let args: Vec<String> = std::env::args().collect();
    match args.get(1).map(|s| s.as_str()) {
        Some("run") => {
            // run [skip]: read cases on stdin, write results on stdout, flushing per line so the
            // orchestrator's watchdog can see which case stalls
            let skip: usize = args.get(2).map(|s| s.parse().unwrap()).unwrap_or(0);
            let stdin = std::io::stdin();
            let stdout = std::io::stdout();
            let mut w = BufWriter::new(stdout.lock());
            for (n, line) in stdin.lock().lines().enumerate() {
                let line = line.unwrap();
                if n < skip || line.is_empty() {
                    continue;
                }
                let id = line.split('\t').next().unwrap();
                // progress marker on stderr-free channel: we write the id first, then the result
                writeln!(w, "@{}", id).unwrap();
                w.flush().unwrap();
                let r = run_case(&line);
                writeln!(w, "{}", r).unwrap();
            }
            w.flush().unwrap();
        }
        Some("probe") => {
            // probe dialect flags pattern input [repl]   (plain strings)
            let d = &args[2];
            let enc_or = |i: usize| args.get(i).map(|s| enc(s)).unwrap_or("-".into());
            let apis = if cfg!(regexml_verif) { "mrtau" } else { "mrta" };
            let line = format!(
                "probe\t{}\t{}\t{}\t{}\t{}\t{}",
                d,
                enc_or(3),
                enc_or(4),
                enc_or(5),
                enc_or(6),
                apis
            );
            println!("{}", run_case(&line).replace('\t', "\n  "));
        }
        Some("dump-tables") => dump::dump_tables(&args[2]),
        Some("sweep") => dump::sweep(),
        Some("history") => dump::history(),
        _ => {
            eprintln!("usage: harness run|probe|dump-tables|sweep|history");
            std::process::exit(2);
        }
    }
}
