import re,unicodedata,glob,sys
# gc16 from regex-syntax
src=open(glob.glob('/root/.cargo/registry/src/*/regex-syntax-0.8.11/src/unicode_tables/general_category.rs')[0]).read()
long2short={'Uppercase_Letter':'Lu','Lowercase_Letter':'Ll','Titlecase_Letter':'Lt','Modifier_Letter':'Lm','Other_Letter':'Lo','Nonspacing_Mark':'Mn','Spacing_Mark':'Mc','Enclosing_Mark':'Me','Decimal_Number':'Nd','Letter_Number':'Nl','Other_Number':'No','Connector_Punctuation':'Pc','Dash_Punctuation':'Pd','Open_Punctuation':'Ps','Close_Punctuation':'Pe','Initial_Punctuation':'Pi','Final_Punctuation':'Pf','Other_Punctuation':'Po','Space_Separator':'Zs','Line_Separator':'Zl','Paragraph_Separator':'Zp','Math_Symbol':'Sm','Currency_Symbol':'Sc','Modifier_Symbol':'Sk','Other_Symbol':'So','Control':'Cc','Format':'Cf','Private_Use':'Co','Unassigned':'Cn'}
gc16=['?']*0x110000
names=dict(re.findall(r'\("(\w+)", (\w+)\)',src))
def unesc(s):
    if s.startswith("\\u{"): return int(s[3:-1],16)
    m={'\\0':0,'\\t':9,'\\n':10,'\\r':13,"\\'":39,'\\\\':92}
    if s in m: return m[s]
    assert len(s)==1,s
    return ord(s)
for long,const in names.items():
    if long not in long2short: continue
    body=re.search(r'pub const %s: &.static \[\(char, char\)\] =\s*&\[(.*?)\];'%const,src,re.S).group(1)
    for a,b in re.findall(r"\('((?:\\u\{[0-9a-fA-F]+\}|\\.|[^\\]))', '((?:\\u\{[0-9a-fA-F]+\}|\\.|[^\\]))'\)",body):
        for cp in range(unesc(a),unesc(b)+1): gc16[cp]=long2short[long]
missing16=sum(1 for cp in range(0x110000) if gc16[cp]=='?' and not (0xD800<=cp<=0xDFFF))
print('gc16 unassigned-by-table',missing16)
gcicu=['?']*0x110000
for line in open('gc_icu.txt'):
    cat,rs=line.split()
    for r in rs.split(','):
        a,b=r.split('-')
        for cp in range(int(a,16),int(b,16)+1):
            if not (0xD800<=cp<=0xDFFF):
                assert gcicu[cp]=='?',(cp,cat,gcicu[cp]); gcicu[cp]=cat
bad=0;skew=0;nocov=0
for cp in range(0x110000):
    if 0xD800<=cp<=0xDFFF: continue
    g14=unicodedata.category(chr(cp)); g16=gc16[cp]; gi=gcicu[cp]
    if gi=='?': nocov+=1; continue
    if g14==g16:
        if gi!=g14: bad+=1; print('BAD %X icu=%s 14=%s 16=%s'%(cp,gi,g14,g16)) if bad<20 else None
    else:
        skew+=1
        if gi not in (g14,g16): bad+=1; print('BAD2 %X icu=%s 14=%s 16=%s'%(cp,gi,g14,g16)) if bad<20 else None
print('bad',bad,'skew',skew,'not covered by any icu cat',nocov)
