import subprocess, random, sys, re
MAXU=18446744073709551615
# ---------- Rust Debug parser ----------
class P:
    def __init__(s,t): s.t=t; s.i=0
    def ws(s):
        while s.i<len(s.t) and s.t[s.i] in ' \n': s.i+=1
    def peek(s): s.ws(); return s.t[s.i] if s.i<len(s.t) else ''
    def eat(s,c): s.ws(); assert s.t.startswith(c,s.i),(c,s.t[s.i:s.i+30]); s.i+=len(c)
    def val(s):
        c=s.peek()
        if c=='[':
            s.eat('['); out=[]
            while s.peek()!=']':
                out.append(s.val())
                if s.peek()==',': s.eat(',')
            s.eat(']'); return out
        if c=="'":
            s.i+=1
            if s.t[s.i]=='\\':
                e=s.t[s.i+1]
                if e=='u':
                    j=s.t.index('}',s.i); v=int(s.t[s.i+3:j],16); s.i=j+1
                else:
                    v={'n':10,'r':13,'t':9,'\\':92,"'":39,'0':0}[e]; s.i+=2
            else:
                v=ord(s.t[s.i]); s.i+=1
            assert s.t[s.i]=="'"; s.i+=1; return ('chr',v)
        if c.isdigit():
            j=s.i
            while s.t[j].isdigit(): j+=1
            v=int(s.t[s.i:j]); s.i=j; return v
        # identifier
        j=s.i
        while s.t[j].isalnum() or s.t[j]=='_': j+=1
        name=s.t[s.i:j]; s.i=j
        if name in('true','false'): return name=='true'
        c=s.peek()
        if c=='{':
            s.eat('{'); d={}
            while s.peek()!='}':
                s.ws(); k=s.i
                while s.t[k].isalnum() or s.t[k]=='_': k+=1
                key=s.t[s.i:k]; s.i=k; s.eat(':'); d[key]=s.val()
                if s.peek()==',': s.eat(',')
            s.eat('}'); return (name,d)
        if c=='(':
            s.eat('('); a=[]
            while s.peek()!=')':
                a.append(s.val())
                if s.peek()==',': s.eat(',')
            s.eat(')'); return (name,a)
        return (name,None)
def mx(v): return -1 if v==MAXU else v
def chars(l): return ' '.join(str(c[1]) for c in l)
def op2s(o):
    name,arg=o; inner=arg[0] if isinstance(arg,list) else None
    if name=='Bol': return 'B'
    if name=='Eol': return 'E'
    if name=='Nothing': return 'N'
    if name=='EndProgram': return 'Z'
    d=inner[1] if inner else None
    if name=='Atom': return 'A %d %s'%(len(d['atom']),chars(d['atom']))
    if name=='CharClass':
        inv=d['character_class'][1][0][1]['inv_list'][1][0]
        return 'C %d %s'%(len(inv),' '.join(map(str,inv)))
    if name=='BackReference': return 'R %d'%d['group_nr']
    if name=='Capture': return 'P %d %s'%(d['group_nr'],op2s(d['child_op']))
    if name=='Choice': return 'H %d %s'%(len(d['branches']),' '.join(op2s(b) for b in d['branches']))
    if name=='Sequence': return 'S %d %s'%(len(d['operations']),' '.join(op2s(b) for b in d['operations']))
    if name=='Repeat': return 'X %s %d %d %d'%(op2s(d['operation']),d['min'],mx(d['max']),1 if d['greedy'] else 0)
    if name=='GreedyFixed': return 'G %s %d %d %d'%(op2s(d['operation']),d['min'],mx(d['max']),d['len'])
    if name=='ReluctantFixed': return 'L %s %d %d %d'%(op2s(d['operation']),d['min'],mx(d['max']),d['len'])
    if name=='UnambiguousRepeat': return 'U %s %d %d'%(op2s(d['operation']),d['min'],mx(d['max']))
    raise Exception(name)
def prog2s(dbg,inp):
    v=P(dbg).val(); rp=v[1]['re_program'][1]
    fl=rp['flags'][1]; of=rp['optimization_flags']
    def optlist(x,f):
        if x==('None',None): return '-1'
        l=f(x[1][0]); return '%d %s'%(len(l),' '.join(map(str,l)))
    prefix=optlist(rp['prefix'],lambda l:[c[1] for c in l])
    icc=optlist(rp['initial_char_class'],lambda cc:cc[1][0][1]['inv_list'][1][0])
    pre=rp['preconditions']
    pres=' '.join('%s %d %d'%(op2s(p[1]['operation']), -1 if p[1]['fixed_position']==('None',None) else p[1]['fixed_position'][1][0], p[1]['min_position']) for p in pre)
    maxp=rp['max_parens'][1][0]
    return '%d %d %d %s %s %d %d %d %s %s %d %s'%(fl['multi_line'],1 if of&2 else 0,1 if of&1 else 0,prefix,icc,rp['minimum_length'],maxp,len(pre),pres,op2s(rp['operation']),len(inp),' '.join(str(ord(c)) for c in inp)), maxp
# ---------- generator ----------
def gen(r,d,ng):
    k=r.random()
    if d<=0 or k<0.3:
        return r.choice(['a','b','c','a','b','ab','.','[ab]','[^a]','\\n' if r.random()<.2 else 'a','^','$']) if r.random()<.85 else ('\\%d'%r.randint(1,ng[0]) if ng[0]>0 and ng[1]==0 else 'b')
    if k<0.5:
        return gen(r,d-1,ng)+gen(r,d-1,ng)
    if k<0.62:
        return '(?:'+gen(r,d-1,ng)+'|'+gen(r,d-1,ng)+')'
    if k<0.75:
        ng[1]+=1; x=gen(r,d-1,ng); ng[1]-=1; ng[0]+=1
        # note: numbering by open paren; nested gen increments first for inner; acceptable for random validity (may produce invalid refs -> ERR)
        return '('+x+')'
    q=r.choice(['*','+','?','{2}','{1,2}','{2,}','{0,1}','*?','+?','??','{1,2}?','{2,}?'])
    x=gen(r,d-1,ng)
    if len(x)>1 and not (x.startswith('(') and x.endswith(')') and x.count('(')==1) and not (x.startswith('[') and x.endswith(']')): x='(?:'+x+')'
    return x+q
def main():
    seed=int(sys.argv[1]); N=int(sys.argv[2]); r=random.Random(seed)
    cases=[]
    for _ in range(N):
        p=gen(r,r.randint(1,4),[0,0]); f=r.choice(['','','m','s'])
        s=''.join(r.choice('aabbc\n') for _ in range(r.randint(0,6)))
        cases.append((p,f,s))
    # run rust in chunks
    outs=[]
    def runchunk(ch,to):
        inp=''.join('%s\t%s\t%s\n'%(p,f,s.replace('\n','\\n')) for p,f,s in ch)
        try:
            o=subprocess.run(['/root/scratch/probe/target/debug/faith'],input=inp,capture_output=True,text=True,timeout=to)
            ls=o.stdout.split('\n')[:-1]
            return ls if len(ls)==len(ch) else None
        except subprocess.TimeoutExpired: return None
    for i in range(0,N,50):
        ch=cases[i:i+50]; o=runchunk(ch,20)
        if o is None:
            o=[]
            for c in ch:
                x=runchunk([c],2); o.append(x[0] if x else 'HANG')
        outs+=o
    # model
    minp=[];idx=[]
    for i,(c,o) in enumerate(zip(cases,outs)):
        if o in('ERR','HANG','PANIC'): continue
        m,rep,dbg=o.split('\t',2)
        line,maxp=prog2s(dbg,c[2]); minp.append(line); idx.append((i,maxp))
    rr=subprocess.run(['./drv'],input='\n'.join(minp)+'\n',capture_output=True,text=True); print(rr.stderr[:500]); mo=rr.stdout.split('\n'); print(len(mo),len(minp)); open('minp.txt','w').write('\n'.join(minp))
    stats={'agree':0,'disagree':0,'err':0,'hang':0,'panic':0,'match':0,'capcmp':0}
    for o in outs:
        if o=='ERR': stats['err']+=1
        if o=='HANG': stats['hang']+=1
        if o=='PANIC': stats['panic']+=1
    for (i,maxp),mres in zip(idx,mo):
        p,f,s=cases[i]; m,rep,_=outs[i].split('\t',2)
        ok=True; why=''
        if mres.startswith('T'):
            if m!='true': ok=False; why='is_match'
            stats['match']+=1
            spans=mres.split()[1:]
            if rep.startswith('OK:') and ok:
                body=rep[3:].replace('\\n','\n')
                a=body.index('\x01'); b=body.index('\x02')
                got=body[a+1:b].split('|')
                exp=[]
                for k in range(10):
                    if k<len(spans) and spans[k]!='-':
                        x,y=map(int,spans[k].split('-')); exp.append(s[x:y])
                    else: exp.append('')
                st=int(spans[0].split('-')[0])
                stats['capcmp']+=1
                if a!=st or got!=exp: ok=False; why='caps exp(model)=%r start=%d got(impl)=%r start=%d'%(exp,st,got,a)
        elif mres=='F':
            if m!='false': ok=False; why='is_match'
        else:
            ok=False; why='model '+mres
        if ok: stats['agree']+=1
        else:
            stats['disagree']+=1
            if stats['disagree']<=15: print('DISAGREE',repr(p),repr(f),repr(s),'impl',m,rep[:60].replace('\x01','<').replace('\x02','>'),'model',mres,why)
    # hangs: check model says OUT?
    print(stats)
main()
