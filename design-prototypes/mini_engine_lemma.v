From Coq Require Import List Arith NArith Bool Lia.
Import ListNotations.
Require Import mini_engine.

Inductive Yields : LS -> list nat -> Prop :=
| YNil s : Yields (Nil s) []
| YCons p s r ps : (forall s', Yields (r s') ps) -> Yields (Cons p s r) (p::ps).

Lemma Yields_append l ps k qs :
  Yields l ps -> (forall s, Yields (k s) qs) -> Yields (append l k) (ps ++ qs).
Proof.
  induction 1 as [s|p s r ps H IH]; intros Hk; cbn.
  - apply Hk.
  - constructor. intros s'. apply IH. exact Hk.
Qed.

Lemma Yields_snoc l ps b p :
  Yields l ps -> Yields (snoc_if l b p) (ps ++ if b then [p] else []).
Proof.
  induction 1 as [s|q s r ps H IH]; cbn.
  - destruct b; repeat constructor.
  - constructor. intros s'. apply IH.
Qed.

Lemma Yields_bind l ps k f :
  Yields l ps -> (forall q s, Yields (k q s) (f q)) -> Yields (bind l k) (flat_map f ps).
Proof.
  induction 1 as [s|p s r ps H IH]; intros Hk; cbn.
  - constructor.
  - specialize (Hk p s) as Hkp.
    remember (k p s) as m eqn:Em. clear Em.
    induction Hkp as [s1|q s1 r1 qs H1 IH1]; cbn.
    + apply IH. exact Hk.
    + constructor. intros s''. apply IH1.
Qed.

Lemma Yields_map_cap g st l ps : Yields l ps -> Yields (map_cap g st l) ps.
Proof. induction 1; cbn; constructor; auto. Qed.

Section R.
Variable input : list nat.
Let len := length input.

Fixpoint greedyR (body : nat -> list nat) (mn fuel d p : nat) : list nat :=
  match fuel with
  | O => if Nat.leb mn d then [p] else []
  | S f => flat_map (fun q => greedyR body mn f (S d) q) (body p) ++ (if Nat.leb mn d then [p] else [])
  end.

Fixpoint R (o : op) : nat -> list nat :=
  match o with
  | Atom cs => fun p => if prefix_at cs (skipn p input) then [p + length cs] else []
  | Cls f => fun p => match nth_error input p with Some c => if f c then [S p] else [] | None => [] end
  | Bol => fun p => if Nat.eqb p 0 then [p] else []
  | Eol => fun p => if Nat.leb len p then [p] else []
  | Nothing => fun p => [p]
  | Capture g o' => R o'
  | Choice bs => fun p => flat_map (fun b => R b p) bs
  | Seq os => fun p =>
      (fix go (os : list op) (p : nat) : list nat :=
         match os with
         | [] => [p]
         | o1 :: os' => flat_map (fun q => go os' q) (R o1 p)
         end) os p
  | Rep o' mn mx g => fun p =>
      let bound := match mx with Some m => Nat.min m (len - p + 1) | None => len - p + 1 end in
      greedyR (R o') mn bound 0 p
  end.

(* nested induction principle *)
Fixpoint op_ind' (P : op -> Prop)
  (HA : forall cs, P (Atom cs)) (HC : forall f, P (Cls f)) (HB : P Bol) (HE : P Eol) (HN : P Nothing)
  (HCap : forall g o, P o -> P (Capture g o))
  (HCh : forall bs, Forall P bs -> P (Choice bs))
  (HS : forall os, Forall P os -> P (Seq os))
  (HR : forall o mn mx g, P o -> P (Rep o mn mx g))
  (o : op) : P o :=
  match o with
  | Atom cs => HA cs | Cls f => HC f | Bol => HB | Eol => HE | Nothing => HN
  | Capture g o' => HCap g o' (op_ind' P HA HC HB HE HN HCap HCh HS HR o')
  | Choice bs => HCh bs ((fix go l : Forall P l := match l with [] => Forall_nil _ | x::t => Forall_cons _ (op_ind' P HA HC HB HE HN HCap HCh HS HR x) (go t) end) bs)
  | Seq os => HS os ((fix go l : Forall P l := match l with [] => Forall_nil _ | x::t => Forall_cons _ (op_ind' P HA HC HB HE HN HCap HCh HS HR x) (go t) end) os)
  | Rep o' mn mx g => HR o' mn mx g (op_ind' P HA HC HB HE HN HCap HCh HS HR o')
  end.

Lemma greedy_yields body bodyR mn :
  (forall p s, Yields (body p s) (bodyR p)) ->
  forall fuel d p s, Yields (greedy body mn fuel d p s) (greedyR bodyR mn fuel d p).
Proof.
  intros Hb. induction fuel as [|f IH]; intros d p s; cbn.
  - destruct (Nat.leb mn d); repeat constructor.
  - apply Yields_snoc. apply Yields_bind; [apply Hb|]. intros q s'. apply IH.
Qed.

Theorem mi_yields_R : forall o p s, Yields (mi input o p s) (R o p).
Proof.
  induction o using op_ind'; intros p s; cbn.
  - destruct (prefix_at _ _); repeat constructor.
  - destruct (nth_error _ _) as [c|]; [destruct (f c)|]; repeat constructor.
  - destruct (Nat.eqb _ _); repeat constructor.
  - destruct (Nat.leb _ _); repeat constructor.
  - repeat constructor.
  - apply Yields_map_cap. apply IHo.
  - revert s. induction H as [|b bs Hb Hbs IH]; intros s; cbn.
    + constructor.
    + apply Yields_append; [apply Hb|]. intros s'. apply IH.
  - revert p s. induction H as [|o1 os Ho Hos IH]; intros p s; cbn.
    + repeat constructor.
    + apply Yields_bind; [apply Ho|]. intros q s'. apply IH.
  - apply greedy_yields. apply IHo.
Qed.
End R.
Print Assumptions mi_yields_R.
