From Coq Require Import List Arith Bool Lia.
Import ListNotations.

Inductive op :=
| OBol | OEol | ONothing | OEnd
| OAtom (cs : list nat)
| OCls (inv : list nat)
| OBackref (g : nat)
| OCapture (g : nat) (o : op)
| OChoice (bs : list op)
| OSeq (os : list op)
| ORepeat (id : nat) (o : op) (mn : nat) (mx : option nat) (greedy : bool)
| OGFixed (o : op) (mn : nat) (mx : option nat) (len : nat)
| ORFixed (o : op) (mn : nat) (mx : option nat) (len : nat)
| OUnamb (o : op) (mn : nat) (mx : option nat).

Record cstate := { startn : list (option nat); endn : list (option nat); pcount : nat }.
Record mstate := { cs_ : cstate; sb : list (option nat); eb : list (option nat);
                   anchored : bool; hist : list (nat * nat) }.

Inductive LS :=
| Nil (s : mstate)
| Cons (p : nat) (s : mstate) (rest : mstate -> LS)
| Out | Panic (site : nat).

Definition once p s := Cons p s (fun s' => Nil s').

(* growable arrays *)
Fixpoint grow (l : list (option nat)) (fuel : nat) (i : nat) : list (option nat) :=
  match fuel with O => l | S f => if Nat.ltb i (length l) then l else grow (l ++ repeat None (length l)) f i end.
Fixpoint upd {A} (l : list A) (i : nat) (v : A) : list A :=
  match l, i with
  | [], _ => [] | _ :: t, O => v :: t | h :: t, S i' => h :: upd t i' v end.
Definition setg (l : list (option nat)) (i v : nat) := upd (grow l 64 i) i (Some v).
Definition getg (l : list (option nat)) (i : nat) : option nat := nth i l None.

Definition set_pstart g p (s : mstate) :=
  {| cs_ := {| startn := setg (startn (cs_ s)) g p; endn := endn (cs_ s); pcount := pcount (cs_ s) |};
     sb := sb s; eb := eb s; anchored := anchored s; hist := hist s |}.
Definition set_pend g p (s : mstate) :=
  {| cs_ := {| startn := startn (cs_ s); endn := setg (endn (cs_ s)) g p; pcount := pcount (cs_ s) |};
     sb := sb s; eb := eb s; anchored := anchored s; hist := hist s |}.
Definition set_pcount n (s : mstate) :=
  {| cs_ := {| startn := startn (cs_ s); endn := endn (cs_ s); pcount := n |};
     sb := sb s; eb := eb s; anchored := anchored s; hist := hist s |}.
Definition set_cs c (s : mstate) :=
  {| cs_ := c; sb := sb s; eb := eb s; anchored := anchored s; hist := hist s |}.
Definition set_sb g v (s : mstate) :=
  {| cs_ := cs_ s; sb := upd (sb s) g v; eb := eb s; anchored := anchored s; hist := hist s |}.
Definition set_eb g v (s : mstate) :=
  {| cs_ := cs_ s; sb := sb s; eb := upd (eb s) g v; anchored := anchored s; hist := hist s |}.

Definition oge (a : option nat) (pos : nat) : bool := match a with Some x => Nat.leb pos x | None => false end.
(* for i in 0..len(starts): if starts[i] >= Some(pos) then ends[i] := starts[i] ; None if ends too short => panic *)
Fixpoint clear_arr (starts ends : list (option nat)) (pos : nat) : option (list (option nat)) :=
  match starts, ends with
  | [], _ => Some ends
  | st :: ss, e :: es => match clear_arr ss es pos with Some r => Some ((if oge st pos then st else e) :: r) | None => None end
  | st :: ss, [] => if oge st pos then None else clear_arr ss [] pos
  end.
Definition clear_beyond (pos : nat) (s : mstate) : option mstate :=
  match clear_arr (startn (cs_ s)) (endn (cs_ s)) pos, clear_arr (sb s) (eb s) pos with
  | Some e1, Some e2 =>
      Some {| cs_ := {| startn := startn (cs_ s); endn := e1; pcount := pcount (cs_ s) |};
              sb := sb s; eb := e2; anchored := anchored s; hist := hist s |}
  | _, _ => None
  end.

Fixpoint bind (l : LS) (k : nat -> mstate -> LS) : LS :=
  match l with
  | Nil s => Nil s | Out => Out | Panic n => Panic n
  | Cons p s rest =>
      (fix app (m : LS) : LS :=
         match m with
         | Nil s' => bind (rest s') k
         | Out => Out | Panic n => Panic n
         | Cons q s' r' => Cons q s' (fun s'' => app (r' s''))
         end) (k p s)
  end.
Fixpoint append (l : LS) (k : mstate -> LS) : LS :=
  match l with
  | Nil s => k s | Out => Out | Panic n => Panic n
  | Cons q s r => Cons q s (fun s' => append (r s') k)
  end.
(* apply a (partial) state transformer at each yield *)
Fixpoint map_yield (f : nat -> mstate -> option mstate) (l : LS) : LS :=
  match l with
  | Nil s => Nil s | Out => Out | Panic n => Panic n
  | Cons q s r => match f q s with Some s1 => Cons q s1 (fun s' => map_yield f (r s')) | None => Panic 1 end
  end.
Fixpoint on_nil (f : mstate -> mstate) (l : LS) : LS :=
  match l with
  | Nil s => Nil (f s) | Out => Out | Panic n => Panic n
  | Cons q s r => Cons q s (fun s' => on_nil f (r s'))
  end.
(* ForceProgressIterator *)
Fixpoint force_progress (cnt : nat) (cur : option nat) (l : LS) : LS :=
  if Nat.ltb 3 cnt then match l with Nil s => Nil s | Cons _ s _ => Nil s | Out => Out | Panic n => Panic n end
  (* NB: when cut, the base iterator is not advanced; state unchanged. handled by caller: see fp' *)
  else match l with
  | Nil s => Nil s | Out => Out | Panic n => Panic n
  | Cons q s r =>
      let '(cnt', cur') := match cur with Some c => if Nat.eqb c q then (S cnt, cur) else (0, Some q) | None => (0, Some q) end in
      Cons q s (fun s' => if Nat.ltb 3 cnt' then Nil s' else force_progress cnt' cur' (r s'))
  end.

Section Engine.
Variable input : list nat.
Variable multi_line : bool.
Variable has_backrefs : bool.
Let n := length input.

Fixpoint atom_at (cs i : list nat) : bool :=
  match cs, i with [], _ => true | c :: cs', x :: i' => Nat.eqb c x && atom_at cs' i' | _, [] => false end.
Fixpoint inv_mem (inv : list nat) (c : nat) : bool :=
  match inv with a :: b :: t => (Nat.leb a c && Nat.ltb c b) || inv_mem t c | _ => false end.
Definition is_nl (i : nat) : bool := match nth_error input i with Some c => Nat.eqb c 10 | None => false end.

Fixpoint contains_cap (o : op) : bool :=
  let isc o := match o with OCapture _ _ => true | _ => false end in
  match o with
  | OChoice bs => existsb (fun b => isc b || contains_cap b) bs
  | OSeq os => existsb (fun b => isc b || contains_cap b) os
  | ORepeat _ o _ _ _ | OGFixed o _ _ _ | ORFixed o _ _ _ | OUnamb o _ _ => isc o || contains_cap o
  | _ => false
  end.

Definition is_dup (id p : nat) (s : mstate) : bool * mstate :=
  if existsb (fun x => Nat.eqb (fst x) id && Nat.eqb (snd x) p) (hist s) then (true, s)
  else (false, {| cs_ := cs_ s; sb := sb s; eb := eb s; anchored := anchored s; hist := (id, p) :: hist s |}).

Definition mxle (k : nat) (mx : option nat) : bool := match mx with Some m => Nat.leb k m | None => true end.
Definition mxlt (k : nat) (mx : option nat) : bool := match mx with Some m => Nat.ltb k m | None => true end.
Definition mxmin (mx : option nat) (b : nat) : nat := match mx with Some m => Nat.min m b | None => b end.

(* greedy Repeat as post-order DFS; z = 1 if zero entry on stack; flag = still on the primed chain *)
Fixpoint explore (body : nat -> mstate -> LS) (mn bound z : nat) (fuel : nat) (j : nat) (flag : bool) (p : nat) (s : mstate) : LS :=
  let yield_here := (Nat.leb mn (z + j)) && (Nat.ltb 0 (z + j)) in
  let can_deepen := if flag then Nat.ltb j bound else Nat.ltb (z + j) bound in
  match fuel with
  | O => Out
  | S f =>
      if can_deepen then
        let kids := body p s in
        (* first child inherits flag, later children do not *)
        let fix go (l : LS) (fl : bool) : LS :=
          match l with
          | Nil s' => if yield_here then once p s' else Nil s'
          | Out => Out | Panic k => Panic k
          | Cons q s' r =>
              append (explore body mn bound z f (S j) fl q s') (fun s'' => go (r s'') false)
          end in
        go kids flag
      else if yield_here then once p s else Nil s
  end.

(* reluctant variable repeat, literal state machine; fuel for the inner loop *)
Fixpoint rel_loop (body : nat -> mstate -> LS) (mn : nat) (mx : option nat) (fuel : nat) (counter : nat) (position : option nat) (s : mstate)
  : (nat * option nat * mstate) + nat :=
  match fuel with
  | O => inr 0
  | S f =>
      let '(counter', position', s', bad) :=
        match position with
        | Some pos =>
            match body pos s with
            | Cons q s1 _ => let c := S counter in (c, if mxle c mx then Some q else None, s1, 0)
            | Nil s1 => (counter, position, s1, 0)
            | Out => (counter, position, s, 1) | Panic k => (counter, position, s, 2)
            end
        | None => if Nat.eqb mn 0 && Nat.eqb counter 0 then (S counter, position, s, 0) else (counter, None, s, 0)
        end in
      if Nat.eqb bad 1 then inr 0 else if Nat.eqb bad 2 then inr 1 else
      if Nat.leb mn counter' || match position' with None => true | _ => false end
      then inl (counter', position', s')
      else rel_loop body mn mx f counter' position' s'
  end.
Fixpoint rel_iter (body : nat -> mstate -> LS) (mn : nat) (mx : option nat) (fuel : nat) (counter : nat) (position : option nat) (s : mstate) : LS :=
  match fuel with
  | O => Out
  | S f =>
      match rel_loop body mn mx 1000 counter position s with
      | inr 0 => Out | inr _ => Panic 2
      | inl (c, Some q, s') => Cons q s' (fun s'' => rel_iter body mn mx f c (Some q) s'')
      | inl (c, None, s') => Nil s'
      end
  end.

(* IntStepIterator downwards from cur to limit by step len (len>0), as nat *)
Fixpoint int_step (len limit : nat) (fuel : nat) (cur : nat) (s : mstate) : LS :=
  match fuel with
  | O => Out
  | S f => if Nat.leb limit cur then Cons cur s (fun s' => if Nat.ltb cur len then Nil s' else if Nat.eqb len 0 then Out else int_step len limit f (cur - len) s') else Nil s
  end.

(* probe loop of GreedyFixed: while p <= guard *)
Fixpoint gf_probe (body : nat -> mstate -> LS) (len : nat) (mx : option nat) (guard : nat) (fuel : nat) (p matches : nat) (s : mstate) : option (nat * nat * mstate) :=
  match fuel with
  | O => None
  | S f =>
      if Nat.leb p guard then
        match body p s with
        | Cons _ s1 _ => let m := S matches in let p' := p + len in
                         if match mx with Some x => Nat.eqb m x | None => false end then Some (p', m, s1)
                         else gf_probe body len mx guard f p' m s1
        | Nil s1 => Some (p, matches, s1)
        | _ => None
        end
      else Some (p, matches, s)
  end.

Fixpoint un_probe (body : nat -> mstate -> LS) (mx : option nat) (guard : nat) (fuel : nat) (p matches : nat) (s : mstate) : option (nat * nat * mstate) :=
  match fuel with
  | O => None
  | S f =>
      if mxlt matches mx && Nat.leb p guard then
        match body p s with
        | Cons q s1 _ => un_probe body mx guard f q (S matches) s1
        | Nil s1 => Some (p, matches, s1)
        | _ => None
        end
      else Some (p, matches, s)
  end.

(* ReluctantFixedIterator *)
Fixpoint rf_min (body : nat -> mstate -> LS) (mn : nat) (fuel : nat) (count pos : nat) (s : mstate) : option (option (nat * nat) * mstate) :=
  match fuel with
  | O => None
  | S f => if Nat.ltb count mn then
             match body pos s with
             | Cons q s1 _ => rf_min body mn f (S count) q s1
             | Nil s1 => Some (None, s1)
             | _ => None end
           else Some (Some (count, pos), s)
  end.
Fixpoint rf_more (body : nat -> mstate -> LS) (mx : option nat) (position : nat) (fuel : nat) (count pos : nat) (s : mstate) : LS :=
  match fuel with
  | O => Out
  | S f =>
      if mxlt count mx then
        match clear_beyond position s with
        | None => Panic 3
        | Some s0 =>
          match body pos s0 with
          | Cons q s1 _ => Cons q s1 (fun s' => rf_more body mx position f (S count) q s')
          | Nil s1 => Nil s1
          | Out => Out | Panic k => Panic k
          end
        end
      else Nil s
  end.

Fixpoint mi (o : op) : nat -> mstate -> LS :=
  match o with
  | OAtom cs => fun p s => if Nat.ltb n (p + length cs) then Nil s else if atom_at cs (skipn p input) then once (p + length cs) s else Nil s
  | OCls inv => fun p s => match nth_error input p with Some c => if inv_mem inv c then once (S p) s else Nil s | None => Nil s end
  | OBol => fun p s => if Nat.eqb p 0 then once p s
                       else if multi_line && is_nl (p - 1) && Nat.ltb p n then once p s else Nil s
  | OEol => fun p s => if multi_line then (if Nat.eqb n 0 || Nat.leb n p || is_nl p then once p s else Nil s)
                       else if Nat.eqb n 0 || Nat.leb n p then once p s else Nil s
  | ONothing => fun p s => once p s
  | OEnd => fun p s => if anchored s then (if Nat.leb n p then once p s else Nil s) else once p (set_pend 0 p s)
  | OBackref g => fun p s =>
      match nth_error (sb s) g, nth_error (eb s) g with
      | Some (Some st), Some (Some e) =>
          if Nat.eqb st e then once p s else
          if Nat.ltb e st then Panic 4 else
          let l := e - st in
          if Nat.leb n (p + l - 1) then Nil s else
          if atom_at (firstn l (skipn st input)) (skipn p input) then once (p + l) s else Nil s
      | Some _, Some _ => Nil s
      | _, _ => Panic 5
      end
  | OCapture g o' => fun p s =>
      let s0 := if has_backrefs then set_sb g (Some p) s else s in
      map_yield (fun q s1 =>
                   let s2 := if Nat.leb (pcount (cs_ s1)) g then set_pcount (S g) s1 else s1 in
                   let s3 := set_pend g q (set_pstart g p s2) in
                   Some (if has_backrefs then set_eb g (Some q) (set_sb g (Some p) s3) else s3))
                (mi o' p s0)
  | OChoice bs => fun p s =>
      (fix go (bs : list op) (s : mstate) : LS :=
         match bs with
         | [] => Nil s
         | b :: bs' => match clear_beyond p s with
                       | Some s0 => append (mi b p s0) (fun s' => go bs' s')
                       | None => Panic 6 end
         end) bs s
  | OSeq os => fun p s =>
      let saved := if contains_cap (OSeq os) then Some (cs_ s) else None in
      on_nil (fun s' => match saved with Some c => set_cs c s' | None => s' end)
      ((fix go (os : list op) (p : nat) (s : mstate) : LS :=
         match os with
         | [] => Panic 7
         | [o1] => map_yield (fun q s1 => clear_beyond q s1) (mi o1 p s)
         | o1 :: os' => bind (mi o1 p s) (fun q s1 => match clear_beyond q s1 with Some s2 => go os' q s2 | None => Panic 8 end)
         end) os p s)
  | ORepeat id o' mn mx greedy => fun p s =>
      if greedy then
        let bound := mxmin mx (n - p + 1) in
        let '(z, s0) := if Nat.eqb mn 0 then (let '(d, s') := is_dup id p s in (if d then 0 else 1, s')) else (0, s) in
        force_progress 0 None (explore (mi o') mn bound z (n + 5) 0 true p s0)
      else force_progress 0 None (rel_iter (mi o') mn mx 1000 0 (Some p) s)
  | OGFixed o' mn mx len => fun p s =>
      let guard := match mx with Some m => Nat.min n (p + len * m) | None => n end in
      if Nat.leb guard p && Nat.ltb 0 mn then Nil s else
      match gf_probe (mi o') len mx guard (n + 5) p 0 s with
      | None => Out
      | Some (p', m, s1) => if Nat.ltb m mn then Nil s1 else int_step len (p + len * mn) (S p') p' s1
      end
  | ORFixed o' mn mx len => fun p s =>
      match rf_min (mi o') mn (mn + 2) 0 p s with
      | None => Out
      | Some (None, s1) => Nil s1
      | Some (Some (count, pos), s1) => Cons pos s1 (fun s' => rf_more (mi o') mx p 1000 count pos s')
      end
  | OUnamb o' mn mx => fun p s =>
      match un_probe (mi o') mx n (n + 5) p 0 s with
      | None => Out
      | Some (p', m, s1) => if Nat.ltb m mn then Nil s1 else once p' s1
      end
  end.
End Engine.

Record program := { p_op : op; p_multi : bool; p_hasbol : bool; p_hasbackrefs : bool;
                    p_prefix : option (list nat); p_icc : option (list nat);
                    p_minlen : nat; p_maxparens : nat;
                    p_pre : list (op * option nat * nat) }.

Section Matcher.
Variable prog : program.
Variable input : list nat.
Let n := length input.
Let run := mi input (p_multi prog) (p_hasbackrefs prog).

Definition cs0 := {| startn := [None;None;None]; endn := [None;None;None]; pcount := 0 |}.
Definition st0 := {| cs_ := cs0; sb := []; eb := []; anchored := false; hist := [] |}.

Inductive res := RTrue (s : mstate) | RFalse (s : mstate) | ROut | RPanic (k : nat).

Definition match_at (i : nat) (s : mstate) : res :=
  let s1 := set_pstart 0 i (set_pcount 1 s) in
  let s2 := {| cs_ := cs_ s1; sb := if p_hasbackrefs prog then repeat None (p_maxparens prog) else sb s1;
               eb := if p_hasbackrefs prog then repeat None (p_maxparens prog) else eb s1;
               anchored := false; hist := hist s1 |} in
  match run (p_op prog) i s2 with
  | Cons q s3 _ => RTrue (set_pend 0 q s3)
  | Nil s3 => RFalse (set_pcount 0 s3)
  | Out => ROut | Panic k => RPanic k
  end.

Definition first_some (l : LS) : option (bool * mstate) :=
  match l with Cons _ s _ => Some (true, s) | Nil s => Some (false, s) | _ => None end.

Fixpoint pre_scan (o : op) (fuel j : nat) (s : mstate) : option (bool * mstate) :=
  match fuel with
  | O => Some (false, s)
  | S f => match first_some (run o j s) with
           | Some (true, s') => Some (true, s')
           | Some (false, s') => pre_scan o f (S j) s'
           | None => None end
  end.

Fixpoint check_pre (pre : list (op * option nat * nat)) (start : nat) (s : mstate) : option (bool * mstate) :=
  match pre with
  | [] => Some (true, s)
  | (o, Some fp, _) :: t => match first_some (run o fp s) with
                            | Some (true, s') => check_pre t start s'
                            | r => r end
  | (o, None, mp) :: t => let i := Nat.max start mp in
                          match pre_scan o (n - i) i s with
                          | Some (true, s') => check_pre t start s'
                          | r => r end
  end.

Fixpoint try_from (fuel j : nat) (filter : nat -> bool) (s : mstate) : res :=
  match fuel with
  | O => RFalse s
  | S f => if filter j then
             match match_at j s with
             | RFalse s' => try_from f (S j) filter s'
             | r => r end
           else try_from f (S j) filter s
  end.

Fixpoint next_nl (fuel j : nat) : option nat :=
  match fuel with O => None | S f => match nth_error input j with Some c => if Nat.eqb c 10 then Some j else next_nl f (S j) | None => None end end.
Fixpoint bol_loop (fuel : nat) (nl : nat) (s : mstate) : res :=
  match fuel with
  | O => ROut
  | S f => let nl' := match next_nl (n + 1) nl with Some k => k + 1 | None => 0 end in
           if Nat.leb n nl' || Nat.eqb nl' 0 then RFalse s
           else match match_at nl' s with RFalse s' => bol_loop f nl' s' | r => r end
  end.

Definition matches (i : nat) (s_in : mstate) : res :=
  let s := set_cs cs0 s_in in
  if p_hasbol prog then
    if negb (p_multi prog) then
      if Nat.eqb i 0 then
        match check_pre (p_pre prog) i s with
        | Some (true, s') => match_at i s'
        | Some (false, s') => RFalse s'
        | None => ROut end
      else RFalse s
    else match match_at i s with
         | RFalse s' => bol_loop (n + 2) i s'
         | r => r end
  else
  if Nat.ltb (n - i) (p_minlen prog) then RFalse s else
  match p_prefix prog with
  | Some pre =>
      try_from (n + 1 - length pre - i) i (fun j => atom_at pre (skipn j input)) s
  | None =>
      match p_icc prog with
      | Some inv => try_from (n - i) i (fun j => match nth_error input j with Some c => inv_mem inv c | None => false end) s
      | None =>
          match check_pre (p_pre prog) i s with
          | Some (true, s') => try_from (n + 1 - i) i (fun _ => true) s'
          | Some (false, s') => RFalse s'
          | None => ROut end
      end
  end.
End Matcher.

Require Extraction.
Require Import ExtrOcamlBasic.
Extraction "eng.ml" matches st0.
