open Eng
let nat_of_int n = let n = min n 5000 in let rec go a k = if k <= 0 then a else go (S a) (k-1) in go O n
let rec int_of_nat = function O -> 0 | S n -> 1 + int_of_nat n
let toks = ref [||] and pos = ref 0
let next () = let t = !toks.(!pos) in incr pos; t
let nexti () = int_of_string (next ())
let nextn () = nat_of_int (nexti ())
let nlist () = let k = nexti () in List.init k (fun _ -> nextn ())
let mx () = let v = nexti () in if v < 0 then None else Some (nat_of_int v)
let idc = ref 0
let rec rop () : op =
  match next () with
  | "B" -> OBol | "E" -> OEol | "N" -> ONothing | "Z" -> OEnd
  | "A" -> OAtom (nlist ())
  | "C" -> OCls (nlist ())
  | "R" -> OBackref (nextn ())
  | "P" -> let g = nextn () in OCapture (g, rop ())
  | "H" -> let k = nexti () in OChoice (List.init k (fun _ -> rop ()))
  | "S" -> let k = nexti () in OSeq (List.init k (fun _ -> rop ()))
  | "X" -> incr idc; let id = nat_of_int !idc in let o = rop () in let mn = nextn () in let m = mx () in let g = nexti () <> 0 in ORepeat (id, o, mn, m, g)
  | "G" -> let o = rop () in let mn = nextn () in let m = mx () in let l = nextn () in OGFixed (o, mn, m, l)
  | "L" -> let o = rop () in let mn = nextn () in let m = mx () in let l = nextn () in ORFixed (o, mn, m, l)
  | "U" -> let o = rop () in let mn = nextn () in let m = mx () in OUnamb (o, mn, m)
  | t -> failwith ("bad tok " ^ t)
let ropt_list () = let k = nexti () in if k < 0 then None else Some (List.init k (fun _ -> nextn ()))
let show o = match o with None -> "-" | Some v -> string_of_int (int_of_nat v)
let () =
  try while true do
    let line = input_line stdin in
    toks := Array.of_list (List.filter (fun s -> s <> "") (String.split_on_char ' ' line)); pos := 0; idc := 0;
    let multi = nexti () <> 0 in let hasbol = nexti () <> 0 in let hasbr = nexti () <> 0 in
    let prefix = ropt_list () in let icc = ropt_list () in
    let minlen = nextn () in let maxp = nextn () in
    let npre = nexti () in
    let pre = List.init npre (fun _ -> let o = rop () in let fp = mx () in let mp = nextn () in ((o, fp), mp)) in
    let o = rop () in
    let input = nlist () in
    let prog = { p_op = o; p_multi = multi; p_hasbol = hasbol; p_hasbackrefs = hasbr; p_prefix = prefix; p_icc = icc; p_minlen = minlen; p_maxparens = maxp; p_pre = pre } in
    (match matches prog input O st0 with
     | RTrue s -> let c = s.cs_ in
        let g i = let a = List.nth_opt c.startn i and b = List.nth_opt c.endn i in
          (match a, b with Some (Some x), Some (Some y) when i < int_of_nat c.pcount -> Printf.sprintf "%d-%d" (int_of_nat x) (int_of_nat y) | _ -> "-") in
        Printf.printf "T %s\n" (String.concat " " (List.init (int_of_nat maxp) g))
     | RFalse _ -> print_endline "F"
     | ROut -> print_endline "OUT"
     | RPanic k -> Printf.printf "PANIC %d\n" (int_of_nat k))
  done with End_of_file -> ()
