use regexml::Regex;
use std::io::BufRead;
fn main(){
  let stdin=std::io::stdin();
  for line in stdin.lock().lines(){
    let line=line.unwrap();
    let parts:Vec<&str>=line.split('\t').collect();
    let (p,f,s)=(parts[0],parts[1],parts[2].replace("\\n","\n"));
    let r=std::panic::catch_unwind(||{
      match Regex::xpath(p,f){
        Err(_)=>"ERR".to_string(),
        Ok(re)=>{
          let m=re.is_match(&s);
          let rep=re.replace_all(&s,"\u{1}$0|$1|$2|$3|$4|$5|$6|$7|$8|$9\u{2}");
          let rep=match rep{Ok(x)=>format!("OK:{}",x.replace('\n',"\\n")),Err(e)=>format!("E:{:?}",e).split('(').next().unwrap().to_string()};
          format!("{}\t{}\t{:?}",m,rep,re)
        }}
    });
    match r{Ok(x)=>println!("{}",x),Err(_)=>println!("PANIC")}
  }
}
