From Coq Require Import List Arith Bool Lia.
Import ListNotations.

(* characters as nat in this prototype: '\\' = 92, '$' = 36, '0'..'9' = 48..57 *)
Definition is_digit (c : nat) : bool := Nat.leb 48 c && Nat.leb c 57.
Definition dval (c : nat) : nat := c - 48.

Inductive rerr := ErrEnd | ErrEscape | ErrDollar.
Inductive res := ROk (out : list nat) | RErr (e : rerr) | ROut | RPanic.

Section Expand.
Variable r : list nat.                       (* replacement string *)
Variable maxc : nat.                         (* max_capture = max_parens - 1 *)
Variable cap : nat -> option (list nat).     (* get_paren n *)
Let len := length r.

Definition push_cap (n : nat) (acc : list nat) : list nat :=
  match cap n with Some t => acc ++ t | None => acc end.

(* ---------- faithful model: index-based loop of re_matcher.rs:252-333 ---------- *)
(* inner loop for more than 9 groups: returns (i, n) as left by the Rust loop *)
Fixpoint digits_loop (fuel i n : nat) : option (nat * nat) :=
  match fuel with
  | O => None
  | S f =>
      let i := i + 1 in
      if Nat.leb len i then Some (i, n) else
      match nth_error r i with
      | None => None
      | Some c =>
          if is_digit c then
            let m := n * 10 + dval c in
            if Nat.ltb maxc m then Some (i - 1, n) else digits_loop f i m
          else Some (i - 1, n)
      end
  end.

Fixpoint expand_loop (fuel i : nat) (acc : list nat) : res :=
  match fuel with
  | O => ROut
  | S f =>
      if Nat.leb len i then ROk acc else
      match nth_error r i with
      | None => RPanic
      | Some ch =>
          if Nat.eqb ch 92 then
            let i := i + 1 in
            if Nat.leb len i then RErr ErrEnd else
            match nth_error r i with
            | None => RPanic
            | Some c2 => if Nat.eqb c2 92 || Nat.eqb c2 36 then expand_loop f (i + 1) (acc ++ [c2]) else RErr ErrEscape
            end
          else if Nat.eqb ch 36 then
            let i := i + 1 in
            if Nat.leb len i then RErr ErrEnd else
            match nth_error r i with
            | None => RPanic
            | Some c2 =>
                if negb (is_digit c2) then RErr ErrDollar else
                let n := dval c2 in
                if Nat.leb maxc 9 then
                  expand_loop f (i + 1) (if Nat.leb n maxc then push_cap n acc else acc)
                else
                  match digits_loop (S len) i n with
                  | None => ROut
                  | Some (i', n') => expand_loop f (i' + 1) (push_cap n' acc)
                  end
            end
          else expand_loop f (i + 1) (acc ++ [ch])
      end
  end.

Definition expand_model : res := expand_loop (S len) 0 [].

(* ---------- spec: the replacement-string grammar of the property, on lists ---------- *)
Inductive item := Lit (c : nat) | Grp (n : nat).

Fixpoint take_digits (n : nat) (l : list nat) : nat * list nat :=
  match l with
  | d :: t => if is_digit d && Nat.leb (n * 10 + dval d) maxc then take_digits (n * 10 + dval d) t else (n, l)
  | [] => (n, [])
  end.

Lemma take_digits_len n l : length (snd (take_digits n l)) <= length l.
Proof. revert n; induction l as [|d t IH]; intros n; cbn; [lia|]. destruct (_ && _); cbn; [specialize (IH (n*10+dval d)); lia|lia]. Qed.

Definition cons_item (it : item) (x : option (list item) + rerr) : option (list item) + rerr :=
  match x with inl (Some its) => inl (Some (it :: its)) | y => y end.

Fixpoint parse_repl (fuel : nat) (l : list nat) : option (list item) + rerr :=
  match fuel with
  | O => inl None
  | S f =>
      match l with
      | [] => inl (Some [])
      | c :: t =>
          if Nat.eqb c 92 then
            match t with
            | [] => inr ErrEnd
            | c2 :: t2 => if Nat.eqb c2 92 || Nat.eqb c2 36 then cons_item (Lit c2) (parse_repl f t2) else inr ErrEscape
            end
          else if Nat.eqb c 36 then
            match t with
            | [] => inr ErrEnd
            | d :: t2 => if negb (is_digit d) then inr ErrDollar else
                         if Nat.leb maxc 9 then cons_item (Grp (dval d)) (parse_repl f t2)
                         else cons_item (Grp (fst (take_digits (dval d) t2))) (parse_repl f (snd (take_digits (dval d) t2)))
            end
          else cons_item (Lit c) (parse_repl f t)
      end
  end.

Definition render (its : list item) : list nat :=
  flat_map (fun it => match it with
                      | Lit c => [c]
                      | Grp n => if Nat.leb n maxc then match cap n with Some t => t | None => [] end else []
                      end) its.

Definition expand_spec : res :=
  match parse_repl (S len) r with
  | inl (Some its) => ROk (render its)
  | inl None => ROut
  | inr e => RErr e
  end.
End Expand.

(* sanity: "$1x\\$" style examples *)
Definition capx (n : nat) : option (list nat) := match n with 0 => Some [119] | 1 => Some [97;98] | 12 => Some [122] | _ => None end.
Eval vm_compute in (expand_model [36;49;120;92;36;36;48] 2 capx, expand_spec [36;49;120;92;36;36;48] 2 capx).
Eval vm_compute in (expand_model [36;49;50;36;49;51;36] 12 capx, expand_spec [36;49;50;36;49;51;36] 12 capx).
Eval vm_compute in (expand_model [36;49;50;51] 12 capx, expand_spec [36;49;50;51] 12 capx).
Eval vm_compute in (expand_model [92;97] 12 capx, expand_spec [92;97] 12 capx).
