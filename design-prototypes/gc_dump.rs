use regexml::Regex;
fn main(){
  let cats=["Lu","Ll","Lt","Lm","Lo","Mn","Mc","Me","Nd","Nl","No","Pc","Pd","Ps","Pe","Pi","Pf","Po","Zs","Zl","Zp","Sm","Sc","Sk","So","Cc","Cf","Co","Cn"];
  for cat in cats {
    let re=Regex::xpath(&format!("^\\p{{{}}}$",cat),"").unwrap();
    let mut ranges:Vec<(u32,u32)>=vec![];
    let mut cur:Option<(u32,u32)>=None;
    for cp in 0u32..=0x10FFFF { if let Some(c)=char::from_u32(cp){ let mut b=[0u8;4]; let s=c.encode_utf8(&mut b);
      if re.is_match(s){ match cur{ Some((a,e)) if e+1==cp || (e==0xD7FF && cp==0xE000) => cur=Some((a,cp)), Some(r)=>{ranges.push(r);cur=Some((cp,cp))}, None=>cur=Some((cp,cp))} } } }
    if let Some(r)=cur{ranges.push(r)}
    println!("{} {}",cat,ranges.iter().map(|(a,b)|format!("{:X}-{:X}",a,b)).collect::<Vec<_>>().join(","));
  }
}
