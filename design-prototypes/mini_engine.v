From Coq Require Import List Arith NArith Bool Lia.
Import ListNotations.

(* global matcher state: just captures here *)
Record mstate := { caps : list (option (nat*nat)) }.

(* resumable stream over a global state *)
Inductive LS : Type :=
| Nil (s : mstate)
| Cons (p : nat) (s : mstate) (rest : mstate -> LS)
| Out.

Inductive op :=
| Atom (cs : list nat)
| Cls (f : nat -> bool)
| Bol | Eol | Nothing
| Capture (g : nat) (o : op)
| Choice (bs : list op)
| Seq (os : list op)
| Rep (o : op) (mn : nat) (mx : option nat) (greedy : bool).

Section Engine.
Variable input : list nat.
Definition len := length input.

Fixpoint prefix_at (cs : list nat) (i : list nat) : bool :=
  match cs, i with
  | [], _ => true
  | c::cs', x::i' => Nat.eqb c x && prefix_at cs' i'
  | _, [] => false
  end.

Definition set_cap (g:nat) (v: nat*nat) (s: mstate) : mstate :=
  {| caps := (fix upd n l := match n, l with
                | O, _::t => Some v :: t
                | O, [] => [Some v]
                | S n', h::t => h :: upd n' t
                | S n', [] => None :: upd n' [] end) g (caps s) |}.

(* bind: sequence a stream with a continuation producing streams *)
Fixpoint bind (l : LS) (k : nat -> mstate -> LS) : LS :=
  match l with
  | Nil s => Nil s
  | Out => Out
  | Cons p s rest =>
      (fix app (m : LS) : LS :=
         match m with
         | Nil s' => bind (rest s') k
         | Out => Out
         | Cons q s' r' => Cons q s' (fun s'' => app (r' s''))
         end) (k p s)
  end.
End Engine.

Section Engine2.
Variable input : list nat.
Let len := length input.

(* append a final element after stream exhausts *)
Fixpoint snoc_if (l : LS) (b : bool) (p : nat) : LS :=
  match l with
  | Nil s => if b then Cons p s (fun s' => Nil s') else Nil s
  | Out => Out
  | Cons q s r => Cons q s (fun s' => snoc_if (r s') b p)
  end.

Fixpoint append (l : LS) (k : mstate -> LS) : LS :=
  match l with
  | Nil s => k s
  | Out => Out
  | Cons q s r => Cons q s (fun s' => append (r s') k)
  end.

Fixpoint greedy (body : nat -> mstate -> LS) (mn : nat) (fuel d p : nat) (s : mstate) : LS :=
  match fuel with
  | O => if Nat.leb mn d then Cons p s (fun s' => Nil s') else Nil s
  | S f => snoc_if (bind (body p s) (fun q s' => greedy body mn f (S d) q s')) (Nat.leb mn d) p
  end.

Fixpoint map_cap (g start : nat) (l : LS) : LS :=
  match l with
  | Nil s => Nil s | Out => Out
  | Cons q s r => Cons q (set_cap g (start,q) s) (fun s' => map_cap g start (r s'))
  end.

Fixpoint mi (o : op) : nat -> mstate -> LS :=
  match o with
  | Atom cs => fun p s => if prefix_at cs (skipn p input) then Cons (p + length cs) s (fun s' => Nil s') else Nil s
  | Cls f => fun p s => match nth_error input p with Some c => if f c then Cons (S p) s (fun s' => Nil s') else Nil s | None => Nil s end
  | Bol => fun p s => if Nat.eqb p 0 then Cons p s (fun s' => Nil s') else Nil s
  | Eol => fun p s => if Nat.leb len p then Cons p s (fun s' => Nil s') else Nil s
  | Nothing => fun p s => Cons p s (fun s' => Nil s')
  | Capture g o' => fun p s => map_cap g p (mi o' p s)
  | Choice bs => fun p s =>
      (fix go (bs : list op) (s : mstate) : LS :=
         match bs with
         | [] => Nil s
         | b :: bs' => append (mi b p s) (fun s' => go bs' s')
         end) bs s
  | Seq os => fun p s =>
      (fix go (os : list op) (p : nat) (s : mstate) : LS :=
         match os with
         | [] => Cons p s (fun s' => Nil s')
         | o1 :: os' => bind (mi o1 p s) (fun q s' => go os' q s')
         end) os p s
  | Rep o' mn mx g =>
      fun p s =>
        let bound := match mx with Some m => Nat.min m (len - p + 1) | None => len - p + 1 end in
        greedy (mi o') mn bound 0 p s
  end.

Definition first (l : LS) : option nat := match l with Cons p _ _ => Some p | _ => None end.
End Engine2.

Definition s0 := {| caps := [] |}.
Definition ex1 := Seq [Rep (Choice [Atom [1]; Atom [1;2]]) 0 None true; Atom [3]].
Eval vm_compute in first (mi [1;2;1;3] ex1 0 s0).
Require Extraction.
Require Import ExtrOcamlBasic.
Extraction "proto.ml" mi first.
