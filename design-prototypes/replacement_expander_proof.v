From Coq Require Import List Arith Bool Lia.
Import ListNotations.
Require Import replacement_expander_model.

Section P.
Variable r : list nat.
Variable maxc : nat.
Variable cap : nat -> option (list nat).
Let len := length r.

Lemma skipn_nth (i : nat) c : nth_error r i = Some c -> skipn i r = c :: skipn (S i) r.
Proof.
  revert i. induction r as [|x l IH]; intros [|i] H; cbn in *; try discriminate.
  - injection H as ->. reflexivity.
  - apply IH; auto.
Qed.
Lemma nth_none_ge i : nth_error r i = None -> len <= i.
Proof. apply nth_error_None. Qed.
Lemma skipn_ge i : len <= i -> skipn i r = [].
Proof. apply skipn_all2. Qed.
Lemma nth_some_lt i c : nth_error r i = Some c -> i < len.
Proof. intros H. apply nth_error_Some. congruence. Qed.

(* the inner digit loop agrees with take_digits *)
Lemma digits_loop_spec : forall fuel i n, i < len -> len - i < fuel ->
  exists i' n', digits_loop r maxc fuel i n = Some (i', n') /\ i <= i' /\ i' <= len /\
                take_digits maxc n (skipn (S i) r) = (n', skipn (S i') r).
Proof.
  induction fuel as [|f IH]; intros i n Hi Hf; [lia|].
  cbn [digits_loop]. fold len. replace (i + 1) with (S i) by lia.
  destruct (Nat.leb len (S i)) eqn:E.
  - apply Nat.leb_le in E. exists (S i), n. repeat split; try lia.
    rewrite (skipn_ge (S i)) by lia. rewrite (skipn_ge (S (S i))) by lia. reflexivity.
  - apply Nat.leb_gt in E.
    destruct (nth_error r (S i)) as [c|] eqn:En; [|apply nth_none_ge in En; lia].
    rewrite (skipn_nth _ _ En). cbn [take_digits].
    destruct (is_digit c) eqn:Ed; cbn [andb].
    + destruct (Nat.ltb maxc (n * 10 + dval c)) eqn:Em.
      * apply Nat.ltb_lt in Em. replace (Nat.leb (n * 10 + dval c) maxc) with false by (symmetry; apply Nat.leb_gt; lia).
        exists i, n. replace (S i - 1) with i by lia. repeat split; try lia. rewrite <- (skipn_nth _ _ En). reflexivity.
      * apply Nat.ltb_ge in Em. replace (Nat.leb (n * 10 + dval c) maxc) with true by (symmetry; apply Nat.leb_le; lia).
        destruct (IH (S i) (n * 10 + dval c)) as (i' & n' & H1 & H2 & H3 & H4); try lia.
        exists i', n'. repeat split; auto; lia.
    + exists i, n. replace (S i - 1) with i by lia. repeat split; try lia. rewrite <- (skipn_nth _ _ En). reflexivity.
Qed.

Definition lift (acc : list nat) (x : option (list item) + rerr) : res :=
  match x with
  | inl (Some its) => ROk (acc ++ render maxc cap its)
  | inl None => ROut
  | inr e => RErr e
  end.

Lemma lift_cons_lit acc c x : lift (acc ++ [c]) x = lift acc (cons_item (Lit c) x).
Proof. destruct x as [[its|]|e]; cbn; auto. rewrite <- app_assoc. reflexivity. Qed.

Lemma lift_cons_grp acc n x : n <= maxc ->
  lift (push_cap cap n acc) x = lift acc (cons_item (Grp n) x).
Proof.
  intros Hn. destruct x as [[its|]|e]; cbn; auto. unfold push_cap.
  replace (Nat.leb n maxc) with true by (symmetry; apply Nat.leb_le; auto).
  destruct (cap n); [rewrite <- app_assoc|]; reflexivity.
Qed.
Lemma lift_cons_grp_big acc n x : maxc < n ->
  lift acc x = lift acc (cons_item (Grp n) x).
Proof.
  intros Hn. destruct x as [[its|]|e]; cbn; auto.
  replace (Nat.leb n maxc) with false by (symmetry; apply Nat.leb_gt; auto). reflexivity.
Qed.

Lemma take_digits_le n l : n <= maxc -> fst (take_digits maxc n l) <= maxc.
Proof.
  revert n; induction l as [|d t IH]; intros n Hn; cbn; auto.
  destruct (is_digit d && Nat.leb (n * 10 + dval d) maxc) eqn:E; cbn; auto.
  apply IH. apply andb_true_iff in E as [_ E]. apply Nat.leb_le in E. auto.
Qed.

(* main invariant: the index loop from i equals the list parser on the suffix *)
Lemma expand_loop_spec : forall fuel i acc, len - i < fuel ->
  expand_loop r maxc cap fuel i acc = lift acc (parse_repl maxc fuel (skipn i r)).
Proof.
  induction fuel as [|f IH]; intros i acc Hf; [lia|].
  cbn [expand_loop parse_repl]. fold len.
  destruct (Nat.leb len i) eqn:E.
  - apply Nat.leb_le in E. rewrite skipn_ge by lia. cbn. rewrite app_nil_r. reflexivity.
  - apply Nat.leb_gt in E.
    destruct (nth_error r i) as [ch|] eqn:En; [|apply nth_none_ge in En; lia].
    rewrite (skipn_nth _ _ En). replace (i + 1) with (S i) by lia.
    destruct (Nat.eqb ch 92) eqn:E92.
    { (* backslash *)
      destruct (Nat.leb len (S i)) eqn:E2.
      - apply Nat.leb_le in E2. rewrite skipn_ge by lia. reflexivity.
      - apply Nat.leb_gt in E2.
        destruct (nth_error r (S i)) as [c2|] eqn:En2; [|apply nth_none_ge in En2; lia].
        rewrite (skipn_nth _ _ En2). replace (S i + 1) with (S (S i)) by lia.
        destruct (Nat.eqb c2 92 || Nat.eqb c2 36); [|reflexivity].
        rewrite IH by lia. apply lift_cons_lit. }
    destruct (Nat.eqb ch 36) eqn:E36.
    { (* dollar *)
      destruct (Nat.leb len (S i)) eqn:E2.
      - apply Nat.leb_le in E2. rewrite skipn_ge by lia. reflexivity.
      - apply Nat.leb_gt in E2.
        destruct (nth_error r (S i)) as [c2|] eqn:En2; [|apply nth_none_ge in En2; lia].
        rewrite (skipn_nth _ _ En2). replace (S i + 1) with (S (S i)) by lia.
        destruct (is_digit c2) eqn:Ed; cbn [negb]; [|reflexivity].
        destruct (Nat.leb maxc 9) eqn:E9.
        + rewrite IH by lia.
          destruct (Nat.leb (dval c2) maxc) eqn:Ec.
          * apply Nat.leb_le in Ec. apply lift_cons_grp; auto.
          * apply Nat.leb_gt in Ec. apply lift_cons_grp_big; auto.
        + apply Nat.leb_gt in E9.
          destruct (digits_loop_spec (S len) (S i) (dval c2)) as (i' & n' & H1 & H2 & H3 & H4); try lia.
          fold len in H1. rewrite H1. rewrite H4. cbn [fst snd].
          replace (i' + 1) with (S i') by lia.
          rewrite IH by lia.
          apply lift_cons_grp.
          assert (dval c2 <= maxc).
          { unfold is_digit in Ed. apply andb_true_iff in Ed as [_ Ed]. apply Nat.leb_le in Ed. unfold dval. lia. }
          pose proof (take_digits_le (dval c2) (skipn (S (S i)) r) H) as K. rewrite H4 in K. exact K. }
    rewrite IH by lia. apply lift_cons_lit.
Qed.

Theorem expand_model_eq_spec : expand_model r maxc cap = expand_spec r maxc cap.
Proof.
  unfold expand_model, expand_spec. fold len.
  rewrite expand_loop_spec by lia. cbn [skipn]. unfold lift. cbn [app]. reflexivity.
Qed.

(* no Panic, no Out: the index arithmetic never leaves the string and the fuel suffices *)
Lemma parse_repl_fuel : forall fuel l, length l < fuel -> parse_repl maxc fuel l <> inl None.
Proof.
  induction fuel as [|f IH]; intros l Hl; [lia|]. cbn [parse_repl].
  assert (forall it x, x <> inl None -> cons_item it x <> inl None) as C.
  { intros it [[its|]|e] Hx; cbn; congruence. }
  destruct l as [|c t]; [discriminate|]. cbn [length] in Hl.
  destruct (Nat.eqb c 92).
  { destruct t as [|c2 t2]; [discriminate|]. cbn [length] in Hl.
    destruct (_ || _); [|discriminate]. apply C, IH. lia. }
  destruct (Nat.eqb c 36).
  { destruct t as [|d t2]; [discriminate|]. cbn [length] in Hl.
    destruct (negb _); [discriminate|].
    destruct (Nat.leb maxc 9); apply C, IH; [lia|].
    pose proof (take_digits_len r maxc (dval d) t2). lia. }
  apply C, IH. lia.
Qed.

Theorem expand_total : match expand_model r maxc cap with ROk _ | RErr _ => True | _ => False end.
Proof.
  rewrite expand_model_eq_spec. unfold expand_spec. fold len.
  pose proof (parse_repl_fuel (S len) r ltac:(unfold len; lia)) as H.
  destruct (parse_repl maxc (S len) r) as [[its|]|e]; auto.
Qed.
End P.
Print Assumptions expand_model_eq_spec.
Print Assumptions expand_total.
