From Coq Require Import List Arith Bool Lia.
Import ListNotations.
Require Import engine_model_prototype.

(* ---------- state well-formedness ---------- *)
Definition wf (s : mstate) : Prop :=
  length (startn (cs_ s)) = length (endn (cs_ s)) /\ 1 <= length (startn (cs_ s)) /\
  length (sb s) = length (eb s) /\ anchored s = false.

Inductive YW : LS -> list nat -> Prop :=
| YWNil s : wf s -> YW (Nil s) []
| YWCons p s r ps : wf s -> (forall s', wf s' -> YW (r s') ps) -> YW (Cons p s r) (p :: ps).

Lemma YW_once p s : wf s -> YW (once p s) [p].
Proof. intros H. unfold once. constructor; auto. intros s' H'. constructor; auto. Qed.

Lemma YW_append l ps k qs :
  YW l ps -> (forall s, wf s -> YW (k s) qs) -> YW (append l k) (ps ++ qs).
Proof.
  induction 1 as [s Hs|p s r ps Hs H IH]; intros Hk; cbn.
  - apply Hk; auto.
  - constructor; auto.
Qed.

Lemma YW_bind l ps k f :
  YW l ps -> (forall q s, wf s -> YW (k q s) (f q)) -> YW (bind l k) (flat_map f ps).
Proof.
  induction 1 as [s Hs|p s r ps Hs H IH]; intros Hk; cbn.
  - constructor; auto.
  - specialize (Hk p s Hs) as Hkp.
    remember (k p s) as m eqn:Em. clear Em.
    induction Hkp as [s1 Hs1|q s1 r1 qs Hs1 H1 IH1]; cbn.
    + apply IH; auto.
    + constructor; auto.
Qed.

Lemma YW_map_yield f l ps :
  (forall q s, wf s -> exists s1, f q s = Some s1 /\ wf s1) ->
  YW l ps -> YW (map_yield f l) ps.
Proof.
  intros Hf. induction 1 as [s Hs|p s r ps Hs H IH]; cbn.
  - constructor; auto.
  - destruct (Hf p s Hs) as [s1 [E W]]. rewrite E. constructor; auto.
Qed.

Lemma YW_on_nil f l ps : (forall s, wf s -> wf (f s)) -> YW l ps -> YW (on_nil f l) ps.
Proof.
  intros Hf. induction 1 as [s Hs|p s r ps Hs H IH]; cbn; constructor; auto.
Qed.

(* ---------- array lemmas ---------- *)
Lemma clear_arr_len : forall st en pos, length st = length en ->
  exists r, clear_arr st en pos = Some r /\ length r = length en.
Proof.
  induction st as [|a st IH]; intros [|e en] pos H; cbn in *; try discriminate.
  - eexists; split; eauto.
  - injection H as H. destruct (IH en pos H) as [r [E L]]. rewrite E. eexists; split; eauto. cbn. lia.
Qed.

Lemma clear_beyond_wf pos s : wf s -> exists s1, clear_beyond pos s = Some s1 /\ wf s1.
Proof.
  intros (H1 & H2 & H3 & H4). unfold clear_beyond.
  destruct (clear_arr_len _ _ pos H1) as [r1 [E1 L1]].
  destruct (clear_arr_len _ _ pos H3) as [r2 [E2 L2]].
  rewrite E1, E2. eexists; split; eauto. unfold wf; cbn. repeat split; auto; lia.
Qed.

Lemma upd_len {A} (l : list A) i v : length (upd l i v) = length l.
Proof. revert i; induction l; destruct i; cbn; auto. Qed.
Lemma grow_len_eq : forall fuel l1 l2 i, length l1 = length l2 -> length (grow l1 fuel i) = length (grow l2 fuel i).
Proof.
  induction fuel; intros; cbn [grow]; auto. rewrite H. destruct (Nat.ltb i (length l2)); auto.
  apply IHfuel. rewrite !app_length, !repeat_length. lia.
Qed.
Lemma grow_len_ge : forall fuel l i, length l <= length (grow l fuel i).
Proof.
  induction fuel; intros; cbn [grow]; auto. destruct (Nat.ltb i (length l)); auto.
  etransitivity; [|apply IHfuel]. rewrite app_length. lia.
Qed.

Lemma setg_len_eq l1 l2 i v w : length l1 = length l2 -> length (setg l1 i v) = length (setg l2 i w).
Proof. intros H. unfold setg. rewrite !upd_len. apply grow_len_eq; auto. Qed.
Lemma setg_len_ge l i v : length l <= length (setg l i v).
Proof. unfold setg. rewrite upd_len. apply grow_len_ge. Qed.
Lemma setg0_len l v : 1 <= length l -> length (setg l 0 v) = length l.
Proof.
  intros H. unfold setg. rewrite upd_len.
  assert (forall fuel l, 1 <= length l -> grow l fuel 0 = l) as G.
  { induction fuel; intros l0 Hl; cbn [grow]; auto. destruct l0; cbn [length] in *; [lia|]. reflexivity. }
  rewrite G; auto.
Qed.
Global Opaque setg.

Lemma set_ps_pe_wf g p q s2 : wf s2 -> wf (set_pend g q (set_pstart g p s2)).
Proof.
  intros (A1 & A2 & A3 & A4). unfold wf, set_pend, set_pstart.
  cbn [cs_ startn endn sb eb anchored].
  repeat split; auto.
  - apply setg_len_eq; auto.
  - pose proof (setg_len_ge (startn (cs_ s2)) g p). lia.
Qed.

Lemma capture_step_wf (hb : bool) g p q s :
  wf s ->
  wf (let s2 := if Nat.leb (pcount (cs_ s)) g then set_pcount (S g) s else s in
      let s3 := set_pend g q (set_pstart g p s2) in
      if hb then set_eb g (Some q) (set_sb g (Some p) s3) else s3).
Proof.
  intros W.
  assert (wf (if Nat.leb (pcount (cs_ s)) g then set_pcount (S g) s else s)) as W2.
  { destruct (Nat.leb _ _); auto. }
  cbv zeta. pose proof (set_ps_pe_wf g p q _ W2) as K.
  destruct hb; auto.
  destruct K as (A1 & A2 & A3 & A4). unfold wf, set_eb, set_sb.
  cbn [cs_ startn endn sb eb anchored]. rewrite !upd_len. auto.
Qed.

(* ---------- pure list-of-successes for the history-free, backref-free fragment ---------- *)
Section R.
Variable input : list nat.
Variable multi_line : bool.
Variable has_backrefs : bool.
Let n := length input.
Let run := mi input multi_line has_backrefs.

Definition hdp (l : list nat) : option nat := match l with q :: _ => Some q | [] => None end.

Fixpoint gf_probeR (body : nat -> list nat) (len : nat) (mx : option nat) (guard fuel p matches : nat) : option (nat * nat) :=
  match fuel with
  | O => None
  | S f => if Nat.leb p guard then
             match body p with
             | _ :: _ => let m := S matches in let p' := p + len in
                         if match mx with Some x => Nat.eqb m x | None => false end then Some (p', m)
                         else gf_probeR body len mx guard f p' m
             | [] => Some (p, matches) end
           else Some (p, matches)
  end.
Fixpoint int_stepR (len limit fuel cur : nat) : list nat :=
  match fuel with
  | O => []
  | S f => if Nat.leb limit cur then cur :: (if Nat.ltb cur len then [] else if Nat.eqb len 0 then [] else int_stepR len limit f (cur - len)) else []
  end.
Fixpoint un_probeR (body : nat -> list nat) (mx : option nat) (guard fuel p matches : nat) : option (nat * nat) :=
  match fuel with
  | O => None
  | S f => if mxlt matches mx && Nat.leb p guard then
             match body p with q :: _ => un_probeR body mx guard f q (S matches) | [] => Some (p, matches) end
           else Some (p, matches)
  end.

Fixpoint Rop (o : op) : nat -> list nat :=
  match o with
  | OAtom cs => fun p => if Nat.ltb n (p + length cs) then [] else if atom_at cs (skipn p input) then [p + length cs] else []
  | OCls inv => fun p => match nth_error input p with Some c => if inv_mem inv c then [S p] else [] | None => [] end
  | OBol => fun p => if Nat.eqb p 0 then [p] else if multi_line && is_nl input (p - 1) && Nat.ltb p n then [p] else []
  | OEol => fun p => if multi_line then (if Nat.eqb n 0 || Nat.leb n p || is_nl input p then [p] else [])
                     else if Nat.eqb n 0 || Nat.leb n p then [p] else []
  | ONothing => fun p => [p]
  | OEnd => fun p => [p]
  | OCapture g o' => Rop o'
  | OChoice bs => fun p => flat_map (fun b => Rop b p) bs
  | OSeq os => fun p =>
      (fix go (os : list op) (p : nat) : list nat :=
         match os with
         | [] => []
         | [o1] => Rop o1 p
         | o1 :: os' => flat_map (fun q => go os' q) (Rop o1 p)
         end) os p
  | OUnamb o' mn mx => fun p =>
      match un_probeR (Rop o') mx n (n + 5) p 0 with
      | Some (p', m) => if Nat.ltb m mn then [] else [p']
      | None => [] end
  | OGFixed o' mn mx len => fun p =>
      let guard := match mx with Some m => Nat.min n (p + len * m) | None => n end in
      if Nat.leb guard p && Nat.ltb 0 mn then [] else
      match gf_probeR (Rop o') len mx guard (n + 5) p 0 with
      | Some (p', m) => if Nat.ltb m mn then [] else int_stepR len (p + len * mn) (S p') p'
      | None => [] end
  | _ => fun _ => []
  end.

Fixpoint simple (o : op) : Prop :=
  match o with
  | OBackref _ | ORepeat _ _ _ _ _ | ORFixed _ _ _ _ => False
  | OCapture _ o' => simple o'
  | OChoice bs => (fix all l := match l with [] => True | x :: t => simple x /\ all t end) bs
  | OSeq os => os <> [] /\ (fix all l := match l with [] => True | x :: t => simple x /\ all t end) os
  | OUnamb o' _ _ => simple o'
  | OGFixed o' _ _ len => simple o' /\ 0 < len
  | _ => True
  end.

(* probes: first-result-only consumption *)
Lemma un_probe_ok body bodyR mx :
  (forall p s, wf s -> YW (body p s) (bodyR p)) ->
  forall fuel p m s, wf s ->
    match un_probeR bodyR mx n fuel p m with
    | Some (p', m') => exists s1, un_probe body mx n fuel p m s = Some (p', m', s1) /\ wf s1
    | None => un_probe body mx n fuel p m s = None
    end.
Proof.
  intros Hb. induction fuel as [|f IH]; intros p m s Hs; cbn [un_probe un_probeR]; auto.
  destruct (mxlt m mx && Nat.leb p n); [|eexists; eauto].
  specialize (Hb p s Hs). inversion Hb as [s1 H1 E1 E2|q s1 r ps H1 H2 E1 E2].
  - eexists; eauto.
  - apply IH; auto.
Qed.

Lemma gf_probe_ok body bodyR len mx guard :
  (forall p s, wf s -> YW (body p s) (bodyR p)) ->
  forall fuel p m s, wf s ->
    match gf_probeR bodyR len mx guard fuel p m with
    | Some (p', m') => exists s1, gf_probe body len mx guard fuel p m s = Some (p', m', s1) /\ wf s1
    | None => gf_probe body len mx guard fuel p m s = None
    end.
Proof.
  intros Hb. induction fuel as [|f IH]; intros p m s Hs; cbn [gf_probe gf_probeR]; auto.
  destruct (Nat.leb p guard); [|eexists; eauto].
  specialize (Hb p s Hs). inversion Hb as [s1 H1 E1 E2|q s1 r ps H1 H2 E1 E2].
  - eexists; eauto.
  - destruct (match mx with Some x => Nat.eqb (S m) x | None => false end); [eexists; eauto|].
    apply IH; auto.
Qed.

Lemma int_step_ok len limit : 0 < len -> forall fuel cur s, wf s -> cur < fuel ->
  YW (int_step len limit fuel cur s) (int_stepR len limit fuel cur).
Proof.
  intros Hl. induction fuel as [|f IH]; intros cur s Hs Hc; [lia|].
  cbn [int_step int_stepR]. destruct (Nat.leb limit cur); [|constructor; auto].
  constructor; auto. intros s' Hs'.
  destruct (Nat.ltb cur len) eqn:E; [constructor; auto|].
  apply Nat.ltb_ge in E.
  destruct (Nat.eqb len 0) eqn:E0; [apply Nat.eqb_eq in E0; lia|].
  apply IH; auto. lia.
Qed.

(* fuel sufficiency for the GreedyFixed probe: p advances by len > 0 up to guard *)
Lemma gf_probeR_fuel bodyR len mx guard : 0 < len ->
  forall fuel p m, guard + 1 - p < fuel -> gf_probeR bodyR len mx guard fuel p m <> None.
Proof.
  intros Hl. induction fuel as [|f IH]; intros p m Hf; [lia|].
  cbn [gf_probeR]. destruct (Nat.leb p guard) eqn:E; [|discriminate].
  apply Nat.leb_le in E.
  destruct (bodyR p); [discriminate|].
  destruct (match mx with Some x => Nat.eqb (S m) x | None => false end); [discriminate|].
  apply IH. lia.
Qed.
Lemma gf_probeR_le bodyR len mx guard :
  forall fuel p m p' m', p <= guard + len -> gf_probeR bodyR len mx guard fuel p m = Some (p', m') -> p' <= guard + len.
Proof.
  induction fuel as [|f IH]; intros p m p' m' Hp; cbn [gf_probeR]; [discriminate|].
  destruct (Nat.leb p guard) eqn:E; [|intros [= <- <-]; auto].
  apply Nat.leb_le in E.
  destruct (bodyR p); [intros [= <- <-]; lia|].
  destruct (match mx with Some x => Nat.eqb (S m) x | None => false end); [intros [= <- <-]; lia|].
  apply IH. lia.
Qed.

Definition body_ok (o : op) : Prop := match o with OCls _ => True | OAtom (_ :: _) => True | _ => False end.
Lemma body_ok_progress o p q : body_ok o -> In q (Rop o p) -> p < q.
Proof.
  destruct o; cbn [body_ok]; try tauto.
  - destruct cs as [|c cs]; [tauto|]. intros _. cbn [Rop].
    destruct (Nat.ltb n (p + length (c :: cs))); [intros []|].
    destruct (atom_at (c :: cs) (skipn p input)); [|intros []].
    intros [<-|[]]. cbn [length]. lia.
  - intros _. cbn [Rop]. destruct (nth_error input p) as [ch|]; [|intros []].
    destruct (inv_mem inv ch); [|intros []]. intros [<-|[]]. lia.
Qed.
Lemma un_probeR_fuel o mx : body_ok o ->
  forall fuel p m, n + 1 - p < fuel -> un_probeR (Rop o) mx n fuel p m <> None.
Proof.
  intros Hb. induction fuel as [|f IH]; intros p m Hf; [lia|].
  cbn [un_probeR]. destruct (mxlt m mx && Nat.leb p n) eqn:E; [|discriminate].
  apply andb_true_iff in E as [_ E]. apply Nat.leb_le in E.
  destruct (Rop o p) as [|q l] eqn:Eq; [discriminate|].
  assert (p < q) by (apply (body_ok_progress o p q Hb); rewrite Eq; left; auto).
  apply IH. lia.
Qed.

Fixpoint simple2 (o : op) : Prop :=
  match o with
  | OBackref _ | ORepeat _ _ _ _ _ | ORFixed _ _ _ _ => False
  | OCapture _ o' => simple2 o'
  | OChoice bs => (fix all l := match l with [] => True | x :: t => simple2 x /\ all t end) bs
  | OSeq os => os <> [] /\ (fix all l := match l with [] => True | x :: t => simple2 x /\ all t end) os
  | OUnamb o' _ _ => simple2 o' /\ body_ok o'
  | OGFixed o' _ _ len => simple2 o' /\ 0 < len
  | _ => True
  end.

Lemma setg_pend0_wf p s : wf s -> wf (set_pend 0 p s).
Proof.
  intros (H1 & H2 & H3 & H4). unfold wf, set_pend. cbn [cs_ startn endn sb eb anchored].
  repeat split; auto. rewrite setg0_len; lia.
Qed.

Section Ind.
Variable P : op -> Prop.
Hypothesis HBol : P OBol. Hypothesis HEol : P OEol. Hypothesis HNo : P ONothing. Hypothesis HEnd : P OEnd.
Hypothesis HAt : forall cs, P (OAtom cs). Hypothesis HCl : forall i, P (OCls i). Hypothesis HBr : forall g, P (OBackref g).
Hypothesis HCap : forall g o, P o -> P (OCapture g o).
Hypothesis HCh : forall bs, Forall P bs -> P (OChoice bs).
Hypothesis HSeq : forall os, Forall P os -> P (OSeq os).
Hypothesis HRep : forall id o mn mx g, P o -> P (ORepeat id o mn mx g).
Hypothesis HGF : forall o mn mx l, P o -> P (OGFixed o mn mx l).
Hypothesis HRF : forall o mn mx l, P o -> P (ORFixed o mn mx l).
Hypothesis HUn : forall o mn mx, P o -> P (OUnamb o mn mx).
Fixpoint op_ind2 (o : op) : P o :=
  let fix go (l : list op) : Forall P l := match l with [] => Forall_nil _ | x :: t => Forall_cons _ (op_ind2 x) (go t) end in
  match o with
  | OBol => HBol | OEol => HEol | ONothing => HNo | OEnd => HEnd
  | OAtom cs => HAt cs | OCls i => HCl i | OBackref g => HBr g
  | OCapture g o' => HCap g o' (op_ind2 o')
  | OChoice bs => HCh bs (go bs)
  | OSeq os => HSeq os (go os)
  | ORepeat id o' mn mx g => HRep id o' mn mx g (op_ind2 o')
  | OGFixed o' mn mx l => HGF o' mn mx l (op_ind2 o')
  | ORFixed o' mn mx l => HRF o' mn mx l (op_ind2 o')
  | OUnamb o' mn mx => HUn o' mn mx (op_ind2 o')
  end.
End Ind.

Opaque gf_probe gf_probeR un_probe un_probeR int_step int_stepR.
Ltac yw_ifs := repeat match goal with
  | |- YW (if ?c then _ else _) (if ?c then _ else _) => destruct c
  | |- YW (match ?c with Some _ => _ | None => _ end) (match ?c with Some _ => _ | None => _ end) => destruct c
  end; try (apply YW_once; auto); try (constructor; auto).

Theorem engine_yields_Rop : forall o, simple2 o -> forall p s, wf s -> YW (run o p s) (Rop o p).
Proof.
  unfold run.
  induction o using op_ind2; intros Hsim p s Hs; cbn [mi Rop]; fold n; try (cbn in Hsim; tauto).
  - yw_ifs.
  - yw_ifs.
  - yw_ifs.
  - destruct Hs as (H1 & H2 & H3 & H4). rewrite H4. apply YW_once. apply setg_pend0_wf; unfold wf; auto.
  - yw_ifs.
  - yw_ifs.
  - (* Capture *) cbn in Hsim.
    apply YW_map_yield.
    + intros q s1 W. eexists; split; [reflexivity|]. apply (capture_step_wf has_backrefs g p q s1 W).
    + apply IHo; auto. destruct has_backrefs; auto.
      destruct Hs as (H1 & H2 & H3 & H4). unfold wf, set_sb; cbn [cs_ startn endn sb eb anchored]. rewrite upd_len. auto.
  - (* Choice *) cbn in Hsim. revert s Hs. induction H as [|b bs Hb Hbs IHb]; intros s Hs; cbn.
    + constructor; auto.
    + destruct Hsim as [Sb Sbs]. destruct (clear_beyond_wf p s Hs) as [s0 [E W]]. rewrite E.
      apply YW_append; [apply Hb; auto|]. intros s' Hs'. apply IHb; auto.
  - (* Seq *) cbn in Hsim. destruct Hsim as [Hne Hall].
    apply YW_on_nil.
    { intros s' W'. destruct (contains_cap (OSeq os)); auto.
      destruct W' as (H1 & H2 & H3 & H4).
      destruct Hs as (G1 & G2 & G3 & G4). unfold wf, set_cs; cbn [cs_ startn endn sb eb anchored]. repeat split; auto. }
    revert p s Hs. induction H as [|o1 os Ho Hos IHos]; [congruence|]. intros p s Hs.
    destruct Hall as [H1 Hrest].
    destruct os as [|o2 os'].
    + apply YW_map_yield; [intros q s1 W; apply clear_beyond_wf; auto|]. apply Ho; auto.
    + apply YW_bind; [apply Ho; auto|].
      intros q s1 W. destruct (clear_beyond_wf q s1 W) as [s2 [E W2]]. rewrite E.
      apply IHos; auto. discriminate.
  - (* GFixed *) cbn in Hsim. destruct Hsim as [Hs2 Hlen].
    set (guard := match mx with Some m => Nat.min n (p + l * m) | None => n end).
    destruct (Nat.leb guard p && Nat.ltb 0 mn); [constructor; auto|].
    pose proof (gf_probe_ok (mi input multi_line has_backrefs o) (Rop o) l mx guard (fun p s W => IHo Hs2 p s W) (n + 5) p 0 s Hs) as K.
    destruct (gf_probeR (Rop o) l mx guard (n + 5) p 0) as [[p' m]|] eqn:E.
    + destruct K as [s1 [K1 W1]]. rewrite K1.
      destruct (Nat.ltb m mn); [constructor; auto|].
      apply int_step_ok; auto.
    + exfalso. revert E. apply gf_probeR_fuel; auto. unfold guard. destruct mx; lia.
  - (* Unamb *) cbn in Hsim. destruct Hsim as [Hs2 Hbo].
    pose proof (un_probe_ok (mi input multi_line has_backrefs o) (Rop o) mx (fun p s W => IHo Hs2 p s W) (n + 5) p 0 s Hs) as K.
    destruct (un_probeR (Rop o) mx n (n + 5) p 0) as [[p' m]|] eqn:E.
    + destruct K as [s1 [K1 W1]]. rewrite K1. destruct (Nat.ltb m mn); [constructor; auto|apply YW_once; auto].
    + exfalso. revert E. apply un_probeR_fuel; auto. lia.
Qed.
Print Assumptions engine_yields_Rop.
End R.
