(* C03 - captured groups report the text captured on the selected match path.
   The largest gap between code and property (known finding KF-D9): captures are not restored when
   the engine backtracks, so the statement "group N = the head of the ordered-choice semantics" is
   false on patterns with a group under a quantifier or in an alternation, and unproved elsewhere.
   Proved so far: what $N and analyze read is exactly the recorded span (no off-by-one, checked
   slicing); a match without groups is reported as one String leaf equal to the match; and the event
   walk that builds the analyze tree preserves the text - whatever group events are queued at
   whatever offsets, the leaves of the frames it leaves behind concatenate to the matched substring
   (so "the concatenation of all String leaves of a Match equals the matched substring" whenever the
   events are balanced, i.e. whenever one frame is left); and they are balanced, so the forest
   process_matching_substring returns has leaves concatenating to the matched substring, whenever the
   groups the matcher state records start and end inside the match (C03_match_leaves_partial). *)
From RX Require Import Base.Prelude Model.Engine Model.Matcher Model.Api Proofs.AnalyzeFacts Proofs.AnalyzeTreeFacts.

Theorem C03_get_paren_is_recorded_span_partial :
  forall input s g a b, Nat.ltb g (pcount (cs_ s)) = true ->
    get_pstart s g = Some a -> get_pend s g = Some b -> a <= b -> b <= length input ->
    get_paren input s g = Ok (Some (slice input a b)).
Proof.
  intros input s g a b Hg Ha Hb H1 H2. unfold get_paren. rewrite Hg, Ha, Hb. unfold rslice.
  replace (Nat.ltb b a) with false by (symmetry; apply Nat.ltb_ge; lia).
  replace (Nat.ltb (length input) b) with false by (symmetry; apply Nat.ltb_ge; lia). reflexivity.
Qed.

Theorem C03_unset_group_contributes_nothing_partial :
  forall input s g, Nat.ltb g (pcount (cs_ s)) = false -> get_paren input s g = Ok None.
Proof. intros input s g H. unfold get_paren. rewrite H. reflexivity. Qed.

Theorem C03_no_groups_one_leaf_partial :
  forall table s current, pcount (cs_ s) = 1 ->
    process_matching_substring table s current = Ok [MStr current].
Proof. intros table s current H. unfold process_matching_substring. rewrite H. reflexivity. Qed.

Theorem C03_walk_preserves_text_partial :
  forall current fuel i actions buf stack stack',
    walk current fuel i actions buf stack = Ok stack' ->
    stext stack' = stext stack ++ btext buf ++ skipn i current.
Proof. exact walk_text. Qed.

Theorem C03_leaves_concatenate_to_match_partial :
  forall current fuel actions es nr,
    walk current fuel 0 actions None [(O, [])] = Ok [(nr, es)] -> vtext (rev es) = current.
Proof. exact walk_leaves. Qed.

Theorem C03_match_leaves_partial :
  forall current table s,
    (forall i a0 si ei, 1 <= i -> get_pstart s 0 = Some a0 -> get_pstart s i = Some si -> get_pend s i = Some ei ->
       si <= a0 + length current /\ ei <= a0 + length current) ->
    forall v, process_matching_substring table s current = Ok v -> vtext v = current.
Proof. exact pms_text. Qed.

Print Assumptions C03_get_paren_is_recorded_span_partial.
Print Assumptions C03_unset_group_contributes_nothing_partial.
Print Assumptions C03_no_groups_one_leaf_partial.
Print Assumptions C03_walk_preserves_text_partial.
Print Assumptions C03_leaves_concatenate_to_match_partial.
Print Assumptions C03_match_leaves_partial.
