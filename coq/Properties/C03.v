(* C03 - captured groups report the text captured on the selected match path.
   The largest gap between code and property (known finding KF-D9): captures are not restored when
   the engine backtracks, so the statement "group N = the head of the ordered-choice semantics" is
   false on patterns with a group under a quantifier or in an alternation, and unproved elsewhere.
   Proved so far: what $N and analyze read is exactly the recorded span (no off-by-one, checked
   slicing); a match without groups is reported as one String leaf equal to the match; and the event
   walk that builds the analyze tree preserves the text - whatever group events are queued at
   whatever offsets, the leaves of the frames it leaves behind concatenate to the matched substring
   (so "the concatenation of all String leaves of a Match equals the matched substring" whenever the
   events are balanced, i.e. whenever one frame is left). *)
From RX Require Import Base.Prelude Model.Engine Model.Matcher Model.Api Proofs.AnalyzeFacts.

Theorem C03_get_paren_is_recorded_span_partial :
  forall input s g a b, Nat.ltb g (pcount (cs_ s)) = true ->
    get_pstart s g = Some a -> get_pend s g = Some b -> a <= b -> b <= length input ->
    get_paren input s g = Ok (Some (slice input a b)).
Proof.
  intros input s g a b Hg Ha Hb H1 H2. unfold get_paren. rewrite Hg, Ha, Hb. unfold rslice.
  replace (Nat.ltb b a) with false by (symmetry; apply Nat.ltb_ge; lia).
  replace (Nat.ltb (length input) b) with false by (symmetry; apply Nat.ltb_ge; lia). reflexivity.
Qed.

Theorem C03_unset_group_contributes_nothing_partial :
  forall input s g, Nat.ltb g (pcount (cs_ s)) = false -> get_paren input s g = Ok None.
Proof. intros input s g H. unfold get_paren. rewrite H. reflexivity. Qed.

Theorem C03_no_groups_one_leaf_partial :
  forall table s current, pcount (cs_ s) = 1 ->
    process_matching_substring table s current = Ok [MStr current].
Proof. intros table s current H. unfold process_matching_substring. rewrite H. reflexivity. Qed.

Theorem C03_walk_preserves_text_partial :
  forall current fuel i actions buf stack stack',
    walk current fuel i actions buf stack = Ok stack' ->
    stext stack' = stext stack ++ btext buf ++ skipn i current.
Proof. exact walk_text. Qed.

Theorem C03_leaves_concatenate_to_match_partial :
  forall current fuel actions es nr,
    walk current fuel 0 actions None [(O, [])] = Ok [(nr, es)] -> vtext (rev es) = current.
Proof. exact walk_leaves. Qed.

Print Assumptions C03_get_paren_is_recorded_span_partial.
Print Assumptions C03_unset_group_contributes_nothing_partial.
Print Assumptions C03_no_groups_one_leaf_partial.
Print Assumptions C03_walk_preserves_text_partial.
Print Assumptions C03_leaves_concatenate_to_match_partial.
