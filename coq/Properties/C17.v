(* C17 - the XSD dialect rejects XPath extensions and agrees on the common subset.
   Proved: the flag half (flag q is rejected in the XSD dialect; every other flag string is treated
   as in the XPath dialect); and the parser steps on which the dialects differ: '^' and '$' become
   anchors under XPath and go to the atom scanner like any character under XSD; '(?:' and the escape
   '\$' are accepted under XPath and are syntax errors under XSD.  Partial: the rest of the pattern
   half (P1/P2; reluctant quantifiers, back-references) is carried by the correspondence against the
   three-valued grammar and by the both-dialects comparison. *)
From RX Require Import Base.Prelude Spec.Syntax Spec.Parse Model.Op Model.Compiler Proofs.SmallFacts Proofs.DialectFacts Model.Matcher Model.Engine Proofs.GroupGrammar Proofs.GroupSpec.

Theorem C17_flags :
  forall (s : list N), existsb (N.eqb 59) s = false ->
    match parse_flags false s, spec_flags false s with
    | Ok fl, Valid sf => flags_agree fl sf /\ f_xpath fl = false
    | Err EInvalidFlags, Invalid => True
    | _, _ => False
    end.
Proof. intros s H. exact (parse_flags_spec false s H). Qed.

Lemma spec_q_invalid : forall s sf, existsb (N.eqb 113) s = true -> existsb (N.eqb 59) s = false ->
  flags_loop false s sf = Invalid.
Proof.
  induction s as [|c t IH]; intros sf Hq Hs; [discriminate|].
  cbn [existsb] in Hq, Hs. apply orb_false_iff in Hs as [Hc Hs]. cbn [flags_loop].
  rewrite N.eqb_sym, Hc.
  destruct (N.eqb_spec c 113) as [->|Hn].
  - reflexivity.
  - rewrite N.eqb_sym in Hq. destruct (N.eqb_spec c 113); [contradiction|]. cbn [orb] in Hq.
    destruct (N.eqb c 105); [apply IH; auto|]. destruct (N.eqb c 109); [apply IH; auto|].
    destruct (N.eqb c 115); [apply IH; auto|]. destruct (N.eqb c 120); [apply IH; auto|]. reflexivity.
Qed.

Theorem C17_q_rejected :
  forall s, existsb (N.eqb 113) s = true -> existsb (N.eqb 59) s = false ->
    parse_flags false s = Err EInvalidFlags.
Proof.
  intros s Hq Hs. pose proof (parse_flags_spec false s Hs) as P.
  unfold spec_flags in P. rewrite (spec_q_invalid s _ Hq Hs) in P.
  destruct (parse_flags false s) as [fl|e| |]; try contradiction. destruct e; try contradiction. reflexivity.
Qed.

Theorem C17_caret_dollar_by_dialect_partial :
  forall pat ci single xpath fuel st,
    (at_ pat (idx st) = Some 94%N ->
       parse_terminal pat xpath ci single (S fuel) st = if xpath then Ok (OBol, adv 1 st) else parse_atom pat xpath st)
    /\ (at_ pat (idx st) = Some 36%N ->
       parse_terminal pat xpath ci single (S fuel) st = if xpath then Ok (OEol, adv 1 st) else parse_atom pat xpath st).
Proof. intros. split; [apply terminal_caret|apply terminal_dollar]. Qed.

Theorem C17_noncapturing_rejected_in_xsd_partial :
  forall pat ci single fuel st, at_ pat (idx st) = Some 40%N ->
    Nat.ltb (idx st + 2) (length pat) = true -> is_at pat (idx st + 1) 63 = true -> is_at pat (idx st + 2) 58 = true ->
    parse_expr pat false ci single (S fuel) false st = Err ESyntax.
Proof. exact noncapturing_xsd. Qed.

Theorem C17_escaped_dollar_by_dialect_partial :
  forall pat xpath in_sq st, at_ pat (idx st) = Some 92%N -> Nat.leb (length pat) (idx st + 1) = false ->
    at_ pat (idx st + 1) = Some 36%N ->
    escape pat xpath in_sq st = if xpath then Ok (EChar 36, adv 2 st) else Err ESyntax.
Proof. exact escape_dollar. Qed.

(* the common subset behaves the same: every pattern of the grammar of Proofs/GroupGrammar.v that is
   valid under XSD (capturing groups only, greedy quantifiers only) compiles under both dialects, and
   the two programs give the same verdict on every input *)
Theorem C17_group_grammar_same_in_both_dialects_partial :
  forall fl fl' a input,
    ok_a false a = true -> f_xpath fl = false -> f_xpath fl' = true ->
    f_case fl = f_case fl' -> f_multi fl = f_multi fl' -> f_single fl = f_single fl' ->
    f_literal fl = false -> f_literal fl' = false -> f_ws fl = false -> f_ws fl' = false ->
    (N.of_nat (length input) < umax)%N -> valid_in input ->
    exists prog prog', compile true fl (show_a a) = Ok prog /\ compile true fl' (show_a a) = Ok prog'
      /\ match matches prog input 0 st0, matches prog' input 0 st0 with
         | MTrue _, MTrue _ | MFalse _, MFalse _ => True
         | _, _ => False
         end.
Proof. exact grammar_same_in_both_dialects. Qed.

Print Assumptions C17_flags.
Print Assumptions C17_q_rejected.
Print Assumptions C17_caret_dollar_by_dialect_partial.
Print Assumptions C17_noncapturing_rejected_in_xsd_partial.
Print Assumptions C17_escaped_dollar_by_dialect_partial.
Print Assumptions C17_group_grammar_same_in_both_dialects_partial.
