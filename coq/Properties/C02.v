(* C02 - matches are leftmost, non-overlapping and chosen by ordered-choice priority.
   Proved (over the abstract match function of DESIGN.md §3.5): the spans that drive tokenize and
   replace_all are visited left to right and never overlap - each starts at or after the end of the
   previous one.  Offsets are indices into the list of code points by construction of the model
   (a supplementary-plane character is one list element).  Partial: leftmost-ness and the
   ordered-choice clause need E5 / E1. *)
From RX Require Import Base.Prelude Model.Engine Model.Matcher Model.Api Proofs.ScanFacts.

Fixpoint ordered (spans : list (nat * nat)) (from : nat) : Prop :=
  match spans with
  | [] => True
  | (a, b) :: t => from <= a /\ a < b /\ ordered t b
  end.

Lemma scan_ordered matchf input (G : good_step matchf input) :
  forall fuel pos s, pos <= length input -> ordered (scan matchf input fuel pos s) pos.
Proof.
  induction fuel as [|f IH]; intros pos s Hp; [exact I|].
  rewrite scan_S. destruct (Nat.ltb pos (length input)); [|exact I].
  pose proof (G pos s Hp) as Gp.
  destruct (matchf pos s) as [s'|s'| |e]; try exact I.
  destruct Gp as (a & b & Ha & Hb & H1 & H2 & H3). rewrite Ha, Hb. cbn [ordered].
  repeat split; auto.
Qed.

Theorem C02_spans_ordered_partial :
  forall matchf input, good_step matchf input ->
    forall fuel pos s, pos <= length input -> ordered (scan matchf input fuel pos s) pos.
Proof. exact scan_ordered. Qed.

Print Assumptions C02_spans_ordered_partial.
