(* C02 - matches are leftmost, non-overlapping and chosen by ordered-choice priority.
   Proved (over the abstract match function of DESIGN.md §3.5): the spans that drive tokenize and
   replace_all are visited left to right and never overlap - each starts at or after the end of the
   previous one.  Offsets are indices into the list of code points by construction of the model
   (a supplementary-plane character is one list element).  On the quantifier-free fragment the
   ordered-choice clause itself: the match ReMatcher::matches selects is the specification's
   selected match - leftmost start, and among the ends from there the first in the priority order
   of the ordered-choice semantics R (earlier alternative first, the preference of an earlier term
   dominating that of a later one), and with quantifiers over fixed-length bodies that match in at
   most one way: a greedy quantifier yields more repetitions before fewer, a reluctant one fewer
   before more, exactly as R prescribes (C02_fragment_quantified_selected_match_partial).  Partial:
   variable-length repeats, the optimised search paths, and the resume position of the scan loops outside the abstract
   good_step interface. *)
From RX Require Import Base.Prelude Model.Engine Model.Matcher Model.Api Proofs.ScanFacts Model.Op Proofs.EngineFacts Proofs.EngineCorollaries Spec.Syntax Spec.Sem Model.Compiler Proofs.LowerFacts Proofs.FragmentSpec Proofs.OrderFacts Proofs.QuantFacts Proofs.QuantLaws Proofs.FixedFacts Proofs.OrderFixed Spec.Parse Model.Compiler Proofs.GroupGrammar Proofs.GroupSpec Spec.Syntax Spec.Sem Spec.Parse Model.Compiler Proofs.ScanFacts Proofs.GroupGrammar Proofs.GroupSpec Proofs.GroupScan.

Fixpoint ordered (spans : list (nat * nat)) (from : nat) : Prop :=
  match spans with
  | [] => True
  | (a, b) :: t => from <= a /\ a < b /\ ordered t b
  end.

Lemma scan_ordered matchf input (G : good_step matchf input) :
  forall fuel pos s, pos <= length input -> ordered (scan matchf input fuel pos s) pos.
Proof.
  induction fuel as [|f IH]; intros pos s Hp; [exact I|].
  rewrite scan_S. destruct (Nat.ltb pos (length input)); [|exact I].
  pose proof (G pos s Hp) as Gp.
  destruct (matchf pos s) as [s'|s'| |e]; try exact I.
  destruct Gp as (a & b & Ha & Hb & H1 & H2 & H3). rewrite Ha, Hb. cbn [ordered].
  repeat split; auto.
Qed.

Theorem C02_spans_ordered_partial :
  forall matchf input, good_step matchf input ->
    forall fuel pos s, pos <= length input -> ordered (scan matchf input fuel pos s) pos.
Proof. exact scan_ordered. Qed.

(* E5 on the fragment (see C01_fragment_is_match_partial): the reported match starts at the
   leftmost position at or after the search position where the operation has any match, and ends
   at the first - highest-priority - end position of the list-of-successes function *)
Theorem C02_fragment_leftmost_first_partial :
  forall prog input i s s',
    simple input (p_case prog) (p_multi prog) (p_hasbackrefs prog) (p_maxparens prog) (p_op prog) ->
    (p_hasbol prog = false /\ p_minlen prog = 0%N /\ p_prefix prog = None /\ p_icc prog = None /\ p_pre prog = []) ->
    i <= length input -> length (sb s) = length (eb s) ->
    matches prog input i s = MTrue s' ->
    exists k q rest, i <= k <= length input
      /\ (forall m, i <= m < k -> Rop input (p_case prog) (p_multi prog) (p_op prog) m = [])
      /\ Rop input (p_case prog) (p_multi prog) (p_op prog) k = q :: rest
      /\ q <= length input /\ get_pend s' 0 = Some q.
Proof. intros prog input i s s' H1 H2. exact (fragment_leftmost_first prog input H1 H2 i s s'). Qed.

(* E4 (ordered) + E5 on the quantifier-free fragment: the selected match is the specification's *)
Theorem C02_fragment_selected_match_partial :
  forall prog input fl o r s,
    p_op prog = make_sequence o OEnd ->
    plain (p_hasbackrefs prog) (p_maxparens prog) o ->
    lowers input (p_case prog) fl o r -> s_i fl = p_case prog -> s_m fl = p_multi prog ->
    (p_hasbol prog = false /\ p_minlen prog = 0%N /\ p_prefix prog = None /\ p_icc prog = None /\ p_pre prog = []) ->
    length (sb s) = length (eb s) ->
    match matches prog input 0 s with
    | MTrue s' => exists k q e, first_match fl input r (length input + 2) 0 = Some (k, q, e) /\ get_pend s' 0 = Some q
    | MFalse _ => first_match fl input r (length input + 2) 0 = None
    | MOut | MPanic _ => False
    end.
Proof. exact fragment_selected_match. Qed.

(* the engine yields the end positions in the specification's priority order *)
Theorem C02_fragment_order_partial :
  forall input ci multi hb K fl, s_i fl = ci -> s_m fl = multi ->
    forall o, plain hb K o -> forall r, lowers input ci fl o r ->
      forall p e, p <= length input -> map fst (R fl input r p e) = Rop input ci multi o p.
Proof. exact lowers_order. Qed.

(* the same with greedy and reluctant repeats over fixed-length bodies: [lowerso] ties OGFixed to a
   greedy RQuant and ORFixed to a reluctant one; [plaino] asks of the body of each repeat that it
   matches a fixed number of characters in at most one way *)
Theorem C02_fragment_quantified_selected_match_partial :
  forall prog input fl o r s,
    p_op prog = make_sequence o OEnd ->
    plaino input (p_case prog) (p_multi prog) (p_hasbackrefs prog) (p_maxparens prog) o ->
    lowerso input (p_case prog) fl o r -> s_i fl = p_case prog -> s_m fl = p_multi prog ->
    (N.of_nat (length input) < umax)%N ->
    (p_hasbol prog = false /\ p_minlen prog = 0%N /\ p_prefix prog = None /\ p_icc prog = None /\ p_pre prog = []) ->
    length (sb s) = length (eb s) ->
    match matches prog input 0 s with
    | MTrue s' => exists k q e, first_match fl input r (length input + 2) 0 = Some (k, q, e) /\ get_pend s' 0 = Some q
    | MFalse _ => first_match fl input r (length input + 2) 0 = None
    | MOut | MPanic _ => False
    end.
Proof. exact fragmentq_selected_match. Qed.

(* the selected match from the strings, on the grammar of Proofs/GroupGrammar.v (runs, quantified
   characters greedy and reluctant, anchors, alternation, nested groups): what ReMatcher::matches
   reports from offset 0 is the specification's selected match - leftmost start, first result in
   priority order (earlier alternative first, greedy longest first, reluctant shortest first).  Both
   parsers' results are shown to enumerate, as lists, the ordered denotation DaO of the grammar tree. *)
Theorem C02_group_grammar_selected_match_partial :
  forall xpath a fls input,
    ok_a xpath a = true -> existsb (N.eqb 59) fls = false -> (N.of_nat (length input) < umax)%N -> valid_in input ->
    match spec_flags xpath fls with
    | Valid sf =>
        s_q sf = false -> s_x sf = false ->
        exists re r, regex_new true xpath (show_a a) fls = Ok re /\ spec_parse xpath (show_a a) = Valid r
          /\ match matches (r_prog re) input 0 st0 with
             | MTrue s' => exists k q e, first_match sf input r (length input + 2) 0 = Some (k, q, e)
                                         /\ get_pend s' 0 = Some q
             | MFalse _ => first_match sf input r (length input + 2) 0 = None
             | MOut | MPanic _ => False
             end
    | _ => True
    end.
Proof. exact grammar_selected_match. Qed.

(* every span of the scan, not only the first: the list of (start, end) pairs the loop of tokenize /
   replace_all / analyze goes through is, element by element, the list of the specification's spans
   (leftmost, non-overlapping, each the selected match from the end of the previous one) *)
Theorem C02_group_grammar_spans_partial :
  forall xpath a fls input,
    ok_a xpath a = true -> existsb (N.eqb 59) fls = false -> (N.of_nat (length input) < umax)%N -> valid_in input ->
    match spec_flags xpath fls with
    | Valid sf =>
        s_q sf = false -> s_x sf = false ->
        exists re r, regex_new true xpath (show_a a) fls = Ok re /\ spec_parse xpath (show_a a) = Valid r
          /\ (r_nullable re = false ->
              scan (matches (r_prog re) input) input (length input + 2) 0 st0 = map span_of (spec_spans sf input r)
              /\ tok_all (matches (r_prog re) input) input (S (S (S (length input)))) {| t_prev := Some 0; t_ms := st0 |}
                 = Ok (pieces input (map span_of (spec_spans sf input r)) 0)
              /\ (forall repl, Repl.plain repl = true ->
                    replace_all re input repl = Ok (join repl (pieces input (map span_of (spec_spans sf input r)) 0))))
    | _ => True
    end.
Proof. exact grammar_tokens_are_spec_pieces. Qed.

Print Assumptions C02_spans_ordered_partial.
Print Assumptions C02_fragment_leftmost_first_partial.
Print Assumptions C02_fragment_selected_match_partial.
Print Assumptions C02_fragment_order_partial.
Print Assumptions C02_fragment_quantified_selected_match_partial.
Print Assumptions C02_group_grammar_selected_match_partial.
Print Assumptions C02_group_grammar_spans_partial.
