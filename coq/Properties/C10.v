(* C10 - category, block and name-character escapes match the Unicode / XML data.
   Finite domain (the 1,114,112 code points / 1,112,064 scalar values): computed over range lists
   and lifted by the inversion-list algebra.  The sets named here are exactly the ones the model's
   escape() uses (Model/Compiler.v), regenerated from category.rs / block.rs / the linked ICU data. *)
From RX Require Import Base.Prelude Base.InvList Spec.Syntax Spec.Parse Spec.CharSet.
From RX Require Import Tables.IcuGc Tables.Category Tables.BlocksRs Tables.BlocksTxt.
From RX Require Import Model.Compiler Proofs.InvListFacts Proofs.TableFacts.
Local Open Scope N_scope.

(* the 29 two-letter categories and Cs cover every code point ... *)
Theorem C10_partition_cover :
  forall c, c <= max_cp -> existsb (fun s => mem s c) cats30 = true.
Proof. exact gc_cover. Qed.
(* ... and no code point is in two of them *)
Theorem C10_partition_disjoint :
  forall (i j : nat) a b c, (i < j)%nat -> nth_error cats30 i = Some a -> nth_error cats30 j = Some b ->
    c <= max_cp -> mem a c = true -> mem b c = true -> False.
Proof. exact gc_disjoint. Qed.

(* \p{X}: the match arm of get_category_group selects, on every scalar value, the union of the
   two-letter categories whose name starts with X (a two-letter name selects itself); the accepted
   names are exactly the XSD list (Cs is not among them) *)
Theorem C10_category_arms :
  forall name s c, is_scalar c = true -> category_group name = Some s -> mem s c = cat_mem name c.
Proof. exact category_group_spec. Qed.
Theorem C10_category_names :
  list_eqb name_eqb (map fst category_arms) spec_categories = true.
Proof. exact arm_names_computed. Qed.

(* \d = Nd ; \w = everything outside P, Z and C ; \s ; \i and \c = XML NameStartChar / NameChar *)
Theorem C10_d : decimal_number_set = gc_DecimalNumber.
Proof. exact (cset_eqb_eq _ _ decimal_is_Nd). Qed.
Theorem C10_w :
  forall c, c <= max_cp ->
    mem word_char_set c = negb (mem gc_Punctuation c || mem gc_Separator c || mem gc_Other c).
Proof. exact word_char_spec. Qed.
Theorem C10_s : forall c, mem s_set c = is_ws c.
Proof. exact s_set_spec. Qed.
Theorem C10_i : forall c, mem name_start_char_set c = is_name_start c.
Proof. exact name_start_spec. Qed.
Theorem C10_c : forall c, mem name_char_set c = is_name_char c.
Proof. exact name_char_spec. Qed.

(* block.rs is Blocks.txt + CompatBlocks.txt entry for entry, and \p{IsB} is the range of block B
   (name with spaces removed; PrivateUse special); unknown block names have no set *)
Theorem C10_blocks_table : blocks_rs = blocks_txt.
Proof. exact blocks_rs_eq_txt. Qed.
Theorem C10_blocks :
  forall name,
    match block_set name with
    | Some s => spec_block_known name = true /\ forall c, mem s c = block_mem name c
    | None => spec_block_known name = false
    end.
Proof. exact block_set_spec. Qed.

(* non-vacuity *)
Example C10_ex : category_group [76;117]%N <> None /\ category_group [67;115]%N = None
                 /\ block_set [71;114;101;101;107]%N <> None /\ mem decimal_number_set 1637 = true.
Proof. vm_compute. repeat split; discriminate. Qed.

Print Assumptions C10_partition_cover.
Print Assumptions C10_partition_disjoint.
Print Assumptions C10_category_arms.
Print Assumptions C10_category_names.
Print Assumptions C10_d.
Print Assumptions C10_w.
Print Assumptions C10_s.
Print Assumptions C10_i.
Print Assumptions C10_c.
Print Assumptions C10_blocks_table.
Print Assumptions C10_blocks.
