(* C01 - is_match decides membership of some substring in the regex's language.
   Full statement (DESIGN.md §5): compile d p f = Ok prog -> spec_parse d p = Valid a ->
   backref_free a -> (is_match prog s = true <-> spec_is_match f s a = true).  It is NOT proved yet
   (it needs E1 for all fourteen operations, and is false on the classes of the known findings
   KF-D7 / KF-D20); what is proved: the statement on the quantifier-free fragment, against the
   specification's set semantics, for unoptimised programs (C01_fragment_language_partial), E1/E5
   on the larger fragment with fixed-length and unambiguous repeats against the pure
   list-of-successes function, leaf instances of E1 and the order-freeness of the specification's
   language.  The property is otherwise carried by the correspondence check
   (exhaustive small ASTs x inputs, random stream) against the extracted spec_is_match. *)
From RX Require Import Base.Prelude Base.InvList Spec.Syntax Spec.Sem Model.Op Model.Engine Proofs.LeafFacts Model.Matcher Model.Api Proofs.EngineFacts Proofs.EngineCorollaries Proofs.LowerFacts Proofs.FragmentSpec Model.Compiler Proofs.QuantFacts Proofs.QuantLaws Proofs.FixedFacts Spec.Parse Proofs.PlainPattern Proofs.PlainSpec Proofs.GroupGrammar Proofs.GroupSpec.

(* a literal character is the specification's RChar, at every position, in every context *)
Theorem C01_literal_partial :
  forall input ci multi hb c path p s sf, s_i sf = ci ->
    mi input ci multi hb (OAtom [c]) path p s
    = match ends sf input (RChar c) p with [q] => once q s | _ => LNil s end.
Proof. exact atom1_spec. Qed.

(* a character class operation consumes exactly one character of its set *)
Theorem C01_class_partial :
  forall input ci multi hb cs path p s,
    mi input ci multi hb (OCls cs) path p s
    = match nth_error input p with
      | Some c => if mem cs c then once (S p) s else LNil s
      | None => LNil s
      end.
Proof. exact cls_spec. Qed.

(* the language is compositional: alternation is union, whatever the order of the branches *)
Theorem C01_alternation_is_union :
  forall fl s a b i j,
    existsb (Nat.eqb j) (ends fl s (RAlt [a; b]) i)
    = existsb (Nat.eqb j) (ends fl s a i) || existsb (Nat.eqb j) (ends fl s b i).
Proof. exact law_alt2. Qed.
Theorem C01_order_free_spec :
  forall fl s a b i, same_ends (ends fl s (RAlt [a; b]) i) (ends fl s (RAlt [b; a]) i).
Proof. exact law_alt_comm. Qed.

Example C01_ex :
  spec_is_match {| s_i := false; s_m := false; s_s := false; s_x := false; s_q := false |} [97;98;99]%N
                (RSeq [RChar 98; RQuant (RChar 99) 1 None true]) = true.
Proof. vm_compute. reflexivity. Qed.

(* E1 + E5 on the fragment: for an unoptimised program whose operation is built from anchors,
   literals, classes, captures, alternation, sequence, fixed-length greedy and reluctant repeats and unambiguous
   repeats (no back-reference, no variable-length repeat), ReMatcher::matches answers true exactly
   when the pure list-of-successes function has a match at some start position - for every input *)
Theorem C01_fragment_is_match_partial :
  forall prog input i s,
    simple input (p_case prog) (p_multi prog) (p_hasbackrefs prog) (p_maxparens prog) (p_op prog) ->
    (p_hasbol prog = false /\ p_minlen prog = 0%N /\ p_prefix prog = None /\ p_icc prog = None /\ p_pre prog = []) ->
    i <= length input -> length (sb s) = length (eb s) ->
    ((exists s', matches prog input i s = MTrue s')
     <-> (exists m, i <= m <= length input /\ Rop input (p_case prog) (p_multi prog) (p_op prog) m <> [])).
Proof. intros prog input i s H1 H2. exact (fragment_is_match_iff prog input H1 H2 i s). Qed.

Example C01_fragment_nonvacuous :
  (forall input, simple input false false false 1 (p_op ex_prog))
  /\ exists s', matches ex_prog [122; 98; 100; 100; 120]%N 0 st0 = MTrue s'.
Proof. split; [exact ex_simple | exact ex_runs]. Qed.

(* E1 + E4 + E5 on the quantifier-free fragment: [o] is any operation tree built from anchors,
   literals, classes, captures, sequence and alternation; [lowers] relates it to a regular expression
   member by member (leaves: equal character predicates; (?: ) transparent).  Then matching from
   offset 0 succeeds exactly when some substring of the input belongs to the language of r as the
   specification defines it (order-free set semantics) - for every input. *)
Theorem C01_fragment_language_partial :
  forall prog input fl o r s,
    p_op prog = make_sequence o OEnd ->
    plain (p_hasbackrefs prog) (p_maxparens prog) o ->
    lowers input (p_case prog) fl o r -> s_i fl = p_case prog -> s_m fl = p_multi prog ->
    (p_hasbol prog = false /\ p_minlen prog = 0%N /\ p_prefix prog = None /\ p_icc prog = None /\ p_pre prog = []) ->
    length (sb s) = length (eb s) ->
    ((exists s', matches prog input 0 s = MTrue s') <-> spec_is_match fl input r = true).
Proof. exact fragment_is_match_spec. Qed.

(* the engine's end positions are the specification's, operation by operation *)
Theorem C01_fragment_ends_partial :
  forall input ci multi hb K fl, s_i fl = ci -> s_m fl = multi ->
    forall o, plain hb K o -> forall r, lowers input ci fl o r ->
      forall p q, p <= length input -> (In q (Rop input ci multi o p) <-> In q (ends fl input r p)).
Proof. exact lowers_ends. Qed.

Example C01_language_nonvacuous :
  p_op ex_prog = make_sequence ex_op OEnd /\ plain false 1 ex_op /\ (forall input, lowers input false ex_fl ex_op ex_re)
  /\ spec_is_match ex_fl [122; 98; 100; 100; 120]%N ex_re = true.
Proof. split; [reflexivity|]. split; [exact ex_plain|]. split; [exact ex_lowers | exact ex_agree]. Qed.

(* The same with quantifiers: the fragment plus greedy and reluctant repeats {n,m}, {n,}, *, +, ? over
   bodies that match a fixed number of characters (the operations GreedyFixed / ReluctantFixed).
   [lowersq] relates such a repeat to RQuant with the same bounds; quant_wf says that the bounds of
   every quantifier of r are ordered (the grammar rejects the others); the input is shorter than
   usize::MAX.  The specification side rests on QuantFacts.quant_ends_spec: r{n,m} ends exactly at
   the positions reachable by k rounds of r for some n <= k <= m. *)
Theorem C01_fragment_quantified_language_partial :
  forall prog input fl o r s,
    p_op prog = make_sequence o OEnd ->
    plainq input (p_case prog) (p_multi prog) (p_hasbackrefs prog) (p_maxparens prog) o ->
    quant_wf r ->
    lowersq input (p_case prog) fl o r -> s_i fl = p_case prog -> s_m fl = p_multi prog ->
    (N.of_nat (length input) < umax)%N ->
    (p_hasbol prog = false /\ p_minlen prog = 0%N /\ p_prefix prog = None /\ p_icc prog = None /\ p_pre prog = []) ->
    length (sb s) = length (eb s) ->
    ((exists s', matches prog input 0 s = MTrue s') <-> spec_is_match fl input r = true).
Proof. exact fragmentq_is_match_spec. Qed.

Example C01_quantified_nonvacuous :
  (forall input, plainq input false false false 1 exq_op) /\ (forall input, lowersq input false ex_fl exq_op exq_re) /\ quant_wf exq_re
  /\ (exists s', matches exq_prog [122; 98; 120; 120; 120; 100; 100]%N 0 st0 = MTrue s')
  /\ spec_is_match ex_fl [122; 98; 120; 120; 120; 100; 100]%N exq_re = true.
Proof.
  split; [exact exq_plain|]. split; [exact exq_lowers|]. split; [exact exq_wf|]. exact exq_runs.
Qed.

(* end to end from the pattern and flag strings, every stage a theorem (flag parser, pattern
   parser, optimiser, program construction with the search shortcuts, matcher | specification
   parser, flag reader, set semantics): on the smallest sub-grammar - non-empty patterns of
   ordinary characters - in both dialects and under every flag string without q and x *)
Theorem C01_ordinary_pattern_end_to_end_partial :
  forall xpath pat fls input,
    forallb ordinary pat = true -> pat <> [] -> (N.of_nat (length pat) <= umax)%N ->
    existsb (N.eqb 59) fls = false ->
    match spec_flags xpath fls with
    | Valid sf =>
        s_q sf = false -> s_x sf = false ->
        exists re r, regex_new false xpath pat fls = Ok re /\ spec_parse xpath pat = Valid r
                     /\ is_match re input = Ok (spec_is_match sf input r)
    | Invalid => regex_new false xpath pat fls = Err EInvalidFlags
    | Unspecified => True
    end.
Proof. exact ordinary_pattern_end_to_end. Qed.

(* end to end from the pattern and flag strings on the grammar of literals, quantified characters
   (c? c* c+ and, under XPath, c?? c*? c+?), alternation and capturing / non-capturing groups nested
   to any depth (grammar trees of Proofs/GroupGrammar.v, printed by show_a); inputs shorter than
   usize::MAX: the model's Regex::new (hook constructor: no search shortcuts) + is_match
   = the specification's parser, flag reader and set semantics; every stage a theorem *)
Theorem C01_group_grammar_end_to_end_partial :
  forall xpath a fls input,
    ok_a xpath a = true -> existsb (N.eqb 59) fls = false -> (N.of_nat (length input) < umax)%N -> valid_in input ->
    match spec_flags xpath fls with
    | Valid sf =>
        s_q sf = false -> s_x sf = false ->
        exists re r, regex_new true xpath (show_a a) fls = Ok re /\ spec_parse xpath (show_a a) = Valid r
                     /\ is_match re input = Ok (spec_is_match sf input r)
    | Invalid => regex_new true xpath (show_a a) fls = Err EInvalidFlags
    | Unspecified => True
    end.
Proof. exact grammar_end_to_end. Qed.

Print Assumptions C01_literal_partial.
Print Assumptions C01_class_partial.
Print Assumptions C01_alternation_is_union.
Print Assumptions C01_order_free_spec.
Print Assumptions C01_fragment_is_match_partial.
Print Assumptions C01_fragment_language_partial.
Print Assumptions C01_fragment_ends_partial.
Print Assumptions C01_fragment_quantified_language_partial.
Print Assumptions C01_ordinary_pattern_end_to_end_partial.
Print Assumptions C01_group_grammar_end_to_end_partial.
