(* C18 - a compiled Regex is a pure, reusable, thread-safe value.
   The world model (Model/World.v): objects behind handles, histories of operations with
   interleaved, partially consumed and dropped iterators.  Proved for every history: a Regex object
   is never changed by any operation; hence every call's result is the pure function of the regex
   value and the call's arguments; compiling the same (dialect, pattern, flags) anywhere yields the
   same value; an iterator is changed only by its own next / drop, and its next item is computed
   from its own stored state.  Partial: thread schedules and data races are runtime behaviour; the
   theorem covers sequential histories over the modelled shared-state inventory (the harness runs
   the same history from 8 threads and asserts Send + Sync at compile time). *)
From RX Require Import Base.Prelude Model.Engine Model.Matcher Model.Compiler Model.Api Model.World Proofs.WorldFacts.

Theorem C18_regex_immutable :
  forall w o h re, get_regex w h = Some re -> get_regex (fst (step w o)) h = Some re.
Proof. exact regex_immutable. Qed.

Theorem C18_call_is_pure :
  forall w h re s r, get_regex w h = Some re ->
    snd (step w (WIsMatch h s)) = of_res RBool (is_match re s)
    /\ snd (step w (WReplace h s r)) = of_res RText (replace_all re s r).
Proof. exact call_is_pure. Qed.

Theorem C18_compile_deterministic :
  forall w1 w2 xpath p f, snd (step w1 (WCompile xpath p f)) = RNew (length w1) ->
    exists re, regex_new false xpath p f = Ok re
               /\ get_regex (fst (step w1 (WCompile xpath p f))) (length w1) = Some re
               /\ get_regex (fst (step w2 (WCompile xpath p f))) (length w2) = Some re.
Proof. exact compile_is_deterministic. Qed.

Theorem C18_iterator_isolated :
  forall w o h x, nth_error w h = Some x ->
    (match o with WNext h' | WDrop h' => h' <> h | _ => True end) ->
    nth_error (fst (step w o)) h = Some x.
Proof. exact iterator_isolated. Qed.

Theorem C18_next_uses_own_state :
  forall w h re s st, nth_error w h = Some (OTok re s st) ->
    snd (step w (WNext h)) = match tok_next (r_prog re) s st with
                             | Ok (t, _) => RTok t | Err e => RErr e | Panic _ => RPanic | Out => ROut end.
Proof. exact next_is_own_state. Qed.

Example C18_ex :
  snd (run [WCompile true [97;43]%N []; WTokenize 0 [98;97;98]%N; WIsMatch 0 [97]%N; WNext 1; WNext 1; WNext 1])
  = [RNew 0; RNew 1; RBool true; RTok (Some [98]%N); RTok (Some [98]%N); RTok None].
Proof. vm_compute. reflexivity. Qed.

Print Assumptions C18_regex_immutable.
Print Assumptions C18_call_is_pure.
Print Assumptions C18_compile_deterministic.
Print Assumptions C18_iterator_isolated.
Print Assumptions C18_next_uses_own_state.
