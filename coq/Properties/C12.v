(* C12 - anchors and dot follow the m and s flags exactly.
   The model's Bol / Eol operations are, at every position of every input and in every context
   (the statement is about the operation wherever it stands: any node path, any matcher state),
   exactly the position predicates of the specification; the dot class is the specification's.
   Partial: that the search shortcuts around a leading ^ agree with the plain loop is part of C08. *)
From RX Require Import Base.Prelude Base.InvList Spec.Syntax Spec.Sem Model.Op Model.Engine Model.Compiler Proofs.SmallFacts Spec.Parse Model.Matcher Model.Api Proofs.GroupGrammar Proofs.GroupSpec.
Local Open Scope N_scope.

Theorem C12_bol :
  forall input ci multi hb path p s, (p <= length input)%nat ->
    mi input ci multi hb OBol path p s
    = if bol_at {| s_i := ci; s_m := multi; s_s := false; s_x := false; s_q := false |} input p
      then once p s else LNil s.
Proof. exact bol_spec. Qed.

Theorem C12_eol :
  forall input ci multi hb path p s, (p <= length input)%nat ->
    mi input ci multi hb OEol path p s
    = if eol_at {| s_i := ci; s_m := multi; s_s := false; s_x := false; s_q := false |} input p
      then once p s else LNil s.
Proof. exact eol_spec. Qed.

Theorem C12_dot :
  forall c, c <= max_cp -> mem dot_set c = negb ((c =? 10) || (c =? 13)).
Proof. exact dot_spec. Qed.

Example C12_ex :
  bol_at {| s_i := false; s_m := true; s_s := false; s_x := false; s_q := false |} [97;10;98] 2 = true
  /\ bol_at {| s_i := false; s_m := true; s_s := false; s_x := false; s_q := false |} [97;10] 2 = false
  /\ eol_at {| s_i := false; s_m := false; s_s := false; s_x := false; s_q := false |} [97;10] 1 = false.
Proof. vm_compute. repeat split. Qed.

(* the anchors inside whole patterns, from the strings: on the grammar of Proofs/GroupGrammar.v - which
   under XPath has '^' and '$' as pieces of a branch, anywhere, also inside groups and alternatives -
   the model's Regex::new (hook constructor) + is_match gives the specification's verdict, whose
   anchors are exactly bol_at / eol_at with their dependence on flag m *)
Theorem C12_anchors_end_to_end_partial :
  forall xpath a fls input,
    ok_a xpath a = true -> existsb (N.eqb 59) fls = false -> (N.of_nat (length input) < umax)%N -> valid_in input ->
    match spec_flags xpath fls with
    | Valid sf =>
        s_q sf = false -> s_x sf = false ->
        exists re r, regex_new true xpath (show_a a) fls = Ok re /\ spec_parse xpath (show_a a) = Valid r
                     /\ is_match re input = Ok (spec_is_match sf input r)
    | Invalid => regex_new true xpath (show_a a) fls = Err EInvalidFlags
    | Unspecified => True
    end.
Proof. exact grammar_end_to_end. Qed.

Example C12_anchor_pattern :
  show_a ex_tree_an = [94; 97; 98; 36; 124; 99]%N /\ ok_a true ex_tree_an = true.
Proof. exact ex_tree_an_text. Qed.

Print Assumptions C12_bol.
Print Assumptions C12_eol.
Print Assumptions C12_dot.
Print Assumptions C12_anchors_end_to_end_partial.
