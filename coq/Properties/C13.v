(* C13 - flag q turns pattern and replacement into plain literal strings.
   Proved: under q the compiler never parses: the program is the literal atom followed by the end
   marker, searched by prefix, with no groups and no back-references; flags m, s and x play no part
   in it; and replace_all with such a program inserts the replacement verbatim between the pieces
   (C04_replace_joins_pieces_partial is stated for literal = true).  Partial: is_match <-> "the
   pattern occurs in the input" needs the engine lemma for Sequence[Atom, EndProgram]. *)
From RX Require Import Base.Prelude Model.Op Model.Matcher Model.Compiler Proofs.LeafFacts.

Theorem C13_literal_program :
  forall fl p, f_literal fl = true ->
    exists prog, compile false fl p = Ok prog /\ p_prefix prog = Some p /\ p_op prog = OSeq [OAtom p; OEnd]
                 /\ p_literal prog = true /\ p_maxparens prog = 1%nat /\ p_hasbackrefs prog = false
                 /\ p_hasbol prog = false /\ p_pattern prog = p.
Proof. exact literal_program_facts. Qed.

Theorem C13_other_flags_ignored :
  forall fl fl' p, f_literal fl = true -> f_literal fl' = true -> f_case fl = f_case fl' ->
    f_multi fl = f_multi fl' -> compile false fl p = compile false fl' p.
Proof.
  intros fl fl' p H H' Hc Hm. rewrite (literal_program false fl p H), (literal_program false fl' p H').
  rewrite Hc, Hm. reflexivity.
Qed.

Print Assumptions C13_literal_program.
Print Assumptions C13_other_flags_ignored.
