(* C13 - flag q turns pattern and replacement into plain literal strings.
   Proved: under q the compiler never parses: the program is the literal atom followed by the end
   marker, searched by prefix, with no groups and no back-references; flags m, s and x play no part
   in it; and replace_all with such a program inserts the replacement verbatim between the pieces
   (C04_replace_joins_pieces_partial is stated for literal = true); and ReMatcher::matches on that
   program - through the minimum-length cut-off and the prefix scan - is substring search: it
   reports the leftmost occurrence of the literal (compared case-blind under i) or, when there is
   none, false; it never panics or runs out of fuel.  And the three scanning APIs on a non-empty
   literal, with no hypothesis left (Proofs/LiteralApi.v): from any matcher state whose back-reference
   arrays have matching lengths - st0 is one, and the matcher keeps it - the matcher reports the
   leftmost occurrence as group 0 and no other group, so tokenize yields exactly the pieces between
   the occurrences the scan visits (at most len+1), replace_all inserts the replacement verbatim
   between them, and the texts of a finished analyze iteration concatenate to the input (at most
   2*len+1 entries, each Match one String leaf). *)
From RX Require Import Base.Prelude Model.Op Model.Engine Model.Matcher Model.Compiler Model.Api Proofs.LeafFacts Proofs.LiteralFacts Proofs.ScanFacts Proofs.AnalyzeFacts Proofs.AnalyzeIterFacts Proofs.LiteralApi Proofs.PlainPattern.

Theorem C13_literal_program :
  forall fl p, f_literal fl = true ->
    exists prog, compile false fl p = Ok prog /\ p_prefix prog = Some p /\ p_op prog = OSeq [OAtom p; OEnd]
                 /\ p_literal prog = true /\ p_maxparens prog = 1%nat /\ p_hasbackrefs prog = false
                 /\ p_hasbol prog = false /\ p_pattern prog = p.
Proof. exact literal_program_facts. Qed.

Theorem C13_other_flags_ignored :
  forall fl fl' p, f_literal fl = true -> f_literal fl' = true -> f_case fl = f_case fl' ->
    f_multi fl = f_multi fl' -> compile false fl p = compile false fl' p.
Proof.
  intros fl fl' p H H' Hc Hm. rewrite (literal_program false fl p H), (literal_program false fl' p H').
  rewrite Hc, Hm. reflexivity.
Qed.

Theorem C13_literal_is_match :
  forall p ci multi input i s_in, (N.of_nat (length p) <= umax)%N ->
    i <= length input -> length (sb s_in) = length (eb s_in) ->
    match matches (mk_program p (OSeq [OAtom p; OEnd]) 1 ci multi true false) input i s_in with
    | MTrue s' => exists k, i <= k /\ (forall m, i <= m < k -> occurs_at p ci input m = false)
                            /\ occurs_at p ci input k = true /\ get_pend s' 0 = Some (k + length p)
    | MFalse _ => forall m, i <= m -> occurs_at p ci input m = false
    | MOut | MPanic _ => False
    end.
Proof. intros p ci multi input i s_in H. exact (literal_matches_spec p ci multi true input H i s_in). Qed.

(* the matcher of a non-empty literal meets the interface the scan-loop theorems ask for *)
Theorem C13_literal_matcher_interface :
  forall p ci multi input, (N.of_nat (length p) <= umax)%N -> p <> [] ->
    good_step_on (matches (mk_program p (OSeq [OAtom p; OEnd]) 1 ci multi true false) input) input lit_inv.
Proof. intros p ci multi input. exact (literal_good_step p ci multi true input). Qed.

Theorem C13_literal_tokenize :
  forall p ci multi input, (N.of_nat (length p) <= umax)%N -> p <> [] ->
    let prog := mk_program p (OSeq [OAtom p; OEnd]) 1 ci multi true false in
    forall k pe s, lit_inv s -> length input - pe < k -> pe <= length input ->
      tok_all (matches prog input) input (S (S k)) {| t_prev := Some pe; t_ms := s |}
      = Ok (pieces input (scan (matches prog input) input (S k) pe s) pe).
Proof. intros p ci multi input H1 H2. exact (literal_tokenize p ci multi true input H1 H2). Qed.

Theorem C13_literal_replace_verbatim :
  forall p ci multi input, (N.of_nat (length p) <= umax)%N -> p <> [] ->
    let prog := mk_program p (OSeq [OAtom p; OEnd]) 1 ci multi true false in
    forall repl k pos s result, lit_inv s -> length input - pos < k -> pos <= length input ->
      replace_loop (matches prog input) true 1 input repl (S k) pos s result false true
      = Ok (result ++ join repl (pieces input (scan (matches prog input) input (S k) pos s) pos)).
Proof. intros p ci multi input H1 H2. exact (literal_replace p ci multi true input H1 H2). Qed.

Theorem C13_literal_analyze :
  forall p ci multi input, (N.of_nat (length p) <= umax)%N -> p <> [] ->
    let prog := mk_program p (OSeq [OAtom p; OEnd]) 1 ci multi true false in
    forall table fuel s l, lit_inv s ->
      an_all (matches prog input) (process_matching_substring table) input fuel
             {| a_next := None; a_prev := Some 0; a_skip := false; a_ms := s |} = Ok l ->
      flat_map atext l = input /\ length l <= 2 * length input + 1.
Proof. intros p ci multi input H1 H2. exact (literal_analyze p ci multi true input H1 H2). Qed.

Example C13_initial_state_ok : lit_inv st0.
Proof. reflexivity. Qed.

(* what flag q changes for a pattern that has no metacharacter anyway: only the field that tells
   replace_all / analyze "literal" - the operation tree, prefix, flags and group count of the
   compiled program are those of the same pattern without q *)
Theorem C13_q_on_ordinary_pattern :
  forall fl fl' pat,
    f_literal fl = true -> f_literal fl' = false -> f_ws fl' = false ->
    f_case fl = f_case fl' -> f_multi fl = f_multi fl' ->
    forallb ordinary pat = true -> pat <> [] ->
    compile false fl pat = Ok (mk_program pat (OSeq [OAtom pat; OEnd]) 1 (f_case fl) (f_multi fl) true false)
    /\ compile false fl' pat = Ok (mk_program pat (OSeq [OAtom pat; OEnd]) 1 (f_case fl) (f_multi fl) false false).
Proof.
  intros fl fl' pat H1 H2 H3 Hc Hm Ho Hne. split; [exact (literal_program false fl pat H1)|].
  rewrite Hc, Hm. exact (compile_ordinary false fl' pat H2 H3 Ho Hne).
Qed.

Print Assumptions C13_literal_program.
Print Assumptions C13_other_flags_ignored.
Print Assumptions C13_literal_is_match.
Print Assumptions C13_literal_matcher_interface.
Print Assumptions C13_literal_tokenize.
Print Assumptions C13_literal_replace_verbatim.
Print Assumptions C13_literal_analyze.
Print Assumptions C13_q_on_ordinary_pattern.
