(* C13 - flag q turns pattern and replacement into plain literal strings.
   Proved: under q the compiler never parses: the program is the literal atom followed by the end
   marker, searched by prefix, with no groups and no back-references; flags m, s and x play no part
   in it; and replace_all with such a program inserts the replacement verbatim between the pieces
   (C04_replace_joins_pieces_partial is stated for literal = true); and ReMatcher::matches on that
   program - through the minimum-length cut-off and the prefix scan - is substring search: it
   reports the leftmost occurrence of the literal (compared case-blind under i) or, when there is
   none, false; it never panics or runs out of fuel.  Partial: tokenize / analyze totality for
   literals rests on C04/C06's scan theorems plus the correspondence check. *)
From RX Require Import Base.Prelude Model.Op Model.Engine Model.Matcher Model.Compiler Model.Api Proofs.LeafFacts Proofs.LiteralFacts.

Theorem C13_literal_program :
  forall fl p, f_literal fl = true ->
    exists prog, compile false fl p = Ok prog /\ p_prefix prog = Some p /\ p_op prog = OSeq [OAtom p; OEnd]
                 /\ p_literal prog = true /\ p_maxparens prog = 1%nat /\ p_hasbackrefs prog = false
                 /\ p_hasbol prog = false /\ p_pattern prog = p.
Proof. exact literal_program_facts. Qed.

Theorem C13_other_flags_ignored :
  forall fl fl' p, f_literal fl = true -> f_literal fl' = true -> f_case fl = f_case fl' ->
    f_multi fl = f_multi fl' -> compile false fl p = compile false fl' p.
Proof.
  intros fl fl' p H H' Hc Hm. rewrite (literal_program false fl p H), (literal_program false fl' p H').
  rewrite Hc, Hm. reflexivity.
Qed.

Theorem C13_literal_is_match :
  forall p ci multi input i s_in, (N.of_nat (length p) <= umax)%N ->
    i <= length input -> length (sb s_in) = length (eb s_in) ->
    match matches (mk_program p (OSeq [OAtom p; OEnd]) 1 ci multi true false) input i s_in with
    | MTrue s' => exists k, i <= k /\ (forall m, i <= m < k -> occurs_at p ci input m = false)
                            /\ occurs_at p ci input k = true /\ get_pend s' 0 = Some (k + length p)
    | MFalse _ => forall m, i <= m -> occurs_at p ci input m = false
    | MOut | MPanic _ => False
    end.
Proof. intros p ci multi input i s_in H. exact (literal_matches_spec p ci multi input H i s_in). Qed.

Print Assumptions C13_literal_program.
Print Assumptions C13_other_flags_ignored.
Print Assumptions C13_literal_is_match.
