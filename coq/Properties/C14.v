(* C14 - flag x ignores pattern whitespace outside character classes. *)
From RX Require Import Base.Prelude Spec.Parse Model.Compiler Proofs.SmallFacts.
Local Open Scope N_scope.

(* compile with flag x is compile without it on the stripped pattern: the program (operation tree,
   search facts, stored pattern text) is identical, hence every API result is, and the pattern is
   rejected iff the stripped one is *)
Theorem C14_same :
  forall unopt fl p, f_literal fl = false -> f_ws fl = true ->
    compile unopt fl p
    = compile unopt {| f_case := f_case fl; f_multi := f_multi fl; f_single := f_single fl; f_ws := false;
                       f_literal := false; f_xpath := f_xpath fl |} (strip_ws p 0%Z false).
Proof. exact compile_x_same. Qed.

(* the model's stripper equals the specification's (remove U+9, U+A, U+D, U+20 outside class
   expressions, tracking escapes) on every pattern whose unescaped ']' never outnumber the '[' *)
Theorem C14_strip :
  forall s depth esc, never_negative s depth esc = true ->
    strip_ws s (Z.of_nat depth) esc = spec_strip s depth esc.
Proof. exact strip_ws_spec. Qed.

(* characters other than those four are never removed *)
Theorem C14_keeps :
  forall c s, is_ws c = false -> forall depth esc,
    count_occ N.eq_dec (spec_strip s depth esc) c = count_occ N.eq_dec s c.
Proof. exact spec_strip_keeps. Qed.

Example C14_ex : spec_strip [32;97;32;91;32;93;92;32;110;12] 0 false = [97;91;32;93;92;110;12]
                 /\ never_negative [32;97;32;91;32;93;92;32;110;12] 0 false = true.
Proof. vm_compute. split; reflexivity. Qed.

Print Assumptions C14_same.
Print Assumptions C14_strip.
Print Assumptions C14_keeps.
