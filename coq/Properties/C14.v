(* C14 - flag x ignores pattern whitespace outside character classes. *)
From RX Require Import Base.Prelude Spec.Parse Model.Compiler Proofs.SmallFacts Base.Prelude Spec.Syntax Spec.Sem Model.Api Proofs.GroupGrammar Proofs.GroupSpec.
Local Open Scope N_scope.

(* compile with flag x is compile without it on the stripped pattern: the program (operation tree,
   search facts, stored pattern text) is identical, hence every API result is, and the pattern is
   rejected iff the stripped one is *)
Theorem C14_same :
  forall unopt fl p, f_literal fl = false -> f_ws fl = true ->
    compile unopt fl p
    = compile unopt {| f_case := f_case fl; f_multi := f_multi fl; f_single := f_single fl; f_ws := false;
                       f_literal := false; f_xpath := f_xpath fl |} (strip_ws p 0%Z false).
Proof. exact compile_x_same. Qed.

(* the model's stripper equals the specification's (remove U+9, U+A, U+D, U+20 outside class
   expressions, tracking escapes) on every pattern whose unescaped ']' never outnumber the '[' *)
Theorem C14_strip :
  forall s depth esc, never_negative s depth esc = true ->
    strip_ws s (Z.of_nat depth) esc = spec_strip s depth esc.
Proof. exact strip_ws_spec. Qed.

(* characters other than those four are never removed *)
Theorem C14_keeps :
  forall c s, is_ws c = false -> forall depth esc,
    count_occ N.eq_dec (spec_strip s depth esc) c = count_occ N.eq_dec s c.
Proof. exact spec_strip_keeps. Qed.

Example C14_ex : spec_strip [32;97;32;91;32;93;92;32;110;12] 0 false = [97;91;32;93;92;110;12]
                 /\ never_negative [32;97;32;91;32;93;92;32;110;12] 0 false = true.
Proof. vm_compute. split; reflexivity. Qed.

(* the property from the strings: with flag x the pattern text w - white space anywhere - is compiled,
   and parsed by the specification, as the text with the white space outside classes removed; if that
   text is a pattern of the grammar of Proofs/GroupGrammar.v, the model's verdict on every input is the
   specification's for the stripped pattern *)
Theorem C14_group_grammar_x_end_to_end_partial :
  forall xpath a w fls input,
    ok_a xpath a = true -> existsb (N.eqb 59) fls = false -> (N.of_nat (length input) < umax)%N -> valid_in input ->
    strip_ws w 0%Z false = show_a a ->
    match spec_flags xpath fls with
    | Valid sf =>
        s_q sf = false -> s_x sf = true ->
        exists re r, regex_new true xpath w fls = Ok re /\ spec_parse xpath (strip_ws w 0%Z false) = Valid r
                     /\ is_match re input = Ok (spec_is_match sf input r)
    | _ => True
    end.
Proof. exact grammar_x_end_to_end. Qed.

Example C14_x_text : strip_ws [97; 32; 98; 9; 124; 10; 99]%N 0%Z false = show_a (ACons (BEnd [97; 98]%N) (AOne (BEnd [99%N]))).
Proof. reflexivity. Qed.

Print Assumptions C14_same.
Print Assumptions C14_strip.
Print Assumptions C14_keeps.
Print Assumptions C14_group_grammar_x_end_to_end_partial.
