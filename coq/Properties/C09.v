(* C09 - character class expressions denote exactly their set algebra.
   Proved here: the algebra the model's class builder is made of (the modelled image of
   icu_collections' CodePointInversionListBuilder) is a set algebra on well-formed sets, for every
   code point.  The full statement "for every class expression, the compiled class denotes
   class_mem" (C09_denote) needs the invariant of parse_character_class and is not yet proved:
   these are the partial results (see DESIGN.md). *)
From RX Require Import Base.Prelude Base.InvList Proofs.InvListFacts.
Local Open Scope N_scope.

Theorem C09_union_partial :
  forall a b c, wf a = true -> wf b = true -> mem (union a b) c = mem a c || mem b c.
Proof. intros a b c Ha Hb. apply mem_union; apply wf_ok; assumption. Qed.

Theorem C09_range_partial :
  forall s lo hi c, wf s = true -> lo <= hi ->
    mem (add_range lo hi s) c = ((lo <=? c) && (c <=? hi)) || mem s c.
Proof. intros s lo hi c H Hl. rewrite mem_add_range by (auto using wf_ok). reflexivity. Qed.

Theorem C09_complement_partial :
  forall s c, wf s = true -> c <= max_cp -> mem (compl s) c = negb (mem s c).
Proof. exact mem_compl. Qed.

Theorem C09_difference_partial :
  forall a b c, wf a = true -> wf b = true -> c <= max_cp -> mem (diff a b) c = mem a c && negb (mem b c).
Proof. exact mem_diff. Qed.

Theorem C09_wf_preserved_partial :
  forall a b, wf a = true -> wf b = true ->
    wf (union a b) = true /\ wf (compl a) = true /\ wf (diff a b) = true.
Proof. intros a b Ha Hb. repeat split; auto using wf_union, wf_compl, wf_diff. Qed.

Example C09_ex : wf [(97, 122)] = true /\ mem (diff [(97, 122)] [(101, 101)]) 101 = false
                 /\ mem (compl [(97, 122)]) 65 = true.
Proof. vm_compute. repeat split. Qed.

Print Assumptions C09_union_partial.
Print Assumptions C09_range_partial.
Print Assumptions C09_complement_partial.
Print Assumptions C09_difference_partial.
Print Assumptions C09_wf_preserved_partial.
