(* C11 - flag i makes matching case-insensitive, and only flag i does.
   Finite-domain theorems over the clean alphabets the property quantifies over (ASCII, Latin-1,
   Greek, Cyrillic, Deseret letters; 304 letters, plus 18 case-less characters), computed on the
   case tables of the linked ICU data (regenerated on every run): the three implementations of case
   equivalence agree, every letter has exactly one counterpart, case-less characters have none.
   Partial: the transport to is_match / spans ("swapping case preserves the result") needs E1. *)
From RX Require Import Base.Prelude Base.InvList Model.Case Proofs.SmallFacts.
Local Open Scope N_scope.

Theorem C11_agree_clean :
  forallb (fun a => forallb (fun b =>
     Bool.eqb (equal_case_blind a b) (mem (add_case_closure a (add_char a empty)) b))
     (clean_letters ++ caseless_sample)) (clean_letters ++ caseless_sample) = true.
Proof. exact clean_agree_computed. Qed.

Theorem C11_one_counterpart :
  forallb (fun a => Nat.eqb (length (filter (fun b => negb (b =? a) && mem (closure_of a) b) clean_letters)) 1)
          clean_letters = true.
Proof. exact clean_one_counterpart_computed. Qed.

Theorem C11_caseless :
  forallb (fun a => match closure_of a with [] => simple_lower a =? a | _ => false end) caseless_sample = true.
Proof. exact caseless_computed. Qed.

Theorem C11_case_blind_equivalence :
  (forall a, equal_case_blind a a = true) /\ (forall a b, equal_case_blind a b = equal_case_blind b a).
Proof. split; [exact equal_case_blind_refl | exact equal_case_blind_sym]. Qed.

Example C11_ex : length clean_letters = 304%nat /\ equal_case_blind 228 196 = true /\ equal_case_blind 97 98 = false.
Proof. vm_compute. repeat split. Qed.

Print Assumptions C11_agree_clean.
Print Assumptions C11_one_counterpart.
Print Assumptions C11_caseless.
Print Assumptions C11_case_blind_equivalence.
