(* C19 - back-references match a copy of what their group captured.
   Proved: the digit rule (\N followed by further digits denotes the longest number that does not
   exceed the number of groups opened so far; the model's index loop equals the specification's
   list function).  Partial: the matching clause (copy of the captured text on the selected path)
   depends on the capture discipline, see the known finding KF-D9-backref. *)
From RX Require Import Base.Prelude Spec.Parse Model.Compiler Proofs.SmallFacts.

Theorem C19_digits_partial :
  forall pat limit fuel i br,
    (length pat - i < fuel)%nat -> (br <= limit)%nat ->
    let '(i', br') := backref_digits pat fuel i (N.of_nat br) (N.of_nat limit) in
    let '(g, rest) := backref_num (skipn i pat) br limit in
    br' = N.of_nat g /\ rest = skipn i' pat.
Proof. exact backref_digits_spec. Qed.

Example C19_ex : backref_num [49;50;51]%N 1 12 = (11%nat, [50;51]%N) /\ backref_num [48]%N 1 9 = (1%nat, [48]%N).
Proof. vm_compute. split; reflexivity. Qed.

Print Assumptions C19_digits_partial.
