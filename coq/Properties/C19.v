(* C19 - back-references match a copy of what their group captured.
   Proved: the digit rule (\N followed by further digits denotes the longest number that does not
   exceed the number of groups opened so far; the model's index loop equals the specification's
   list function); and the matching clause at the level of the operation: given what the
   back-reference arrays hold for group N, the BackReference operation yields exactly what the
   specification's copy_at prescribes - a copy of the recorded text must follow (compared like
   literals, case-blind under flag i) and the match ends after it - and a group that has not
   participated matches the empty string.  Partial: which text the arrays hold on the selected path
   is the capture discipline, see the known finding KF-D9-backref. *)
From RX Require Import Base.Prelude Spec.Syntax Spec.Parse Spec.Sem Model.Op Model.Engine Model.Compiler Proofs.SmallFacts Proofs.BackrefFacts.

Theorem C19_digits_partial :
  forall pat limit fuel i br,
    (length pat - i < fuel)%nat -> (br <= limit)%nat ->
    let '(i', br') := backref_digits pat fuel i (N.of_nat br) (N.of_nat limit) in
    let '(g, rest) := backref_num (skipn i pat) br limit in
    br' = N.of_nat g /\ rest = skipn i' pat.
Proof. exact backref_digits_spec. Qed.

Example C19_ex : backref_num [49;50;51]%N 1 12 = (11%nat, [50;51]%N) /\ backref_num [48]%N 1 9 = (1%nat, [48]%N).
Proof. vm_compute. split; reflexivity. Qed.

Theorem C19_backref_copy_partial :
  forall input ci multi hb fl, s_i fl = ci ->
    forall g path p s st e,
      nth_error (sb s) g = Some (Some st) -> nth_error (eb s) g = Some (Some e) ->
      st <= e -> e <= length input -> p <= length input ->
      mi input ci multi hb (OBackref g) path p s
      = if copy_at fl input st e p then once (p + (e - st)) s else LNil s.
Proof. exact backref_copy. Qed.

Theorem C19_backref_unset_partial :
  forall input ci multi hb g path p s a b,
    nth_error (sb s) g = Some a -> nth_error (eb s) g = Some b -> (a = None \/ b = None) ->
    mi input ci multi hb (OBackref g) path p s = once p s.
Proof. exact backref_unset. Qed.

Print Assumptions C19_digits_partial.
Print Assumptions C19_backref_copy_partial.
Print Assumptions C19_backref_unset_partial.
