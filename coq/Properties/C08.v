(* C08 - compile-time optimisations never change any result.
   Full statement: every API on (compile d p f) = the same API on (compile_unopt d p f).  Not proved
   in full.  Proved: on the fragment of EngineFacts (no back-reference, no variable-length repeat), a
   program whose operation starts with a literal or a class gives with the search shortcuts
   (minimum-length cut-off + literal-prefix scan, or first-character filter) exactly the outcome -
   match / no match and the end of the reported match - that the same operation tree gives with
   every shortcut off (O1 min-length soundness + O2 filter soundness + E5); the two first-term
   filters are sound at the operation level; a literal (flag q) program is the same tree with and
   without optimisation.  The UnambiguousRepeat rewrite of Sequence::optimize: whenever no position at
   which the repeated term matches can start a match of what follows, the sequence has exactly the
   same results (as lists) with the backtracking fixed-length repeat and with the non-backtracking
   one; and for a repeat of a single character or class followed by a literal, a class or $, matching
   case-sensitively, the compiler's own decision (no_ambiguity, through is_disjoint with its give-up
   threshold and the first-character sets) implies that condition.  Not proved: that decision for
   other followers and under flag i, the repeat simplifications, positional preconditions, the
   start-anchor fast path.  The
   property is otherwise decided on every run by the four-way correspondence (code optimised /
   unoptimised through the hook, model optimised / unoptimised). *)
From RX Require Import Base.Prelude Base.InvList Model.Case Model.Op Model.Engine Model.Matcher Model.Compiler
     Model.Api Proofs.FilterFacts Proofs.LeafFacts Proofs.EngineFacts Proofs.ShortcutFacts Proofs.FragmentSpec Proofs.FixedFacts Proofs.DisjointFacts Proofs.UnambFacts Tables.Consts Proofs.AmbigFacts.

Theorem C08_prefix_filter_sound_partial :
  forall input ci multi hb pre rest path j s,
    rest <> [] -> starts_with (ceq ci) pre (skipn j input) = false ->
    exists s', mi input ci multi hb (OSeq (OAtom pre :: rest)) path j s = LNil s'.
Proof. exact prefix_filter_sound. Qed.

Theorem C08_first_class_filter_sound_partial :
  forall input ci multi hb cls rest path j s,
    rest <> [] ->
    (match nth_error input j with Some c => mem cls c | None => false end) = false ->
    exists s', mi input ci multi hb (OSeq (OCls cls :: rest)) path j s = LNil s'.
Proof. exact first_class_filter_sound. Qed.

Theorem C08_literal_same_tree_partial :
  forall fl p, f_literal fl = true ->
    exists a b, compile false fl p = Ok a /\ compile true fl p = Ok b /\ p_op a = p_op b
                /\ p_pattern a = p_pattern b /\ p_maxparens a = p_maxparens b.
Proof.
  intros fl p H. rewrite (literal_program false fl p H), (literal_program true fl p H).
  eexists. eexists. repeat split; reflexivity.
Qed.

Theorem C08_shortcuts_pure_literal_first_partial :
  forall pat K ci multi lit hbk input pre rest i s,
    let o := OSeq (OAtom pre :: rest) in
    simple input ci multi hbk K o -> rest <> [] -> (N.of_nat (length pre) <= min_length o)%N ->
    i <= length input -> length (sb s) = length (eb s) ->
    same_outcome (matches (mk_program pat o K ci multi lit hbk) input i s)
                 (matches (mk_program_unopt pat o K ci multi lit hbk) input i s).
Proof. exact shortcuts_pure_literal_first. Qed.

Theorem C08_shortcuts_pure_class_first_partial :
  forall pat K ci multi lit hbk input cls rest i s,
    let o := OSeq (OCls cls :: rest) in
    simple input ci multi hbk K o -> rest <> [] ->
    i <= length input -> length (sb s) = length (eb s) ->
    same_outcome (matches (mk_program pat o K ci multi lit hbk) input i s)
                 (matches (mk_program_unopt pat o K ci multi lit hbk) input i s).
Proof. exact shortcuts_pure_class_first. Qed.

(* the UnambiguousRepeat rewrite, semantically: F is what follows the repeat, as a function from
   positions to results; if it has no result from any position where the repeated term matches, the
   backtracking repeat (greedy or reluctant) and the non-backtracking one feed it to the same effect *)
Theorem C08_unambiguous_repeat_same_results_partial :
  forall input ci multi hb K o' mn mx len,
    simple input ci multi hb K o' -> (0 < len)%N -> (0 < mx)%N -> (mn <= mx)%N ->
    (N.of_nat (length input) < umax)%N ->
    (forall p, Rop input ci multi o' p = [] \/ Rop input ci multi o' p = [p + N.to_nat len]) ->
    forall (A : Type) (F : nat -> list A),
      (forall q, q <= length input -> hit (Rop input ci multi o') q -> F q = []) ->
      forall (greedy : bool) p, p <= length input ->
        flat_map F (Rop input ci multi (if greedy then OGFixed o' mn mx len else ORFixed o' mn mx len) p)
        = flat_map F (Rop input ci multi (OUnamb o' mn mx) p).
Proof. exact unamb_same_results. Qed.

(* is_disjoint, give-up threshold included, never answers "disjoint" for sets that share a scalar value *)
Theorem C08_is_disjoint_sound :
  forall thr a b x, is_disjoint thr a b = true -> is_scalar x = true -> mem b x = true -> mem a x = false.
Proof. exact is_disjoint_sound. Qed.

(* the rewriting step itself for x{n,m}y-type sequences: the compiler's decision suffices *)
Theorem C08_unambiguous_replacement_partial :
  forall input multi (hb : bool) (K : nat),
    (forall p ch, nth_error input p = Some ch -> is_scalar ch = true) ->
    forall c mn mx nxt rest (greedy : bool) p,
      single c -> leaf_follower nxt ->
      no_ambiguity c nxt false (negb greedy) = true ->
      (0 < mx)%N -> (mn <= mx)%N -> (N.of_nat (length input) < umax)%N -> p <= length input ->
      Rop input false multi (OSeq ((if greedy then OGFixed c mn mx 1 else ORFixed c mn mx 1) :: nxt :: rest)) p
      = Rop input false multi (OSeq (OUnamb c mn mx :: nxt :: rest)) p.
Proof. intros input multi hb K Hs. exact (unambiguous_replacement input multi hb K Hs). Qed.

(* what the disjointness decision rests on when the term after a repeat is not a leaf: the first-character
   set and the empty-match classification of sequences, alternations and groups are sound (case-sensitive
   matching, terms without repetition): a match is empty or starts inside the set; a term that matches the
   empty string somewhere is not classified "never" *)
Theorem C08_first_character_set_sound_partial :
  forall input multi hb K,
    (forall p ch, nth_error input p = Some ch -> is_scalar ch = true) ->
    forall o, foll o -> simple input false multi hb K o ->
      forall p q, In q (Rop input false multi o p) ->
        q = p \/ exists ch, nth_error input p = Some ch /\ mem (icc false o) ch = true.
Proof. exact icc_sound. Qed.

Theorem C08_matches_empty_string_sound_partial :
  forall input multi hb K o, foll o -> simple input false multi hb K o ->
    forall p, In p (Rop input false multi o p) -> mes o <> zls_never.
Proof. exact mes_sound. Qed.

(* ... so the rewriting step is results-preserving with such a follower too *)
Theorem C08_unambiguous_replacement_sequence_follower_partial :
  forall input multi hb K,
    (forall p ch, nth_error input p = Some ch -> is_scalar ch = true) ->
    forall c mn mx nxt rest (greedy : bool) p,
      single c -> foll nxt -> simple input false multi hb K nxt ->
      match nxt with OEnd | OBol | OEol => False | _ => True end ->
      no_ambiguity c nxt false (negb greedy) = true ->
      (0 < mx)%N -> (mn <= mx)%N -> (N.of_nat (length input) < umax)%N -> p <= length input ->
      Rop input false multi (OSeq ((if greedy then OGFixed c mn mx 1 else ORFixed c mn mx 1) :: nxt :: rest)) p
      = Rop input false multi (OSeq (OUnamb c mn mx :: nxt :: rest)) p.
Proof. exact unambiguous_replacement_group. Qed.

Print Assumptions C08_prefix_filter_sound_partial.
Print Assumptions C08_first_class_filter_sound_partial.
Print Assumptions C08_literal_same_tree_partial.
Print Assumptions C08_shortcuts_pure_literal_first_partial.
Print Assumptions C08_shortcuts_pure_class_first_partial.
Print Assumptions C08_unambiguous_repeat_same_results_partial.
Print Assumptions C08_is_disjoint_sound.
Print Assumptions C08_unambiguous_replacement_partial.
Print Assumptions C08_first_character_set_sound_partial.
Print Assumptions C08_matches_empty_string_sound_partial.
Print Assumptions C08_unambiguous_replacement_sequence_follower_partial.
