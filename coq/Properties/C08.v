(* C08 - compile-time optimisations never change any result.
   Full statement: every API on (compile d p f) = the same API on (compile_unopt d p f).  Not proved
   in full.  Proved: on the fragment of EngineFacts (no back-reference, no variable-length repeat), a
   program whose operation starts with a literal or a class gives with the search shortcuts
   (minimum-length cut-off + literal-prefix scan, or first-character filter) exactly the outcome -
   match / no match and the end of the reported match - that the same operation tree gives with
   every shortcut off (O1 min-length soundness + O2 filter soundness + E5); the two first-term
   filters are sound at the operation level; a literal (flag q) program is the same tree with and
   without optimisation.  Not proved: Operation::optimize (the UnambiguousRepeat rewrite and the
   repeat simplifications), positional preconditions, the start-anchor fast path.  The
   property is otherwise decided on every run by the four-way correspondence (code optimised /
   unoptimised through the hook, model optimised / unoptimised). *)
From RX Require Import Base.Prelude Base.InvList Model.Case Model.Op Model.Engine Model.Matcher Model.Compiler
     Model.Api Proofs.FilterFacts Proofs.LeafFacts Proofs.EngineFacts Proofs.ShortcutFacts.

Theorem C08_prefix_filter_sound_partial :
  forall input ci multi hb pre rest path j s,
    rest <> [] -> starts_with (ceq ci) pre (skipn j input) = false ->
    exists s', mi input ci multi hb (OSeq (OAtom pre :: rest)) path j s = LNil s'.
Proof. exact prefix_filter_sound. Qed.

Theorem C08_first_class_filter_sound_partial :
  forall input ci multi hb cls rest path j s,
    rest <> [] ->
    (match nth_error input j with Some c => mem cls c | None => false end) = false ->
    exists s', mi input ci multi hb (OSeq (OCls cls :: rest)) path j s = LNil s'.
Proof. exact first_class_filter_sound. Qed.

Theorem C08_literal_same_tree_partial :
  forall fl p, f_literal fl = true ->
    exists a b, compile false fl p = Ok a /\ compile true fl p = Ok b /\ p_op a = p_op b
                /\ p_pattern a = p_pattern b /\ p_maxparens a = p_maxparens b.
Proof.
  intros fl p H. rewrite (literal_program false fl p H), (literal_program true fl p H).
  eexists. eexists. repeat split; reflexivity.
Qed.

Theorem C08_shortcuts_pure_literal_first_partial :
  forall pat K ci multi lit hbk input pre rest i s,
    let o := OSeq (OAtom pre :: rest) in
    simple input ci multi hbk K o -> rest <> [] -> (N.of_nat (length pre) <= min_length o)%N ->
    i <= length input -> length (sb s) = length (eb s) ->
    same_outcome (matches (mk_program pat o K ci multi lit hbk) input i s)
                 (matches (mk_program_unopt pat o K ci multi lit hbk) input i s).
Proof. exact shortcuts_pure_literal_first. Qed.

Theorem C08_shortcuts_pure_class_first_partial :
  forall pat K ci multi lit hbk input cls rest i s,
    let o := OSeq (OCls cls :: rest) in
    simple input ci multi hbk K o -> rest <> [] ->
    i <= length input -> length (sb s) = length (eb s) ->
    same_outcome (matches (mk_program pat o K ci multi lit hbk) input i s)
                 (matches (mk_program_unopt pat o K ci multi lit hbk) input i s).
Proof. exact shortcuts_pure_class_first. Qed.

Print Assumptions C08_prefix_filter_sound_partial.
Print Assumptions C08_first_class_filter_sound_partial.
Print Assumptions C08_literal_same_tree_partial.
Print Assumptions C08_shortcuts_pure_literal_first_partial.
Print Assumptions C08_shortcuts_pure_class_first_partial.
