(* C08 - compile-time optimisations never change any result.
   Full statement: every API on (compile d p f) = the same API on (compile_unopt d p f).  Not proved
   (needs E1, O1, O2).  Proved so far: the two first-term filters of the search loop are sound (a
   start position skipped by the literal-prefix scan or the first-character filter cannot start a
   match), and a literal (flag q) program is the same tree with and without optimisation.  The
   property is otherwise decided on every run by the four-way correspondence (code optimised /
   unoptimised through the hook, model optimised / unoptimised). *)
From RX Require Import Base.Prelude Base.InvList Model.Case Model.Op Model.Engine Model.Matcher Model.Compiler
     Proofs.FilterFacts Proofs.LeafFacts.

Theorem C08_prefix_filter_sound_partial :
  forall input ci multi hb pre rest path j s,
    rest <> [] -> starts_with (ceq ci) pre (skipn j input) = false ->
    exists s', mi input ci multi hb (OSeq (OAtom pre :: rest)) path j s = LNil s'.
Proof. exact prefix_filter_sound. Qed.

Theorem C08_first_class_filter_sound_partial :
  forall input ci multi hb cls rest path j s,
    rest <> [] ->
    (match nth_error input j with Some c => mem cls c | None => false end) = false ->
    exists s', mi input ci multi hb (OSeq (OCls cls :: rest)) path j s = LNil s'.
Proof. exact first_class_filter_sound. Qed.

Theorem C08_literal_same_tree_partial :
  forall fl p, f_literal fl = true ->
    exists a b, compile false fl p = Ok a /\ compile true fl p = Ok b /\ p_op a = p_op b
                /\ p_pattern a = p_pattern b /\ p_maxparens a = p_maxparens b.
Proof.
  intros fl p H. rewrite (literal_program false fl p H), (literal_program true fl p H).
  eexists. eexists. repeat split; reflexivity.
Qed.

Print Assumptions C08_prefix_filter_sound_partial.
Print Assumptions C08_first_class_filter_sound_partial.
Print Assumptions C08_literal_same_tree_partial.
