(* C06 - every call terminates and iterators are finite.
   The model is structurally recursive except for the loops the code leaves unbounded, which run on
   local fuel; Out is the image of non-termination.  Proved, over the abstract match function:
   tokenize with fuel len+3 never runs out, yields at most len+1 tokens and is fused; a finished
   analyze iteration has at most 2*len+1 entries and the analyze iterator is fused.  Partial:
   "no engine loop exhausts its fuel" (E2) is proved on the engine fragment only; a hang of the
   code shows only as a watchdog timeout in the correspondence check. *)
From RX Require Import Base.Prelude Model.Engine Model.Matcher Model.Api Model.Run Proofs.ScanFacts Proofs.AnalyzeFacts Proofs.AnalyzeIterFacts Model.Op Proofs.EngineFacts Proofs.EngineCorollaries Proofs.FrameFacts Proofs.FragmentApi Spec.Syntax Spec.Parse Model.Compiler Proofs.GroupGrammar Proofs.GroupSpec.

Theorem C06_token_bound_partial :
  forall matchf input, good_step matchf input -> forall s,
    exists l, tok_all matchf input (S (S (S (length input)))) {| t_prev := Some 0; t_ms := s |} = Ok l
              /\ length l <= length input + 1.
Proof. exact tok_count_bound. Qed.

Theorem C06_fused :
  forall matchf input s,
    tok_next_gen matchf input {| t_prev := None; t_ms := s |} = Ok (None, {| t_prev := None; t_ms := s |}).
Proof. exact tok_fused. Qed.

(* E2 on the fragment (see C01_fragment_is_match_partial for the fragment): it never happens that
   a local loop of the engine exhausts its fuel - YW has no constructor for LPanic / LOut *)
Theorem C06_engine_fragment_no_fuel_exhaustion_partial :
  forall prog input i s,
    simple input (p_case prog) (p_multi prog) (p_hasbackrefs prog) (p_maxparens prog) (p_op prog) ->
    (p_hasbol prog = false /\ p_minlen prog = 0%N /\ p_prefix prog = None /\ p_icc prog = None /\ p_pre prog = []) ->
    i <= length input -> length (sb s) = length (eb s) ->
    match matches prog input i s with MTrue _ | MFalse _ => True | MOut | MPanic _ => False end.
Proof. intros prog input i s H1 H2. exact (fragment_no_panic_no_out prog input H1 H2 i s). Qed.

Theorem C06_analyze_bound_partial :
  forall re input l,
    good_step (matches (r_prog re) input) input ->
    (forall pos s s', pos <= length input -> matches (r_prog re) input pos s = MTrue s' -> caps_inside s') ->
    run_analyze re input = Ok (l, TDone) ->
    length l <= 2 * length input + 1.
Proof. intros re input l G GP H. exact (proj2 (run_analyze_text re input l G GP H)). Qed.

Theorem C06_analyze_fused :
  forall matchf proc input st st',
    an_next_gen matchf proc input st = Ok (None, st') -> an_next_gen matchf proc input st' = Ok (None, st').
Proof. exact an_fused. Qed.

(* the token bound on the engine fragment with capturing groups, no hypothesis about the matcher *)
Theorem C06_fragment_token_bound_partial :
  forall prog input,
    simple input (p_case prog) (p_multi prog) (p_hasbackrefs prog) (p_maxparens prog) (p_op prog) ->
    framed (p_op prog) ->
    (p_hasbol prog = false /\ p_minlen prog = 0%N /\ p_prefix prog = None /\ p_icc prog = None /\ p_pre prog = []) ->
    simple [] (p_case prog) (p_multi prog) (p_hasbackrefs prog) (p_maxparens prog) (p_op prog) ->
    (forall s', matches prog [] 0 st0 <> MTrue s') ->
    forall s, minv s ->
      exists l, tok_all (matches prog input) input (S (S (S (length input)))) {| t_prev := Some 0; t_ms := s |} = Ok l
                /\ length l <= length input + 1.
Proof. exact fragment_token_bound. Qed.

(* every match such a program reports is non-empty, inside the input, at or after the search
   position, and leaves the matcher in a state it accepts again *)
Theorem C06_fragment_good_step_partial :
  forall prog input,
    simple input (p_case prog) (p_multi prog) (p_hasbackrefs prog) (p_maxparens prog) (p_op prog) ->
    framed (p_op prog) ->
    (p_hasbol prog = false /\ p_minlen prog = 0%N /\ p_prefix prog = None /\ p_icc prog = None /\ p_pre prog = []) ->
    simple [] (p_case prog) (p_multi prog) (p_hasbackrefs prog) (p_maxparens prog) (p_op prog) ->
    (forall s', matches prog [] 0 st0 <> MTrue s') ->
    good_step_on (matches prog input) input minv.
Proof. exact fragment_good_step. Qed.

(* from the pattern and flag strings, on the grammar of literals, alternation and nested groups: if
   Regex::new does not flag the regex as matching the empty string, tokenize finishes within len+3
   steps with at most len+1 tokens; nothing is assumed about parser, matcher or scan loop *)
Theorem C06_group_grammar_tokenize_end_to_end_partial :
  forall xpath a fls input,
    ok_a xpath a = true -> existsb (N.eqb 59) fls = false -> (N.of_nat (length input) < umax)%N -> valid_in input ->
    match spec_flags xpath fls with
    | Valid sf =>
        s_q sf = false -> s_x sf = false ->
        exists re, regex_new true xpath (show_a a) fls = Ok re
          /\ (r_nullable re = false ->
              exists l, tok_all (matches (r_prog re) input) input (S (S (S (length input)))) {| t_prev := Some 0; t_ms := st0 |} = Ok l
                        /\ length l <= length input + 1
                        /\ l = pieces input (scan (matches (r_prog re) input) input (S (S (length input))) 0 st0) 0)
    | _ => True
    end.
Proof. exact grammar_tokenize_end_to_end. Qed.

Print Assumptions C06_token_bound_partial.
Print Assumptions C06_fused.
Print Assumptions C06_engine_fragment_no_fuel_exhaustion_partial.
Print Assumptions C06_analyze_bound_partial.
Print Assumptions C06_analyze_fused.
Print Assumptions C06_fragment_token_bound_partial.
Print Assumptions C06_fragment_good_step_partial.
Print Assumptions C06_group_grammar_tokenize_end_to_end_partial.
