(* C06 - every call terminates and iterators are finite.
   The model is structurally recursive except for the loops the code leaves unbounded, which run on
   local fuel; Out is the image of non-termination.  Proved, over the abstract match function:
   tokenize with fuel len+3 never runs out, yields at most len+1 tokens and is fused.  Partial:
   "no engine loop exhausts its fuel" (E2) and the analyze bound are not yet proved; a hang of the
   code shows only as a watchdog timeout in the correspondence check. *)
From RX Require Import Base.Prelude Model.Engine Model.Matcher Model.Api Proofs.ScanFacts.

Theorem C06_token_bound_partial :
  forall matchf input, good_step matchf input -> forall s,
    exists l, tok_all matchf input (S (S (S (length input)))) {| t_prev := Some 0; t_ms := s |} = Ok l
              /\ length l <= length input + 1.
Proof. exact tok_count_bound. Qed.

Theorem C06_fused :
  forall matchf input s,
    tok_next_gen matchf input {| t_prev := None; t_ms := s |} = Ok (None, {| t_prev := None; t_ms := s |}).
Proof. exact tok_fused. Qed.

Print Assumptions C06_token_bound_partial.
Print Assumptions C06_fused.
