(* C05 - no API call panics: every outcome is Ok or a classified Err.
   In the model every Rust operation that can panic is a checked operation returning Panic.  Proved:
   the replacement expansion, the flag parser, the scan loops' error classification and the
   nesting-table scan never produce an unclassified error; the expansion never panics or diverges
   (with C15).  Partial: the engine (E2) and the pattern parser (P1 index invariants); native stack
   exhaustion on nesting depth, allocator failure and RefCell borrow errors are runtime behaviour
   the model cannot exhibit (the harness exercises 300 nesting levels under catch_unwind). *)
From RX Require Import Base.Prelude Spec.Repl Model.Engine Model.Matcher Model.Compiler Model.Api
     Proofs.ReplProof Proofs.SmallFacts Model.Op Proofs.EngineFacts Proofs.EngineCorollaries
     Spec.Syntax Spec.Parse Proofs.ScanFacts Proofs.GroupGrammar Proofs.GroupSpec Proofs.GroupScan.

Theorem C05_expansion_total_partial :
  forall r maxc cap acc,
    match expand r maxc (fun g => Ok (cap g)) acc with
    | Ok _ | Err EInvalidRepl => True
    | _ => False
    end.
Proof. exact expansion_total. Qed.

Theorem C05_replace_errors_classified_partial :
  forall matchf literal maxparens input repl fuel pos s result fm simple e,
    replace_loop matchf literal maxparens input repl fuel pos s result fm simple = Err e -> e = EInvalidRepl.
Proof. exact replace_errors_classified. Qed.

Theorem C05_flags_total :
  forall xpath s, match parse_flags xpath s with Ok _ | Err EInvalidFlags => True | _ => False end.
Proof. exact flags_total. Qed.

(* E2 on the fragment (see C01_fragment_is_match_partial for the fragment): it never happens that
   a checked operation of the engine returns Panic - YW has no constructor for LPanic / LOut *)
Theorem C05_engine_fragment_no_panic_partial :
  forall prog input i s,
    simple input (p_case prog) (p_multi prog) (p_hasbackrefs prog) (p_maxparens prog) (p_op prog) ->
    (p_hasbol prog = false /\ p_minlen prog = 0%N /\ p_prefix prog = None /\ p_icc prog = None /\ p_pre prog = []) ->
    i <= length input -> length (sb s) = length (eb s) ->
    match matches prog input i s with MTrue _ | MFalse _ => True | MOut | MPanic _ => False end.
Proof. intros prog input i s H1 H2. exact (fragment_no_panic_no_out prog input H1 H2 i s). Qed.

(* the property from the strings on the grammar of Proofs/GroupGrammar.v: no call panics, exhausts a
   fuel or reports an internal error - Regex::new is Ok (InvalidFlags for a rejected flag string),
   is_match is Ok, and for a regex not flagged nullable tokenize and replace_all (plain replacement) are Ok *)
Theorem C05_group_grammar_total_partial :
  forall xpath a fls input,
    ok_a xpath a = true -> existsb (N.eqb 59) fls = false -> (N.of_nat (length input) < umax)%N -> valid_in input ->
    match spec_flags xpath fls with
    | Valid sf =>
        s_q sf = false -> s_x sf = false ->
        exists re b, regex_new true xpath (show_a a) fls = Ok re /\ is_match re input = Ok b
          /\ (r_nullable re = false ->
              (exists l, tok_all (matches (r_prog re) input) input (S (S (S (length input)))) {| t_prev := Some 0; t_ms := st0 |} = Ok l)
              /\ (forall repl, plain repl = true -> exists out, replace_all re input repl = Ok out))
    | Invalid => regex_new true xpath (show_a a) fls = Err EInvalidFlags
    | Unspecified => True
    end.
Proof. exact grammar_total. Qed.

Print Assumptions C05_expansion_total_partial.
Print Assumptions C05_replace_errors_classified_partial.
Print Assumptions C05_flags_total.
Print Assumptions C05_engine_fragment_no_panic_partial.
Print Assumptions C05_group_grammar_total_partial.
