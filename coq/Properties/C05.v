(* C05 - no API call panics: every outcome is Ok or a classified Err.
   In the model every Rust operation that can panic is a checked operation returning Panic.  Proved:
   the replacement expansion, the flag parser, the scan loops' error classification and the
   nesting-table scan never produce an unclassified error; the expansion never panics or diverges
   (with C15).  Partial: the engine (E2) and the pattern parser (P1 index invariants); native stack
   exhaustion on nesting depth, allocator failure and RefCell borrow errors are runtime behaviour
   the model cannot exhibit (the harness exercises 300 nesting levels under catch_unwind). *)
From RX Require Import Base.Prelude Spec.Repl Model.Engine Model.Matcher Model.Compiler Model.Api
     Proofs.ReplProof Proofs.SmallFacts Model.Op Proofs.EngineFacts Proofs.EngineCorollaries.

Theorem C05_expansion_total_partial :
  forall r maxc cap acc,
    match expand r maxc (fun g => Ok (cap g)) acc with
    | Ok _ | Err EInvalidRepl => True
    | _ => False
    end.
Proof. exact expansion_total. Qed.

Theorem C05_replace_errors_classified_partial :
  forall matchf literal maxparens input repl fuel pos s result fm simple e,
    replace_loop matchf literal maxparens input repl fuel pos s result fm simple = Err e -> e = EInvalidRepl.
Proof. exact replace_errors_classified. Qed.

Theorem C05_flags_total :
  forall xpath s, match parse_flags xpath s with Ok _ | Err EInvalidFlags => True | _ => False end.
Proof. exact flags_total. Qed.

(* E2 on the fragment (see C01_fragment_is_match_partial for the fragment): it never happens that
   a checked operation of the engine returns Panic - YW has no constructor for LPanic / LOut *)
Theorem C05_engine_fragment_no_panic_partial :
  forall prog input i s,
    simple input (p_case prog) (p_multi prog) (p_hasbackrefs prog) (p_maxparens prog) (p_op prog) ->
    (p_hasbol prog = false /\ p_minlen prog = 0%N /\ p_prefix prog = None /\ p_icc prog = None /\ p_pre prog = []) ->
    i <= length input -> length (sb s) = length (eb s) ->
    match matches prog input i s with MTrue _ | MFalse _ => True | MOut | MPanic _ => False end.
Proof. intros prog input i s H1 H2. exact (fragment_no_panic_no_out prog input H1 H2 i s). Qed.

Print Assumptions C05_expansion_total_partial.
Print Assumptions C05_replace_errors_classified_partial.
Print Assumptions C05_flags_total.
Print Assumptions C05_engine_fragment_no_panic_partial.
