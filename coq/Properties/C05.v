(* C05 - no API call panics: every outcome is Ok or a classified Err.
   In the model every Rust operation that can panic is a checked operation returning Panic.  Proved:
   the replacement expansion, the flag parser, the scan loops' error classification and the
   nesting-table scan never produce an unclassified error; the expansion never panics or diverges
   (with C15).  Partial: the engine (E2) and the pattern parser (P1 index invariants); native stack
   exhaustion on nesting depth, allocator failure and RefCell borrow errors are runtime behaviour
   the model cannot exhibit (the harness exercises 300 nesting levels under catch_unwind). *)
From RX Require Import Base.Prelude Spec.Repl Model.Engine Model.Matcher Model.Compiler Model.Api
     Proofs.ReplProof Proofs.SmallFacts.

Theorem C05_expansion_total_partial :
  forall r maxc cap acc,
    match expand r maxc (fun g => Ok (cap g)) acc with
    | Ok _ | Err EInvalidRepl => True
    | _ => False
    end.
Proof. exact expansion_total. Qed.

Theorem C05_replace_errors_classified_partial :
  forall matchf literal maxparens input repl fuel pos s result fm simple e,
    replace_loop matchf literal maxparens input repl fuel pos s result fm simple = Err e -> e = EInvalidRepl.
Proof. exact replace_errors_classified. Qed.

Theorem C05_flags_total :
  forall xpath s, match parse_flags xpath s with Ok _ | Err EInvalidFlags => True | _ => False end.
Proof. exact flags_total. Qed.

Print Assumptions C05_expansion_total_partial.
Print Assumptions C05_replace_errors_classified_partial.
Print Assumptions C05_flags_total.
