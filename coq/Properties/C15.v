(* C15 - replacement strings follow the $N and backslash rules exactly.
   Only statements, pins and assumption reports live here; proofs are in Proofs/. *)
From RX Require Import Base.Prelude Spec.Repl Model.Engine Model.Matcher Model.Api Proofs.ReplProof Proofs.ScanFacts Proofs.ReplaceFacts Spec.Syntax Spec.Parse Model.Compiler Proofs.PlainPattern Proofs.PlainSpec.

(* The faithful expansion loop of ReMatcher::replace (index arithmetic, the >9-groups digit loop,
   the simple_replacement flag) equals the replacement grammar of Spec/Repl.v: for every
   replacement string r, every number of groups maxc and every capture assignment cap. *)
Theorem C15_expand :
  forall (r : list N) (maxc : nat) (cap : nat -> option (list N)) (acc : list N),
    expand r maxc (fun g => Ok (cap g)) acc
    = match parse_repl maxc r with
      | PItems its => Ok (acc ++ render maxc cap its, plain r)
      | PInvalid => Err EInvalidRepl
      | PFuel => Out
      end.
Proof. exact expand_eq_spec. Qed.

(* ... and the grammar is total: the loop never runs out of fuel, so with C15_expand the outcome
   is always Ok or Err InvalidReplacementString, never Panic or Out. *)
Theorem C15_parse_total :
  forall (r : list N) (maxc : nat), parse_repl maxc r <> PFuel.
Proof. exact parse_repl_total. Qed.

(* text outside matches is copied unchanged (C04_replace_joins_pieces_partial); an input without
   matches is returned as is, whatever the replacement string (even an invalid one) *)
Theorem C15_no_match_returns_input :
  forall matchf input repl maxparens literal s0,
    (forall s, match matchf 0 s with MFalse _ => True | _ => False end) ->
    replace_loop matchf literal maxparens input repl (length input + 2) 0 s0 [] true false = Ok input.
Proof. intros. apply replace_no_match; assumption. Qed.

(* The whole of ReMatcher::replace for a replacement the grammar accepts, over an abstract match
   function with the interface facts good_step and "the group arrays it leaves can be sliced": the
   result is the input with every span of the scan replaced by the rendering of the replacement's
   items under that match's groups - across the simple_replacement latch too, which from the second
   match on appends the raw replacement text when it contains neither '$' nor '\'. *)
Theorem C15_replace_valid_partial :
  forall matchf maxc input repl its s0,
    good_step matchf input ->
    (forall pos s s', pos <= length input -> matchf pos s = MTrue s' -> forall g, exists o, get_paren input s' g = Ok o) ->
    parse_repl maxc repl = PItems its ->
    replace_loop matchf false (S maxc) input repl (length input + 2) 0 s0 [] true false
    = Ok (rep_out matchf maxc input its (length input + 2) 0 s0).
Proof. intros matchf maxc input repl its s0 G Hc Hp. exact (replace_valid matchf maxc input repl G Hc its s0 Hp). Qed.

(* a replacement the grammar rejects is never used to produce output: the first match reports it *)
Theorem C15_replace_invalid_partial :
  forall matchf maxc input repl s0 s',
    good_step matchf input ->
    (forall pos s s', pos <= length input -> matchf pos s = MTrue s' -> forall g, exists o, get_paren input s' g = Ok o) ->
    parse_repl maxc repl = PInvalid -> 0 < length input -> matchf 0 s0 = MTrue s' ->
    replace_loop matchf false (S maxc) input repl (length input + 2) 0 s0 [] true false = Err EInvalidRepl.
Proof. intros matchf maxc input repl s0 s' G Hc Hp Hn Hm. exact (replace_invalid matchf maxc input repl G Hc s0 s' Hp Hn Hm). Qed.

(* non-vacuity: "$1x\$$0" with one group, "$12" with 12 groups, and an invalid string *)
Example C15_ex1 :
  expand [36;49;120;92;36;36;48]%N 1 (fun g => Ok (match g with 0 => Some [119]%N | 1 => Some [97;98]%N | _ => None end)) []
  = Ok ([97;98;120;36;119]%N, false).
Proof. vm_compute. reflexivity. Qed.
Example C15_ex2 :
  parse_repl 12 [36;49;50;51]%N = PItems [Grp 12; Lit 51%N] /\ parse_repl 9 [36;49;50]%N = PItems [Grp 1; Lit 50%N]
  /\ parse_repl 3 [36;97]%N = PInvalid /\ parse_repl 3 [97;92]%N = PInvalid.
Proof. vm_compute. repeat split. Qed.

(* the property from the strings, for patterns of ordinary characters (no group but $0): pattern
   text, flag string, input and replacement in; with a replacement the grammar accepts, the input with
   every match replaced by the rendering of the replacement's items; with one it rejects, the error as
   soon as there is a match.  No hypothesis about parser, matcher or scan loop. *)
Theorem C15_ordinary_pattern_replace_end_to_end_partial :
  forall xpath pat fls input repl,
    forallb ordinary pat = true -> pat <> [] -> (N.of_nat (length pat) <= umax)%N ->
    existsb (N.eqb 59) fls = false ->
    match spec_flags xpath fls with
    | Valid sf =>
        s_q sf = false -> s_x sf = false ->
        exists re, regex_new false xpath pat fls = Ok re
          /\ match parse_repl 0 repl with
             | PItems its => replace_all re input repl
                             = Ok (rep_out (matches (r_prog re) input) 0 input its (length input + 2) 0 st0)
             | PInvalid => forall s', 0 < length input -> matches (r_prog re) input 0 st0 = MTrue s' ->
                                      replace_all re input repl = Err EInvalidRepl
             | PFuel => False
             end
    | _ => True
    end.
Proof. exact ordinary_replace_end_to_end. Qed.

Print Assumptions C15_expand.
Print Assumptions C15_parse_total.
Print Assumptions C15_no_match_returns_input.
Print Assumptions C15_replace_valid_partial.
Print Assumptions C15_replace_invalid_partial.
Print Assumptions C15_ordinary_pattern_replace_end_to_end_partial.
