(* C16 - regexes that match the empty string are rejected up front, and only those.
   Proved: the three guards fire exactly when the stored flag says "matches the zero-length
   string", that flag is the matcher's own answer on the empty input, and tokenize on the empty
   input yields nothing.  Partial: "no reported match is zero-length when the guard passed" needs
   the engine lemma E1 (a zero-length match anywhere implies one on the empty input). *)
From RX Require Import Base.Prelude Model.Engine Model.Matcher Model.Compiler Model.Api Proofs.SmallFacts.

Theorem C16_replace_guard :
  forall re s r, replace_all re s r = Err EMatchesEmpty <-> r_nullable re = true.
Proof. exact replace_all_guard. Qed.

Theorem C16_analyze_guard :
  forall re, (exists t : unit, analyze re = Err EMatchesEmpty /\ t = tt) <-> r_nullable re = true.
Proof. exact analyze_guard. Qed.

Theorem C16_tokenize_guard :
  forall re s, s <> [] -> (tokenize re s = Err EMatchesEmpty <-> r_nullable re = true).
Proof. exact tokenize_guard. Qed.

Theorem C16_tokenize_empty_input :
  forall re prog, exists st, tokenize re [] = Ok st /\ tok_next prog [] st = Ok (None, st).
Proof. exact tokenize_empty_input. Qed.

Theorem C16_nullable_is_match_on_empty :
  forall unopt xpath p fls re, regex_new unopt xpath p fls = Ok re ->
    exists s', matches (r_prog re) [] 0 st0 = (if r_nullable re then MTrue s' else MFalse s').
Proof. exact nullable_def. Qed.

Example C16_ex :
  (exists re, regex_new false true [97;63]%N [] = Ok re /\ r_nullable re = true)
  /\ (exists re, regex_new false true [97]%N [] = Ok re /\ r_nullable re = false).
Proof. split; eexists; split; vm_compute; reflexivity. Qed.

Print Assumptions C16_replace_guard.
Print Assumptions C16_analyze_guard.
Print Assumptions C16_tokenize_guard.
Print Assumptions C16_tokenize_empty_input.
Print Assumptions C16_nullable_is_match_on_empty.
