(* C16 - regexes that match the empty string are rejected up front, and only those.
   Proved: the three guards fire exactly when the stored flag says "matches the zero-length
   string", that flag is the matcher's own answer on the empty input, and tokenize on the empty
   input yields nothing; and, on the fragment of EngineFacts without search shortcuts, the guard is
   sufficient: a zero-length match anywhere implies a match of the empty input, so a program that
   does not match the empty input never reports a zero-length match (the scan loops always consume
   input).  Partial: that last clause for variable-length repeats, back-references and the
   optimised search paths. *)
From RX Require Import Base.Prelude Model.Op Model.Engine Model.Matcher Model.Compiler Model.Api Proofs.SmallFacts Proofs.EngineFacts Proofs.NullableFacts Spec.Syntax Spec.Sem Spec.Parse Proofs.GroupGrammar Proofs.GroupSpec.

Theorem C16_replace_guard :
  forall re s r, replace_all re s r = Err EMatchesEmpty <-> r_nullable re = true.
Proof. exact replace_all_guard. Qed.

Theorem C16_analyze_guard :
  forall re, (exists t : unit, analyze re = Err EMatchesEmpty /\ t = tt) <-> r_nullable re = true.
Proof. exact analyze_guard. Qed.

Theorem C16_tokenize_guard :
  forall re s, s <> [] -> (tokenize re s = Err EMatchesEmpty <-> r_nullable re = true).
Proof. exact tokenize_guard. Qed.

Theorem C16_tokenize_empty_input :
  forall re prog, exists st, tokenize re [] = Ok st /\ tok_next prog [] st = Ok (None, st).
Proof. exact tokenize_empty_input. Qed.

Theorem C16_nullable_is_match_on_empty :
  forall unopt xpath p fls re, regex_new unopt xpath p fls = Ok re ->
    exists s', matches (r_prog re) [] 0 st0 = (if r_nullable re then MTrue s' else MFalse s').
Proof. exact nullable_def. Qed.

Example C16_ex :
  (exists re, regex_new false true [97;63]%N [] = Ok re /\ r_nullable re = true)
  /\ (exists re, regex_new false true [97]%N [] = Ok re /\ r_nullable re = false).
Proof. split; eexists; split; vm_compute; reflexivity. Qed.

Theorem C16_no_zero_length_match_fragment_partial :
  forall prog input,
    simple input (p_case prog) (p_multi prog) (p_hasbackrefs prog) (p_maxparens prog) (p_op prog) ->
    simple [] (p_case prog) (p_multi prog) (p_hasbackrefs prog) (p_maxparens prog) (p_op prog) ->
    (p_hasbol prog = false /\ p_minlen prog = 0%N /\ p_prefix prog = None /\ p_icc prog = None /\ p_pre prog = []) ->
    (forall s', matches prog [] 0 st0 <> MTrue s') ->
    forall i s s', i <= length input -> length (sb s) = length (eb s) ->
      matches prog input i s = MTrue s' ->
      exists k q, i <= k /\ k < q /\ q <= length input /\ get_pend s' 0 = Some q.
Proof. exact no_zero_length_match. Qed.

(* what the guards test is the right thing: on the grammar of Proofs/GroupGrammar.v, from the pattern
   and flag strings, the flag Regex::new computes equals "the specification's language contains the
   empty string" - with the three guard theorems above, replace_all / tokenize / analyze are refused
   exactly for the regexes the specification says match the zero-length string *)
Theorem C16_group_grammar_nullable_exact_partial :
  forall xpath a fls,
    ok_a xpath a = true -> existsb (N.eqb 59) fls = false ->
    match spec_flags xpath fls with
    | Valid sf =>
        s_q sf = false -> s_x sf = false ->
        exists re r, regex_new true xpath (show_a a) fls = Ok re /\ spec_parse xpath (show_a a) = Valid r
                     /\ r_nullable re = spec_is_match sf [] r
    | _ => True
    end.
Proof. exact grammar_nullable_exact. Qed.

Print Assumptions C16_replace_guard.
Print Assumptions C16_analyze_guard.
Print Assumptions C16_tokenize_guard.
Print Assumptions C16_tokenize_empty_input.
Print Assumptions C16_nullable_is_match_on_empty.
Print Assumptions C16_no_zero_length_match_fragment_partial.
Print Assumptions C16_group_grammar_nullable_exact_partial.
