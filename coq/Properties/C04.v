(* C04 - replace_all, tokenize and analyze partition the input consistently.
   Over the abstract match function (hypothesis good_step = the interface of ReMatcher::matches for
   a regex that cannot match empty): tokenize yields exactly the pieces of input between the spans
   the scan visits (leading, trailing and adjacent empty pieces included), and replace_all with a
   literal replacement returns those same pieces joined by the replacement - both loops are driven
   by one and the same sequence of spans.  analyze: whenever the iteration the correspondence check
   executes (Model/Run.v run_analyze) finishes, the texts of its entries - the String leaves of the
   Match forests and the NonMatch strings - concatenate, in order, to the input; this needs of the
   matcher good_step and that the groups it records end inside the reported match (both are
   interface facts of ReMatcher::matches, proved on the engine fragment only).
   replace_all with '$0' returns the input unchanged (through the expansion loop and the
   simple-replacement latch), given that group 0 of a reported match is the reported span.
   Partial: the interface facts of the matcher are hypotheses outside the engine fragment. *)
From RX Require Import Base.Prelude Model.Engine Model.Matcher Model.Api Model.Run Proofs.ScanFacts Proofs.AnalyzeFacts Proofs.AnalyzeIterFacts Spec.Repl Proofs.ReplaceFacts Model.Op Proofs.EngineFacts Proofs.FrameFacts Proofs.FragmentApi Spec.Syntax Spec.Parse Model.Compiler Proofs.PlainPattern Proofs.PlainSpec Spec.Syntax Spec.Sem Spec.Parse Model.Compiler Proofs.ScanFacts Proofs.GroupGrammar Proofs.GroupSpec Proofs.GroupScan.

Theorem C04_tokenize_pieces_partial :
  forall matchf input, good_step matchf input ->
    forall k pe s, length input - pe < k -> pe <= length input ->
      tok_all matchf input (S (S k)) {| t_prev := Some pe; t_ms := s |}
      = Ok (pieces input (scan matchf input (S k) pe s) pe).
Proof. exact tok_all_spec. Qed.

Theorem C04_replace_joins_pieces_partial :
  forall matchf input repl maxparens, good_step matchf input ->
    forall k pos s result, length input - pos < k -> pos <= length input ->
      replace_loop matchf true maxparens input repl (S k) pos s result false true
      = Ok (result ++ join repl (pieces input (scan matchf input (S k) pos s) pos)).
Proof. exact replace_loop_literal. Qed.

Theorem C04_analyze_texts_partial :
  forall re input l,
    good_step (matches (r_prog re) input) input ->
    (forall pos s s', pos <= length input -> matches (r_prog re) input pos s = MTrue s' -> caps_inside s') ->
    run_analyze re input = Ok (l, TDone) ->
    flat_map atext l = input.
Proof. intros re input l G GP H. exact (proj1 (run_analyze_text re input l G GP H)). Qed.

(* the same over an abstract matcher and tree builder, from any fuel *)
Theorem C04_analyze_iterator_partial :
  forall matchf proc input (P : mstate -> Prop), good_step matchf input ->
    (forall pos s s', pos <= length input -> matchf pos s = MTrue s' -> P s') ->
    (forall s a b v, P s -> get_pstart s 0 = Some a -> get_pend s 0 = Some b -> a < b -> b <= length input ->
       proc s (slice input a b) = Ok v -> vtext v = slice input a b) ->
    forall fuel s l,
      an_all matchf proc input fuel {| a_next := None; a_prev := Some 0; a_skip := false; a_ms := s |} = Ok l ->
      flat_map atext l = input.
Proof. intros matchf proc input P G GP Hp fuel s l H. exact (proj1 (analyze_partition matchf proc input G P GP Hp fuel s l H)). Qed.

Theorem C04_replace_dollar0_identity_partial :
  forall matchf maxc input repl s0,
    good_step matchf input ->
    (forall pos s s', pos <= length input -> matchf pos s = MTrue s' -> forall g, exists o, get_paren input s' g = Ok o) ->
    (forall pos s s' a b, pos <= length input -> matchf pos s = MTrue s' ->
       get_pstart s' 0 = Some a -> get_pend s' 0 = Some b -> get_paren input s' 0 = Ok (Some (slice input a b))) ->
    repl = [36; 48]%N ->
    replace_loop matchf false (S maxc) input repl (length input + 2) 0 s0 [] true false = Ok input.
Proof. intros matchf maxc input repl s0 G Hc H0 E. exact (replace_dollar0_identity matchf maxc input repl G Hc H0 s0 E). Qed.

(* tokenize on the engine fragment with capturing groups (no back-reference, no variable-length
   repeat), unoptimised program: no hypothesis about the matcher is left - the interface facts
   (group 0 = (k, q), pos <= k < q <= len, state invariant) are proved in Proofs/FragmentApi.v from
   the frame theorem mi_frame and the C16 guard *)
Theorem C04_fragment_tokenize_pieces_partial :
  forall prog input,
    simple input (p_case prog) (p_multi prog) (p_hasbackrefs prog) (p_maxparens prog) (p_op prog) ->
    framed (p_op prog) ->
    (p_hasbol prog = false /\ p_minlen prog = 0%N /\ p_prefix prog = None /\ p_icc prog = None /\ p_pre prog = []) ->
    simple [] (p_case prog) (p_multi prog) (p_hasbackrefs prog) (p_maxparens prog) (p_op prog) ->
    (forall s', matches prog [] 0 st0 <> MTrue s') ->
    forall k pe s, minv s -> length input - pe < k -> pe <= length input ->
      tok_all (matches prog input) input (S (S k)) {| t_prev := Some pe; t_ms := s |}
      = Ok (pieces input (scan (matches prog input) input (S k) pe s) pe).
Proof. exact fragment_tokenize. Qed.

(* tokenize and analyze from the strings for patterns of ordinary characters: the tokens are the
   pieces between the occurrences the scan visits; the texts of the entries of a finished analyze
   iteration concatenate to the input.  No hypothesis about parser, matcher or scan loop. *)
Theorem C04_ordinary_pattern_end_to_end_partial :
  forall xpath pat fls input,
    forallb ordinary pat = true -> pat <> [] -> (N.of_nat (length pat) <= umax)%N ->
    existsb (N.eqb 59) fls = false ->
    match spec_flags xpath fls with
    | Valid sf =>
        s_q sf = false -> s_x sf = false ->
        exists re, regex_new false xpath pat fls = Ok re /\ r_nullable re = false
          /\ tok_all (matches (r_prog re) input) input (S (S (S (length input)))) {| t_prev := Some 0; t_ms := st0 |}
             = Ok (pieces input (scan (matches (r_prog re) input) input (S (S (length input))) 0 st0) 0)
          /\ (forall table fuel l,
                an_all (matches (r_prog re) input) (process_matching_substring table) input fuel
                       {| a_next := None; a_prev := Some 0; a_skip := false; a_ms := st0 |} = Ok l ->
                flat_map atext l = input /\ length l <= 2 * length input + 1)
    | _ => True
    end.
Proof. exact ordinary_tokenize_analyze_end_to_end. Qed.

(* tokenize from the strings on the grammar of Proofs/GroupGrammar.v: the tokens are the pieces of
   the input between the specification's spans *)
Theorem C04_group_grammar_tokens_partial :
  forall xpath a fls input,
    ok_a xpath a = true -> existsb (N.eqb 59) fls = false -> (N.of_nat (length input) < umax)%N -> valid_in input ->
    match spec_flags xpath fls with
    | Valid sf =>
        s_q sf = false -> s_x sf = false ->
        exists re r, regex_new true xpath (show_a a) fls = Ok re /\ spec_parse xpath (show_a a) = Valid r
          /\ (r_nullable re = false ->
              scan (matches (r_prog re) input) input (length input + 2) 0 st0 = map span_of (spec_spans sf input r)
              /\ tok_all (matches (r_prog re) input) input (S (S (S (length input)))) {| t_prev := Some 0; t_ms := st0 |}
                 = Ok (pieces input (map span_of (spec_spans sf input r)) 0)
              /\ (forall repl, plain repl = true ->
                    replace_all re input repl = Ok (join repl (pieces input (map span_of (spec_spans sf input r)) 0))))
    | _ => True
    end.
Proof. exact grammar_tokens_are_spec_pieces. Qed.

Print Assumptions C04_tokenize_pieces_partial.
Print Assumptions C04_replace_joins_pieces_partial.
Print Assumptions C04_analyze_texts_partial.
Print Assumptions C04_analyze_iterator_partial.
Print Assumptions C04_replace_dollar0_identity_partial.
Print Assumptions C04_fragment_tokenize_pieces_partial.
Print Assumptions C04_ordinary_pattern_end_to_end_partial.
Print Assumptions C04_group_grammar_tokens_partial.
