(* C04 - replace_all, tokenize and analyze partition the input consistently.
   Over the abstract match function (hypothesis good_step = the interface of ReMatcher::matches for
   a regex that cannot match empty): tokenize yields exactly the pieces of input between the spans
   the scan visits (leading, trailing and adjacent empty pieces included), and replace_all with a
   literal replacement returns those same pieces joined by the replacement - both loops are driven
   by one and the same sequence of spans.  Partial: the analyze state machine and the '$0' identity
   (which goes through the expansion loop) are not yet proved. *)
From RX Require Import Base.Prelude Model.Engine Model.Matcher Model.Api Proofs.ScanFacts.

Theorem C04_tokenize_pieces_partial :
  forall matchf input, good_step matchf input ->
    forall k pe s, length input - pe < k -> pe <= length input ->
      tok_all matchf input (S (S k)) {| t_prev := Some pe; t_ms := s |}
      = Ok (pieces input (scan matchf input (S k) pe s) pe).
Proof. exact tok_all_spec. Qed.

Theorem C04_replace_joins_pieces_partial :
  forall matchf input repl maxparens, good_step matchf input ->
    forall k pos s result, length input - pos < k -> pos <= length input ->
      replace_loop matchf true maxparens input repl (S k) pos s result false true
      = Ok (result ++ join repl (pieces input (scan matchf input (S k) pos s) pos)).
Proof. exact replace_loop_literal. Qed.

Print Assumptions C04_tokenize_pieces_partial.
Print Assumptions C04_replace_joins_pieces_partial.
