(* C07 - the compiler accepts exactly the XPath 3.1 grammar and flag set.
   Proved here: the flag half, in full (for flag strings without the ';' engine-specific suffix,
   on which the property makes no claim).  The pattern half (model compiler = Spec.Parse grammar,
   P1/P2 of DESIGN.md) is not proved; one rule of it is: the {n,m} parser accepts only bounds with
   n <= m <= usize::MAX, reports everything else as a classified error, and never panics.  The rest
   is carried by the exhaustive short-string correspondence against the three-valued grammar. *)
From RX Require Import Base.Prelude Spec.Syntax Spec.Parse Model.Compiler Proofs.SmallFacts Proofs.BracketFacts Model.Op Model.Matcher Proofs.PlainPattern Proofs.PlainSpec Proofs.GroupGrammar Proofs.GroupSpec.

Theorem C07_flags :
  forall (xpath : bool) (s : list N),
    existsb (N.eqb 59) s = false ->
    match parse_flags xpath s, spec_flags xpath s with
    | Ok fl, Valid sf => flags_agree fl sf /\ f_xpath fl = xpath
    | Err EInvalidFlags, Invalid => True
    | _, _ => False
    end.
Proof. exact parse_flags_spec. Qed.

Example C07_ex :
  (exists fl, parse_flags true [115;109;105;120;113]%N = Ok fl) /\ parse_flags true [122]%N = Err EInvalidFlags
  /\ spec_flags true [105;105]%N <> Invalid.
Proof. vm_compute. repeat split; eauto; discriminate. Qed.

Theorem C07_quantifier_bounds_partial :
  forall pat st,
    match bracket pat st with
    | Ok st' => (bmin st' <= bmax st')%N /\ (bmax st' <= umax)%N /\ (idx st + 2 < idx st')%nat
                /\ parens st' = parens st /\ captures st' = captures st
    | Err e => e = ESyntax \/ e = EInternal
    | Panic _ | Out => False
    end.
Proof. exact bracket_spec. Qed.

(* the grammar half on the smallest sub-grammar: a non-empty pattern of ordinary characters is
   valid for the specification's parser and compiles (to the literal's program) in both dialects *)
Theorem C07_ordinary_pattern_accepted_partial :
  forall unopt fl pat,
    f_literal fl = false -> f_ws fl = false -> forallb ordinary pat = true -> pat <> [] ->
    spec_parse (f_xpath fl) pat = Valid (RSeq (map RChar pat))
    /\ compile unopt fl pat
       = Ok ((if unopt then mk_program_unopt else mk_program) pat (OSeq [OAtom pat; OEnd]) 1%nat
               (f_case fl) (f_multi fl) false false).
Proof.
  intros unopt fl pat H1 H2 H3 H4. split; [apply spec_parse_ordinary; exact H3|apply compile_ordinary; assumption].
Qed.

(* the grammar half on the grammar of literals, alternation and groups (any nesting): every printed
   grammar tree is valid for the specification's parser and is compiled by the model's *)
Theorem C07_group_grammar_accepted_partial :
  forall fl a,
    ok_a (f_xpath fl) a = true -> f_literal fl = false -> f_ws fl = false ->
    (exists r, spec_parse (f_xpath fl) (show_a a) = Valid r) /\ (exists prog, compile true fl (show_a a) = Ok prog).
Proof. exact grammar_accepted. Qed.

Print Assumptions C07_flags.
Print Assumptions C07_quantifier_bounds_partial.
Print Assumptions C07_ordinary_pattern_accepted_partial.
Print Assumptions C07_group_grammar_accepted_partial.
