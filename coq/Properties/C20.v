(* C20 - equivalent spellings of a pattern behave identically.
   Proved at the specification level: the laws hold for the denoted language (same set of end
   positions from every start position, for every input and flags).  Partial: the transport to the
   model's is_match needs C01; the property is otherwise decided by rewriting generated patterns and
   comparing both spellings on the code and on the model. *)
From RX Require Import Base.Prelude Spec.Syntax Spec.Sem Proofs.LeafFacts.

Theorem C20_wrap_noncapturing_spec : forall fl s r i, ends fl s (RNc r) i = ends fl s r i.
Proof. exact law_nc. Qed.
Theorem C20_group_to_noncapturing_spec : forall fl s g r i, ends fl s (RGroup g r) i = ends fl s (RNc r) i.
Proof. intros. reflexivity. Qed.
Theorem C20_alt_idempotent_spec : forall fl s r i, same_ends (ends fl s (RAlt [r; r]) i) (ends fl s r i).
Proof. exact law_alt_idem. Qed.
Theorem C20_alt_commutative_spec : forall fl s a b i, same_ends (ends fl s (RAlt [a; b]) i) (ends fl s (RAlt [b; a]) i).
Proof. exact law_alt_comm. Qed.

Print Assumptions C20_wrap_noncapturing_spec.
Print Assumptions C20_group_to_noncapturing_spec.
Print Assumptions C20_alt_idempotent_spec.
Print Assumptions C20_alt_commutative_spec.
