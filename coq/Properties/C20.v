(* C20 - equivalent spellings of a pattern behave identically.
   Proved at the specification level: every law the property lists holds for the denoted language
   (same set of end positions from every start position, for every input and flags; x = [x] and
   [xy] = (?:x|y) without flag i - with it the two sides use the class closure and the literal
   comparison, which C11 relates on the clean alphabets).  The quantifier laws rest on
   QuantFacts.quant_ends_spec (r{n,m} ends exactly at the positions reachable by k rounds of r,
   n <= k <= m).  Partial: the transport to the code's is_match is C01 (proved on the fragment with
   fixed-length repeats); otherwise decided by rewriting generated patterns and comparing both
   spellings on the code and on the model. *)
From RX Require Import Base.Prelude Spec.Syntax Spec.Sem Proofs.LeafFacts Proofs.QuantFacts Proofs.QuantLaws Model.Op Model.Engine Model.Matcher Model.Compiler Proofs.GroupGrammar Proofs.GroupSpec Proofs.GroupLaws.

Theorem C20_wrap_noncapturing_spec : forall fl s r i, ends fl s (RNc r) i = ends fl s r i.
Proof. exact law_nc. Qed.
Theorem C20_group_to_noncapturing_spec : forall fl s g r i, ends fl s (RGroup g r) i = ends fl s (RNc r) i.
Proof. intros. reflexivity. Qed.
Theorem C20_alt_idempotent_spec : forall fl s r i, same_ends (ends fl s (RAlt [r; r]) i) (ends fl s r i).
Proof. exact law_alt_idem. Qed.
Theorem C20_alt_commutative_spec : forall fl s a b i, same_ends (ends fl s (RAlt [a; b]) i) (ends fl s (RAlt [b; a]) i).
Proof. exact law_alt_comm. Qed.

(* r{1} = r,  r{0} = empty,  r+ = rr*,  r{n,} = r^n r*,  r{n,m} = r^n ((?:r)?)^(m-n) *)
Theorem C20_quant_one_spec : forall fl s r g, quant_wf r -> same_lang fl s (RQuant r 1 (Some 1%N) g) r.
Proof. exact law_one. Qed.
Theorem C20_quant_zero_spec : forall fl s r g, quant_wf r -> same_lang fl s (RQuant r 0 (Some 0%N) g) (RSeq []).
Proof. exact law_zero. Qed.
Theorem C20_plus_spec : forall fl s r g, quant_wf r -> same_lang fl s (RQuant r 1 None g) (RSeq [r; RQuant r 0 None g]).
Proof. exact law_plus. Qed.
Theorem C20_at_least_spec : forall fl s r (k : nat) g, quant_wf r ->
  same_lang fl s (RQuant r (N.of_nat k) None g) (RSeq (repeat r k ++ [RQuant r 0 None g])).
Proof. exact law_at_least. Qed.
Theorem C20_bounded_spec : forall fl s r (k d : nat) g, quant_wf r ->
  same_lang fl s (RQuant r (N.of_nat k) (Some (N.of_nat (k + d))) g)
                 (RSeq (repeat r k ++ repeat (RQuant r 0 (Some 1%N) g) d)).
Proof. exact law_bounded. Qed.
(* (?:r|s)t = rt|st;  x = [x] and [xy] = (?:x|y) *)
Theorem C20_distribute_spec : forall fl s r1 r2 t,
  same_lang fl s (RSeq [RNc (RAlt [r1; r2]); t]) (RAlt [RSeq [r1; t]; RSeq [r2; t]]).
Proof. exact law_distrib. Qed.
Theorem C20_char_class_spec : forall fl s c, s_i fl = false ->
  forall i, ends fl s (RChar c) i = ends fl s (RCls (CGroup false [IChar c] None)) i.
Proof. exact law_char_class. Qed.
Theorem C20_class_alt_spec : forall fl s x y, s_i fl = false ->
  same_lang fl s (RCls (CGroup false [IChar x; IChar y] None)) (RNc (RAlt [RChar x; RChar y])).
Proof. exact law_class_alt. Qed.

(* two of the laws at the level the property is stated at - pattern text in, verdict of the model's
   compiled program out - on the grammar of Proofs/GroupGrammar.v: spelling every c+ of a pattern as
   cc* (c+? as cc*?), or every c? as (c|), gives a pattern that compiles too and has the same
   verdict on every input *)
Theorem C20_plus_law_end_to_end_partial :
  forall fl a input,
    ok_a (f_xpath fl) a = true -> f_literal fl = false -> f_ws fl = false -> (N.of_nat (length input) < umax)%N -> valid_in input ->
    exists prog prog', compile true fl (show_a a) = Ok prog /\ compile true fl (show_a (plus_a a)) = Ok prog'
      /\ match matches prog input 0 st0, matches prog' input 0 st0 with
         | MTrue _, MTrue _ | MFalse _, MFalse _ => True
         | _, _ => False
         end.
Proof. exact plus_law_end_to_end. Qed.

Theorem C20_optional_law_end_to_end_partial :
  forall fl a input,
    ok_a (f_xpath fl) a = true -> f_literal fl = false -> f_ws fl = false -> (N.of_nat (length input) < umax)%N -> valid_in input ->
    exists prog prog', compile true fl (show_a a) = Ok prog /\ compile true fl (show_a (opt_a a)) = Ok prog'
      /\ match matches prog input 0 st0, matches prog' input 0 st0 with
         | MTrue _, MTrue _ | MFalse _, MFalse _ => True
         | _, _ => False
         end.
Proof. exact opt_law_end_to_end. Qed.

(* r{n,} = n copies of r then r*, for a character r, with n as written in the pattern (decimal digits,
   [dec ds]): every c{n,} (and c{n,}?) of a pattern of the grammar spelled as c...cc* (c...cc*?) *)
Theorem C20_at_least_law_end_to_end_partial :
  forall fl a input,
    ok_a (f_xpath fl) a = true -> f_literal fl = false -> f_ws fl = false -> (N.of_nat (length input) < umax)%N -> valid_in input ->
    exists prog prog', compile true fl (show_a a) = Ok prog /\ compile true fl (show_a (atl_a a)) = Ok prog'
      /\ match matches prog input 0 st0, matches prog' input 0 st0 with
         | MTrue _, MTrue _ | MFalse _, MFalse _ => True
         | _, _ => False
         end.
Proof. exact at_least_law_end_to_end. Qed.

(* r{n,m} = n copies of r then m-n copies of (?:r)?, for a character r and n < m as written in the pattern:
   every c{n,m} (c{n,m}?) spelled as c...cc?...c? (c...cc??...c??) *)
Theorem C20_bounded_law_end_to_end_partial :
  forall fl a input,
    ok_a (f_xpath fl) a = true -> f_literal fl = false -> f_ws fl = false -> (N.of_nat (length input) < umax)%N -> valid_in input ->
    exists prog prog', compile true fl (show_a a) = Ok prog /\ compile true fl (show_a (bnd_a a)) = Ok prog'
      /\ match matches prog input 0 st0, matches prog' input 0 st0 with
         | MTrue _, MTrue _ | MFalse _, MFalse _ => True
         | _, _ => False
         end.
Proof. exact bounded_law_end_to_end. Qed.

(* r|r = r (read right to left: the last alternative of every alternation, the whole pattern's included, written twice) *)
Theorem C20_duplicate_law_end_to_end_partial :
  forall fl a input,
    ok_a (f_xpath fl) a = true -> f_literal fl = false -> f_ws fl = false -> (N.of_nat (length input) < umax)%N -> valid_in input ->
    exists prog prog', compile true fl (show_a a) = Ok prog /\ compile true fl (show_a (dup_a a)) = Ok prog'
      /\ match matches prog input 0 st0, matches prog' input 0 st0 with
         | MTrue _, MTrue _ | MFalse _, MFalse _ => True
         | _, _ => False
         end.
Proof. exact duplicate_law_end_to_end. Qed.

(* a capturing group (the grammar has no back-references) turned into a non-capturing one, everywhere (XPath) *)
Theorem C20_uncapture_law_end_to_end_partial :
  forall fl a input, f_xpath fl = true ->
    ok_a true a = true -> f_literal fl = false -> f_ws fl = false -> (N.of_nat (length input) < umax)%N -> valid_in input ->
    exists prog prog', compile true fl (show_a a) = Ok prog /\ compile true fl (show_a (uncap_a a)) = Ok prog'
      /\ match matches prog input 0 st0, matches prog' input 0 st0 with
         | MTrue _, MTrue _ | MFalse _, MFalse _ => True
         | _, _ => False
         end.
Proof. exact uncapture_law_end_to_end. Qed.

(* wrapping a term in (?: ): every quantified character of the pattern (XPath) *)
Theorem C20_wrap_law_end_to_end_partial :
  forall fl a input, f_xpath fl = true ->
    ok_a true a = true -> f_literal fl = false -> f_ws fl = false -> (N.of_nat (length input) < umax)%N -> valid_in input ->
    exists prog prog', compile true fl (show_a a) = Ok prog /\ compile true fl (show_a (wrap_a a)) = Ok prog'
      /\ match matches prog input 0 st0, matches prog' input 0 st0 with
         | MTrue _, MTrue _ | MFalse _, MFalse _ => True
         | _, _ => False
         end.
Proof. exact wrap_law_end_to_end. Qed.

(* r{n} = n copies of r, for a character: every c{n} spelled c...c (the copies join the runs around them) *)
Theorem C20_exact_law_end_to_end_partial :
  forall fl a input,
    ok_a (f_xpath fl) a = true -> f_literal fl = false -> f_ws fl = false -> (N.of_nat (length input) < umax)%N -> valid_in input ->
    exists prog prog', compile true fl (show_a a) = Ok prog /\ compile true fl (show_a (exa_a a)) = Ok prog'
      /\ match matches prog input 0 st0, matches prog' input 0 st0 with
         | MTrue _, MTrue _ | MFalse _, MFalse _ => True
         | _, _ => False
         end.
Proof. exact exact_law_end_to_end. Qed.

(* (?:r|s)t = rt|st : every alternative that is a two-way non-capturing group followed by a rest t becomes the
   two alternatives rt and st ([app_b]: show_b (app_b r t) = show_b r ++ show_b t) *)
Theorem C20_distribute_law_end_to_end_partial :
  forall fl a input,
    ok_a (f_xpath fl) a = true -> f_literal fl = false -> f_ws fl = false -> (N.of_nat (length input) < umax)%N -> valid_in input ->
    exists prog prog', compile true fl (show_a a) = Ok prog /\ compile true fl (show_a (dist_a a)) = Ok prog'
      /\ match matches prog input 0 st0, matches prog' input 0 st0 with
         | MTrue _, MTrue _ | MFalse _, MFalse _ => True
         | _, _ => False
         end.
Proof. exact distribute_law_end_to_end. Qed.
Theorem C20_distribute_law_text : forall t b1, show_b (app_b b1 t) = show_b b1 ++ show_b t.
Proof. exact show_app. Qed.

Print Assumptions C20_wrap_noncapturing_spec.
Print Assumptions C20_group_to_noncapturing_spec.
Print Assumptions C20_alt_idempotent_spec.
Print Assumptions C20_alt_commutative_spec.
Print Assumptions C20_quant_one_spec.
Print Assumptions C20_quant_zero_spec.
Print Assumptions C20_plus_spec.
Print Assumptions C20_at_least_spec.
Print Assumptions C20_bounded_spec.
Print Assumptions C20_distribute_spec.
Print Assumptions C20_char_class_spec.
Print Assumptions C20_class_alt_spec.
Print Assumptions C20_plus_law_end_to_end_partial.
Print Assumptions C20_optional_law_end_to_end_partial.
Print Assumptions C20_at_least_law_end_to_end_partial.
Print Assumptions C20_bounded_law_end_to_end_partial.
Print Assumptions C20_duplicate_law_end_to_end_partial.
Print Assumptions C20_uncapture_law_end_to_end_partial.
Print Assumptions C20_wrap_law_end_to_end_partial.
Print Assumptions C20_exact_law_end_to_end_partial.
Print Assumptions C20_distribute_law_end_to_end_partial.
Print Assumptions C20_distribute_law_text.
