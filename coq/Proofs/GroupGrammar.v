(* The pattern parser of the model on the grammar of literals, alternation and (capturing and
   non-capturing) groups, nested to any depth:

     regexp ::= branch ( '|' branch )*        branch ::= ( run | group | qchar | dot )*
     group  ::= '(' regexp ')' | '(?:' regexp ')'      run ::= ordinary characters
     qchar  ::= ordinary character ( '?' | '*' | '+' | '{n}' | '{n,}' | '{n,m}' ) [ '?' ]
     dot    ::= ( '.' | '\\s' | '\\S' | '\\i' | '\\I' | '\\c' | '\\C' | '\\d' | '\\D' | '\\w' | '\\W' ) [ ( '?' | '*' | '+' | '{n}' | '{n,}' | '{n,m}' ) [ '?' ] ]
            (flag s decides what the dot matches; the class escapes are the sets of Proofs/EscFacts.v)
   and, under XPath, the anchors '^' and '$' as pieces of a branch.

   Grammar trees [branch] / [alt] are printed to pattern text by [show_b] / [show_a]; they have a
   denotation [Db] / [Da] (the list of end positions of the matches from a start position) that
   mentions neither parser.  This file proves that the model's parser, run on the printed text,
   returns an operation tree of the engine fragment whose results are that denotation;
   Proofs/GroupSpec.v proves the same of the specification's parser and semantics, and joins them. *)
From RX Require Import Base.Prelude Base.InvList Tables.Consts Model.Case Model.Op Model.Engine Model.Matcher
     Model.Compiler Spec.Syntax Spec.Sem Proofs.EngineFacts Proofs.LowerFacts Proofs.QuantLaws Proofs.FixedFacts Proofs.OrderFacts Proofs.OrderFixed
     Proofs.PlainPattern Proofs.FrameFacts Proofs.InvListFacts Proofs.SmallFacts Proofs.EscFacts.

(* ---------------------------------------------------------------- grammar trees *)
(* a counted quantifier {n}, {n,} or {n,m}: the bounds as they are written, in decimal digits *)
Inductive brk := BrExact | BrOpen | BrTo (ds2 : list N).
Inductive qk := QOpt | QStar | QPlus | QBr (ds : list N) (m : brk).
Definition dec (ds : list N) : N := fold_left (fun a d => a * 10 + (d - 48))%N ds 0%N.
Definition qsym (k : qk) : N := match k with QOpt => 63 | QStar => 42 | QPlus => 43 | QBr _ _ => 123 end.
(* what follows the first symbol of the quantifier *)
Definition qtl (k : qk) : list N :=
  match k with
  | QBr ds m => ds ++ match m with BrExact => [] | BrOpen => [44%N] | BrTo ds2 => 44%N :: ds2 end ++ [125%N]
  | _ => []
  end.
Definition qmin (k : qk) : N := match k with QPlus => 1 | QBr ds _ => dec ds | _ => 0 end.
Definition qmax (k : qk) : N :=                                                       (* the engine's bound *)
  match k with QOpt => 1 | QBr ds BrExact => dec ds | QBr _ (BrTo ds2) => dec ds2 | _ => umax end.
Definition qmaxo (k : qk) : option N :=                                               (* the specification's *)
  match k with QOpt => Some 1%N | QBr ds BrExact => Some (dec ds) | QBr _ (BrTo ds2) => Some (dec ds2) | _ => None end.
(* well-formed bounds: digits only, at most 19 of them (so that they fit a 64-bit word), n <= m, m > 0,
   and not {1} / {1,1} (which the compiler drops: the atom itself is returned) *)
Definition digs (ds : list N) : bool := negb (Nat.eqb (length ds) 0) && forallb is_digit ds && Nat.leb (length ds) 19.
Definition okq (k : qk) : bool :=
  match k with
  | QBr ds m => digs ds && match m with BrTo ds2 => digs ds2 && (dec ds <=? dec ds2)%N | _ => true end
                && (0 <? qmax k)%N && negb ((qmin k =? 1)%N && (qmax k =? 1)%N)
  | _ => true
  end.

(* a one-character atom that is a class: the dot, or one of \s \S \i \I \c \C \d \D \w \W (by its letter) *)
Inductive datom := ADot | AE (e : N).
Definition okat (a : datom) : bool := match a with ADot => true | AE e => okesc e end.
Definition datext (a : datom) : list N := match a with ADot => [46%N] | AE e => [92%N; e] end.

Inductive branch :=
| BEnd (cs : list N)                                   (* a final run, possibly empty *)
| BGrp (cs : list N) (cap : bool) (a : alt) (b : branch)   (* a run, possibly empty, a group, the rest *)
| BQ (cs : list N) (c : N) (k : qk) (rel : bool) (b : branch)   (* a run, a quantified character, the rest *)
| BAn (cs : list N) (eol : bool) (b : branch)               (* a run, '^' or '$' (XPath), the rest *)
| BD (cs : list N) (da : datom) (q : option (qk * bool)) (b : branch)   (* a run, '.' or a class escape, possibly quantified (kind, reluctant?), the rest *)
with alt :=
| AOne (b : branch)
| ACons (b : branch) (a : alt).

Scheme branch_mind := Induction for branch Sort Prop
  with alt_mind := Induction for alt Sort Prop.
Combined Scheme branch_alt_ind from branch_mind, alt_mind.

Definition qtext (q : option (qk * bool)) : list N :=
  match q with Some (k, rel) => qsym k :: qtl k ++ (if rel then [63%N] else []) | None => [] end.

Fixpoint show_b (b : branch) : list N :=
  match b with
  | BEnd cs => cs
  | BGrp cs cap a b' => cs ++ 40%N :: (if cap then [] else [63%N; 58%N]) ++ show_a a ++ 41%N :: show_b b'
  | BQ cs c k rel b' => cs ++ c :: qsym k :: qtl k ++ (if rel then [63%N] else []) ++ show_b b'
  | BAn cs eol b' => cs ++ (if eol then 36%N else 94%N) :: show_b b'
  | BD cs da q b' => cs ++ datext da ++ qtext q ++ show_b b'
  end
with show_a (a : alt) : list N :=
  match a with
  | AOne b => show_b b
  | ACons b a' => show_b b ++ 124%N :: show_a a'
  end.

Definition okqq (xpath : bool) (q : option (qk * bool)) : bool :=
  match q with Some (k, rel) => (negb rel || xpath) && okq k | None => true end.

(* runs are made of ordinary characters; '(?:' exists under XPath only *)
Fixpoint ok_b (xpath : bool) (b : branch) : bool :=
  match b with
  | BEnd cs => forallb ordinary cs
  | BGrp cs cap a b' => forallb ordinary cs && (cap || xpath) && ok_a xpath a && ok_b xpath b'
  | BQ cs c k rel b' => forallb ordinary cs && ordinary c && (negb rel || xpath) && okq k && ok_b xpath b'
  | BAn cs eol b' => forallb ordinary cs && xpath && ok_b xpath b'
  | BD cs da q b' => forallb ordinary cs && okat da && okqq xpath q && ok_b xpath b'
  end
with ok_a (xpath : bool) (a : alt) : bool :=
  match a with
  | AOne b => ok_b xpath b
  | ACons b a' => ok_b xpath b && ok_a xpath a'
  end.

(* --- facts about well-formed bounds --- *)
Lemma decf_bound : forall ds a, forallb is_digit ds = true ->
  (fold_left (fun a d => a * 10 + (d - 48)) ds a + 1 <= (a + 1) * 10 ^ N.of_nat (length ds))%N.
Proof.
  induction ds as [|d t IH]; intros a Hd.
  - cbn [fold_left length]. change (10 ^ N.of_nat 0)%N with 1%N. lia.
  - cbn [forallb] in Hd. apply andb_true_iff in Hd as [Hd Ht]. cbn [fold_left].
    specialize (IH (a * 10 + (d - 48))%N Ht).
    unfold is_digit in Hd. apply andb_true_iff in Hd as [D1 D2]. apply N.leb_le in D1, D2.
    replace (N.of_nat (length (d :: t))) with (N.succ (N.of_nat (length t))) by (cbn [length]; lia).
    rewrite N.pow_succ_r'. set (P := (10 ^ N.of_nat (length t))%N) in *.
    assert ((a * 10 + (d - 48) + 1) * P <= (a + 1) * (10 * P))%N; [|lia].
    replace ((a + 1) * (10 * P))%N with ((a * 10 + 10) * P)%N by lia.
    apply N.mul_le_mono_r. lia.
Qed.
Lemma digs_bound ds : digs ds = true -> (dec ds < umax)%N.
Proof.
  unfold digs. intros H. apply andb_true_iff in H as [H L]. apply andb_true_iff in H as [_ D].
  apply Nat.leb_le in L. pose proof (decf_bound ds 0%N D) as B. fold (dec ds) in B.
  assert (10 ^ N.of_nat (length ds) <= 10 ^ 19)%N by (apply N.pow_le_mono_r; lia).
  assert (10 ^ 19 < umax)%N by (vm_compute; reflexivity). lia.
Qed.
Lemma okq_facts k : okq k = true ->
  (0 < qmax k)%N /\ (qmin k <= qmax k)%N /\ mx_opt (qmax k) = qmaxo k
  /\ match qmaxo k with Some m => (qmin k <= m)%N | None => True end
  /\ ((qmin k =? 1) && (qmax k =? 1))%N = false.
Proof.
  destruct k as [| | |ds m]; intros H.
  1-3: cbn [qmin qmax qmaxo]; repeat split; try reflexivity; try exact I; try (cbv [umax]; lia).
  cbn [okq] in H. apply andb_true_iff in H as [H N11]. apply andb_true_iff in H as [H Pos].
  apply andb_true_iff in H as [D1 Hm]. apply N.ltb_lt in Pos. apply negb_true_iff in N11.
  pose proof (digs_bound ds D1) as B1.
  destruct m as [| |ds2]; cbn [qmin qmax qmaxo] in *.
  - split; [exact Pos|]. split; [lia|]. split; [unfold mx_opt; replace (dec ds <? umax)%N with true by (symmetry; apply N.ltb_lt; exact B1); reflexivity|].
    split; [lia|exact N11].
  - split; [exact Pos|]. split; [lia|]. split; [reflexivity|]. split; [exact I|exact N11].
  - apply andb_true_iff in Hm as [D2 Le]. apply N.leb_le in Le. pose proof (digs_bound ds2 D2) as B2.
    split; [exact Pos|]. split; [exact Le|]. split; [unfold mx_opt; replace (dec ds2 <? umax)%N with true by (symmetry; apply N.ltb_lt; exact B2); reflexivity|].
    split; [exact Le|exact N11].
Qed.

(* what may follow a branch / a regexp in a well-formed pattern *)
Definition term_b (post : list N) : Prop := post = [] \/ exists t, post = 124%N :: t \/ post = 41%N :: t.
Definition term_a (post : list N) : Prop := post = [] \/ exists t, post = 41%N :: t.

(* the first character of a printed tree, if any: never a quantifier or '?' *)
Definition head_fine (l : list N) : Prop :=
  match l with
  | [] => True
  | c :: _ => ordinary c = true \/ c = 40%N \/ c = 41%N \/ c = 124%N \/ c = 94%N \/ c = 36%N \/ c = 46%N \/ c = 92%N
  end.

(* ... in particular *)
Lemma head_fine_nq c t : head_fine (c :: t) ->
  (c =? 63 = false /\ c =? 42 = false /\ c =? 43 = false /\ c =? 123 = false)%N.
Proof.
  cbn. intros [Ho|[->|[->|[->|[->|[->|[->| ->]]]]]]]; try (repeat split; reflexivity).
  destruct (ordinary_tests c Ho) as (_ & _ & _ & _ & _ & T6 & _ & _ & _ & _ & _ & T12 & T13 & T14).
  cbv delta [c_lbrace c_qmark c_star c_plus] in *. auto.
Qed.

Lemma head_fine_b xpath b post : ok_b xpath b = true -> term_b post -> head_fine (show_b b ++ post).
Proof.
  intros Hok Ht. destruct b as [cs|cs cap a b'|cs c0 k rel b'|cs eol b'|cs da q b']; cbn [show_b ok_b] in *.
  - destruct cs as [|c t]; cbn [app].
    + destruct Ht as [->|(t & [->| ->])]; cbn; auto.
    + cbn [forallb] in Hok. apply andb_true_iff in Hok as [Hc _]. cbn. auto.
  - destruct cs as [|c t]; cbn [app]; [cbn; auto|].
    do 3 (apply andb_true_iff in Hok as [Hok ?]). cbn [forallb] in Hok. apply andb_true_iff in Hok as [Hc _]. cbn. auto.
  - do 4 (apply andb_true_iff in Hok as [Hok ?]). destruct cs as [|c t]; cbn [app]; [cbn; auto|].
    cbn [forallb] in Hok. apply andb_true_iff in Hok as [Hc _]. cbn. auto.
  - do 2 (apply andb_true_iff in Hok as [Hok ?]). destruct cs as [|c t]; cbn [app]; [destruct eol; cbn; auto 10|].
    cbn [forallb] in Hok. apply andb_true_iff in Hok as [Hc _]. cbn. auto.
  - do 3 (apply andb_true_iff in Hok as [Hok ?]). destruct cs as [|c t]; cbn [app]; [destruct da; cbn; auto 10|].
    cbn [forallb] in Hok. apply andb_true_iff in Hok as [Hc _]. cbn. auto.
Qed.

Lemma head_fine_a xpath a post : ok_a xpath a = true -> term_a post -> head_fine (show_a a ++ post).
Proof.
  intros Hok Ht. destruct a as [b|b a']; cbn [show_a ok_a] in *.
  - apply (head_fine_b xpath); auto. destruct Ht as [->|(t & ->)]; [left; auto|right; eauto].
  - apply andb_true_iff in Hok as [Hb _]. rewrite <- app_assoc. apply (head_fine_b xpath); auto.
    right. eexists. left. reflexivity.
Qed.

(* ---------------------------------------------------------------- denotation *)
Definition da_re (da : datom) : re := match da with ADot => RDot | AE e => REsc (esc_of e) end.

Section Den.
Variable input : list N.
Variable ci multi single : bool.
Let n := length input.

Definition lit (cs : list N) (p : nat) : list nat :=
  if Nat.ltb n (p + length cs) then []
  else if starts_with (ceq ci) cs (skipn p input) then [p + length cs] else [].

(* a quantified character means what the specification says of it; flags other than i play no part *)
Definition fl_of : sflags := {| s_i := ci; s_m := multi; s_s := single; s_x := false; s_q := false |}.
Definition Dq (c : N) (k : qk) (rel : bool) (p : nat) : list nat :=
  ends fl_of input (RQuant (RChar c) (qmin k) (qmaxo k) (negb rel)) p.

(* the regular expression a (possibly quantified) dot stands for; its meaning is the specification's (flag s) *)
Definition dot_re (da : datom) (q : option (qk * bool)) : re :=
  match q with Some (k, rel) => RQuant (da_re da) (qmin k) (qmaxo k) (negb rel) | None => da_re da end.
Definition Dd (da : datom) (q : option (qk * bool)) (p : nat) : list nat := ends fl_of input (dot_re da q) p.

(* an anchor holds where the specification says it does (flag m) *)
Definition Dan (eol : bool) (p : nat) : list nat := ends fl_of input (if eol then REol else RBol) p.

Fixpoint Db (b : branch) (p : nat) : list nat :=
  match b with
  | BEnd cs => lit cs p
  | BGrp cs cap a b' => flat_map (Db b') (flat_map (Da a) (lit cs p))
  | BQ cs c k rel b' => flat_map (Db b') (flat_map (Dq c k rel) (lit cs p))
  | BAn cs eol b' => flat_map (Db b') (flat_map (Dan eol) (lit cs p))
  | BD cs da q b' => flat_map (Db b') (flat_map (Dd da q) (lit cs p))
  end
with Da (a : alt) (p : nat) : list nat :=
  match a with
  | AOne b => Db b p
  | ACons b a' => Db b p ++ Da a' p
  end.

(* the same in priority order (first = preferred): what the engine enumerates, what the
   specification's ordered semantics enumerates; greedy quantifiers list the longer matches first *)
Definition DqO (c : N) (k : qk) (rel : bool) (p : nat) : list nat :=
  map fst (Sem.R fl_of input (RQuant (RChar c) (qmin k) (qmaxo k) (negb rel)) p []).
Definition DanO (eol : bool) (p : nat) : list nat :=
  map fst (Sem.R fl_of input (if eol then REol else RBol) p []).
Definition DdO (da : datom) (q : option (qk * bool)) (p : nat) : list nat := map fst (Sem.R fl_of input (dot_re da q) p []).
Fixpoint DbO (b : branch) (p : nat) : list nat :=
  match b with
  | BEnd cs => lit cs p
  | BGrp cs cap a b' => flat_map (DbO b') (flat_map (DaO a) (lit cs p))
  | BQ cs c k rel b' => flat_map (DbO b') (flat_map (DqO c k rel) (lit cs p))
  | BAn cs eol b' => flat_map (DbO b') (flat_map (DanO eol) (lit cs p))
  | BD cs da q b' => flat_map (DbO b') (flat_map (DdO da q) (lit cs p))
  end
with DaO (a : alt) (p : nat) : list nat :=
  match a with
  | AOne b => DbO b p
  | ACons b a' => DbO b p ++ DaO a' p
  end.

Lemma lit_nil p : p <= n -> lit [] p = [p].
Proof.
  intros H. unfold lit. cbn [length starts_with]. rewrite Nat.add_0_r.
  replace (Nat.ltb n p) with false by (symmetry; apply Nat.ltb_ge; lia). reflexivity.
Qed.
Lemma lit_le cs p q : In q (lit cs p) -> q <= n /\ p <= q.
Proof.
  unfold lit. destruct (Nat.ltb n (p + length cs)) eqn:L; [intros []|]. apply Nat.ltb_ge in L.
  destruct (starts_with _ _ _); [|intros []]. intros [<-|[]]. lia.
Qed.
Lemma Dq_le c k rel p q : okq k = true -> p <= n -> In q (Dq c k rel p) -> q <= n.
Proof.
  intros Hk Hp H. unfold Dq in H. eapply (ends_le fl_of input); [|exact Hp|exact H].
  cbn [quant_wf]. split; [exact I|]. apply (okq_facts k Hk).
Qed.
Lemma Dan_le eol p q : p <= n -> In q (Dan eol p) -> q <= n.
Proof.
  intros Hp H. unfold Dan in H. eapply (ends_le fl_of input); [|exact Hp|exact H]. destruct eol; exact I.
Qed.
Lemma Dd_le xpath da q p m : okqq xpath q = true -> p <= n -> In m (Dd da q p) -> m <= n.
Proof.
  intros Hk Hp H. unfold Dd in H. eapply (ends_le fl_of input); [|exact Hp|exact H].
  destruct q as [[k rel]|]; cbn [dot_re quant_wf]; [|destruct da; exact I]. split; [destruct da; exact I|].
  cbn [okqq] in Hk. apply andb_true_iff in Hk as [_ Hk]. apply (okq_facts k Hk).
Qed.
End Den.

(* an input is a string of Unicode scalar values (what a Rust &str holds) *)
Definition valid_in (input : list N) : Prop := forall c, In c input -> is_scalar c = true.
Lemma valid_nil : valid_in [].
Proof. intros c []. Qed.

Lemma skipn_add {A} (l : list A) : forall x y, skipn x (skipn y l) = skipn (x + y) l.
Proof.
  induction l as [|h t IH]; intros x [|y]; rewrite ?Nat.add_0_r; cbn [skipn]; try reflexivity.
  - destruct x; reflexivity.
  - rewrite IH. replace (x + S y) with (S (x + y)) by lia. reflexivity.
Qed.

Definition eqv (l1 l2 : list nat) : Prop := forall q, In q l1 <-> In q l2.

(* ---------------------------------------------------------------- the model's parser *)
Section MP.
Variable pat : list N.
Variable xpath ci single : bool.
Variable input : list N.
Variable multi : bool.
Variable K : nat.
Let len := length pat.
Let n := length input.
Let good (o : op) : Prop := simple input ci multi false K o.
Let R (o : op) : nat -> list nat := Rop input ci multi o.
Let Ro (c : option op) (p : nat) : list nat := match c with Some o => R o p | None => [p] end.
Let goodo (c : option op) : Prop := match c with Some o => good o | None => True end.
Hypothesis Hfit : (N.of_nat n < umax)%N.
Hypothesis Hvalid : valid_in input.

(* positions in the pattern text *)
Lemma at_skipn i : at_ pat i = hd_error (skipn i pat).
Proof.
  unfold at_. revert i. induction pat as [|x t IH]; intros [|i]; cbn; auto.
Qed.
Lemma skipn_step i c t : skipn i pat = c :: t -> skipn (i + 1) pat = t /\ i < len.
Proof.
  intros H. split.
  - replace (i + 1) with (1 + i) by lia. rewrite <- skipn_add, H. reflexivity.
  - destruct (Nat.lt_ge_cases i len) as [L|L]; auto. unfold len in L. rewrite skipn_all2 in H by lia. discriminate.
Qed.
Lemma skipn_nil_len i : i <= len -> skipn i pat = [] -> i = len.
Proof.
  intros Hi H. pose proof (skipn_length i pat) as L. rewrite H in L. cbn in L. fold len in L. lia.
Qed.
Lemma skipn_app_len i (x y : list N) : skipn i pat = x ++ y -> skipn (i + length x) pat = y.
Proof.
  intros H. replace (i + length x) with (length x + i) by lia. rewrite <- skipn_add, H.
  rewrite skipn_app, skipn_all, Nat.sub_diag. reflexivity.
Qed.
Lemma is_at_hd i c t x : skipn i pat = c :: t -> is_at pat i x = (c =? x)%N.
Proof. intros H. unfold is_at. rewrite at_skipn, H. reflexivity. Qed.

(* escape() on a class escape *)
Lemma escape_class st e t : okesc e = true -> skipn (idx st) pat = 92%N :: e :: t ->
  escape pat xpath false st = Ok (ESet (esc_set e), adv 2 st).
Proof.
  intros He Hs. destruct (skipn_step _ _ _ Hs) as [Hs1 Hlt]. destruct (skipn_step _ _ _ Hs1) as [_ Hlt1].
  unfold escape. fold len. rewrite (at_skipn (idx st)), Hs. cbn [hd_error]. change (92 =? c_bslash)%N with true. cbn [negb].
  replace (Nat.leb len (idx st + 1)) with false by (symmetry; apply Nat.leb_gt; clear - Hlt1; lia).
  rewrite (at_skipn (idx st + 1)), Hs1. cbn [hd_error].
  destruct (okesc_cases e He) as [->|[->|[->|[->|[->|[->|[->|[->|[->| ->]]]]]]]]]; reflexivity.
Qed.

(* --- the atom scanner over a run of ordinary characters --- *)
(* where a run ends: at a character the scanner stops at, or at a class escape *)
Definition pstop (c : N) : Prop := c = 40%N \/ c = 41%N \/ c = 124%N \/ c = 46%N \/ (xpath = true /\ (c = 94%N \/ c = 36%N)).
Definition estop (l : list N) : Prop := exists e t, l = 92%N :: e :: t /\ okesc e = true.
Definition stops (l : list N) : Prop :=
  match l with
  | [] => True
  | c :: t => pstop c \/ estop (c :: t)
  end.

(* what the scanner does at such a character *)
Lemma stops_tests c : pstop c ->
  (c =? c_bslash)%N = false
  /\ forall (A : Type) (x y z w v : A),
       (if ((c =? c_rbrack) || (c =? c_dot) || (c =? c_lbrack) || (c =? c_lparen) || (c =? c_rparen) || (c =? c_bar))%N then x
        else if is_quant c then y
        else if (c =? c_rbrace)%N then z
        else if (c =? c_bslash)%N then w
        else if (((c =? c_caret) || (c =? c_dollar)) && xpath)%N then x
        else v) = x.
Proof.
  unfold pstop. intros [->|[->|[->|[->|(Hx & [->| ->])]]]]; (split; [reflexivity|]); intros A x y z w v; try reflexivity;
    rewrite Hx; reflexivity.
Qed.

Lemma atom_loop_run : forall cs fuel st ub post, forallb ordinary cs = true -> stops post ->
  skipn (idx st) pat = cs ++ post -> idx st <= len -> length cs < fuel ->
  atom_loop pat xpath fuel st ub = Ok (rev cs ++ ub, set_idx (idx st + length cs) st).
Proof.
  induction cs as [|ch cs IH]; intros fuel st ub post Ho Hst Hs Hi Hf; (destruct fuel as [|f]; [cbn in Hf; lia|]).
  - cbn [app] in Hs. cbn [atom_loop rev app length]. fold len. rewrite Nat.add_0_r.
    destruct (Nat.leb len (idx st)) eqn:L; [rewrite set_idx_same; reflexivity|]. apply Nat.leb_gt in L.
    destruct post as [|c t]; [apply skipn_nil_len in Hs; lia|].
    destruct Hst as [Hp|(e & t' & E & He)].
    2:{ (* at a class escape: the scanner calls escape() twice and hands back the state it started with *)
      injection E as -> ->.
      destruct (skipn_step _ _ _ Hs) as [Hs1 Hlt]. destruct (skipn_step _ _ _ Hs1) as [_ Hlt1].
      replace (Nat.ltb (idx st + 1) len) with true by (symmetry; apply Nat.ltb_lt; lia).
      rewrite (at_skipn (idx st + 1)), Hs1. cbn [hd_error].
      rewrite (is_at_hd _ _ _ c_bslash Hs). change (92 =? c_bslash)%N with true. cbv iota.
      rewrite (escape_class st e t' He Hs). cbn [rbind].
      set (st_r := {| idx := idx st; parens := parens (adv 2 st); bmin := bmin (adv 2 st); bmax := bmax (adv 2 st);
                      captures := captures (adv 2 st); hasbr := hasbr (adv 2 st) |}).
      assert (HsR : skipn (idx st_r) pat = 92%N :: e :: t') by exact Hs.
      match goal with |- (if ?b then _ else _) = _ => destruct b end; [reflexivity|].
      rewrite (at_skipn (idx st_r)), HsR. cbn [hd_error].
      change (92 =? c_rbrack)%N with false. change (92 =? c_dot)%N with false. change (92 =? c_lbrack)%N with false.
      change (92 =? c_lparen)%N with false. change (92 =? c_rparen)%N with false. change (92 =? c_bar)%N with false.
      change (is_quant 92%N) with false. change (92 =? c_rbrace)%N with false. change (92 =? c_bslash)%N with true.
      cbn [orb]. cbv iota. rewrite (escape_class st_r e t' He HsR). reflexivity. }
    rewrite set_idx_same.
    destruct (stops_tests c Hp) as [Hbs Hsel].
    assert (Hb : is_at pat (idx st) c_bslash = false) by (rewrite (is_at_hd _ _ _ _ Hs); exact Hbs).
    assert (Tail : (match at_ pat (idx st) with
              | None => Panic 35
              | Some ch0 =>
                  if (ch0 =? c_rbrack) || (ch0 =? c_dot) || (ch0 =? c_lbrack) || (ch0 =? c_lparen)
                     || (ch0 =? c_rparen) || (ch0 =? c_bar) then Ok (ub, st)
                  else if is_quant ch0 then match ub with [] => Err ESyntax | _ => Ok (ub, st) end
                  else if ch0 =? c_rbrace then Err ESyntax
                  else if ch0 =? c_bslash then
                    '(e, st') <- escape pat xpath false st ;;
                    match e with
                    | EChar c => atom_loop pat xpath f st' (c :: ub)
                    | _ => Ok (ub, {| idx := idx st; parens := parens st'; bmin := bmin st'; bmax := bmax st';
                                      captures := captures st'; hasbr := hasbr st' |})
                    end
                  else if ((ch0 =? c_caret) || (ch0 =? c_dollar)) && xpath then Ok (ub, st)
                  else atom_loop pat xpath f (adv 1 st) (ch0 :: ub)
              end)%N = Ok (ub, st)).
    { rewrite at_skipn, Hs. cbn [hd_error]. apply Hsel. }
    destruct (Nat.ltb (idx st + 1) len) eqn:L1.
    + rewrite at_skipn. destruct (skipn_step _ _ _ Hs) as [Hs1 _]. rewrite Hs1, Hb.
      destruct t as [|c2 t2]; cbn [hd_error].
      * apply skipn_nil_len in Hs1; [|lia]. apply Nat.ltb_lt in L1. lia.
      * cbn [rbind]. destruct (is_quant c2 && _); [reflexivity|exact Tail].
    + cbn [rbind]. exact Tail.
  - cbn [app] in Hs. cbn [forallb] in Ho. apply andb_true_iff in Ho as [Oc Ho]. cbn [length] in Hf.
    destruct (skipn_step _ _ _ Hs) as [Hs1 Hlt].
    destruct (ordinary_tests ch Oc) as (T1 & T2 & T3 & T4 & T5 & T6 & T7 & T8 & T9 & T10 & T11 & T12 & T13 & T14).
    cbn [atom_loop]. fold len.
    replace (Nat.leb len (idx st)) with false by (symmetry; apply Nat.leb_gt; lia).
    assert (Hb : is_at pat (idx st) c_bslash = false) by (rewrite (is_at_hd _ _ _ _ Hs); exact T1).
    assert (Tail : (match at_ pat (idx st) with
              | None => Panic 35
              | Some ch0 =>
                  if (ch0 =? c_rbrack) || (ch0 =? c_dot) || (ch0 =? c_lbrack) || (ch0 =? c_lparen)
                     || (ch0 =? c_rparen) || (ch0 =? c_bar) then Ok (ub, st)
                  else if is_quant ch0 then match ub with [] => Err ESyntax | _ => Ok (ub, st) end
                  else if ch0 =? c_rbrace then Err ESyntax
                  else if ch0 =? c_bslash then
                    '(e, st') <- escape pat xpath false st ;;
                    match e with
                    | EChar c => atom_loop pat xpath f st' (c :: ub)
                    | _ => Ok (ub, {| idx := idx st; parens := parens st'; bmin := bmin st'; bmax := bmax st';
                                      captures := captures st'; hasbr := hasbr st' |})
                    end
                  else if ((ch0 =? c_caret) || (ch0 =? c_dollar)) && xpath then Ok (ub, st)
                  else atom_loop pat xpath f (adv 1 st) (ch0 :: ub)
              end)%N = Ok (rev (ch :: cs) ++ ub, set_idx (idx st + length (ch :: cs)) st)).
    { rewrite at_skipn, Hs. cbn [hd_error]. rewrite T3, T9, T2, T4, T5, T8. cbn [orb].
      rewrite (ordinary_not_quant ch Oc), T7, T1, T10, T11. cbn [orb andb].
      rewrite (IH f (adv 1 st) (ch :: ub) post Ho Hst) by (unfold adv, set_idx; cbn [idx]; auto; lia).
      unfold adv, set_idx. cbn [idx parens bmin bmax captures hasbr rev length].
      rewrite <- app_assoc. cbn [app]. f_equal. f_equal. f_equal. lia. }
    destruct (Nat.ltb (idx st + 1) len) eqn:L1.
    + rewrite at_skipn, Hs1, Hb.
      assert (Hq : match (cs ++ post) with [] => True | c :: _ => is_quant c = false end).
      { destruct cs as [|c2 cs2]; cbn [app].
        - destruct post as [|c2 t2]; auto. cbn in Hst. destruct Hst as [[->|[->|[->|[->|(_ & [->| ->])]]]]|(e & t' & E & _)]; try reflexivity.
          injection E as -> _. reflexivity.
        - cbn [forallb] in Ho. apply andb_true_iff in Ho as [Oc2 _]. apply ordinary_not_quant. exact Oc2. }
      destruct (cs ++ post) as [|c2 t2]; cbn [hd_error].
      * apply skipn_nil_len in Hs1; [|lia]. apply Nat.ltb_lt in L1. lia.
      * cbn [rbind]. rewrite Hq. cbn [andb]. exact Tail.
    + cbn [rbind]. exact Tail.
Qed.


(* --- a quantified character: the scanner leaves it out of the run before it --- *)
Lemma atom_loop_runq : forall cs fuel st ub c sym t, forallb ordinary cs = true -> ordinary c = true ->
  is_quant sym = true -> skipn (idx st) pat = cs ++ c :: sym :: t -> idx st <= len -> length cs < fuel ->
  (cs <> [] \/ ub <> []) ->
  atom_loop pat xpath fuel st ub = Ok (rev cs ++ ub, set_idx (idx st + length cs) st).
Proof.
  induction cs as [|ch cs IH]; intros fuel st ub c sym t Ho Oc Hq Hs Hi Hf Hne; (destruct fuel as [|f]; [cbn in Hf; lia|]).
  - destruct Hne as [Hne|Hne]; [contradiction|]. cbn [app] in Hs.
    cbn [atom_loop rev app length]. fold len. rewrite Nat.add_0_r, set_idx_same.
    destruct (skipn_step _ _ _ Hs) as [Hs1 Hlt]. destruct (skipn_step _ _ _ Hs1) as [_ Hlt1].
    replace (Nat.leb len (idx st)) with false by (symmetry; apply Nat.leb_gt; lia).
    replace (Nat.ltb (idx st + 1) len) with true by (symmetry; apply Nat.ltb_lt; lia).
    rewrite at_skipn, Hs1. cbn [hd_error].
    destruct (ordinary_tests c Oc) as (T1 & _).
    rewrite (is_at_hd _ _ _ c_bslash Hs), T1. cbn [rbind]. rewrite Hq.
    destruct ub; [contradiction|]. reflexivity.
  - cbn [app] in Hs. cbn [forallb] in Ho. apply andb_true_iff in Ho as [Och Ho]. cbn [length] in Hf.
    destruct (skipn_step _ _ _ Hs) as [Hs1 Hlt].
    destruct (ordinary_tests ch Och) as (T1 & T2 & T3 & T4 & T5 & T6 & T7 & T8 & T9 & T10 & T11 & T12 & T13 & T14).
    cbn [atom_loop]. fold len.
    replace (Nat.leb len (idx st)) with false by (symmetry; apply Nat.leb_gt; lia).
    assert (Hb : is_at pat (idx st) c_bslash = false) by (rewrite (is_at_hd _ _ _ _ Hs); exact T1).
    assert (Hnx : exists c2 t2, cs ++ c :: sym :: t = c2 :: t2 /\ is_quant c2 = false).
    { destruct cs as [|c2 cs2]; cbn [app].
      - eexists _, _. split; [reflexivity|]. apply ordinary_not_quant. exact Oc.
      - cbn [forallb] in Ho. apply andb_true_iff in Ho as [Oc2 _]. eexists _, _. split; [reflexivity|].
        apply ordinary_not_quant. exact Oc2. }
    destruct Hnx as (c2 & t2 & Enx & Hq2). rewrite Enx in Hs1.
    destruct (skipn_step _ _ _ Hs1) as [_ Hlt1].
    replace (Nat.ltb (idx st + 1) len) with true by (symmetry; apply Nat.ltb_lt; lia).
    rewrite at_skipn, Hs1, Hb. cbn [hd_error rbind]. rewrite Hq2. cbn [andb].
    rewrite at_skipn, Hs. cbn [hd_error]. rewrite T3, T9, T2, T4, T5, T8. cbn [orb].
    rewrite (ordinary_not_quant ch Och), T7, T1, T10, T11. cbn [orb andb].
    rewrite <- Enx in Hs1.
    rewrite (IH f (adv 1 st) (ch :: ub) c sym t Ho Oc Hq) by (unfold adv, set_idx; cbn [idx]; auto; try lia; right; discriminate).
    unfold adv, set_idx. cbn [idx parens bmin bmax captures hasbr rev length].
    rewrite <- app_assoc. cbn [app]. f_equal. f_equal. f_equal. lia.
Qed.

Lemma qsym_facts k : is_quant (qsym k) = true
  /\ ((qsym k =? c_rbrack) || (qsym k =? c_dot) || (qsym k =? c_lbrack) || (qsym k =? c_lparen)
      || (qsym k =? c_rparen) || (qsym k =? c_bar))%N = false
  /\ (qsym k =? c_bslash)%N = false.
Proof. destruct k; repeat split; reflexivity. Qed.

Lemma atom_loop_at_quant f st ub k t : ub <> [] -> skipn (idx st) pat = qsym k :: t -> idx st <= len ->
  atom_loop pat xpath (S f) st ub = Ok (ub, st).
Proof.
  intros Hne Hs Hi. destruct (qsym_facts k) as (Q1 & Q2 & Q3).
  destruct (skipn_step _ _ _ Hs) as [Hs1 Hlt].
  cbn [atom_loop]. fold len.
  replace (Nat.leb len (idx st)) with false by (symmetry; apply Nat.leb_gt; lia).
  rewrite (is_at_hd _ _ _ c_bslash Hs), Q3.
  destruct (Nat.ltb (idx st + 1) len) eqn:L2.
  - rewrite (at_skipn (idx st + 1)), Hs1. destruct t as [|c3 t3]; cbn [hd_error].
    + apply skipn_nil_len in Hs1; [|lia]. apply Nat.ltb_lt in L2. lia.
    + cbn [rbind]. destruct (is_quant c3 && _); [reflexivity|].
      rewrite (at_skipn (idx st)), Hs. cbn [hd_error]. rewrite Q2, Q1. destruct ub; [contradiction|reflexivity].
  - cbn [rbind]. rewrite (at_skipn (idx st)), Hs. cbn [hd_error]. rewrite Q2, Q1. destruct ub; [contradiction|reflexivity].
Qed.

Lemma atom_loop_single f st c k t : ordinary c = true ->
  skipn (idx st) pat = c :: qsym k :: t -> idx st <= len ->
  atom_loop pat xpath (S (S f)) st [] = Ok ([c], adv 1 st).
Proof.
  intros Oc Hs Hi. destruct (qsym_facts k) as (Q1 & Q2 & Q3).
  destruct (skipn_step _ _ _ Hs) as [Hs1 Hlt]. destruct (skipn_step _ _ _ Hs1) as [Hs2 Hlt1].
  destruct (ordinary_tests c Oc) as (T1 & T2 & T3 & T4 & T5 & T6 & T7 & T8 & T9 & T10 & T11 & T12 & T13 & T14).
  assert (Next : atom_loop pat xpath (S f) (adv 1 st) [c] = Ok ([c], adv 1 st)).
  { apply (atom_loop_at_quant f (adv 1 st) [c] k t); [discriminate|exact Hs1|unfold adv, set_idx; cbn [idx]; lia]. }
  remember (S f) as f1 eqn:Ef1.
  cbn [atom_loop]. fold len.
  replace (Nat.leb len (idx st)) with false by (symmetry; apply Nat.leb_gt; lia).
  replace (Nat.ltb (idx st + 1) len) with true by (symmetry; apply Nat.ltb_lt; lia).
  rewrite (at_skipn (idx st + 1)), Hs1. cbn [hd_error]. rewrite (is_at_hd _ _ _ c_bslash Hs), T1. cbn [rbind andb negb].
  rewrite andb_false_r.
  rewrite (at_skipn (idx st)), Hs. cbn [hd_error]. rewrite T3, T9, T2, T4, T5, T8. cbn [orb].
  rewrite (ordinary_not_quant c Oc), T7, T1, T10, T11. cbn [orb andb].
  exact Next.
Qed.

(* --- no quantifier follows: quantify hands the term back --- *)
Lemma quantify_none ret st : idx st <= len -> head_fine (skipn (idx st) pat) ->
  quantify pat xpath ret st = Ok (ret, st).
Proof.
  intros Hi Hh. unfold quantify. fold len.
  destruct (Nat.leb len (idx st)) eqn:L; [reflexivity|]. apply Nat.leb_gt in L.
  destruct (skipn (idx st) pat) as [|c t] eqn:Hs; [apply skipn_nil_len in Hs; lia|].
  rewrite at_skipn, Hs. cbn [hd_error].
  assert (Q : (c =? c_qmark = false /\ c =? c_star = false /\ c =? c_plus = false /\ c =? c_lbrace = false)%N).
  { destruct (head_fine_nq c t Hh) as (N1 & N2 & N3 & N4). repeat split; assumption. }
  destruct Q as (Q1 & Q2 & Q3 & Q4). rewrite Q1, Q2, Q3, Q4. cbn [orb rbind].
  rewrite (is_at_hd _ _ _ _ Hs), Q1, andb_false_r. cbn [rbind]. rewrite ?Q1, ?Q2, ?Q3, ?Q4. reflexivity.
Qed.

(* --- the engine's meaning of make_sequence --- *)
Lemma good_all_app (l1 l2 : list op) :
  (fix all l := match l with [] => True | x :: t => simple input ci multi false K x /\ all t end) l1 ->
  (fix all l := match l with [] => True | x :: t => simple input ci multi false K x /\ all t end) l2 ->
  (fix all l := match l with [] => True | x :: t => simple input ci multi false K x /\ all t end) (l1 ++ l2).
Proof. induction l1 as [|x t IH]; intros H1 H2; [exact H2|]. destruct H1 as [Hx H1]. split; [exact Hx|apply IH; auto]. Qed.

Definition as_list (o : op) : list op := match o with OSeq l => l | _ => [o] end.
Lemma make_sequence_list a b : make_sequence a b = OSeq (as_list a ++ as_list b).
Proof. destruct a; destruct b; reflexivity. Qed.
Lemma good_as_list a : good a ->
  as_list a <> [] /\ (fix all l := match l with [] => True | x :: t => simple input ci multi false K x /\ all t end) (as_list a).
Proof.
  unfold good. intros H. destruct a; cbn [as_list]; try (split; [discriminate|split; [exact H|exact I]]).
  cbn [simple] in H. exact H.
Qed.
Lemma good_make_sequence a b : good a -> good b -> good (make_sequence a b).
Proof.
  intros Ha Hb. destruct (good_as_list a Ha) as [Na Aa]. destruct (good_as_list b Hb) as [Nb Ab].
  rewrite make_sequence_list. unfold good. cbn [simple]. split.
  - intros E. apply app_eq_nil in E. destruct E as [E _]. contradiction.
  - apply good_all_app; assumption.
Qed.

Definition sg : list op -> nat -> list nat :=
  fix go (os : list op) (p : nat) : list nat :=
    match os with
    | [] => []
    | [o1] => R o1 p
    | o1 :: os' => flat_map (fun q => go os' q) (R o1 p)
    end.
Lemma R_seq os p : R (OSeq os) p = sg os p.
Proof. reflexivity. Qed.
Lemma sg_app l1 l2 : l1 <> [] -> l2 <> [] ->
  forall p q, In q (sg (l1 ++ l2) p) <-> exists m, In m (sg l1 p) /\ In q (sg l2 m).
Proof.
  induction l1 as [|o1 t IH]; intros N1 N2 p q; [contradiction|]. destruct t as [|o2 t'].
  - cbn [app]. destruct l2 as [|x l2']; [contradiction|].
    change (sg (o1 :: x :: l2') p) with (flat_map (sg (x :: l2')) (R o1 p)). rewrite in_flat_map. reflexivity.
  - change (sg ((o1 :: o2 :: t') ++ l2) p) with (flat_map (sg ((o2 :: t') ++ l2)) (R o1 p)).
    change (sg (o1 :: o2 :: t') p) with (flat_map (sg (o2 :: t')) (R o1 p)).
    rewrite in_flat_map. split.
    + intros (x & Hx & Hq). apply (IH ltac:(discriminate) N2) in Hq. destruct Hq as (m & Hm & Hq).
      exists m. split; [apply in_flat_map; eauto|exact Hq].
    + intros (m & Hm & Hq). apply in_flat_map in Hm. destruct Hm as (x & Hx & Hm).
      exists x. split; [exact Hx|]. apply (IH ltac:(discriminate) N2). eauto.
Qed.
Lemma R_as_list a p : R a p = sg (as_list a) p.
Proof. destruct a; reflexivity. Qed.
Lemma R_make_sequence a b p q : good a -> good b ->
  (In q (R (make_sequence a b) p) <-> exists m, In m (R a p) /\ In q (R b m)).
Proof.
  intros Ha Hb. destruct (good_as_list a Ha) as [Na _]. destruct (good_as_list b Hb) as [Nb _].
  rewrite make_sequence_list, R_seq, (sg_app _ _ Na Nb). split; intros (m & Hm & Hq); exists m.
  - rewrite !R_as_list. auto.
  - rewrite <- !R_as_list. auto.
Qed.

(* --- one-step unfoldings --- *)
Lemma parse_terminal_S f st : parse_terminal pat xpath ci single (S f) st =
  match at_ pat (idx st) with
  | None => Panic 38
  | Some c =>
      if ((c =? c_dollar) && xpath)%N then Ok (OEol, adv 1 st)
      else if ((c =? c_caret) && xpath)%N then Ok (OBol, adv 1 st)
      else if (c =? c_dot)%N then Ok (OCls (if single then all else dot_set), adv 1 st)
      else if (c =? c_lbrack)%N then ('(s, st') <- parse_cc pat xpath ci (len + len + 4) st ;; Ok (OCls s, st'))
      else if (c =? c_lparen)%N then parse_expr pat xpath ci single f false st
      else if (c =? c_rparen)%N then Err ESyntax
      else if (c =? c_bar)%N then Err EInternal
      else if (c =? c_rbrack)%N then Err ESyntax
      else if is_quant c then Err ESyntax
      else if (c =? c_bslash)%N then
        '(e, st') <- escape pat xpath false st ;;
        match e with
        | EBackref g => if Nat.leb (parens st') g then Err ESyntax else Ok (OBackref g, st')
        | EChar _ => parse_atom pat xpath {| idx := idx st; parens := parens st'; bmin := bmin st'; bmax := bmax st';
                                             captures := captures st'; hasbr := hasbr st' |}
        | ESet s => Ok (OCls s, st')
        end
      else parse_atom pat xpath st
  end.
Proof. reflexivity. Qed.

Lemma parse_expr_grp_S f st : parse_expr pat xpath ci single (S f) false st =
  let close_parens := parens st in
  '(paren, group, st1) <-
     (match at_ pat (idx st) with
      | None => Panic 37
      | Some c =>
          if (c =? c_lparen)%N then
            if Nat.ltb (idx st + 2) len && is_at pat (idx st + 1) c_qmark && is_at pat (idx st + 2) c_colon then
              if negb xpath then Err ESyntax else Ok (Some false, O, adv 3 st)
            else
              Ok (Some true, parens st,
                  {| idx := S (idx st); parens := S (parens st); bmin := bmin st; bmax := bmax st;
                     captures := captures st; hasbr := hasbr st |})
          else Ok (None, O, st)
      end) ;;
  '(b, st2) <- parse_branch pat xpath ci single f st1 ;;
  '(branches, st3) <- branches_loop pat xpath ci single f st2 [b] ;;
  let o := match branches with [x] => x | _ => OChoice (rev branches) end in
  match paren with
  | Some capturing =>
      if Nat.ltb (idx st3) len && is_at pat (idx st3) c_rparen then
        let st4 := adv 1 st3 in
        if capturing then
          Ok (OCapture group o,
              {| idx := idx st4; parens := parens st4; bmin := bmin st4; bmax := bmax st4;
                 captures := close_parens :: captures st4; hasbr := hasbr st4 |})
        else Ok (o, st4)
      else Err ESyntax
  | None => Ok (make_sequence o OEnd, st3)
  end.
Proof. reflexivity. Qed.

(* --- a run of ordinary characters is one piece --- *)
Lemma stops_head_fine post : stops post -> head_fine post.
Proof. destruct post as [|c t]; cbn; auto. intros [[H|[H|[H|[H|(_ & [H|H])]]]]|(e & t' & E & _)]; auto 12. injection E as -> _. auto 12. Qed.

Lemma skipn_len_le i (x y : list N) : skipn i pat = x ++ y -> i <= len -> i + length x + length y = len.
Proof.
  intros H Hi. pose proof (skipn_length i pat) as L. rewrite H, app_length in L. fold len in L. lia.
Qed.

Lemma piece_run f st c cs post : forallb ordinary (c :: cs) = true -> stops post ->
  skipn (idx st) pat = (c :: cs) ++ post -> idx st <= len ->
  piece pat xpath ci single (S (S f)) st = Ok (OAtom (c :: cs), set_idx (idx st + length (c :: cs)) st).
Proof.
  intros Ho Hst Hs Hi. pose proof (skipn_len_le _ _ _ Hs Hi) as Hl.
  pose proof Ho as Ho'. cbn [forallb] in Ho'. apply andb_true_iff in Ho' as [Oc _].
  destruct (ordinary_tests c Oc) as (T1 & T2 & T3 & T4 & T5 & T6 & T7 & T8 & T9 & T10 & T11 & T12 & T13 & T14).
  rewrite piece_S, parse_terminal_S, at_skipn, Hs. cbn [app hd_error].
  rewrite T11, T10, T9, T2, T4, T5, T8, T3, (ordinary_not_quant c Oc), T1. cbn [andb].
  unfold parse_atom. fold len.
  rewrite (atom_loop_run (c :: cs) (len + 2) st [] post Ho Hst Hs Hi) by lia. cbn [rbind].
  rewrite app_nil_r.
  destruct (rev (c :: cs)) as [|x t] eqn:E.
  { exfalso. assert (H : rev (rev (c :: cs)) = []) by (rewrite E; reflexivity). rewrite rev_involutive in H. discriminate. }
  rewrite <- E, rev_involutive.
  apply quantify_none.
  - unfold set_idx. cbn [idx]. lia.
  - unfold set_idx. cbn [idx]. rewrite (skipn_app_len _ _ _ Hs). apply stops_head_fine. exact Hst.
Qed.

(* the loop of a branch stops at '|' , ')' and the end of the pattern *)
Lemma branch_loop_stop f st cur : idx st <= len -> term_b (skipn (idx st) pat) ->
  branch_loop pat xpath ci single (S f) st cur = Ok (cur, st).
Proof.
  intros Hi Ht. rewrite branch_loop_S. fold len. destruct Ht as [E|(t & [E|E])].
  - apply skipn_nil_len in E; auto. rewrite E, Nat.ltb_irrefl. reflexivity.
  - rewrite (is_at_hd _ _ _ c_bar E). cbn [N.eqb]. change (124 =? c_bar)%N with true. cbn [negb]. rewrite andb_false_r. reflexivity.
  - rewrite (is_at_hd _ _ _ c_rparen E). change (41 =? c_rparen)%N with true. cbn [negb]. rewrite andb_false_r. reflexivity.
Qed.

Lemma Ro_le c p q : goodo c -> p <= n -> In q (Ro c p) -> q <= n.
Proof.
  destruct c as [o|]; cbn [Ro goodo]; intros Hg Hp Hq.
  - exact (Rop_le_n input ci multi false K o p q Hg Hp Hq).
  - destruct Hq as [<-|[]]. exact Hp.
Qed.

(* combining the term parsed so far with the next one *)
Definition push (cur : option op) (o : op) : option op :=
  Some (match cur with Some c => make_sequence c o | None => o end).
Lemma push_good cur o : goodo cur -> good o -> goodo (push cur o).
Proof. destruct cur; cbn [push goodo]; intros; [apply good_make_sequence|]; auto. Qed.
Lemma push_sem cur o p q : goodo cur -> good o ->
  (In q (Ro (push cur o) p) <-> exists m, In m (Ro cur p) /\ In q (R o m)).
Proof.
  destruct cur as [c|]; cbn [push Ro goodo]; intros Hc Ho.
  - apply R_make_sequence; auto.
  - split; [intros H; exists p; cbn; auto|intros (m & [<-|[]] & H); exact H].
Qed.

Definition alt_op0 (bs : list op) : op := match bs with [x] => x | _ => OChoice (rev bs) end.
(* capture numbers start at 1 (the frame property of Proofs/FrameFacts.v needs it) *)
Let fro (c : option op) : Prop := match c with Some o => framed o | None => True end.
Lemma framed_all_app (l1 l2 : list op) :
  (fix all l := match l with [] => True | x :: t => framed x /\ all t end) l1 ->
  (fix all l := match l with [] => True | x :: t => framed x /\ all t end) l2 ->
  (fix all l := match l with [] => True | x :: t => framed x /\ all t end) (l1 ++ l2).
Proof. induction l1 as [|x t IH]; intros H1 H2; [exact H2|]. destruct H1 as [Hx H1]. split; [exact Hx|apply IH; auto]. Qed.
Lemma framed_as_list a : framed a -> (fix all l := match l with [] => True | x :: t => framed x /\ all t end) (as_list a).
Proof. intros H. destruct a; cbn [as_list]; try (split; [exact H|exact I]). exact H. Qed.
Lemma framed_make_sequence a b : framed a -> framed b -> framed (make_sequence a b).
Proof.
  intros Ha Hb. rewrite make_sequence_list. cbn [framed]. apply framed_all_app; apply framed_as_list; assumption.
Qed.
Lemma push_fr cur o : fro cur -> framed o -> fro (push cur o).
Proof. destruct cur; cbn [push fro]; intros; [apply framed_make_sequence|]; auto. Qed.
Lemma framed_choice bs : Forall framed bs -> framed (OChoice bs).
Proof. intros H. cbn [framed]. induction H as [|x t Hx Ht IH]; [exact I|]. split; [exact Hx|exact IH]. Qed.
Lemma alt_op_framed bs : Forall framed bs -> bs <> [] -> framed (alt_op0 bs).
Proof.
  intros H Hne. destruct bs as [|x [|y t]]; [contradiction| |].
  - inversion H; auto.
  - apply framed_choice. apply Forall_rev. exact H.
Qed.


(* --- a quantified character --- *)
Definition qopr (ret : op) (k : qk) (rel : bool) : op :=
  (if rel then ORFixed else OGFixed) ret (qmin k) (qmax k) 1%N.
Definition qop (c : N) (k : qk) (rel : bool) : op := qopr (OAtom [c]) k rel.

(* --- the digits of a counted quantifier --- *)
Lemma digits_run : forall ds f i acc x t, forallb is_digit ds = true -> is_digit x = false ->
  skipn i pat = ds ++ x :: t -> length ds <= f ->
  digits pat f i acc = (i + length ds, fold_left (fun a d => a * 10 + (d - 48))%N ds acc).
Proof.
  induction ds as [|d ds IH]; intros f i acc x t Hd Hx Hs Hf.
  - cbn [app] in Hs. cbn [length fold_left]. rewrite Nat.add_0_r. destruct f as [|f]; [reflexivity|].
    cbn [digits]. rewrite at_skipn, Hs. cbn [hd_error]. rewrite Hx. reflexivity.
  - cbn [app] in Hs. cbn [forallb] in Hd. apply andb_true_iff in Hd as [Hd Ht]. cbn [length] in Hf.
    destruct f as [|f]; [lia|]. cbn [digits]. rewrite at_skipn, Hs. cbn [hd_error]. rewrite Hd.
    destruct (skipn_step _ _ _ Hs) as [Hs1 _]. replace (i + 1) with (S i) in Hs1 by lia.
    rewrite (IH f (S i) _ x t Ht Hx Hs1) by lia. cbn [length fold_left]. f_equal. lia.
Qed.
Lemma digs_split ds : digs ds = true -> exists d t, ds = d :: t /\ is_digit d = true /\ forallb is_digit ds = true.
Proof.
  unfold digs. intros H. apply andb_true_iff in H as [H _]. apply andb_true_iff in H as [Ne D].
  destruct ds as [|d t]; [discriminate|]. exists d, t. split; [reflexivity|]. split; [|exact D].
  cbn [forallb] in D. apply andb_true_iff in D as [D _]. exact D.
Qed.

Lemma bracket_run st ds m post : okq (QBr ds m) = true ->
  skipn (idx st) pat = 123%N :: qtl (QBr ds m) ++ post -> idx st <= len ->
  bracket pat st = Ok {| idx := idx st + 1 + length (qtl (QBr ds m)); parens := parens st; bmin := dec ds;
                         bmax := qmax (QBr ds m); captures := captures st; hasbr := hasbr st |}.
Proof.
  intros Hk Hs Hi.
  assert (Hk' := Hk). cbn [okq] in Hk'. apply andb_true_iff in Hk' as [Hk' _]. apply andb_true_iff in Hk' as [Hk' _].
  apply andb_true_iff in Hk' as [D1 Hm].
  destruct (digs_split ds D1) as (d & dt & Eds & Dd & Dall). pose proof (digs_bound ds D1) as B1.
  destruct (skipn_step _ _ _ Hs) as [Hs1 Hlt]. replace (idx st + 1) with (S (idx st)) in Hs1 by lia.
  unfold bracket. fold len.
  replace (Nat.leb len (idx st)) with false by (symmetry; apply Nat.leb_gt; lia).
  rewrite (is_at_hd _ _ _ c_lbrace Hs). change (123 =? c_lbrace)%N with true. cbn [negb].
  (* the text after '{' : the digits, then a non-digit *)
  assert (Hx : exists x t, qtl (QBr ds m) ++ post = ds ++ x :: t /\ is_digit x = false
            /\ match m with BrExact => x = 125%N /\ t = post | BrOpen => x = 44%N /\ t = 125%N :: post
               | BrTo d2 => x = 44%N /\ t = d2 ++ 125%N :: post end).
  { cbn [qtl]. destruct m as [| |d2]; rewrite <- !app_assoc; cbn [app]; eexists _, _; (split; [reflexivity|]); split; auto. }
  destruct Hx as (x & t & Ex & Dx & Hxm). rewrite Ex in Hs1.
  assert (L1 : S (idx st) + length ds + length (x :: t) = len).
  { pose proof (skipn_length (S (idx st)) pat) as L. rewrite Hs1, app_length in L. fold len in L. cbn [length] in *. lia. }
  cbn [length] in L1.
  replace (Nat.leb len (S (idx st))) with false by (symmetry; apply Nat.leb_gt; subst ds; cbn [length] in L1; lia).
  rewrite (at_skipn (S (idx st))), Hs1. rewrite Eds at 1. cbn [app hd_error]. rewrite Dd. cbn [negb orb].
  rewrite (digits_run ds len (S (idx st)) 0%N x t Dall Dx Hs1) by lia. fold (dec ds).
  replace (umax <? dec ds)%N with false by (symmetry; apply N.ltb_ge; lia).
  set (i := S (idx st) + length ds).
  pose proof (skipn_app_len _ _ _ Hs1) as Hs2. fold i in Hs2.
  replace (Nat.leb len i) with false by (symmetry; apply Nat.leb_gt; subst i; lia).
  rewrite (is_at_hd _ _ _ c_rbrace Hs2), (is_at_hd _ _ _ c_comma Hs2).
  destruct m as [| |d2].
  - destruct Hxm as [-> ->]. change (125 =? c_rbrace)%N with true. cbv iota.
    cbn [qtl qmax app]. rewrite app_length. cbn [length]. do 2 f_equal. subst i. lia.
  - destruct Hxm as [-> ->]. change (44 =? c_rbrace)%N with false. change (44 =? c_comma)%N with true. cbn [negb]. cbv iota.
    destruct (skipn_step _ _ _ Hs2) as [Hs3 Hlt2]. replace (i + 1) with (S i) in Hs3 by lia.
    destruct (skipn_step _ _ _ Hs3) as [_ Hlt3].
    replace (Nat.leb len (S i)) with false by (symmetry; apply Nat.leb_gt; lia).
    rewrite (is_at_hd _ _ _ c_rbrace Hs3). change (125 =? c_rbrace)%N with true. cbv iota.
    cbn [qtl qmax app]. rewrite app_length. cbn [length]. do 2 f_equal. subst i. lia.
  - destruct Hxm as [-> ->]. change (44 =? c_rbrace)%N with false. change (44 =? c_comma)%N with true. cbn [negb]. cbv iota.
    apply andb_true_iff in Hm as [D2 Le]. apply N.leb_le in Le.
    destruct (digs_split d2 D2) as (e & et & Ed2 & De & Dall2). pose proof (digs_bound d2 D2) as B2.
    destruct (skipn_step _ _ _ Hs2) as [Hs3 Hlt2]. replace (i + 1) with (S i) in Hs3 by lia.
    assert (L3 : S i + length d2 + length (125%N :: post) = len).
    { pose proof (skipn_length (S i) pat) as L. rewrite Hs3, app_length in L. fold len in L. cbn [length] in *. lia. }
    cbn [length] in L3.
    replace (Nat.leb len (S i)) with false by (symmetry; apply Nat.leb_gt; lia).
    assert (Hs3' := Hs3). rewrite Ed2 in Hs3'. cbn [app] in Hs3'.
    rewrite (is_at_hd _ _ _ c_rbrace Hs3').
    assert (Ne : (e =? c_rbrace)%N = false).
    { unfold is_digit in De. apply andb_true_iff in De as [_ De]. apply N.leb_le in De. apply N.eqb_neq. cbv [c_rbrace]. lia. }
    rewrite Ne. rewrite (at_skipn (S i)), Hs3'. cbn [hd_error]. rewrite De. cbn [negb].
    assert (D125 : is_digit 125%N = false) by reflexivity.
    rewrite (digits_run d2 len (S i) 0%N 125%N post Dall2 D125 Hs3) by lia. fold (dec d2).
    replace (umax <? dec d2)%N with false by (symmetry; apply N.ltb_ge; lia).
    replace (dec d2 <? dec ds)%N with false by (symmetry; apply N.ltb_ge; lia).
    pose proof (skipn_app_len _ _ _ Hs3) as Hs4.
    replace (Nat.leb len (S i + length d2)) with false by (symmetry; apply Nat.leb_gt; lia).
    rewrite (is_at_hd _ _ _ c_rbrace Hs4). change (125 =? c_rbrace)%N with true. cbn [negb orb].
    cbn [qtl qmax app]. rewrite app_length. cbn [length]. rewrite app_length. cbn [length]. do 2 f_equal. subst i. lia.
Qed.

(* the state after a quantifier: only the position (and the scratch bounds) differ *)
Definition st_after (k : nat) (st st' : cst) : Prop :=
  idx st' = idx st + k /\ parens st' = parens st /\ hasbr st' = hasbr st /\ captures st' = captures st.

Lemma quantify_fixed1 ret k rel st rest : is_bol_eol ret = false -> mes ret = zls_never -> match_length ret = Some 1%N ->
  negb rel || xpath = true -> okq k = true -> head_fine rest ->
  skipn (idx st) pat = qsym k :: qtl k ++ (if rel then [63%N] else []) ++ rest -> idx st <= len ->
  exists st', quantify pat xpath ret st = Ok (qopr ret k rel, st')
    /\ st_after (1 + length (qtl k) + (if rel then 1 else 0)) st st'.
Proof.
  intros Hbe Hmes Hml Hx Hk Hh Hs Hi. destruct (skipn_step _ _ _ Hs) as [Hs1 Hlt].
  unfold quantify. fold len.
  replace (Nat.leb len (idx st)) with false by (symmetry; apply Nat.leb_gt; lia).
  rewrite (at_skipn (idx st)), Hs. cbn [hd_error].
  (* the optional '?' after the quantifier, read from a state st1 placed just after it *)
  assert (G : forall st1, skipn (idx st1) pat = (if rel then [63%N] else []) ++ rest -> idx st1 <= len ->
             (if Nat.ltb (idx st1) len && is_at pat (idx st1) 63%N
               then if negb xpath then Err ESyntax else Ok (false, adv 1 st1)
               else Ok (true, st1)) = Ok (negb rel, if rel then adv 1 st1 else st1)).
  { intros st1 Hs2 Hi2. destruct rel; cbn [app negb] in *.
    - cbn [orb] in Hx. rewrite Hx. destruct (skipn_step _ _ _ Hs2) as [_ Hlt1].
      replace (Nat.ltb (idx st1) len) with true by (symmetry; apply Nat.ltb_lt; lia).
      rewrite (is_at_hd _ _ _ 63%N Hs2). change (63 =? 63)%N with true. reflexivity.
    - destruct rest as [|c2 t2].
      + apply skipn_nil_len in Hs2; [|lia]. rewrite Hs2, Nat.ltb_irrefl. reflexivity.
      + rewrite (is_at_hd _ _ _ 63%N Hs2).
        assert (c2 =? 63 = false)%N by (apply (head_fine_nq c2 t2 Hh)).
        rewrite H, andb_false_r. reflexivity. }
  destruct k as [| | |ds m].
  1-3: cbn [qsym qtl app length] in *; cbv [c_qmark c_star c_plus c_lbrace]; cbn [N.eqb Pos.eqb orb rbind];
    rewrite Hbe, Hmes; change (zls_never =? zls_any)%N with false; cbv iota; cbn [rbind];
    rewrite (G (adv 1 st)) by (unfold adv, set_idx; cbn [idx]; first [exact Hs1|lia]); cbn [rbind];
    rewrite Hml; destruct rel; (eexists; split; [reflexivity|]); unfold st_after, adv, set_idx; cbn [idx parens hasbr captures];
    repeat split; lia.
  (* a counted quantifier *)
  cbn [qsym] in *. change (123 =? c_qmark)%N with false. change (123 =? c_star)%N with false.
  change (123 =? c_plus)%N with false. change (123 =? c_lbrace)%N with true. cbn [orb andb]. cbv iota.
  rewrite (bracket_run st ds m _ Hk Hs Hi). cbn [rbind].
  set (st1 := {| idx := idx st + 1 + length (qtl (QBr ds m)); parens := parens st; bmin := dec ds;
                 bmax := qmax (QBr ds m); captures := captures st; hasbr := hasbr st |}).
  rewrite Hbe, Hmes. change (zls_never =? zls_any)%N with false. cbv iota. cbn [rbind].
  assert (Hs2 : skipn (idx st1) pat = (if rel then [63%N] else []) ++ rest).
  { subst st1. cbn [idx]. rewrite <- Nat.add_assoc. replace (1 + length (qtl (QBr ds m))) with (length (123%N :: qtl (QBr ds m))) by reflexivity.
    apply skipn_app_len. rewrite Hs. reflexivity. }
  assert (Hi2 : idx st1 <= len).
  { subst st1. cbn [idx]. pose proof (skipn_length (idx st) pat) as L. rewrite Hs in L. fold len in L.
    cbn [length] in L. rewrite app_length in L. lia. }
  change (is_at pat (idx st1) c_qmark) with (is_at pat (idx st1) 63%N).
  rewrite (G st1 Hs2 Hi2). cbn [rbind]. change (123 =? c_lbrace)%N with true. cbv iota.
  destruct (okq_facts _ Hk) as (Pos & Le & _ & _ & N11).
  replace (bmin (if rel then adv 1 st1 else st1)) with (qmin (QBr ds m)) by (destruct rel; reflexivity).
  replace (bmax (if rel then adv 1 st1 else st1)) with (qmax (QBr ds m)) by (destruct rel; reflexivity).
  replace (qmax (QBr ds m) =? 0)%N with false by (symmetry; apply N.eqb_neq; lia).
  rewrite N11, Hml. cbn [opt_N_eqb]. change (1 =? 0)%N with false. change (0 <? 1)%N with true. cbv iota.
  destruct rel; (eexists; split; [cbn [negb]; reflexivity|]);
  unfold st_after; subst st1; unfold adv, set_idx; cbn [idx parens hasbr captures]; repeat split; lia.
Qed.
Lemma quantify_char c k rel st rest : negb rel || xpath = true -> okq k = true -> head_fine rest ->
  skipn (idx st) pat = qsym k :: qtl k ++ (if rel then [63%N] else []) ++ rest -> idx st <= len ->
  exists st', quantify pat xpath (OAtom [c]) st = Ok (qop c k rel, st')
    /\ st_after (1 + length (qtl k) + (if rel then 1 else 0)) st st'.
Proof. exact (quantify_fixed1 (OAtom [c]) k rel st rest eq_refl eq_refl eq_refl). Qed.

Lemma piece_runq f st c0 cs c k t : forallb ordinary (c0 :: cs) = true -> ordinary c = true ->
  skipn (idx st) pat = (c0 :: cs) ++ c :: qsym k :: t -> idx st <= len ->
  piece pat xpath ci single (S (S f)) st = Ok (OAtom (c0 :: cs), set_idx (idx st + length (c0 :: cs)) st).
Proof.
  intros Ho Oc Hs Hi.
  assert (Hl : idx st + length (c0 :: cs) + length (c :: qsym k :: t) = len) by (apply skipn_len_le; auto).
  pose proof Ho as Ho'. cbn [forallb] in Ho'. apply andb_true_iff in Ho' as [Oc0 _].
  destruct (ordinary_tests c0 Oc0) as (T1 & T2 & T3 & T4 & T5 & T6 & T7 & T8 & T9 & T10 & T11 & T12 & T13 & T14).
  rewrite piece_S, parse_terminal_S, (at_skipn (idx st)), Hs. cbn [app hd_error].
  rewrite T11, T10, T9, T2, T4, T5, T8, T3, (ordinary_not_quant c0 Oc0), T1. cbn [andb].
  unfold parse_atom. fold len.
  rewrite (atom_loop_runq (c0 :: cs) (len + 2) st [] c (qsym k) t Ho Oc (proj1 (qsym_facts k)) Hs Hi)
    by (cbn [length] in *; try lia; left; discriminate).
  cbn [rbind]. rewrite app_nil_r.
  destruct (rev (c0 :: cs)) as [|x t'] eqn:E.
  { exfalso. assert (H : rev (rev (c0 :: cs)) = []) by (rewrite E; reflexivity). rewrite rev_involutive in H. discriminate. }
  rewrite <- E, rev_involutive.
  apply quantify_none.
  - unfold set_idx. cbn [idx]. cbn [length] in *. lia.
  - unfold set_idx. cbn [idx]. rewrite (skipn_app_len _ _ _ Hs). cbn. auto.
Qed.

Lemma piece_qchar f st c k rel rest : ordinary c = true -> negb rel || xpath = true -> okq k = true -> head_fine rest ->
  skipn (idx st) pat = c :: qsym k :: qtl k ++ (if rel then [63%N] else []) ++ rest -> idx st <= len ->
  exists st', piece pat xpath ci single (S (S f)) st = Ok (qop c k rel, st')
    /\ st_after (2 + length (qtl k) + (if rel then 1 else 0)) st st'.
Proof.
  intros Oc Hx Hk Hh Hs Hi. destruct (skipn_step _ _ _ Hs) as [Hs1 Hlt].
  assert (Hl : idx st + 1 + length (qsym k :: qtl k ++ (if rel then [63%N] else []) ++ rest) = len).
  { pose proof (skipn_length (idx st) pat) as L. rewrite Hs in L. fold len in L. cbn [length] in *. lia. }
  destruct (ordinary_tests c Oc) as (T1 & T2 & T3 & T4 & T5 & T6 & T7 & T8 & T9 & T10 & T11 & T12 & T13 & T14).
  rewrite piece_S, parse_terminal_S, (at_skipn (idx st)), Hs. cbn [hd_error].
  rewrite T11, T10, T9, T2, T4, T5, T8, T3, (ordinary_not_quant c Oc), T1. cbn [andb].
  unfold parse_atom. fold len.
  replace (len + 2) with (S (S len)) by lia.
  rewrite (atom_loop_single len st c k _ Oc Hs Hi). cbn [rbind rev app].
  destruct (quantify_char c k rel (adv 1 st) rest Hx Hk Hh Hs1) as (st' & E & A1 & A2 & A3 & A4);
    [unfold adv, set_idx; cbn [idx]; lia|].
  exists st'. split; [exact E|]. unfold adv, set_idx in *. cbn [idx parens hasbr captures] in *.
  unfold st_after. repeat split; try lia; assumption.
Qed.

Lemma qop_good c k rel : good (qop c k rel).
Proof.
  unfold good, qop. assert (H : forall p q, In q (Rop input ci multi (OAtom [c]) p) -> q = p + N.to_nat 1).
  { intros p q. cbn [Rop length]. destruct (Nat.ltb (length input) (p + 1)); [intros []|].
    destruct (starts_with _ _ _); [|intros []]. intros [<-|[]]. reflexivity. }
  destruct rel; cbn [simple]; (split; [exact I|split; [reflexivity|exact H]]).
Qed.

Lemma qop_sem c k rel p q : okq k = true -> p <= n -> (In q (R (qop c k rel) p) <-> In q (Dq input ci multi single c k rel p)).
Proof.
  intros Hk Hp. unfold R, Dq. destruct (okq_facts k Hk) as (Pos & Le & Mx & Wf & _).
  apply (lowersq_ends input ci multi false K (fl_of ci multi single) eq_refl eq_refl Hfit); auto.
  - (* plainq *)
    assert (H : forall p0 q0, In q0 (Rop input ci multi (OAtom [c]) p0) -> q0 = p0 + N.to_nat 1).
    { intros p0 q0. cbn [Rop length]. destruct (Nat.ltb (length input) (p0 + 1)); [intros []|].
      destruct (starts_with _ _ _); [|intros []]. intros [<-|[]]. reflexivity. }
    unfold qop. destruct rel; cbn [plainq]; (split; [exact I|]); (split; [reflexivity|]);
      (split; [exact Pos|]); (split; [exact Le|exact H]).
  - cbn [quant_wf]. split; [exact I|exact Wf].
  - unfold qop. destruct rel; cbn [lowersq unnc negb]; [exists (RChar c), false|exists (RChar c), true];
      (split; [rewrite Mx; reflexivity|]); right; exists c; split; reflexivity.
Qed.

(* --- the same facts as equalities of lists (order and multiplicity) --- *)
Lemma flat_map_assoc {A B C} (f : A -> list B) (g : B -> list C) (l : list A) :
  flat_map g (flat_map f l) = flat_map (fun x => flat_map g (f x)) l.
Proof. induction l as [|x t IH]; [reflexivity|]. cbn [flat_map]. rewrite flat_map_app, IH. reflexivity. Qed.
Lemma fm_ext_in {A B} (f g : A -> list B) (l : list A) : (forall x, In x l -> f x = g x) -> flat_map f l = flat_map g l.
Proof.
  induction l as [|x t IH]; intros H; [reflexivity|]. cbn [flat_map]. rewrite (H x (or_introl eq_refl)), IH; [reflexivity|].
  intros y Hy. apply H. right. exact Hy.
Qed.
Lemma fm_single (l : list nat) : flat_map (fun q => [q]) l = l.
Proof. induction l as [|x t IH]; cbn; [reflexivity|]. rewrite IH. reflexivity. Qed.
Lemma fm_lit_nil (l : list nat) : (forall m, In m l -> m <= n) -> flat_map (lit input ci []) l = l.
Proof.
  intros H. rewrite (fm_ext_in (lit input ci []) (fun q => [q])); [apply fm_single|].
  intros m Hm. apply lit_nil. exact (H m Hm).
Qed.

Lemma sg_app_eq l1 l2 : l1 <> [] -> l2 <> [] -> forall p, sg (l1 ++ l2) p = flat_map (sg l2) (sg l1 p).
Proof.
  induction l1 as [|o1 t IH]; intros N1 N2 p; [contradiction|]. destruct t as [|o2 t'].
  - cbn [app]. destruct l2 as [|x l2']; [contradiction|]. reflexivity.
  - change (sg ((o1 :: o2 :: t') ++ l2) p) with (flat_map (sg ((o2 :: t') ++ l2)) (R o1 p)).
    change (sg (o1 :: o2 :: t') p) with (flat_map (sg (o2 :: t')) (R o1 p)).
    rewrite flat_map_assoc. apply flat_map_ext. intros q. apply IH; [discriminate|exact N2].
Qed.
Lemma R_make_sequence_eq a b p : good a -> good b -> R (make_sequence a b) p = flat_map (R b) (R a p).
Proof.
  intros Ha Hb. destruct (good_as_list a Ha) as [Na _]. destruct (good_as_list b Hb) as [Nb _].
  rewrite make_sequence_list, R_seq, (sg_app_eq _ _ Na Nb), (R_as_list a). apply flat_map_ext. intros q.
  symmetry. apply R_as_list.
Qed.
Lemma push_eq cur o p : goodo cur -> good o -> Ro (push cur o) p = flat_map (R o) (Ro cur p).
Proof.
  destruct cur as [c|]; cbn [push Ro goodo]; intros Hc Ho.
  - apply R_make_sequence_eq; auto.
  - cbn [flat_map]. rewrite app_nil_r. reflexivity.
Qed.
Lemma qop_eq c k rel p : okq k = true -> p <= n -> R (qop c k rel) p = DqO input ci multi single c k rel p.
Proof.
  intros Hk Hp. unfold R, DqO. symmetry. destruct (okq_facts k Hk) as (Pos & Le & Mx & Wf & _).
  apply (lowerso_order input ci multi false K (fl_of ci multi single) eq_refl eq_refl Hfit); auto.
  - assert (H : forall p0, Rop input ci multi (OAtom [c]) p0 = [] \/ Rop input ci multi (OAtom [c]) p0 = [p0 + N.to_nat 1]).
    { intros p0. cbn [Rop length]. destruct (Nat.ltb (length input) (p0 + 1)); [left; reflexivity|].
      destruct (starts_with _ _ _); [right|left]; reflexivity. }
    unfold qop. destruct rel; cbn [plaino]; (split; [exact I|]); (split; [reflexivity|]);
      (split; [exact Pos|]); (split; [exact Le|exact H]).
  - unfold qop. destruct rel; cbn [lowerso unnc negb]; exists (RChar c);
      (split; [rewrite Mx; reflexivity|]); right; exists c; split; reflexivity.
Qed.
Lemma anchor_eq (eol : bool) p : p <= n -> R (if eol then OEol else OBol) p = DanO input ci multi single eol p.
Proof.
  intros Hp. unfold R, DanO. symmetry.
  apply (lowers_order input ci multi false K (fl_of ci multi single) eq_refl eq_refl); auto; destruct eol; cbn; auto.
Qed.

(* --- a dot or a class escape, possibly quantified --- *)
Definition dset : cset := if single then all else dot_set.
Definition aset (da : datom) : cset := match da with ADot => dset | AE e => esc_set e end.
Definition dop (da : datom) (q : option (qk * bool)) : op :=
  match q with Some (k, rel) => qopr (OCls (aset da)) k rel | None => OCls (aset da) end.

Lemma scalar_le c : is_scalar c = true -> (c <= max_cp)%N.
Proof.
  unfold is_scalar. intros H. apply orb_true_iff in H as [H|H].
  - apply N.ltb_lt in H. unfold max_cp. clear - H. lia.
  - apply andb_true_iff in H as [_ H]. apply N.leb_le in H. exact H.
Qed.
Lemma dset_spec c : In c input -> mem dset c = dot_mem (fl_of ci multi single) c.
Proof.
  intros Hc. apply Hvalid, scalar_le in Hc. unfold dset, dot_mem. cbn [s_s fl_of]. destruct single; cbn [orb].
  - apply mem_all. exact Hc.
  - apply dot_spec. exact Hc.
Qed.
Lemma dleaf da : okat da = true ->
  exists pr, leaf_pred ci (fl_of ci multi single) (da_re da) = Some pr /\ forall c, In c input -> mem (aset da) c = pr c.
Proof.
  intros Ha. destruct da as [|e]; cbn [da_re aset leaf_pred]; eexists; (split; [reflexivity|]).
  - exact dset_spec.
  - intros c Hc. apply esc_set_spec; [exact Ha|apply Hvalid; exact Hc].
Qed.


Lemma piece_dot f st da q rest : okat da = true -> okqq xpath q = true -> head_fine rest ->
  skipn (idx st) pat = datext da ++ qtext q ++ rest -> idx st <= len ->
  exists st', piece pat xpath ci single (S (S f)) st = Ok (dop da q, st')
              /\ st_after (length (datext da) + length (qtext q)) st st'.
Proof.
  intros Ha Hk Hh Hs Hi.
  (* the terminal *)
  assert (T : parse_terminal pat xpath ci single (S f) st = Ok (OCls (aset da), adv (length (datext da)) st)).
  { destruct da as [|e]; cbn [datext app length aset] in *.
    - rewrite parse_terminal_S, (at_skipn (idx st)), Hs. cbn [hd_error].
      change (46 =? c_dollar)%N with false. change (46 =? c_caret)%N with false. change (46 =? c_dot)%N with true.
      cbn [andb]. reflexivity.
    - rewrite parse_terminal_S, (at_skipn (idx st)), Hs. cbn [hd_error].
      change (92 =? c_dollar)%N with false. change (92 =? c_caret)%N with false. change (92 =? c_dot)%N with false.
      change (92 =? c_lbrack)%N with false. change (92 =? c_lparen)%N with false. change (92 =? c_rparen)%N with false.
      change (92 =? c_bar)%N with false. change (92 =? c_rbrack)%N with false. change (is_quant 92%N) with false.
      change (92 =? c_bslash)%N with true. cbn [andb]. cbv iota.
      rewrite (escape_class st e _ Ha Hs). reflexivity. }
  rewrite piece_S, T. cbn [rbind].
  set (la := length (datext da)) in *.
  assert (Hs1 : skipn (idx (adv la st)) pat = qtext q ++ rest).
  { unfold adv, set_idx. cbn [idx]. subst la. apply skipn_app_len. exact Hs. }
  assert (Hi1 : idx (adv la st) <= len).
  { unfold adv, set_idx. cbn [idx]. pose proof (skipn_length (idx st) pat) as L. rewrite Hs in L. fold len in L.
    rewrite app_length in L. fold la in L. lia. }
  destruct q as [[k rel]|]; cbn [qtext dop okqq] in *.
  - apply andb_true_iff in Hk as [Hx Hk].
    destruct (quantify_fixed1 (OCls (aset da)) k rel (adv la st) rest eq_refl eq_refl eq_refl Hx Hk Hh) as (st' & E & A1 & A2 & A3 & A4).
    + rewrite Hs1. cbn [app]. rewrite <- app_assoc. reflexivity.
    + exact Hi1.
    + exists st'. split; [exact E|]. unfold adv, set_idx in *. cbn [idx parens hasbr captures] in *.
      unfold st_after. cbn [length]. rewrite app_length. destruct rel; cbn [length] in *; repeat split; try lia; assumption.
  - exists (adv la st). split.
    + apply quantify_none; [exact Hi1|]. rewrite Hs1. exact Hh.
    + unfold st_after, adv, set_idx. cbn [idx parens hasbr captures length]. repeat split; lia.
Qed.

Lemma dcls_one da p : R (OCls (aset da)) p = [] \/ R (OCls (aset da)) p = [p + N.to_nat 1].
Proof.
  unfold R. cbn [Rop]. destruct (nth_error input p); [|left; reflexivity].
  destruct (mem (aset da) n0); [right; change (N.to_nat 1) with 1; rewrite Nat.add_1_r; reflexivity|left; reflexivity].
Qed.
Lemma dop_good da q : good (dop da q).
Proof.
  unfold good. destruct q as [[k rel]|]; cbn [dop]; [|exact I].
  assert (H : forall p m, In m (Rop input ci multi (OCls (aset da)) p) -> m = p + N.to_nat 1).
  { intros p m Hm. destruct (dcls_one da p) as [E|E]; unfold R in E; rewrite E in Hm; [destruct Hm|destruct Hm as [<-|[]]; reflexivity]. }
  unfold qopr. destruct rel; cbn [simple]; (split; [exact I|split; [reflexivity|exact H]]).
Qed.
Lemma da_wf da : quant_wf (da_re da).
Proof. destruct da; exact I. Qed.
Lemma dop_sem da q p m : okat da = true -> okqq xpath q = true -> p <= n ->
  (In m (R (dop da q) p) <-> In m (Dd input ci multi single da q p)).
Proof.
  intros Ha Hk Hp. unfold R, Dd.
  apply (lowersq_ends input ci multi false K (fl_of ci multi single) eq_refl eq_refl Hfit); auto.
  - (* plainq *) destruct q as [[k rel]|]; cbn [dop]; [|exact I].
    cbn [okqq] in Hk. apply andb_true_iff in Hk as [_ Hk]. destruct (okq_facts k Hk) as (Pos & Le & Mx & Wf & _).
    assert (H : forall p0 q0, In q0 (Rop input ci multi (OCls (aset da)) p0) -> q0 = p0 + N.to_nat 1).
    { intros p0 q0 Hq0. destruct (dcls_one da p0) as [E|E]; unfold R in E; rewrite E in Hq0; [destruct Hq0|destruct Hq0 as [<-|[]]; reflexivity]. }
    unfold qopr. destruct rel; cbn [plainq]; (split; [exact I|]); (split; [reflexivity|]);
      (split; [exact Pos|]); (split; [exact Le|exact H]).
  - destruct q as [[k rel]|]; cbn [dot_re quant_wf]; [|apply da_wf]. split; [apply da_wf|].
    cbn [okqq] in Hk. apply andb_true_iff in Hk as [_ Hk]. apply (okq_facts k Hk).
  - destruct q as [[k rel]|]; cbn [dop dot_re].
    + cbn [okqq] in Hk. apply andb_true_iff in Hk as [_ Hk]. destruct (okq_facts k Hk) as (_ & _ & Mx & _ & _).
      unfold qopr. destruct rel; cbn [lowersq unnc negb]; [exists (da_re da), false|exists (da_re da), true];
        (split; [rewrite Mx; reflexivity|]); replace (unnc (da_re da)) with (da_re da) by (destruct da; reflexivity);
        exact (dleaf da Ha).
    + cbn [lowersq]. replace (unnc (da_re da)) with (da_re da) by (destruct da; reflexivity). exact (dleaf da Ha).
Qed.
Lemma dop_eq da q p : okat da = true -> okqq xpath q = true -> p <= n -> R (dop da q) p = DdO input ci multi single da q p.
Proof.
  intros Ha Hk Hp. unfold R, DdO. symmetry.
  apply (lowerso_order input ci multi false K (fl_of ci multi single) eq_refl eq_refl Hfit); auto.
  - destruct q as [[k rel]|]; cbn [dop]; [|exact I].
    cbn [okqq] in Hk. apply andb_true_iff in Hk as [_ Hk]. destruct (okq_facts k Hk) as (Pos & Le & Mx & Wf & _).
    unfold qopr. destruct rel; cbn [plaino]; (split; [exact I|]); (split; [reflexivity|]);
      (split; [exact Pos|]); (split; [exact Le|exact (dcls_one da)]).
  - destruct q as [[k rel]|]; cbn [dop dot_re].
    + cbn [okqq] in Hk. apply andb_true_iff in Hk as [_ Hk]. destruct (okq_facts k Hk) as (_ & _ & Mx & _ & _).
      unfold qopr. destruct rel; cbn [lowerso unnc negb]; exists (da_re da); (split; [rewrite Mx; reflexivity|]);
        replace (unnc (da_re da)) with (da_re da) by (destruct da; reflexivity); exact (dleaf da Ha).
    + cbn [lowerso]. replace (unnc (da_re da)) with (da_re da) by (destruct da; reflexivity). exact (dleaf da Ha).
Qed.

Lemma good_choice bs : Forall good bs -> good (OChoice bs).
Proof.
  unfold good. intros H. cbn [simple]. induction H as [|x t Hx Ht IH]; [exact I|]. split; [exact Hx|exact IH].
Qed.

(* the operation a list of parsed branches becomes *)
Definition alt_op (bs : list op) : op := alt_op0 bs.
Lemma alt_op_good bs : Forall good bs -> bs <> [] -> good (alt_op bs).
Proof.
  intros H Hne. destruct bs as [|x [|y t]]; [contradiction| |].
  - inversion H; auto.
  - apply good_choice. apply Forall_rev. exact H.
Qed.
Lemma alt_op_sem bs p q : bs <> [] -> (In q (R (alt_op bs) p) <-> exists x, In x bs /\ In q (R x p)).
Proof.
  intros Hne. destruct bs as [|x [|y t]]; [contradiction| |].
  - cbn [alt_op]. split; [intros H; exists x; cbn; auto|intros (x' & [<-|[]] & H); exact H].
  - change (R (alt_op (x :: y :: t)) p) with (flat_map (fun b => R b p) (rev (x :: y :: t))).
    rewrite in_flat_map. split; intros (z & Hz & Hq); exists z; (split; [|exact Hq]).
    + apply in_rev. exact Hz.
    + apply in_rev in Hz. exact Hz.
Qed.

(* --- an anchor (XPath) --- *)
Lemma piece_anchor f st (eol : bool) (rest : list N) : xpath = true -> head_fine rest ->
  skipn (idx st) pat = (if eol then 36%N else 94%N) :: rest -> idx st <= len ->
  piece pat xpath ci single (S (S f)) st = Ok ((if eol then OEol else OBol), adv 1 st).
Proof.
  intros Hx Hh Hs Hi. destruct (skipn_step _ _ _ Hs) as [Hs1 Hlt].
  rewrite piece_S, parse_terminal_S, (at_skipn (idx st)), Hs. cbn [hd_error].
  destruct eol.
  - replace (N.eqb 36 c_dollar && xpath) with true by (rewrite Hx; reflexivity). cbv iota. cbn [rbind].
    apply quantify_none; [unfold adv, set_idx; cbn [idx]; lia|]. unfold adv, set_idx. cbn [idx]. rewrite Hs1. exact Hh.
  - replace (N.eqb 94 c_dollar && xpath) with false by (rewrite Hx; reflexivity).
    replace (N.eqb 94 c_caret && xpath) with true by (rewrite Hx; reflexivity). cbv iota. cbn [rbind].
    apply quantify_none; [unfold adv, set_idx; cbn [idx]; lia|]. unfold adv, set_idx. cbn [idx]. rewrite Hs1. exact Hh.
Qed.

Lemma anchor_good (eol : bool) : good (if eol then OEol else OBol).
Proof. destruct eol; exact I. Qed.
Lemma anchor_sem (eol : bool) p q : p <= n -> (In q (R (if eol then OEol else OBol) p) <-> In q (Dan input ci multi single eol p)).
Proof.
  intros Hp. unfold R, Dan.
  apply (lowersq_ends input ci multi false K (fl_of ci multi single) eq_refl eq_refl Hfit); auto; destruct eol; cbn; auto.
Qed.

Lemma alt_op_eq bs p : bs <> [] -> R (alt_op bs) p = flat_map (fun x => R x p) (rev bs).
Proof.
  intros Hne. destruct bs as [|x [|y t]]; [contradiction| |].
  - cbn [alt_op alt_op0 rev app flat_map]. rewrite app_nil_r. reflexivity.
  - reflexivity.
Qed.

Definition P_b (b : branch) : Prop :=
  ok_b xpath b = true -> forall post st cur fuel,
    skipn (idx st) pat = show_b b ++ post -> idx st <= len -> term_b post ->
    6 * length (show_b b) + 6 <= fuel -> goodo cur ->
    exists r st', branch_loop pat xpath ci single fuel st cur = Ok (r, st')
      /\ idx st' = idx st + length (show_b b) /\ hasbr st' = hasbr st /\ goodo r
      /\ (forall p q, p <= n -> (In q (Ro r p) <-> exists m, In m (Ro cur p) /\ In q (Db input ci multi single b m)))
      /\ (1 <= parens st -> fro cur -> fro r /\ parens st <= parens st')
      /\ (forall p, p <= n -> Ro r p = flat_map (DbO input ci multi single b) (Ro cur p)).

Definition P_a (a : alt) : Prop :=
  ok_a xpath a = true -> forall post st acc f1 f2,
    skipn (idx st) pat = show_a a ++ post -> idx st <= len -> term_a post ->
    6 * length (show_a a) + 7 <= f1 -> 6 * length (show_a a) + 7 <= f2 -> Forall good acc ->
    exists o st1 bs st', parse_branch pat xpath ci single f1 st = Ok (o, st1)
      /\ branches_loop pat xpath ci single f2 st1 (o :: acc) = Ok (bs, st')
      /\ idx st' = idx st + length (show_a a) /\ hasbr st' = hasbr st /\ Forall good bs /\ bs <> []
      /\ (forall p q, p <= n -> ((exists x, In x bs /\ In q (R x p))
                                  <-> (exists x, In x acc /\ In q (R x p)) \/ In q (Da input ci multi single a p)))
      /\ (1 <= parens st -> Forall framed acc -> Forall framed bs /\ parens st <= parens st')
      /\ (forall p, p <= n -> flat_map (fun x => R x p) (rev bs)
                               = flat_map (fun x => R x p) (rev acc) ++ DaO input ci multi single a p).

(* a run (possibly empty) before a group: parsed into the current term, the loop goes on *)
Lemma run_prefix cs post st cur fuel : forallb ordinary cs = true ->
  (exists c t, post = c :: t /\ (c = 40%N \/ c = 46%N \/ (xpath = true /\ (c = 94%N \/ c = 36%N)) \/ estop (c :: t))) ->
  skipn (idx st) pat = cs ++ post -> idx st <= len -> 3 <= fuel -> goodo cur ->
  exists fuel' cur1 st1, fuel <= fuel' + 1 /\ fuel' <= fuel
    /\ branch_loop pat xpath ci single fuel st cur = branch_loop pat xpath ci single fuel' st1 cur1
    /\ idx st1 = idx st + length cs /\ hasbr st1 = hasbr st /\ goodo cur1
    /\ (forall p q, p <= n -> (In q (Ro cur1 p) <-> exists m, In m (Ro cur p) /\ In q (lit input ci cs m)))
    /\ parens st1 = parens st /\ (fro cur -> fro cur1)
    /\ (forall p, p <= n -> Ro cur1 p = flat_map (lit input ci cs) (Ro cur p)).
Proof.
  intros Ho (c1 & t & -> & Hc1) Hs Hi Hf Hg.
  assert (Hst1 : stops (c1 :: t)) by (cbn; unfold pstop; destruct Hc1 as [->|[->|[(Hx & Hc1)|He]]]; auto 10).
  destruct cs as [|c cs].
  - exists fuel, cur, st. split; [lia|]. split; [lia|]. split; [reflexivity|]. split; [cbn [length]; lia|].
    split; [reflexivity|]. split; [exact Hg|].
    split; [|split; [reflexivity|split; [auto|intros p Hp; symmetry; apply fm_lit_nil; intros m Hm; eapply Ro_le; eauto]]].
    intros p q Hp. split.
    + intros Hin. exists q. split; auto. rewrite lit_nil; [left; reflexivity|]. eapply Ro_le; eauto.
    + intros (m & Hm & Hq). rewrite lit_nil in Hq by (eapply Ro_le; eauto). destruct Hq as [<-|[]]. exact Hm.
  - destruct fuel as [|[|[|f]]]; try lia.
    pose proof Ho as Ho'. cbn [forallb] in Ho'. apply andb_true_iff in Ho' as [Oc _].
    destruct (ordinary_tests c Oc) as (T1 & T2 & T3 & T4 & T5 & T6 & T7 & T8 & T9 & T10 & T11 & T12 & T13 & T14).
    exists (S (S f)), (push cur (OAtom (c :: cs))), (set_idx (idx st + length (c :: cs)) st).
    split; [lia|]. split; [lia|]. split.
    { rewrite branch_loop_S. fold len. destruct (skipn_step _ _ _ Hs) as [_ Hlt].
      replace (Nat.ltb (idx st) len) with true by (symmetry; apply Nat.ltb_lt; exact Hlt).
      rewrite (is_at_hd _ _ _ c_bar Hs), (is_at_hd _ _ _ c_rparen Hs), T8, T5. cbn [negb andb].
      rewrite (piece_run f st c cs (c1 :: t) Ho Hst1 Hs Hi). cbn [rbind]. reflexivity. }
    split; [reflexivity|]. split; [reflexivity|]. split; [apply push_good; [exact Hg|exact I]|].
    split; [|split; [reflexivity|split; [intros Hfr; apply push_fr; [exact Hfr|exact I]|intros p Hp; apply push_eq; [exact Hg|exact I]]]].
    intros p q Hp. rewrite push_sem by (auto; exact I). reflexivity.
Qed.

Lemma run_prefix_q cs c k t st cur fuel : forallb ordinary cs = true -> ordinary c = true ->
  skipn (idx st) pat = cs ++ c :: qsym k :: t -> idx st <= len -> 3 <= fuel -> goodo cur ->
  exists fuel' cur1 st1, fuel <= fuel' + 1 /\ fuel' <= fuel
    /\ branch_loop pat xpath ci single fuel st cur = branch_loop pat xpath ci single fuel' st1 cur1
    /\ idx st1 = idx st + length cs /\ hasbr st1 = hasbr st /\ goodo cur1
    /\ (forall p q, p <= n -> (In q (Ro cur1 p) <-> exists m, In m (Ro cur p) /\ In q (lit input ci cs m)))
    /\ parens st1 = parens st /\ (fro cur -> fro cur1)
    /\ (forall p, p <= n -> Ro cur1 p = flat_map (lit input ci cs) (Ro cur p)).
Proof.
  intros Ho Oc Hs Hi Hf Hg. destruct cs as [|c0 cs].
  - exists fuel, cur, st. split; [lia|]. split; [lia|]. split; [reflexivity|]. split; [cbn [length]; lia|].
    split; [reflexivity|]. split; [exact Hg|].
    split; [|split; [reflexivity|split; [auto|intros p Hp; symmetry; apply fm_lit_nil; intros m Hm; eapply Ro_le; eauto]]].
    intros p q Hp. split.
    + intros Hin. exists q. split; auto. rewrite lit_nil; [left; reflexivity|]. eapply Ro_le; eauto.
    + intros (m & Hm & Hq). rewrite lit_nil in Hq by (eapply Ro_le; eauto). destruct Hq as [<-|[]]. exact Hm.
  - destruct fuel as [|[|[|f]]]; try lia.
    pose proof Ho as Ho'. cbn [forallb] in Ho'. apply andb_true_iff in Ho' as [Oc0 _].
    destruct (ordinary_tests c0 Oc0) as (T1 & T2 & T3 & T4 & T5 & T6 & T7 & T8 & T9 & T10 & T11 & T12 & T13 & T14).
    exists (S (S f)), (push cur (OAtom (c0 :: cs))), (set_idx (idx st + length (c0 :: cs)) st).
    split; [lia|]. split; [lia|]. split.
    { rewrite branch_loop_S. fold len. destruct (skipn_step _ _ _ Hs) as [_ Hlt].
      replace (Nat.ltb (idx st) len) with true by (symmetry; apply Nat.ltb_lt; exact Hlt).
      rewrite (is_at_hd _ _ _ c_bar Hs), (is_at_hd _ _ _ c_rparen Hs), T8, T5. cbn [negb andb].
      rewrite (piece_runq f st c0 cs c k t Ho Oc Hs Hi). cbn [rbind]. reflexivity. }
    split; [reflexivity|]. split; [reflexivity|]. split; [apply push_good; [exact Hg|exact I]|].
    split; [|split; [reflexivity|split; [intros Hfr; apply push_fr; [exact Hfr|exact I]|intros p Hp; apply push_eq; [exact Hg|exact I]]]].
    intros p q Hp. rewrite push_sem by (auto; exact I). reflexivity.
Qed.

Theorem model_parses : (forall b, P_b b) /\ (forall a, P_a a).
Proof.
  apply branch_alt_ind.
  - (* BEnd *) intros cs Hok post st cur fuel Hs Hi Ht Hf Hg. cbn [show_b ok_b] in *.
    destruct cs as [|c cs].
    + destruct fuel as [|f]; [lia|]. exists cur, st. cbn [app length] in *.
      split; [apply branch_loop_stop; [exact Hi|rewrite Hs; exact Ht]|].
      split; [lia|]. split; [reflexivity|]. split; [exact Hg|].
      split; [|split; [auto|intros p Hp; cbn [DbO]; symmetry; apply fm_lit_nil; intros m Hm; eapply Ro_le; eauto]].
      intros p q Hp. cbn [Db]. split.
      * intros H. exists q. split; auto. rewrite lit_nil; [left; reflexivity|]. eapply Ro_le; eauto.
      * intros (m & Hm & Hq). rewrite lit_nil in Hq by (eapply Ro_le; eauto). destruct Hq as [<-|[]]. exact Hm.
    + destruct fuel as [|[|[|f]]]; try lia.
      pose proof Hok as Ho'. cbn [forallb] in Ho'. apply andb_true_iff in Ho' as [Oc _].
      destruct (ordinary_tests c Oc) as (T1 & T2 & T3 & T4 & T5 & T6 & T7 & T8 & T9 & T10 & T11 & T12 & T13 & T14).
      assert (Hst : stops post) by (destruct Ht as [->|(t & [->| ->])]; cbn; unfold pstop; auto 10).
      exists (push cur (OAtom (c :: cs))), (set_idx (idx st + length (c :: cs)) st).
      split.
      { rewrite branch_loop_S. fold len. destruct (skipn_step _ _ _ Hs) as [_ Hlt].
        replace (Nat.ltb (idx st) len) with true by (symmetry; apply Nat.ltb_lt; exact Hlt).
        rewrite (is_at_hd _ _ _ c_bar Hs), (is_at_hd _ _ _ c_rparen Hs), T8, T5. cbn [negb andb].
        rewrite (piece_run f st c cs post Hok Hst Hs Hi). cbn [rbind].
        apply branch_loop_stop.
        - unfold set_idx. cbn [idx]. pose proof (skipn_len_le _ _ _ Hs Hi). lia.
        - unfold set_idx. cbn [idx]. rewrite (skipn_app_len _ _ _ Hs). exact Ht. }
      split; [reflexivity|]. split; [reflexivity|]. split; [apply push_good; [exact Hg|exact I]|].
      split; [|split; [intros Hp1 Hfr; split; [apply push_fr; [exact Hfr|exact I]|reflexivity]
                      |intros p Hp; cbn [DbO]; apply push_eq; [exact Hg|exact I]]].
      intros p q Hp. rewrite push_sem by (auto; exact I). reflexivity.
  - (* BGrp *) intros cs cap a IHa b' IHb Hok post st cur fuel Hs Hi Ht Hf Hg.
    cbn [ok_b] in Hok. apply andb_true_iff in Hok as [Hok Okb]. apply andb_true_iff in Hok as [Hok Oka].
    apply andb_true_iff in Hok as [Ocs Hcx]. cbn [show_b] in Hs, Hf |- *.
    set (opt := if cap then [] else [63%N; 58%N]) in *.
    set (inner := show_a a) in *. set (rest := show_b b') in *.
    assert (Lsh : length (cs ++ 40%N :: opt ++ inner ++ 41%N :: rest) = length cs + 1 + length opt + length inner + 1 + length rest).
    { rewrite !app_length. cbn [length]. rewrite !app_length. cbn [length]. lia. }
    rewrite Lsh in Hf |- *.
    (* the run before the group *)
    assert (Hs' : skipn (idx st) pat = cs ++ 40%N :: opt ++ inner ++ 41%N :: rest ++ post).
    { rewrite Hs. rewrite <- app_assoc. cbn [app]. rewrite <- !app_assoc. cbn [app]. reflexivity. }
    clear Hs. rename Hs' into Hs.
    assert (Hlen : idx st + (length cs + (1 + (length opt + (length inner + (1 + (length rest + length post)))))) = len).
    { pose proof (skipn_length (idx st) pat) as L. rewrite Hs in L. fold len in L.
      rewrite app_length in L. cbn [length] in L. rewrite !app_length in L. cbn [length] in L. rewrite app_length in L. lia. }
    destruct (run_prefix cs _ st cur fuel Ocs ltac:(eexists _, _; split; [reflexivity|left; reflexivity]) Hs Hi ltac:(lia) Hg)
      as (fuel1 & cur1 & st1 & Hf1 & Hf1' & Eloop & Hi1 & Hb1 & Hg1 & Sem1 & Hp1 & Fr1 & Eq1).
    rewrite Eloop.
    pose proof (skipn_app_len _ _ _ Hs) as Hs1. rewrite <- Hi1 in Hs1.
    assert (Hi1' : idx st1 <= len) by lia.
    destruct fuel1 as [|[|[|[|f4]]]]; try lia.
    (* the group: '(' , the alternatives, ')' *)
    destruct (skipn_step _ _ _ Hs1) as [Hs2 Hlt1].
    assert (Hexpr : exists o st4, parse_expr pat xpath ci single (S f4) false st1 = Ok (o, st4)
              /\ idx st4 = idx st1 + 1 + length opt + length inner + 1 /\ hasbr st4 = hasbr st1 /\ good o
              /\ (forall p q, p <= n -> (In q (R o p) <-> In q (Da input ci multi single a p)))
              /\ (1 <= parens st1 -> framed o /\ parens st1 <= parens st4)
              /\ (forall p, p <= n -> R o p = DaO input ci multi single a p)).
    { rewrite parse_expr_grp_S. cbv zeta. rewrite at_skipn, Hs1. cbn [hd_error]. change (40 =? c_lparen)%N with true. cbv iota.
      assert (Hopen : exists paren group st2,
                (if Nat.ltb (idx st1 + 2) len && is_at pat (idx st1 + 1) c_qmark && is_at pat (idx st1 + 2) c_colon
                 then if negb xpath then Err ESyntax else Ok (Some false, O, adv 3 st1)
                 else Ok (Some true, parens st1,
                          {| idx := S (idx st1); parens := S (parens st1); bmin := bmin st1; bmax := bmax st1;
                             captures := captures st1; hasbr := hasbr st1 |})) = Ok (Some paren, group, st2)
                /\ paren = cap /\ idx st2 = idx st1 + 1 + length opt /\ hasbr st2 = hasbr st1
                /\ parens st1 <= parens st2 /\ group = (if cap then parens st1 else O)).
      { destruct cap; subst opt; cbn [app length] in *.
        - (* capturing: the next character is not '?' *)
          assert (Hq : is_at pat (idx st1 + 1) c_qmark = false).
          { pose proof (head_fine_a xpath a (41%N :: rest ++ post) Oka ltac:(right; eexists; reflexivity)) as Hh.
            fold inner in Hh.
            destruct (inner ++ 41%N :: rest ++ post) as [|c2 t2] eqn:E2; [destruct inner; discriminate|].
            rewrite (is_at_hd _ _ _ c_qmark Hs2). apply (head_fine_nq c2 t2 Hh). }
          rewrite Hq, andb_false_r. cbn [andb]. eexists _, _, _. split; [reflexivity|]. cbn [idx hasbr parens]. repeat split; lia.
        - (* '(?:' *)
          cbn [orb] in Hcx.
          destruct (skipn_step _ _ _ Hs2) as [Hs3 Hlt2]. replace (idx st1 + 1 + 1) with (idx st1 + 2) in Hs3 by lia.
          rewrite (is_at_hd _ _ _ c_qmark Hs2), (is_at_hd _ _ _ c_colon Hs3).
          change (63 =? c_qmark)%N with true. change (58 =? c_colon)%N with true.
          replace (Nat.ltb (idx st1 + 2) len) with true by (symmetry; apply Nat.ltb_lt; destruct (skipn_step _ _ _ Hs3); lia).
          cbn [andb]. rewrite Hcx. cbn [negb]. eexists _, _, _. split; [reflexivity|]. unfold adv, set_idx. cbn [idx hasbr parens]. repeat split; lia. }
      destruct Hopen as (paren & group & st2 & -> & -> & Hi2 & Hb2 & Hp2 & Hgrp). cbn [rbind].
      assert (Hs2' : skipn (idx st2) pat = inner ++ 41%N :: rest ++ post).
      { rewrite Hi2. replace (idx st1 + 1 + length opt) with (idx st1 + length (40%N :: opt)) by (cbn [length]; lia).
        apply (skipn_app_len (idx st1) (40%N :: opt)). cbn [app]. rewrite Hs1. reflexivity. }
      destruct (IHa Oka (41%N :: rest ++ post) st2 [] f4 f4 Hs2' ltac:(lia) ltac:(right; eexists; reflexivity)
                  ltac:(fold inner; lia) ltac:(fold inner; lia) (Forall_nil _))
        as (o1 & st2' & bs & st3 & E1 & E2 & Hi3 & Hb3 & Gbs & Nbs & Sem & FrA & EqA).
      rewrite E1. cbn [rbind]. rewrite E2. cbn [rbind]. fold (alt_op bs). fold inner in Hi3.
      assert (Hs3 : skipn (idx st3) pat = 41%N :: rest ++ post).
      { rewrite Hi3. apply (skipn_app_len _ _ _ Hs2'). }
      destruct (skipn_step _ _ _ Hs3) as [_ Hlt3].
      replace (Nat.ltb (idx st3) len) with true by (symmetry; apply Nat.ltb_lt; exact Hlt3).
      rewrite (is_at_hd _ _ _ c_rparen Hs3). change (41 =? c_rparen)%N with true. cbn [andb].
      assert (EqO : forall p, p <= n -> R (alt_op bs) p = DaO input ci multi single a p).
      { intros p Hp. rewrite (alt_op_eq bs p Nbs), (EqA p Hp). reflexivity. }
      assert (SemA : forall p q, p <= n -> (In q (R (alt_op bs) p) <-> In q (Da input ci multi single a p))).
      { intros p q Hp. rewrite (alt_op_sem bs p q Nbs), (Sem p q Hp). split; [intros [(x & [] & _)|H]; exact H|auto]. }
      destruct cap.
      - eexists _, _. split; [reflexivity|]. unfold adv, set_idx. cbn [idx hasbr parens]. split; [lia|]. split; [congruence|].
        split; [unfold good; cbn [simple]; split; [apply alt_op_good; auto|discriminate]|]. split; [exact SemA|].
        split; [|exact EqO].
        intros H1. destruct (FrA ltac:(lia) (Forall_nil _)) as [Fbs Hp3]. subst group. cbn [framed].
        split; [split; [lia|apply alt_op_framed; auto]|lia].
      - eexists _, _. split; [reflexivity|]. unfold adv, set_idx. cbn [idx hasbr parens]. split; [lia|]. split; [congruence|].
        split; [apply alt_op_good; auto|]. split; [exact SemA|].
        split; [|exact EqO].
        intros H1. destruct (FrA ltac:(lia) (Forall_nil _)) as [Fbs Hp3]. split; [apply alt_op_framed; auto|lia]. }
    destruct Hexpr as (og & st4 & Eexpr & Hi4 & Hb4 & Gog & Semg & Frg & Eqg).
    assert (Hs4 : skipn (idx st4) pat = rest ++ post).
    { rewrite Hi4. replace (idx st1 + 1 + length opt + length inner + 1) with (idx st1 + length (40%N :: opt ++ inner ++ [41%N])).
      - apply (skipn_app_len (idx st1) (40%N :: opt ++ inner ++ [41%N])). rewrite Hs1. cbn [app]. f_equal.
        rewrite <- !app_assoc. cbn [app]. reflexivity.
      - cbn [length]. rewrite !app_length. cbn [length]. lia. }
    assert (Hpiece : piece pat xpath ci single (S (S (S f4))) st1 = Ok (og, st4)).
    { rewrite piece_S, parse_terminal_S, at_skipn, Hs1. cbn [hd_error].
      change ((40 =? c_dollar)%N) with false. change ((40 =? c_caret)%N) with false. change ((40 =? c_dot)%N) with false.
      change ((40 =? c_lbrack)%N) with false. change ((40 =? c_lparen)%N) with true. cbn [andb].
      rewrite Eexpr. cbn [rbind]. apply quantify_none; [lia|].
      rewrite Hs4. apply (head_fine_b xpath); auto. }
    rewrite branch_loop_S. fold len.
    replace (Nat.ltb (idx st1) len) with true by (symmetry; apply Nat.ltb_lt; exact Hlt1).
    rewrite (is_at_hd _ _ _ c_bar Hs1), (is_at_hd _ _ _ c_rparen Hs1).
    change (40 =? c_bar)%N with false. change (40 =? c_rparen)%N with false. cbn [negb andb].
    rewrite Hpiece. cbn [rbind]. fold (push cur1 og).
    destruct (IHb Okb post st4 (push cur1 og) (S (S (S f4))) Hs4 ltac:(lia) Ht ltac:(fold rest; lia)
                (push_good _ _ Hg1 Gog))
      as (r & st' & E & Hi' & Hb' & Gr & Sem' & Fr' & Eq').
    exists r, st'. split; [exact E|]. fold rest in Hi'. split; [lia|]. split; [congruence|]. split; [exact Gr|].
    split.
    2:{ split.
        - intros H1 Hfr. destruct (Frg ltac:(lia)) as [Fog Hp4].
          destruct (Fr' ltac:(lia) (push_fr _ _ (Fr1 Hfr) Fog)) as [Fr Hp']. split; [exact Fr|lia].
        - intros p Hp. rewrite (Eq' p Hp), (push_eq cur1 og p Hg1 Gog), (Eq1 p Hp). cbn [DbO].
          rewrite !flat_map_assoc. apply fm_ext_in. intros m Hm. rewrite <- flat_map_assoc. f_equal.
          apply fm_ext_in. intros k0 Hk0. apply Eqg. apply lit_le in Hk0. tauto. }
    intros p q Hp. rewrite (Sem' p q Hp). cbn [Db]. split.
    + intros (m & Hm & Hq). apply push_sem in Hm; auto. destruct Hm as (m1 & Hm1 & Hm).
      apply (Sem1 p m1 Hp) in Hm1. destruct Hm1 as (m0 & Hm0 & Hm1).
      exists m0. split; [exact Hm0|]. apply in_flat_map. exists m. split; [|exact Hq].
      apply in_flat_map. exists m1. split; [exact Hm1|].
      apply Semg; [|exact Hm]. apply (lit_le input ci cs m0 m1) in Hm1. lia.
    + intros (m0 & Hm0 & Hq). apply in_flat_map in Hq. destruct Hq as (m & Hm & Hq).
      apply in_flat_map in Hm. destruct Hm as (m1 & Hm1 & Hm).
      exists m. split; [|exact Hq]. apply push_sem; auto. exists m1. split.
      * apply (Sem1 p m1 Hp). eauto.
      * apply Semg; [|exact Hm]. apply (lit_le input ci cs m0 m1) in Hm1. lia.
  - (* BQ *) intros cs c k rel b' IHb Hok post st cur fuel Hs Hi Ht Hf Hg.
    cbn [ok_b] in Hok. apply andb_true_iff in Hok as [Hok Okb]. apply andb_true_iff in Hok as [Hok Hk].
    apply andb_true_iff in Hok as [Hok Hrx].
    apply andb_true_iff in Hok as [Ocs Oc]. cbn [show_b] in Hs, Hf |- *.
    set (ropt := if rel then [63%N] else []) in *. set (rest := show_b b') in *. set (qt := qtl k) in *.
    assert (Lsh : length (cs ++ c :: qsym k :: qt ++ ropt ++ rest) = length cs + 2 + length qt + length ropt + length rest).
    { rewrite !app_length. cbn [length]. rewrite !app_length. lia. }
    rewrite Lsh in Hf |- *.
    assert (Hs' : skipn (idx st) pat = cs ++ c :: qsym k :: qt ++ ropt ++ rest ++ post).
    { rewrite Hs. rewrite <- app_assoc. cbn [app]. rewrite <- !app_assoc. reflexivity. }
    clear Hs. rename Hs' into Hs.
    assert (Hlen : idx st + (length cs + (2 + (length qt + (length ropt + (length rest + length post))))) = len).
    { pose proof (skipn_length (idx st) pat) as L. rewrite Hs in L. fold len in L.
      rewrite app_length in L. cbn [length] in L. rewrite !app_length in L. lia. }
    destruct (run_prefix_q cs c k _ st cur fuel Ocs Oc Hs Hi ltac:(lia) Hg)
      as (fuel1 & cur1 & st1 & Hf1 & Hf1' & Eloop & Hi1 & Hb1 & Hg1 & Sem1 & Hp1 & Fr1 & Eq1).
    rewrite Eloop.
    pose proof (skipn_app_len _ _ _ Hs) as Hs1. rewrite <- Hi1 in Hs1.
    assert (Hi1' : idx st1 <= len) by lia.
    destruct fuel1 as [|[|[|f]]]; try lia.
    destruct (skipn_step _ _ _ Hs1) as [_ Hlt1].
    destruct (ordinary_tests c Oc) as (T1 & T2 & T3 & T4 & T5 & T6 & T7 & T8 & T9 & T10 & T11 & T12 & T13 & T14).
    assert (Hh : head_fine (rest ++ post)) by (apply (head_fine_b xpath); auto).
    rewrite branch_loop_S. fold len.
    replace (Nat.ltb (idx st1) len) with true by (symmetry; apply Nat.ltb_lt; exact Hlt1).
    rewrite (is_at_hd _ _ _ c_bar Hs1), (is_at_hd _ _ _ c_rparen Hs1), T8, T5. cbn [negb andb].
    destruct (piece_qchar f st1 c k rel (rest ++ post) Oc Hrx Hk Hh Hs1 Hi1') as (st2 & Ep & Hi2 & Hp2 & Hb2 & _).
    rewrite Ep. cbn [rbind]. fold (push cur1 (qop c k rel)). fold qt ropt in Hi2.
    replace (if rel then 1 else 0) with (length ropt) in Hi2 by (subst ropt; destruct rel; reflexivity).
    assert (Hs2 : skipn (idx st2) pat = rest ++ post).
    { rewrite Hi2. replace (2 + length qt + length ropt) with (length (c :: qsym k :: qt ++ ropt)) by (cbn [length]; rewrite app_length; lia).
      apply (skipn_app_len (idx st1) (c :: qsym k :: qt ++ ropt)). rewrite Hs1. cbn [app]. rewrite <- app_assoc. reflexivity. }
    destruct (IHb Okb post st2 (push cur1 (qop c k rel)) (S (S f)) Hs2 ltac:(lia) Ht ltac:(fold rest; lia)
                (push_good _ _ Hg1 (qop_good c k rel)))
      as (r & st' & E & Hi' & Hb' & Gr & Sem' & Fr' & Eq').
    exists r, st'. split; [exact E|]. fold rest in Hi'. split; [lia|].
    split; [rewrite Hb', Hb2; exact Hb1|]. split; [exact Gr|].
    split.
    2:{ split.
        - intros H1 Hfr.
          assert (Fq : framed (qop c k rel)) by (unfold qop; destruct rel; exact I).
          destruct (Fr' ltac:(lia) (push_fr _ _ (Fr1 Hfr) Fq)) as [Fr Hp'].
          split; [exact Fr|]. lia.
        - intros p Hp. rewrite (Eq' p Hp), (push_eq cur1 (qop c k rel) p Hg1 (qop_good c k rel)), (Eq1 p Hp). cbn [DbO].
          rewrite !flat_map_assoc. apply fm_ext_in. intros m Hm. rewrite <- flat_map_assoc. f_equal.
          apply fm_ext_in. intros k0 Hk0. apply qop_eq; [exact Hk|]. apply lit_le in Hk0. tauto. }
    intros p q Hp. rewrite (Sem' p q Hp). cbn [Db]. split.
    + intros (m & Hm & Hq). apply push_sem in Hm; auto using qop_good. destruct Hm as (m1 & Hm1 & Hm).
      apply (Sem1 p m1 Hp) in Hm1. destruct Hm1 as (m0 & Hm0 & Hm1).
      exists m0. split; [exact Hm0|]. apply in_flat_map. exists m. split; [|exact Hq].
      apply in_flat_map. exists m1. split; [exact Hm1|].
      apply qop_sem; [exact Hk| |exact Hm]. apply (lit_le input ci cs m0 m1) in Hm1. lia.
    + intros (m0 & Hm0 & Hq). apply in_flat_map in Hq. destruct Hq as (m & Hm & Hq).
      apply in_flat_map in Hm. destruct Hm as (m1 & Hm1 & Hm).
      exists m. split; [|exact Hq]. apply push_sem; auto using qop_good. exists m1. split.
      * apply (Sem1 p m1 Hp). eauto.
      * apply qop_sem; [exact Hk| |exact Hm]. apply (lit_le input ci cs m0 m1) in Hm1. lia.
  - (* BAn *) intros cs eol b' IHb Hok post st cur fuel Hs Hi Ht Hf Hg.
    cbn [ok_b] in Hok. apply andb_true_iff in Hok as [Hok Okb]. apply andb_true_iff in Hok as [Ocs Hx].
    cbn [show_b] in Hs, Hf |- *.
    set (rest := show_b b') in *.
    assert (Lsh : length (cs ++ (if eol then 36%N else 94%N) :: rest) = length cs + 1 + length rest) by (rewrite app_length; cbn [length]; lia).
    rewrite Lsh in Hf |- *.
    assert (Hs' : skipn (idx st) pat = cs ++ (if eol then 36%N else 94%N) :: rest ++ post) by (rewrite Hs, <- app_assoc; reflexivity).
    clear Hs. rename Hs' into Hs.
    assert (Hlen : idx st + (length cs + (1 + (length rest + length post))) = len).
    { pose proof (skipn_length (idx st) pat) as L. rewrite Hs in L. fold len in L.
      rewrite app_length in L. cbn [length] in L. rewrite app_length in L. lia. }
    assert (Hfol : exists c t, (if eol then 36%N else 94%N) :: rest ++ post = c :: t /\ (c = 40%N \/ c = 46%N \/ (xpath = true /\ (c = 94%N \/ c = 36%N)) \/ estop (c :: t))).
    { exists (if eol then 36%N else 94%N), (rest ++ post). split; [reflexivity|]. right. right. left. split; [exact Hx|]. destruct eol; auto. }
    destruct (run_prefix cs ((if eol then 36%N else 94%N) :: rest ++ post) st cur fuel Ocs Hfol Hs Hi ltac:(lia) Hg)
      as (fuel1 & cur1 & st1 & Hf1 & Hf1' & Eloop & Hi1 & Hb1 & Hg1 & Sem1 & Hp1 & Fr1 & Eq1).
    rewrite Eloop.
    pose proof (skipn_app_len _ _ _ Hs) as Hs1. rewrite <- Hi1 in Hs1.
    assert (Hi1' : idx st1 <= len) by lia.
    destruct fuel1 as [|[|[|f]]]; try lia.
    destruct (skipn_step _ _ _ Hs1) as [Hs2 Hlt1].
    assert (Hh : head_fine (rest ++ post)) by (apply (head_fine_b xpath); auto).
    rewrite branch_loop_S. fold len.
    replace (Nat.ltb (idx st1) len) with true by (symmetry; apply Nat.ltb_lt; exact Hlt1).
    rewrite (is_at_hd _ _ _ c_bar Hs1), (is_at_hd _ _ _ c_rparen Hs1).
    replace (((if eol then 36 else 94) =? c_bar)%N) with false by (destruct eol; reflexivity).
    replace (((if eol then 36 else 94) =? c_rparen)%N) with false by (destruct eol; reflexivity). cbn [negb andb].
    rewrite (piece_anchor f st1 eol (rest ++ post) Hx Hh Hs1 Hi1'). cbn [rbind].
    fold (push cur1 (if eol then OEol else OBol)).
    destruct (IHb Okb post (adv 1 st1) (push cur1 (if eol then OEol else OBol)) (S (S f))
                ltac:(unfold adv, set_idx; cbn [idx]; exact Hs2) ltac:(unfold adv, set_idx; cbn [idx]; lia) Ht
                ltac:(fold rest; lia) (push_good _ _ Hg1 (anchor_good eol)))
      as (r & st' & E & Hi' & Hb' & Gr & Sem' & Fr' & Eq').
    unfold adv, set_idx in Hi', Hb', Fr'. cbn [idx hasbr parens] in Hi', Hb', Fr'.
    exists r, st'. split; [exact E|]. fold rest in Hi'. split; [lia|]. split; [congruence|]. split; [exact Gr|].
    split.
    2:{ split.
        - intros H1 Hfr.
          assert (Fq : framed (if eol then OEol else OBol)) by (destruct eol; exact I).
          destruct (Fr' ltac:(lia) (push_fr _ _ (Fr1 Hfr) Fq)) as [Fr Hp']. split; [exact Fr|lia].
        - intros p Hp. rewrite (Eq' p Hp), (push_eq cur1 _ p Hg1 (anchor_good eol)), (Eq1 p Hp). cbn [DbO].
          rewrite !flat_map_assoc. apply fm_ext_in. intros m Hm. rewrite <- flat_map_assoc. f_equal.
          apply fm_ext_in. intros k0 Hk0. apply anchor_eq. apply lit_le in Hk0. tauto. }
    intros p q Hp. rewrite (Sem' p q Hp). cbn [Db]. split.
    + intros (m & Hm & Hq). apply push_sem in Hm; auto using anchor_good. destruct Hm as (m1 & Hm1 & Hm).
      apply (Sem1 p m1 Hp) in Hm1. destruct Hm1 as (m0 & Hm0 & Hm1).
      exists m0. split; [exact Hm0|]. apply in_flat_map. exists m. split; [|exact Hq].
      apply in_flat_map. exists m1. split; [exact Hm1|].
      apply anchor_sem; [|exact Hm]. apply (lit_le input ci cs m0 m1) in Hm1. lia.
    + intros (m0 & Hm0 & Hq). apply in_flat_map in Hq. destruct Hq as (m & Hm & Hq).
      apply in_flat_map in Hm. destruct Hm as (m1 & Hm1 & Hm).
      exists m. split; [|exact Hq]. apply push_sem; auto using anchor_good. exists m1. split.
      * apply (Sem1 p m1 Hp). eauto.
      * apply anchor_sem; [|exact Hm]. apply (lit_le input ci cs m0 m1) in Hm1. lia.
  - (* BD *) intros cs da q b' IHb Hok post st cur fuel Hs Hi Ht Hf Hg.
    cbn [ok_b] in Hok. apply andb_true_iff in Hok as [Hok Okb]. apply andb_true_iff in Hok as [Hok Hkq].
    apply andb_true_iff in Hok as [Ocs Hda].
    cbn [show_b] in Hs, Hf |- *.
    set (rest := show_b b') in *. set (qt := qtext q) in *. set (at_ := datext da) in *.
    assert (Lat : 1 <= length at_ <= 2) by (subst at_; destruct da; cbn; lia).
    assert (Lsh : length (cs ++ at_ ++ qt ++ rest) = length cs + length at_ + length qt + length rest) by (rewrite !app_length; lia).
    rewrite Lsh in Hf |- *.
    assert (Hs' : skipn (idx st) pat = cs ++ at_ ++ qt ++ rest ++ post).
    { rewrite Hs, <- !app_assoc. reflexivity. }
    clear Hs. rename Hs' into Hs.
    assert (Hlen : idx st + (length cs + (length at_ + (length qt + (length rest + length post)))) = len).
    { pose proof (skipn_length (idx st) pat) as L. rewrite Hs in L. fold len in L.
      rewrite !app_length in L. lia. }
    assert (Hfol : exists c t, at_ ++ qt ++ rest ++ post = c :: t /\ (c = 40%N \/ c = 46%N \/ (xpath = true /\ (c = 94%N \/ c = 36%N)) \/ estop (c :: t))).
    { subst at_. destruct da as [|e]; cbn [datext app]; eexists _, _; (split; [reflexivity|]); [auto|].
      right. right. right. exists e, (qt ++ rest ++ post). split; [reflexivity|exact Hda]. }
    destruct (run_prefix cs (at_ ++ qt ++ rest ++ post) st cur fuel Ocs Hfol Hs Hi ltac:(lia) Hg)
      as (fuel1 & cur1 & st1 & Hf1 & Hf1' & Eloop & Hi1 & Hb1 & Hg1 & Sem1 & Hp1 & Fr1 & Eq1).
    rewrite Eloop.
    pose proof (skipn_app_len _ _ _ Hs) as Hs1. rewrite <- Hi1 in Hs1.
    assert (Hi1' : idx st1 <= len) by lia.
    destruct fuel1 as [|[|[|f]]]; try lia.
    assert (Hhd : exists c0 t0, at_ ++ qt ++ rest ++ post = c0 :: t0 /\ (c0 =? c_bar)%N = false /\ (c0 =? c_rparen)%N = false).
    { subst at_. destruct da; cbn [datext app]; eexists _, _; repeat split; reflexivity. }
    destruct Hhd as (c0 & t0 & E0 & Nb & Nr). rewrite E0 in Hs1.
    destruct (skipn_step _ _ _ Hs1) as [_ Hlt1].
    assert (Hh : head_fine (rest ++ post)) by (apply (head_fine_b xpath); auto).
    rewrite branch_loop_S. fold len.
    replace (Nat.ltb (idx st1) len) with true by (symmetry; apply Nat.ltb_lt; exact Hlt1).
    rewrite (is_at_hd _ _ _ c_bar Hs1), (is_at_hd _ _ _ c_rparen Hs1), Nb, Nr. cbn [negb andb].
    rewrite <- E0 in Hs1.
    destruct (piece_dot f st1 da q (rest ++ post) Hda Hkq Hh Hs1 Hi1') as (st2 & Ep & Hi2 & Hp2 & Hb2 & _).
    rewrite Ep. cbn [rbind]. fold (push cur1 (dop da q)). fold qt at_ in Hi2.
    assert (Hs2 : skipn (idx st2) pat = rest ++ post).
    { rewrite Hi2. replace (length at_ + length qt) with (length (at_ ++ qt)) by (rewrite app_length; reflexivity).
      apply (skipn_app_len (idx st1) (at_ ++ qt)). rewrite Hs1, <- app_assoc. reflexivity. }
    destruct (IHb Okb post st2 (push cur1 (dop da q)) (S (S f)) Hs2 ltac:(lia) Ht ltac:(fold rest; lia)
                (push_good _ _ Hg1 (dop_good da q)))
      as (r & st' & E & Hi' & Hb' & Gr & Sem' & Fr' & Eq').
    exists r, st'. split; [exact E|]. fold rest in Hi'. split; [lia|].
    split; [rewrite Hb', Hb2; exact Hb1|]. split; [exact Gr|].
    split.
    2:{ split.
        - intros H1 Hfr.
          assert (Fq : framed (dop da q)) by (destruct q as [[k rel]|]; [unfold dop, qopr; destruct rel; exact I|exact I]).
          destruct (Fr' ltac:(lia) (push_fr _ _ (Fr1 Hfr) Fq)) as [Fr Hp'].
          split; [exact Fr|]. lia.
        - intros p Hp. rewrite (Eq' p Hp), (push_eq cur1 (dop da q) p Hg1 (dop_good da q)), (Eq1 p Hp). cbn [DbO].
          rewrite !flat_map_assoc. apply fm_ext_in. intros m Hm. rewrite <- flat_map_assoc. f_equal.
          apply fm_ext_in. intros k0 Hk0. apply dop_eq; [exact Hda|exact Hkq|]. apply lit_le in Hk0. tauto. }
    intros p m Hp. rewrite (Sem' p m Hp). cbn [Db]. split.
    + intros (m2 & Hm2 & Hq). apply push_sem in Hm2; auto using dop_good. destruct Hm2 as (m1 & Hm1 & Hm2).
      apply (Sem1 p m1 Hp) in Hm1. destruct Hm1 as (m0 & Hm0 & Hm1).
      exists m0. split; [exact Hm0|]. apply in_flat_map. exists m2. split; [|exact Hq].
      apply in_flat_map. exists m1. split; [exact Hm1|].
      apply dop_sem; [exact Hda|exact Hkq| |exact Hm2]. apply (lit_le input ci cs m0 m1) in Hm1. lia.
    + intros (m0 & Hm0 & Hq). apply in_flat_map in Hq. destruct Hq as (m2 & Hm2 & Hq).
      apply in_flat_map in Hm2. destruct Hm2 as (m1 & Hm1 & Hm2).
      exists m2. split; [|exact Hq]. apply push_sem; auto using dop_good. exists m1. split.
      * apply (Sem1 p m1 Hp). eauto.
      * apply dop_sem; [exact Hda|exact Hkq| |exact Hm2]. apply (lit_le input ci cs m0 m1) in Hm1. lia.
  - (* AOne *) intros b IHb Hok post st acc f1 f2 Hs Hi Ht Hf1 Hf2 Hacc. cbn [show_a ok_a] in *.
    destruct f1 as [|f1]; [lia|]. destruct f2 as [|f2]; [lia|].
    assert (Htb : term_b post) by (destruct Ht as [->|(t & ->)]; [left; auto|right; eauto]).
    destruct (IHb Hok post st None f1 Hs Hi Htb ltac:(lia) I) as (r & st1 & E & Hi1 & Hb1 & Gr & Sem & Frb & Eqb).
    set (o := match r with Some c => c | None => ONothing end).
    exists o, st1, (o :: acc), st1. rewrite parse_branch_S, E. cbn [rbind]. split; [reflexivity|].
    assert (Hs1 : skipn (idx st1) pat = post) by (rewrite Hi1; apply (skipn_app_len _ _ _ Hs)).
    split.
    { rewrite branches_loop_S. fold len. destruct Ht as [->|(t & ->)].
      - apply skipn_nil_len in Hs1; [|pose proof (skipn_len_le _ _ _ Hs Hi); lia]. rewrite Hs1, Nat.ltb_irrefl. reflexivity.
      - rewrite (is_at_hd _ _ _ c_bar Hs1). change (41 =? c_bar)%N with false. rewrite andb_false_r. reflexivity. }
    split; [exact Hi1|]. split; [exact Hb1|].
    assert (Go : good o) by (subst o; destruct r; [exact Gr|exact I]).
    split; [constructor; auto|]. split; [discriminate|].
    split.
    2:{ split.
        - intros H1 Hacc'. destruct (Frb H1 I) as [Fr Hp']. split; [|exact Hp'].
          constructor; [|exact Hacc']. subst o. destruct r; [exact Fr|exact I].
        - intros p Hp. change (DaO input ci multi single (AOne b) p) with (DbO input ci multi single b p).
          cbn [rev]. rewrite flat_map_app. cbn [flat_map]. rewrite app_nil_r. f_equal.
          pose proof (Eqb p Hp) as Eo. cbn [Ro flat_map] in Eo. rewrite app_nil_r in Eo. rewrite <- Eo.
          subst o. destruct r; reflexivity. }
    intros p q Hp.
    assert (So : In q (R o p) <-> In q (Db input ci multi single b p)).
    { subst o. pose proof (Sem p q Hp) as S0. destruct r as [c|]; cbn [Ro] in S0; [|change (R ONothing p) with [p]]; rewrite S0;
        (split; [intros (m & [<-|[]] & H); exact H|intros H; exists p; cbn; auto]). }
    cbn [Da]. split.
    + intros (x & [<-|Hx] & Hq); [right; apply So; exact Hq|left; eauto].
    + intros [(x & Hx & Hq)|Hq]; [exists x; split; [right; exact Hx|exact Hq]|exists o; split; [left; reflexivity|apply So; exact Hq]].
  - (* ACons *) intros b IHb a' IHa Hok post st acc f1 f2 Hs Hi Ht Hf1 Hf2 Hacc. cbn [show_a ok_a] in *.
    apply andb_true_iff in Hok as [Okb Oka].
    rewrite app_length in Hf1, Hf2 |- *. cbn [length] in Hf1, Hf2 |- *.
    destruct f1 as [|f1]; [lia|]. destruct f2 as [|f2]; [lia|].
    rewrite <- app_assoc in Hs. cbn [app] in Hs.
    destruct (IHb Okb (124%N :: show_a a' ++ post) st None f1 Hs Hi ltac:(right; eexists; left; reflexivity) ltac:(lia) I)
      as (r & st1 & E & Hi1 & Hb1 & Gr & Sem & Frb & Eqb).
    set (o := match r with Some c => c | None => ONothing end).
    assert (Hs1 : skipn (idx st1) pat = 124%N :: show_a a' ++ post) by (rewrite Hi1; apply (skipn_app_len _ _ _ Hs)).
    destruct (skipn_step _ _ _ Hs1) as [Hs2 Hlt1].
    assert (Go : good o) by (subst o; destruct r; [exact Gr|exact I]).
    destruct (IHa Oka post (adv 1 st1) (o :: acc) f2 f2 ltac:(unfold adv, set_idx; cbn [idx]; exact Hs2)
                ltac:(unfold adv, set_idx; cbn [idx]; lia) Ht ltac:(lia) ltac:(lia) ltac:(constructor; auto))
      as (o2 & st2 & bs & st' & E1 & E2 & Hi' & Hb' & Gbs & Nbs & Sem2 & FrA & EqA).
    exists o, st1, bs, st'. rewrite parse_branch_S, E. cbn [rbind]. split; [reflexivity|]. split.
    { rewrite branches_loop_S. fold len.
      replace (Nat.ltb (idx st1) len) with true by (symmetry; apply Nat.ltb_lt; exact Hlt1).
      rewrite (is_at_hd _ _ _ c_bar Hs1). change (124 =? c_bar)%N with true. cbn [andb].
      rewrite E1. cbn [rbind]. exact E2. }
    unfold adv, set_idx in Hi', Hb'. cbn [idx hasbr] in Hi', Hb'.
    split; [lia|]. split; [congruence|]. split; [exact Gbs|]. split; [exact Nbs|].
    split.
    2:{ split.
        - intros H1 Hacc'. destruct (Frb H1 I) as [Fr Hp1].
          assert (Fo : framed o) by (subst o; destruct r; [exact Fr|exact I]).
          unfold adv, set_idx in FrA. cbn [parens] in FrA.
          destruct (FrA ltac:(lia) ltac:(constructor; auto)) as [Fbs Hp2]. split; [exact Fbs|lia].
        - intros p Hp. rewrite (EqA p Hp).
          change (DaO input ci multi single (ACons b a') p) with (DbO input ci multi single b p ++ DaO input ci multi single a' p).
          cbn [rev]. rewrite flat_map_app. cbn [flat_map]. rewrite app_nil_r, <- app_assoc.
          f_equal. f_equal.
          pose proof (Eqb p Hp) as Eo. cbn [Ro flat_map] in Eo. rewrite app_nil_r in Eo. rewrite <- Eo.
          subst o. destruct r; reflexivity. }
    intros p q Hp.
    assert (So : In q (R o p) <-> In q (Db input ci multi single b p)).
    { subst o. pose proof (Sem p q Hp) as S0. destruct r as [c|]; cbn [Ro] in S0; [|change (R ONothing p) with [p]]; rewrite S0;
        (split; [intros (m & [<-|[]] & H); exact H|intros H; exists p; cbn; auto]). }
    rewrite (Sem2 p q Hp). cbn [Da]. rewrite in_app_iff. split.
    + intros [(x & [<-|Hx] & Hq)|Hq]; [right; left; apply So; exact Hq|left; eauto|right; right; exact Hq].
    + intros [(x & Hx & Hq)|[Hq|Hq]]; [left; exists x; split; [right; exact Hx|exact Hq]|left; exists o; split; [left; reflexivity|apply So; exact Hq]|right; exact Hq].
Qed.

Lemma DqO_le c k rel p q : okq k = true -> p <= n -> In q (DqO input ci multi single c k rel p) -> q <= n.
Proof.
  intros Hk Hp H. rewrite <- qop_eq in H by assumption. eapply (Rop_le_n input ci multi false K); [apply qop_good|exact Hp|exact H].
Qed.
Lemma DdO_le da q0 p q : okat da = true -> okqq xpath q0 = true -> p <= n -> In q (DdO input ci multi single da q0 p) -> q <= n.
Proof.
  intros Ha Hk Hp H. rewrite <- dop_eq in H by assumption. eapply (Rop_le_n input ci multi false K); [apply dop_good|exact Hp|exact H].
Qed.
Lemma DanO_le (eol : bool) p q : p <= n -> In q (DanO input ci multi single eol p) -> q <= n.
Proof.
  intros Hp H. rewrite <- anchor_eq in H by exact Hp. eapply (Rop_le_n input ci multi false K); [apply anchor_good|exact Hp|exact H].
Qed.

(* the ordered denotation stays inside the input *)
Lemma DO_le : (forall b, ok_b xpath b = true -> forall p q, p <= n -> In q (DbO input ci multi single b p) -> q <= n)
           /\ (forall a, ok_a xpath a = true -> forall p q, p <= n -> In q (DaO input ci multi single a p) -> q <= n).
Proof.
  apply branch_alt_ind.
  - intros cs _ p q Hp H. cbn [DbO] in H. apply lit_le in H. tauto.
  - intros cs cap a IHa b IHb Hok p q Hp H. cbn [ok_b] in Hok. apply andb_true_iff in Hok as [Hok Okb].
    apply andb_true_iff in Hok as [_ Oka]. cbn [DbO] in H. apply in_flat_map in H as (m & Hm & H).
    apply in_flat_map in Hm as (m1 & Hm1 & Hm). apply lit_le in Hm1. eapply (IHb Okb); [|exact H]. eapply (IHa Oka); [|exact Hm]. tauto.
  - intros cs c k rel b IHb Hok p q Hp H. cbn [ok_b] in Hok. apply andb_true_iff in Hok as [Hok Okb].
    apply andb_true_iff in Hok as [_ Hk]. cbn [DbO] in H. apply in_flat_map in H as (m & Hm & H).
    apply in_flat_map in Hm as (m1 & Hm1 & Hm). apply lit_le in Hm1. eapply (IHb Okb); [|exact H].
    eapply DqO_le; [exact Hk| |exact Hm]. tauto.
  - intros cs eol b IHb Hok p q Hp H. cbn [ok_b] in Hok. apply andb_true_iff in Hok as [_ Okb].
    cbn [DbO] in H. apply in_flat_map in H as (m & Hm & H).
    apply in_flat_map in Hm as (m1 & Hm1 & Hm). apply lit_le in Hm1. eapply (IHb Okb); [|exact H].
    rewrite <- anchor_eq in Hm by tauto. eapply (Rop_le_n input ci multi false K); [apply anchor_good| |exact Hm]. tauto.
  - intros cs da q0 b IHb Hok p q Hp H. cbn [ok_b] in Hok. apply andb_true_iff in Hok as [Hok Okb].
    apply andb_true_iff in Hok as [Hok Hkq]. apply andb_true_iff in Hok as [_ Hda].
    cbn [DbO] in H. apply in_flat_map in H as (m & Hm & H).
    apply in_flat_map in Hm as (m1 & Hm1 & Hm). apply lit_le in Hm1. eapply (IHb Okb); [|exact H].
    eapply DdO_le; [exact Hda|exact Hkq| |exact Hm]. tauto.
  - intros b IHb Hok p q Hp H. exact (IHb Hok p q Hp H).
  - intros b IHb a IHa Hok p q Hp H. cbn [ok_a] in Hok. apply andb_true_iff in Hok as [Okb Oka].
    cbn [DaO] in H. apply in_app_iff in H as [H|H]; eauto.
Qed.

(* the whole pattern *)
Theorem parse_expr_grammar a : ok_a xpath a = true -> pat = show_a a ->
  exists top st', parse_expr pat xpath ci single (8 * len + 16) true st_init = Ok (top, st')
    /\ idx st' = len /\ hasbr st' = false /\ good top
    /\ (forall p q, p <= n -> (In q (R top p) <-> In q (Da input ci multi single a p)))
    /\ framed top
    /\ (forall p, p <= n -> R top p = DaO input ci multi single a p)
    /\ 1 <= parens st'.
Proof.
  intros Hok Hpat. destruct model_parses as [_ PA].
  assert (Hl : len = length (show_a a)) by (unfold len; rewrite Hpat; reflexivity).
  destruct (PA a Hok [] st_init [] (8 * len + 15) (8 * len + 15)) as (o1 & st1 & bs & st' & E1 & E2 & Hi & Hb & Gbs & Nbs & Sem & FrA & EqA).
  - cbn [idx st_init skipn]. rewrite app_nil_r. exact Hpat.
  - cbn. lia.
  - left. reflexivity.
  - lia.
  - lia.
  - constructor.
  - exists (make_sequence (alt_op bs) OEnd), st'. replace (8 * len + 16) with (S (8 * len + 15)) by lia.
    rewrite parse_expr_top_S, E1. cbn [rbind]. rewrite E2. cbn [rbind]. split; [reflexivity|].
    cbn [idx st_init] in Hi. split; [lia|]. split; [exact Hb|].
    assert (Ga : good (alt_op bs)) by (apply alt_op_good; auto).
    split; [apply good_make_sequence; [exact Ga|exact I]|].
    split.
    2:{ split; [|split].
        - destruct (FrA ltac:(cbn; lia) (Forall_nil _)) as [Fbs _]. apply framed_make_sequence; [apply alt_op_framed; auto|exact I].
        - intros p Hp. rewrite (R_make_sequence_eq (alt_op bs) OEnd p Ga I).
          change (R OEnd) with (fun q : nat => [q]). rewrite fm_single, (alt_op_eq bs p Nbs), (EqA p Hp). reflexivity.
        - destruct (FrA ltac:(cbn; lia) (Forall_nil _)) as [_ Hps]. cbn [parens st_init] in Hps. exact Hps. }
    intros p q Hp. rewrite (R_make_sequence (alt_op bs) OEnd p q Ga I).
    split.
    + intros (m & Hm & [<-|[]]). apply (alt_op_sem bs p m Nbs) in Hm. apply (Sem p m Hp) in Hm.
      destruct Hm as [(x & [] & _)|H]; exact H.
    + intros H. exists q. split; [|left; reflexivity]. apply (alt_op_sem bs p q Nbs). apply (Sem p q Hp). auto.
Qed.
End MP.
