(* C13, all of it on the model: for a non-empty literal (flag q) the matcher reports exactly the
   leftmost occurrence as group 0 and no other group, from whatever state it is called with - so
   the interface facts the scan-loop theorems (ScanFacts, AnalyzeIterFacts, ReplaceFacts) ask of
   the matcher hold, and tokenize / analyze / replace_all of a literal are what those theorems say,
   with no hypothesis left. *)
From RX Require Import Base.Prelude Base.InvList Tables.Consts Model.Case Model.Op Model.Engine Model.Matcher
     Model.Compiler Model.Api Model.Run Proofs.EngineFacts Proofs.MatcherFacts Proofs.LeafFacts Proofs.LiteralFacts
     Proofs.ScanFacts Proofs.AnalyzeFacts Proofs.AnalyzeTreeFacts Proofs.AnalyzeIterFacts Spec.Repl Proofs.ReplaceFacts.
Transparent setg.

Lemma setg0_eq l v : 1 <= length l -> setg l 0 v = Some v :: tl l.
Proof.
  intros H. unfold setg.
  assert (G : forall fuel l0, 1 <= length l0 -> grow l0 fuel 0 = l0).
  { induction fuel; intros l0 Hl; cbn [grow]; auto. destruct l0; cbn [length] in *; [lia|]. reflexivity. }
  rewrite G by auto. destruct l; cbn in *; [lia|reflexivity].
Qed.
Opaque setg.

Section LA.
Variable p : list N.
Variable ci multi lit : bool.
Variable input : list N.
Let n := length input.
Let prog := mk_program p (OSeq [OAtom p; OEnd]) 1 ci multi lit false.
Hypothesis Hfit : (N.of_nat (length p) <= umax)%N.
Hypothesis Hne : p <> [].

Let occ := occurs_at p ci input.

(* the matcher state of a literal program between calls: group 0 only, arrays of matching length *)
Definition lit_state (s : mstate) : Prop :=
  (exists a b, startn (cs_ s) = [a; None; None] /\ endn (cs_ s) = [b; None; None])
  /\ length (sb s) = length (eb s).
Definition lit_inv (s : mstate) : Prop := length (sb s) = length (eb s).

Lemma lit_state_cs0 s : lit_inv s -> lit_state (with_cs cs0 s).
Proof.
  intros H. unfold lit_state, with_cs, cs0. cbn [cs_ startn endn sb eb]. unfold capture_initial_len. cbn [repeat].
  split; [exists None, None; auto|exact H].
Qed.

Lemma clear_beyond_lit q s a b : startn (cs_ s) = [a; None; None] -> endn (cs_ s) = [b; None; None] ->
  oge a q = false -> length (sb s) = length (eb s) ->
  exists s', clear_beyond q s = Some s' /\ startn (cs_ s') = [a; None; None] /\ endn (cs_ s') = [b; None; None]
             /\ pcount (cs_ s') = pcount (cs_ s) /\ anchored s' = anchored s /\ length (sb s') = length (eb s').
Proof.
  intros Ea Eb Ho Hl. unfold clear_beyond. rewrite Ea, Eb. cbn [clear_arr oge]. rewrite Ho.
  destruct (clear_arr_len (sb s) (eb s) q Hl) as [r [E L]]. rewrite E.
  eexists. split; [reflexivity|]. cbn [cs_ startn endn pcount anchored sb eb]. repeat split; auto. lia.
Qed.

(* one attempt at offset j, computed *)
Lemma match_at_lit j s : lit_state s ->
  match match_at prog input j s with
  | MTrue s' => occ j = true /\ get_pstart s' 0 = Some j /\ get_pend s' 0 = Some (j + length p)
                /\ pcount (cs_ s') = 1 /\ lit_state s'
  | MFalse s' => occ j = false /\ lit_state s'
  | MOut | MPanic _ => False
  end.
Proof.
  intros [(a & b & Ea & Eb) Hl].
  assert (Hp0 : 0 < length p) by (destruct p; [contradiction|cbn; lia]).
  unfold match_at. change (p_hasbackrefs prog) with false. change (p_op prog) with (OSeq [OAtom p; OEnd]).
  change (p_case prog) with ci. change (p_multi prog) with multi.
  set (s2 := {| cs_ := cs_ (set_pstart 0 j (set_pcount 1 s)); sb := sb (set_pstart 0 j (set_pcount 1 s));
                eb := eb (set_pstart 0 j (set_pcount 1 s)); anchored := false; hist := [] |}).
  assert (E2a : startn (cs_ s2) = [Some j; None; None]).
  { unfold s2, set_pstart, set_pcount, with_cs. cbn [cs_ startn]. rewrite Ea. rewrite setg0_eq by (cbn; lia). reflexivity. }
  assert (E2b : endn (cs_ s2) = [b; None; None]).
  { unfold s2, set_pstart, set_pcount, with_cs. cbn [cs_ endn]. exact Eb. }
  assert (E2c : pcount (cs_ s2) = 1) by reflexivity.
  assert (E2l : length (sb s2) = length (eb s2)) by (unfold s2, set_pstart, set_pcount, with_cs; cbn [sb eb]; exact Hl).
  assert (L2 : lit_state s2) by (split; [exists (Some j), b; auto|exact E2l]).
  cbn [mi contains_cap existsb is_capture orb]. fold n. unfold occ, occurs_at. fold n.
  destruct (Nat.ltb n (j + length p)) eqn:El.
  - apply Nat.ltb_lt in El. replace (Nat.leb (j + length p) n) with false by (symmetry; apply Nat.leb_gt; lia).
    cbn [bind on_nil andb]. split; [reflexivity|].
    destruct L2 as [(a2 & b2 & A2 & B2) Hl2]. split; [|exact Hl2].
    unfold set_pcount, with_cs. cbn [cs_ startn endn]. eauto.
  - apply Nat.ltb_ge in El. replace (Nat.leb (j + length p) n) with true by (symmetry; apply Nat.leb_le; lia).
    cbn [andb]. destruct (starts_with (ceq ci) p (skipn j input)) eqn:Es.
    + unfold once. cbn [bind].
      set (q := j + length p).
      destruct (clear_beyond_lit q s2 (Some j) b E2a E2b ltac:(cbn; apply Nat.leb_gt; unfold q; lia) E2l)
        as (s3 & C3 & A3 & B3 & P3 & N3 & L3).
      rewrite C3. cbn [mi]. rewrite N3. cbn [anchored s2]. unfold once. cbn [map_yield].
      assert (A4 : startn (cs_ (set_pend 0 q s3)) = [Some j; None; None]) by (unfold set_pend, with_cs; cbn [cs_ startn]; exact A3).
      assert (B4 : endn (cs_ (set_pend 0 q s3)) = [Some q; None; None]).
      { unfold set_pend, with_cs. cbn [cs_ endn]. rewrite B3. rewrite setg0_eq by (cbn; lia). reflexivity. }
      destruct (clear_beyond_lit q (set_pend 0 q s3) (Some j) (Some q) A4 B4 ltac:(cbn; apply Nat.leb_gt; unfold q; lia)
                  ltac:(unfold set_pend, with_cs; cbn [sb eb]; exact L3))
        as (s5 & C5 & A5 & B5 & P5 & N5 & L5).
      rewrite C5. cbn [on_nil].
      unfold get_pstart, get_pend, set_pend, with_cs. cbn [cs_ startn endn pcount sb eb].
      rewrite A5, B5. rewrite !setg0_eq by (cbn; lia). cbn [tl length nth Nat.ltb Nat.leb].
      split; [reflexivity|]. split; [reflexivity|]. split; [reflexivity|].
      split; [rewrite P5; unfold set_pend, with_cs; cbn [cs_ pcount]; rewrite P3; exact E2c|].
      split; [exists (Some j), (Some q); auto|exact L5].
    + cbn [bind on_nil]. split; [reflexivity|].
      destruct L2 as [(a2 & b2 & A2 & B2) Hl2]. split; [|exact Hl2].
      unfold set_pcount, with_cs. cbn [cs_ startn endn]. eauto.
Qed.

(* the search loop with a filter that only skips positions without an occurrence *)
Lemma try_from_lit (filter : nat -> bool) (Hf : forall j, filter j = false -> occ j = false) :
  forall fuel j s, lit_state s ->
  match try_from prog input fuel j filter s with
  | MTrue s' => exists k, j <= k < j + fuel /\ (forall m, j <= m < k -> occ m = false) /\ occ k = true
                          /\ get_pstart s' 0 = Some k /\ get_pend s' 0 = Some (k + length p)
                          /\ pcount (cs_ s') = 1 /\ lit_state s'
  | MFalse s' => (forall m, j <= m < j + fuel -> occ m = false) /\ lit_state s'
  | MOut | MPanic _ => False
  end.
Proof.
  induction fuel as [|f IH]; intros j s Ls; cbn [try_from].
  - split; [intros m Hm; lia|exact Ls].
  - destruct (filter j) eqn:Fj.
    + pose proof (match_at_lit j s Ls) as M.
      destruct (match_at prog input j s) as [s'|s'| |k]; try contradiction.
      * destruct M as (O1 & P1 & P2 & P3 & L1). exists j. split; [lia|]. split; [intros m Hm; lia|].
        split; [exact O1|]. split; [exact P1|]. split; [exact P2|]. split; [exact P3|exact L1].
      * destruct M as [O1 L1]. specialize (IH (S j) s' L1).
        destruct (try_from prog input f (S j) filter s') as [s''|s''| |k]; try contradiction.
        -- destruct IH as (k & Hk & Hb & Rest). exists k. split; [lia|]. split; [|exact Rest].
           intros m Hm. destruct (Nat.eq_dec m j) as [->|]; auto. apply Hb. lia.
        -- destruct IH as [Hb L2]. split; [|exact L2].
           intros m Hm. destruct (Nat.eq_dec m j) as [->|]; auto. apply Hb. lia.
    + specialize (IH (S j) s Ls).
      destruct (try_from prog input f (S j) filter s) as [s''|s''| |k]; try contradiction.
      * destruct IH as (k & Hk & Hb & Rest). exists k. split; [lia|]. split; [|exact Rest].
        intros m Hm. destruct (Nat.eq_dec m j) as [->|]; auto. apply Hb. lia.
      * destruct IH as [Hb L2]. split; [|exact L2].
        intros m Hm. destruct (Nat.eq_dec m j) as [->|]; auto. apply Hb. lia.
Qed.

(* ReMatcher::matches of a literal program, from any state *)
Theorem literal_matches_span i s_in : i <= n -> lit_inv s_in ->
  match matches prog input i s_in with
  | MTrue s' => exists k, i <= k /\ (forall m, i <= m < k -> occ m = false) /\ occ k = true
                          /\ get_pstart s' 0 = Some k /\ get_pend s' 0 = Some (k + length p)
                          /\ pcount (cs_ s') = 1 /\ lit_state s'
  | MFalse s' => (forall m, i <= m -> occ m = false) /\ lit_inv s'
  | MOut | MPanic _ => False
  end.
Proof.
  intros Hi Hinv. unfold matches.
  change (p_hasbol prog) with false. cbn [negb]. fold n.
  replace (Nat.ltb n i) with false by (symmetry; apply Nat.ltb_ge; lia).
  change (p_minlen prog) with (sadd (sadd 0 (N.of_nat (length p))) 0).
  change (p_prefix prog) with (Some p).
  assert (Hout : forall m, n < m + length p -> occ m = false).
  { intros m Hm. unfold occ, occurs_at. fold n.
    replace (Nat.leb (m + length p) n) with false by (symmetry; apply Nat.leb_gt; lia). reflexivity. }
  assert (Hmin : sadd (sadd 0 (N.of_nat (length p))) 0 = N.of_nat (length p)).
  { unfold sadd. rewrite N.add_0_l. rewrite (N.min_l _ _ Hfit). rewrite N.add_0_r. apply N.min_l. exact Hfit. }
  destruct (N.ltb_spec (N.of_nat (n - i)) (sadd (sadd 0 (N.of_nat (length p))) 0)) as [Lt|Ge].
  - split; [intros m Hm; apply Hout; rewrite Hmin in Lt; lia|exact Hinv].
  - assert (Hlen : length p <= n - i) by (rewrite Hmin in Ge; lia).
    replace (Nat.ltb (n + 1) (length p)) with false by (symmetry; apply Nat.ltb_ge; lia).
    assert (Hf : forall j, starts_with (fun a b => ceqp prog b a) p (skipn j input) = false -> occ j = false).
    { intros j Hj. unfold occ, occurs_at.
      assert (E : starts_with (fun a b => ceqp prog b a) p (skipn j input) = starts_with (ceq ci) p (skipn j input)).
      { generalize (skipn j input). clear. induction p as [|x t IH]; intros [|y l]; cbn; auto.
        rewrite IH. f_equal. unfold ceqp, ceq. change (p_case prog) with ci.
        destruct ci; [|apply N.eqb_sym].
        unfold equal_case_blind. rewrite (N.eqb_sym y x), (N.eqb_sym (simple_lower y)). reflexivity. }
      rewrite <- E, Hj. apply andb_false_r. }
    pose proof (try_from_lit _ Hf (n + 1 - length p - i) i (with_cs cs0 s_in) (lit_state_cs0 s_in Hinv)) as T.
    destruct (try_from prog input (n + 1 - length p - i) i _ (with_cs cs0 s_in)) as [s'|s'| |k]; try contradiction.
    + destruct T as (k & Hk & Hb & Rest). exists k. split; [lia|]. split; [exact Hb|exact Rest].
    + destruct T as [Hb L']. split; [|apply L'].
      intros m Hm. destruct (Nat.lt_ge_cases m (i + (n + 1 - length p - i))) as [L|G].
      * apply Hb. lia.
      * apply Hout. lia.
Qed.

(* the interface facts of the scan-loop theorems, relative to the invariant "the back-reference
   arrays have matching lengths" (true of st0 and kept by the matcher) *)
Theorem literal_good_step : good_step_on (matches prog input) input lit_inv.
Proof.
  intros pos s Hpos Hinv. pose proof (literal_matches_span pos s Hpos Hinv) as M.
  destruct (matches prog input pos s) as [s'|s'| |k0]; auto.
  - destruct M as (k & Hk & _ & Ok & P1 & P2 & _ & L). split; [|apply L].
    exists k, (k + length p).
    unfold occ, occurs_at in Ok. apply andb_true_iff in Ok as [O1 _]. apply Nat.leb_le in O1.
    assert (0 < length p) by (destruct p; [contradiction|cbn; lia]).
    repeat split; auto; lia.
  - apply M.
Qed.

Lemma lit_state_no_groups s i : lit_state s -> 1 <= i -> get_pstart s i = None.
Proof.
  intros [(a & b & Ea & _) _] Hi. unfold get_pstart. rewrite Ea. cbn [length].
  destruct i as [|[|[|i]]]; try lia; reflexivity.
Qed.

Theorem literal_caps_inside pos s s' : pos <= n -> lit_inv s -> matches prog input pos s = MTrue s' -> caps_inside s'.
Proof.
  intros Hpos Hinv E. pose proof (literal_matches_span pos s Hpos Hinv) as M. rewrite E in M.
  destruct M as (k & _ & _ & _ & _ & _ & _ & L).
  intros i b si ei Hi _ Hs _. rewrite (lit_state_no_groups s' i L Hi) in Hs. discriminate.
Qed.

(* a match of a literal has no groups: the tree is one String leaf *)
Lemma literal_pcount pos s s' : pos <= n -> lit_inv s -> matches prog input pos s = MTrue s' -> pcount (cs_ s') = 1.
Proof.
  intros Hpos Hinv E. pose proof (literal_matches_span pos s Hpos Hinv) as M. rewrite E in M.
  destruct M as (k & _ & _ & _ & _ & _ & P & _). exact P.
Qed.

(* ---------- the three APIs on a literal ---------- *)
(* tokenize: the pieces between the occurrences the scan visits; at most len+1 of them *)
Theorem literal_tokenize k pe s : lit_inv s -> n - pe < k -> pe <= n ->
  tok_all (matches prog input) input (S (S k)) {| t_prev := Some pe; t_ms := s |}
  = Ok (pieces input (scan (matches prog input) input (S k) pe s) pe).
Proof. apply (tok_all_spec_on _ _ lit_inv literal_good_step). Qed.

Theorem literal_token_bound s : lit_inv s ->
  exists l, tok_all (matches prog input) input (S (S (S n))) {| t_prev := Some 0; t_ms := s |} = Ok l /\ length l <= n + 1.
Proof. apply (tok_count_bound_on _ _ lit_inv literal_good_step). Qed.

(* replace_all under q: the replacement verbatim between the pieces *)
Theorem literal_replace repl k pos s result : lit_inv s -> n - pos < k -> pos <= n ->
  replace_loop (matches prog input) true 1 input repl (S k) pos s result false true
  = Ok (result ++ join repl (pieces input (scan (matches prog input) input (S k) pos s) pos)).
Proof. apply (replace_loop_literal_on _ _ lit_inv repl 1 literal_good_step). Qed.

(* analyze: the texts of all entries concatenate to the input; at most 2*len+1 entries *)
Theorem literal_analyze table fuel s l : lit_inv s ->
  an_all (matches prog input) (process_matching_substring table) input fuel
         {| a_next := None; a_prev := Some 0; a_skip := false; a_ms := s |} = Ok l ->
  flat_map atext l = input /\ length l <= 2 * n + 1.
Proof.
  intros Hinv H.
  apply (analyze_partition_on (matches prog input) (process_matching_substring table) input lit_inv literal_good_step
           (fun s' => pcount (cs_ s') = 1)
           (fun pos s0 s' Hp Hi E => literal_pcount pos s0 s' Hp Hi E)) with (fuel := fuel) (s := s); auto.
  intros s0 a b v Hpc _ _ _ _ Hv. unfold process_matching_substring in Hv. rewrite Hpc in Hv.
  injection Hv as <-. unfold vtext. cbn. apply app_nil_r.
Qed.

(* replace_all without q: the groups a match of the literal leaves can be sliced (there is group 0
   only), so the replacement-expansion theorems apply with no hypothesis left *)
Lemma literal_get_paren pos s s' : pos <= n -> lit_inv s -> matches prog input pos s = MTrue s' ->
  forall g, exists o, get_paren input s' g = Ok o.
Proof.
  intros Hpos Hinv E g. pose proof (literal_matches_span pos s Hpos Hinv) as M. rewrite E in M.
  destruct M as (k & _ & _ & Hocc & P1 & P2 & Pc & _).
  unfold get_paren. rewrite Pc. destruct g as [|g]; cbn [Nat.ltb Nat.leb]; [|eexists; reflexivity].
  rewrite P1, P2. unfold rslice. fold n.
  unfold occ, occurs_at in Hocc. apply andb_true_iff in Hocc as [O1 _]. apply Nat.leb_le in O1. fold n in O1.
  replace (Nat.ltb (k + length p) k) with false by (symmetry; apply Nat.ltb_ge; lia).
  replace (Nat.ltb n (k + length p)) with false by (symmetry; apply Nat.ltb_ge; lia).
  cbn [orb rbind]. eexists. reflexivity.
Qed.

Theorem literal_replace_valid repl its s0 : lit_inv s0 -> parse_repl 0 repl = PItems its ->
  replace_loop (matches prog input) false 1 input repl (n + 2) 0 s0 [] true false
  = Ok (rep_out (matches prog input) 0 input its (n + 2) 0 s0).
Proof.
  apply (replace_valid_on (matches prog input) 0 input repl lit_inv literal_good_step literal_get_paren).
Qed.

Theorem literal_replace_invalid repl s0 s' : lit_inv s0 -> parse_repl 0 repl = PInvalid -> 0 < n ->
  matches prog input 0 s0 = MTrue s' ->
  replace_loop (matches prog input) false 1 input repl (n + 2) 0 s0 [] true false = Err EInvalidRepl.
Proof.
  apply (replace_invalid_on (matches prog input) 0 input repl lit_inv literal_good_step literal_get_paren).
Qed.
End LA.
