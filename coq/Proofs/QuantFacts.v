(* What the specification's quantifier means: the end positions of r{mn,mx} from i are exactly the
   positions reachable from i by k rounds of the body for some k between mn and mx.  [quant_ends]
   computes them with mn mandatory rounds and a saturation loop that is cut off after n+2 extra
   rounds; that the cut-off loses nothing is a pumping argument (a path that visits more than n+1
   positions repeats one, and the cycle can be cut). *)
From RX Require Import Base.Prelude Base.InvList Spec.Syntax Spec.Parse Spec.CharSet Spec.Sem Proofs.LeafFacts Proofs.LowerFacts.
From Coq Require Import ListDec.

Section Q.
Variable step : nat -> list nat.
Variable n : nat.
Hypothesis step_le : forall p q, p <= n -> In q (step p) -> q <= n.

(* q is reachable from p by exactly k rounds *)
Fixpoint reach (k : nat) (p q : nat) : Prop :=
  match k with
  | O => q = p
  | S k' => exists m, In m (step p) /\ reach k' m q
  end.
Definition reachset (a : list nat) (k : nat) (q : nat) : Prop := exists p, In p a /\ reach k p q.

Lemma reach_add : forall k1 k2 p q, reach (k1 + k2) p q <-> exists m, reach k1 p m /\ reach k2 m q.
Proof.
  induction k1 as [|k1 IH]; intros k2 p q; cbn [Nat.add reach].
  - split; [intros H; exists p; auto|intros (m & -> & H); exact H].
  - split.
    + intros (m & Hm & H). apply IH in H. destruct H as (m' & H1 & H2). exists m'. split; [exists m; auto|exact H2].
    + intros (m' & (m & Hm & H1) & H2). exists m. split; [exact Hm|]. apply IH. exists m'. auto.
Qed.

Lemma reach_snoc k p q : reach (S k) p q <-> exists m, reach k p m /\ In q (step m).
Proof.
  replace (S k) with (k + 1) by lia. rewrite reach_add. cbn [reach].
  split; intros (m & H1 & H2); exists m; (split; [exact H1|]).
  - destruct H2 as (m' & Hm' & ->). exact Hm'.
  - exists q. auto.
Qed.

Lemma reach_le : forall k p q, p <= n -> reach k p q -> q <= n.
Proof.
  induction k as [|k IH]; intros p q Hp H; cbn [reach] in H; [subst; exact Hp|].
  destruct H as (m & Hm & H). apply (IH m q); [eapply step_le; eauto|exact H].
Qed.

Lemma reachset_step a k q : reachset (step_set step a) k q <-> reachset a (S k) q.
Proof.
  unfold reachset. split.
  - intros (m & Hm & H). apply In_step_set in Hm. destruct Hm as (p & Hp & Hm). exists p. split; [exact Hp|]. exists m. auto.
  - intros (p & Hp & m & Hm & H). exists m. split; [|exact H]. apply In_step_set. exists p. auto.
Qed.

Lemma rounds_spec : forall k a q, In q (rounds step k a) <-> reachset a k q.
Proof.
  induction k as [|k IH]; intros a q; cbn [rounds].
  - unfold reachset. cbn [reach]. split; [intros H; exists q; auto|intros (p & Hp & ->); exact Hp].
  - destruct a as [|x t] eqn:Ea.
    + split; [intros []|intros (p & [] & _)].
    + rewrite IH. apply reachset_step.
Qed.

Lemma subset_spec a b : subset a b = true <-> forall x, In x a -> In x b.
Proof.
  unfold subset. rewrite forallb_forall. split; intros H x Hx.
  - apply existsb_In. apply H. exact Hx.
  - apply existsb_In. apply H. exact Hx.
Qed.

Section Sat.
Variable a : list nat.

(* once a round adds nothing new, no later round does *)
Lemma closure j : (forall q, reachset a (S j) q -> exists t, t <= j /\ reachset a t q) ->
  forall t q, reachset a t q -> exists t', t' <= j /\ reachset a t' q.
Proof.
  intros Hc. induction t as [|t IH]; intros q H.
  - exists 0. split; [lia|exact H].
  - destruct H as (p & Hp & H). apply reach_snoc in H. destruct H as (m & H1 & H2).
    destruct (IH m) as (t1 & Ht1 & (p1 & Hp1 & R1)); [exists p; auto|].
    assert (R2 : reachset a (S t1) q).
    { exists p1. split; [exact Hp1|]. apply reach_snoc. exists m. auto. }
    destruct (Nat.eq_dec t1 j) as [->|Hne]; [apply Hc; exact R2|].
    exists (S t1). split; [lia|exact R2].
Qed.

Lemma saturate_spec : forall fuel frontier u j,
  (forall q, In q frontier <-> reachset a j q) ->
  (forall q, In q u <-> exists t, t <= j /\ reachset a t q) ->
  forall q, In q (saturate step fuel frontier u) <-> exists t, t <= j + fuel /\ reachset a t q.
Proof.
  induction fuel as [|f IH]; intros frontier u j Hf Hu q; cbn [saturate].
  - rewrite Hu. replace (j + 0) with j by lia. reflexivity.
  - assert (Hnx : forall x, In x (step_set step frontier) <-> reachset a (S j) x).
    { intros x. rewrite In_step_set. split.
      - intros (p0 & Hp0 & Hx). apply Hf in Hp0. destruct Hp0 as (p1 & Hp1 & R1).
        exists p1. split; [exact Hp1|]. apply reach_snoc. exists p0. auto.
      - intros (p1 & Hp1 & R). apply reach_snoc in R. destruct R as (p0 & R1 & Hx).
        exists p0. split; [apply Hf; exists p1; auto|exact Hx]. }
    destruct (subset (step_set step frontier) u) eqn:Es.
    + rewrite Hu. split.
      * intros (t & Ht & H). exists t. split; [lia|exact H].
      * intros (t & _ & H). refine (closure j _ t q H).
        intros x Hx. apply Hu. apply (proj1 (subset_spec _ _) Es). apply Hnx. exact Hx.
    + rewrite (IH (step_set step frontier) (set_union (step_set step frontier) u) (S j)).
      * replace (S j + f) with (j + S f) by lia. reflexivity.
      * exact Hnx.
      * intros x. rewrite In_set_union, Hnx, Hu. split.
        -- intros [H|(t & Ht & H)]; [exists (S j); auto|exists t; split; [lia|exact H]].
        -- intros (t & Ht & H). destruct (Nat.eq_dec t (S j)) as [->|Hne]; [left; exact H|right; exists t; split; [lia|exact H]].
Qed.
End Sat.

(* ---------- pumping: a path longer than n visits a position twice ---------- *)
Fixpoint walkp (l : list nat) (p : nat) : Prop :=
  match l with [] => True | m :: t => In m (step p) /\ walkp t m end.

Lemma last_default (l : list nat) x d1 d2 : last (x :: l) d1 = last (x :: l) d2.
Proof. revert x. induction l as [|y t IH]; intros x; [reflexivity|]. cbn [last] in *. apply IH. Qed.
Lemma last_cons (l : list nat) m p : last (m :: l) p = last l m.
Proof. destruct l as [|x t]; [reflexivity|]. change (last (m :: x :: t) p) with (last (x :: t) p). apply last_default. Qed.

Lemma reach_walk : forall k p q, reach k p q <-> exists l, length l = k /\ walkp l p /\ last l p = q.
Proof.
  induction k as [|k IH]; intros p q; cbn [reach].
  - split.
    + intros ->. exists []. repeat split.
    + intros (l & Hl & _ & H). destruct l; [cbn in H; auto|discriminate].
  - split.
    + intros (m & Hm & H). apply IH in H. destruct H as (l & Hl & Hw & Hq).
      exists (m :: l). cbn [length walkp]. repeat split; auto. rewrite last_cons. exact Hq.
    + intros (l & Hl & Hw & Hq). destruct l as [|m l]; [discriminate|]. cbn [length walkp] in *.
      destruct Hw as [Hm Hw]. exists m. split; [exact Hm|]. apply IH. exists l. repeat split; [lia|exact Hw|].
      rewrite last_cons in Hq. exact Hq.
Qed.

Lemma walkp_app : forall l1 l2 p, walkp (l1 ++ l2) p <-> walkp l1 p /\ walkp l2 (last l1 p).
Proof.
  induction l1 as [|m t IH]; intros l2 p; cbn [app walkp].
  - cbn [last]. tauto.
  - rewrite IH, last_cons. tauto.
Qed.

Lemma last_app_cons (l1 : list nat) a l2 p : last (l1 ++ a :: l2) p = last l2 a.
Proof.
  induction l1 as [|x t IH]; cbn [app].
  - apply last_cons.
  - rewrite last_cons. destruct t as [|y t']; cbn [app] in *.
    + rewrite last_cons. reflexivity.
    + rewrite last_cons in IH. rewrite last_cons. exact IH.
Qed.

Lemma walkp_le : forall l p, p <= n -> walkp l p -> forall x, In x l -> x <= n.
Proof.
  induction l as [|m t IH]; intros p Hp Hw x Hx; [destruct Hx|].
  destruct Hw as [Hm Hw]. assert (m <= n) by (eapply step_le; eauto).
  destruct Hx as [<-|Hx]; [assumption|]. eapply IH; eauto.
Qed.

Lemma dup_split (l : list nat) : ~ NoDup l -> exists a l1 l2 l3, l = l1 ++ a :: l2 ++ a :: l3.
Proof.
  induction l as [|x t IH]; intros H; [exfalso; apply H; constructor|].
  destruct (in_dec Nat.eq_dec x t) as [Hin|Hnin].
  - apply in_split in Hin. destruct Hin as (l2 & l3 & ->). exists x, [], l2, l3. reflexivity.
  - destruct IH as (a & l1 & l2 & l3 & ->).
    + intros Hnd. apply H. constructor; assumption.
    + exists a, (x :: l1), l2, l3. reflexivity.
Qed.

Lemma walkp_cut l1 a l2 l3 p : walkp (l1 ++ a :: l2 ++ a :: l3) p -> walkp (l1 ++ a :: l3) p.
Proof.
  intros H. apply walkp_app in H. destruct H as [H1 H2]. cbn [walkp] in H2. destruct H2 as [Ha H2].
  apply walkp_app in H2. destruct H2 as [_ H3]. cbn [walkp] in H3. destruct H3 as [_ H3].
  apply walkp_app. split; [exact H1|]. cbn [walkp]. split; [exact Ha|exact H3].
Qed.

(* a path with more than n steps can be shortened *)
Lemma shorten l p : p <= n -> walkp l p -> n < length l ->
  exists l', length l' < length l /\ walkp l' p /\ last l' p = last l p.
Proof.
  intros Hp Hw Hlen.
  assert (Hnd : ~ NoDup (p :: l)).
  { intros Hnd. assert (Hincl : incl (p :: l) (seq 0 (S n))).
    { intros x [<-|Hx]; apply in_seq; [lia|]. pose proof (walkp_le l p Hp Hw x Hx). lia. }
    pose proof (NoDup_incl_length Hnd Hincl) as L. rewrite seq_length in L. cbn [length] in L. lia. }
  destruct (dup_split _ Hnd) as (a & l1 & l2 & l3 & E).
  destruct l1 as [|x l1'].
  - cbn [app] in E. injection E as <- ->.
    exists l3. split; [rewrite app_length; cbn [length]; lia|].
    apply walkp_app in Hw. destruct Hw as [_ Hw]. cbn [walkp] in Hw. destruct Hw as [_ Hw].
    split; [exact Hw|]. rewrite last_app_cons. reflexivity.
  - cbn [app] in E. injection E as <- ->.
    exists (l1' ++ a :: l3). split; [rewrite !app_length; cbn [length]; rewrite app_length; cbn [length]; lia|].
    split; [apply (walkp_cut l1' a l2 l3 p Hw)|].
    rewrite !last_app_cons. reflexivity.
Qed.

Lemma pump : forall t p q, p <= n -> reach t p q -> exists t', t' <= n /\ reach t' p q.
Proof.
  induction t as [t IH] using lt_wf_ind. intros p q Hp H.
  destruct (Nat.le_gt_cases t n) as [Hle|Hgt]; [exists t; auto|].
  apply reach_walk in H. destruct H as (l & Hl & Hw & Hq).
  destruct (shorten l p Hp Hw ltac:(lia)) as (l' & Hl' & Hw' & Hq').
  apply (IH (length l')); [lia|exact Hp|].
  apply reach_walk. exists l'. repeat split; [exact Hw'|]. rewrite Hq'. exact Hq.
Qed.
End Q.

(* ---------- the quantifier of the specification ---------- *)
Theorem quant_ends_spec (s : list N) (step : nat -> list nat) (mn : N) (mx : option N) (i q : nat) :
  (forall p x, p <= length s -> In x (step p) -> x <= length s) -> i <= length s ->
  match mx with Some m => (mn <= m)%N | None => True end ->
  (In q (quant_ends s step mn mx i)
   <-> exists k, N.to_nat mn <= k /\ match mx with Some m => k <= N.to_nat m | None => True end /\ reach step k i q).
Proof.
  intros Hle Hi Hmx. unfold quant_ends.
  set (n := length s). set (a := rounds step (N.to_nat mn) [i]).
  set (extra := match mx with Some m => N.to_nat (N.min (m - mn) (N.of_nat (n + 2))) | None => n + 2 end).
  assert (Ha : forall x, In x a -> x <= n).
  { intros x Hx. apply rounds_spec in Hx. destruct Hx as (p & [<-|[]] & R). eapply reach_le; eauto. }
  assert (Hra : forall t x, reachset step a t x <-> reach step (N.to_nat mn + t) i x).
  { intros t x. rewrite reach_add. unfold reachset. split.
    - intros (p & Hp & R). exists p. split; [|exact R]. apply rounds_spec in Hp. destruct Hp as (p0 & [<-|[]] & R0). exact R0.
    - intros (p & R0 & R). exists p. split; [|exact R]. apply rounds_spec. exists i. split; [left; reflexivity|exact R0]. }
  rewrite (saturate_spec step a extra a a 0).
  - split.
    + intros (t & Ht & H). apply Hra in H. exists (N.to_nat mn + t). split; [lia|]. split; [|exact H].
      destruct mx as [m|]; [|exact I]. unfold extra in Ht. lia.
    + intros (k & Hk1 & Hk2 & H).
      replace k with (N.to_nat mn + (k - N.to_nat mn)) in H by lia. apply Hra in H.
      destruct (Nat.le_gt_cases (k - N.to_nat mn) extra) as [Hsmall|Hbig]; [exists (k - N.to_nat mn); auto|].
      destruct H as (p & Hp & R).
      destruct (pump step n Hle _ p q (Ha p Hp) R) as (t' & Ht' & R').
      exists t'. split; [|exists p; auto].
      assert (n + 2 <= extra); [|lia].
      unfold extra in *. destruct mx as [m|]; [|lia]. lia.
  - intros x. unfold reachset. cbn [reach]. split; [intros H; exists x; auto|intros (p & Hp & ->); exact Hp].
  - intros x. split.
    + intros H. exists 0. split; [lia|]. exists x. cbn [reach]. auto.
    + intros (t & Ht & (p & Hp & R)). assert (t = 0) by lia. subst t. cbn [reach] in R. subst. exact Hp.
Qed.
