(* C17, the parser steps on which the two dialects differ: under XSD a '^' or '$' is handed to the
   atom scanner like any ordinary character while under XPath it becomes an anchor; '(?:' and the
   escape '\$' are syntax errors under XSD and accepted under XPath. *)
From RX Require Import Base.Prelude Base.InvList Model.Case Model.Op Model.Compiler.

Section D.
Variable pat : list N.
Variable ci single : bool.

Lemma terminal_caret xpath fuel st : at_ pat (idx st) = Some 94%N ->
  parse_terminal pat xpath ci single (S fuel) st
  = if xpath then Ok (OBol, adv 1 st) else parse_atom pat xpath st.
Proof. intros H. cbn [parse_terminal]. rewrite H. destruct xpath; reflexivity. Qed.

Lemma terminal_dollar xpath fuel st : at_ pat (idx st) = Some 36%N ->
  parse_terminal pat xpath ci single (S fuel) st
  = if xpath then Ok (OEol, adv 1 st) else parse_atom pat xpath st.
Proof. intros H. cbn [parse_terminal]. rewrite H. destruct xpath; reflexivity. Qed.

(* '(?:' opens a non-capturing group under XPath and is an error under XSD *)
Lemma noncapturing_xsd fuel st : at_ pat (idx st) = Some 40%N ->
  Nat.ltb (idx st + 2) (length pat) = true -> is_at pat (idx st + 1) 63 = true -> is_at pat (idx st + 2) 58 = true ->
  parse_expr pat false ci single (S fuel) false st = Err ESyntax.
Proof.
  intros H1 H2 H3 H4. cbn [parse_expr negb]. rewrite H1.
  change (40 =? c_lparen)%N with true. change c_qmark with 63%N. change c_colon with 58%N.
  rewrite H2, H3, H4. reflexivity.
Qed.

(* the escape \$ exists under XPath only *)
Lemma escape_dollar xpath in_sq st : at_ pat (idx st) = Some 92%N -> Nat.leb (length pat) (idx st + 1) = false ->
  at_ pat (idx st + 1) = Some 36%N ->
  escape pat xpath in_sq st = if xpath then Ok (EChar 36, adv 2 st) else Err ESyntax.
Proof.
  intros H1 H2 H3. unfold escape. rewrite H1. cbn [negb N.eqb]. change (92 =? c_bslash)%N with true. cbn [negb].
  rewrite H2, H3. destruct xpath; reflexivity.
Qed.
End D.
