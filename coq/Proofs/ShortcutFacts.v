(* O2: the search shortcuts of ReMatcher::matches - minimum-length cut-off, literal-prefix scan,
   first-character filter - are pure on the fragment: a program whose operation starts with a
   literal or a class gives, with the shortcuts, exactly the outcome (match / no match, and the end
   of the reported match) that the same operation gives without any shortcut. *)
From RX Require Import Base.Prelude Base.InvList Tables.Consts Model.Case Model.Op Model.Engine Model.Matcher
     Model.Compiler Model.Api Proofs.EngineFacts Proofs.MatcherFacts Proofs.LengthFacts.

Section S.
Variable prog : program.
Variable input : list N.
Let n := length input.
Let K := p_maxparens prog.
Let R := Rop input (p_case prog) (p_multi prog) (p_op prog).
Hypothesis Hsimple : simple input (p_case prog) (p_multi prog) (p_hasbackrefs prog) K (p_op prog).

(* every end position lies inside the input *)
Lemma R_le_n p q : p <= n -> In q (R p) -> q <= n.
Proof.
  intros Hp Hin.
  set (s := {| cs_ := cs0; sb := repeat None K; eb := repeat None K; anchored := false; hist := [] |}).
  assert (W : wf (p_hasbackrefs prog) K s).
  { unfold wf, s, cs0. cbn. rewrite !repeat_length. unfold capture_initial_len. repeat split; auto. }
  pose proof (engine_yields_Rop input (p_case prog) (p_multi prog) (p_hasbackrefs prog) K (p_op prog) Hsimple [0] p s Hp W) as Y.
  eapply YW_in; eauto.
Qed.

(* the search loop with any filter that only skips positions where nothing matches *)
Lemma try_from_filter_R (filter : nat -> bool) (Hf : forall j, filter j = false -> R j = []) :
  forall fuel j s, j + fuel <= n + 1 -> wf0 s ->
  match try_from prog input fuel j filter s with
  | MTrue s' => exists k q rest, j <= k < j + fuel /\ (forall m, j <= m < k -> R m = [])
                                /\ R k = q :: rest /\ q <= n /\ get_pend s' 0 = Some q
  | MFalse s' => forall m, j <= m < j + fuel -> R m = []
  | MOut | MPanic _ => False
  end.
Proof.
  induction fuel as [|f IH]; intros j s Hj Ws; cbn [try_from].
  - intros m Hm. lia.
  - destruct (filter j) eqn:Fj.
    + pose proof (match_at_spec prog input Hsimple j s ltac:(lia) Ws) as M. fold R in M.
      destruct (match_at prog input j s) as [s'|s'| |k]; try contradiction.
      * destruct M as (q & rest & E & Hq & Hp & _).
        exists j, q, rest. repeat split; auto; try lia.
      * destruct M as [E Ws'].
        specialize (IH (S j) s' ltac:(lia) Ws').
        destruct (try_from prog input f (S j) filter s') as [s''|s''| |k]; try contradiction.
        -- destruct IH as (k & q & rest & Hk & Hb & Ek & Hq & Hp).
           exists k, q, rest. repeat split; auto; try lia.
           intros m Hm. destruct (Nat.eq_dec m j) as [->|]; auto. apply Hb. lia.
        -- intros m Hm. destruct (Nat.eq_dec m j) as [->|]; auto. apply IH. lia.
    + specialize (IH (S j) s ltac:(lia) Ws).
      destruct (try_from prog input f (S j) filter s) as [s''|s''| |k]; try contradiction.
      * destruct IH as (k & q & rest & Hk & Hb & Ek & Hq & Hp).
        exists k, q, rest. repeat split; auto; try lia.
        intros m Hm. destruct (Nat.eq_dec m j) as [->|]; auto. apply Hb. lia.
      * intros m Hm. destruct (Nat.eq_dec m j) as [->|]; auto. apply IH. lia.
Qed.

(* the minimum-length cut-off *)
Lemma minlen_cut i : p_minlen prog = min_length (p_op prog) ->
  (N.of_nat (n - i) < p_minlen prog)%N -> forall m, i <= m <= n -> R m = [].
Proof.
  intros Hm Hlt m Hmi.
  destruct (R m) as [|q rest] eqn:E; auto. exfalso.
  assert (Hin : In q (R m)) by (rewrite E; left; auto).
  pose proof (R_le_n m q ltac:(lia) Hin) as Hq.
  destruct (min_length_sound input (p_case prog) (p_multi prog) (p_hasbackrefs prog) K (p_op prog) Hsimple m q Hin) as [L1 L2].
  rewrite Hm in Hlt. lia.
Qed.

Definition outcome_spec (i : nat) (r : mres) : Prop :=
  match r with
  | MTrue s' => exists k q rest, i <= k <= n /\ (forall m, i <= m < k -> R m = [])
                                /\ R k = q :: rest /\ q <= n /\ get_pend s' 0 = Some q
  | MFalse _ => forall m, i <= m <= n -> R m = []
  | MOut | MPanic _ => False
  end.

Lemma wf0_cs0 s : length (sb s) = length (eb s) -> wf0 (with_cs cs0 s).
Proof.
  intros H. unfold wf0, with_cs, cs0. cbn [cs_ startn endn sb eb]. rewrite !repeat_length.
  unfold capture_initial_len. repeat split; auto.
Qed.

(* first term a literal: prefix scan *)
Theorem matches_prefix_spec pre rest i s_in :
  p_op prog = OSeq (OAtom pre :: rest) -> rest <> [] ->
  p_hasbol prog = false -> p_prefix prog = Some pre -> p_minlen prog = min_length (p_op prog) ->
  (N.of_nat (length pre) <= p_minlen prog)%N ->
  i <= n -> length (sb s_in) = length (eb s_in) ->
  outcome_spec i (matches prog input i s_in).
Proof.
  intros Hop Hrest Hbol Hpre Hmin Hpl Hi Hs. unfold matches. rewrite Hbol, Hpre. fold n.
  replace (Nat.ltb n i) with false by (symmetry; apply Nat.ltb_ge; lia).
  destruct (N.ltb_spec (N.of_nat (n - i)) (p_minlen prog)) as [Lt|Ge].
  - cbn [outcome_spec]. apply minlen_cut; auto.
  - assert (Hlen : length pre <= n - i) by lia.
    replace (Nat.ltb (n + 1) (length pre)) with false by (symmetry; apply Nat.ltb_ge; lia).
    assert (Hbeyond : forall m, n < m + length pre -> R m = []).
    { intros m Hm. unfold R. rewrite Hop. destruct rest as [|r1 rest']; [congruence|].
      cbn [Rop]. fold n. replace (Nat.ltb n (m + length pre)) with true by (symmetry; apply Nat.ltb_lt; lia).
      reflexivity. }
    assert (Hf : forall j, starts_with (fun a b => ceqp prog b a) pre (skipn j input) = false -> R j = []).
    { intros j Hj. unfold R. rewrite Hop. destruct rest as [|r1 rest']; [congruence|]. cbn [Rop]. fold n.
      assert (E : starts_with (fun a b => ceqp prog b a) pre (skipn j input)
                  = starts_with (ceq (p_case prog)) pre (skipn j input)).
      { generalize (skipn j input). clear. induction pre as [|x t IH]; intros [|y l]; cbn; auto.
        rewrite IH. f_equal. unfold ceqp, ceq. destruct (p_case prog); [|apply N.eqb_sym].
        unfold equal_case_blind. rewrite (N.eqb_sym y x), (N.eqb_sym (simple_lower y)). reflexivity. }
      rewrite <- E, Hj. destruct (Nat.ltb n (j + length pre)); reflexivity. }
    pose proof (try_from_filter_R _ Hf (n + 1 - length pre - i) i (with_cs cs0 s_in) ltac:(lia) (wf0_cs0 s_in Hs)) as T.
    destruct (try_from prog input (n + 1 - length pre - i) i _ (with_cs cs0 s_in)) as [s'|s'| |k]; try contradiction;
      cbn [outcome_spec].
    + destruct T as (k & q & rs & Hk & Hb & Ek & Hq & Hp). exists k, q, rs. repeat split; auto; lia.
    + intros m Hm. destruct (Nat.lt_ge_cases m (i + (n + 1 - length pre - i))) as [L|G].
      * apply T. lia.
      * apply Hbeyond. lia.
Qed.

(* first term a character class: first-character filter *)
Theorem matches_icc_spec cls rest i s_in :
  p_op prog = OSeq (OCls cls :: rest) -> rest <> [] ->
  p_hasbol prog = false -> p_prefix prog = None -> p_icc prog = Some cls ->
  p_minlen prog = min_length (p_op prog) ->
  i <= n -> length (sb s_in) = length (eb s_in) ->
  outcome_spec i (matches prog input i s_in).
Proof.
  intros Hop Hrest Hbol Hpre Hicc Hmin Hi Hs. unfold matches. rewrite Hbol, Hpre, Hicc. fold n.
  replace (Nat.ltb n i) with false by (symmetry; apply Nat.ltb_ge; lia).
  destruct (N.ltb_spec (N.of_nat (n - i)) (p_minlen prog)) as [Lt|Ge].
  - cbn [outcome_spec]. apply minlen_cut; auto.
  - assert (Hf : forall j, (match nth_error input j with Some c => mem cls c | None => false end) = false -> R j = []).
    { intros j Hj. unfold R. rewrite Hop. destruct rest as [|r1 rest']; [congruence|]. cbn [Rop].
      destruct (nth_error input j) as [c|]; [rewrite Hj|]; reflexivity. }
    pose proof (try_from_filter_R _ Hf (n - i) i (with_cs cs0 s_in) ltac:(lia) (wf0_cs0 s_in Hs)) as T.
    destruct (try_from prog input (n - i) i _ (with_cs cs0 s_in)) as [s'|s'| |k]; try contradiction;
      cbn [outcome_spec].
    + destruct T as (k & q & rs & Hk & Hb & Ek & Hq & Hp). exists k, q, rs. repeat split; auto; lia.
    + intros m Hm. destruct (Nat.eq_dec m n) as [->|Hne]; [|apply T; lia].
      (* at the end of the input a class cannot match *)
      apply Hf. replace (nth_error input n) with (@None N); auto.
      symmetry. apply nth_error_None. lia.
Qed.

(* two outcomes that satisfy the specification agree on everything observable *)
Lemma outcome_unique i r1 r2 : outcome_spec i r1 -> outcome_spec i r2 ->
  match r1, r2 with
  | MTrue s1, MTrue s2 => get_pend s1 0 = get_pend s2 0
  | MFalse _, MFalse _ => True
  | _, _ => False
  end.
Proof.
  destruct r1 as [s1|s1| |k1]; destruct r2 as [s2|s2| |k2]; cbn [outcome_spec]; try tauto.
  - intros (k & q & rs & Hk & Hb & Ek & Hq & Hp) (k' & q' & rs' & Hk' & Hb' & Ek' & Hq' & Hp').
    assert (k = k').
    { destruct (Nat.lt_trichotomy k k') as [L|[E|L]]; auto.
      - rewrite (Hb' k ltac:(lia)) in Ek. discriminate.
      - rewrite (Hb k' ltac:(lia)) in Ek'. discriminate. }
    subst k'. rewrite Ek in Ek'. injection Ek' as <- <-. congruence.
  - intros (k & q & rs & Hk & Hb & Ek & Hq & Hp) H. rewrite (H k Hk) in Ek. discriminate.
  - intros H (k & q & rs & Hk & Hb & Ek & Hq & Hp). rewrite (H k Hk) in Ek. discriminate.
Qed.
End S.

(* ---------------------------------------------------------------- optimised = unoptimised *)
Section Pure.
Variable pat : list N.
Variable K : nat.
Variable ci multi lit hbk : bool.
Variable input : list N.

Definition same_outcome (r1 r2 : mres) : Prop :=
  match r1, r2 with
  | MTrue s1, MTrue s2 => get_pend s1 0 = get_pend s2 0
  | MFalse _, MFalse _ => True
  | _, _ => False
  end.

Lemma unopt_outcome o i s :
  simple input ci multi hbk K o -> i <= length input -> length (sb s) = length (eb s) ->
  outcome_spec (mk_program_unopt pat o K ci multi lit hbk) input i
               (matches (mk_program_unopt pat o K ci multi lit hbk) input i s).
Proof.
  intros Hs Hi Hl.
  pose proof (matches_unopt_spec (mk_program_unopt pat o K ci multi lit hbk) input Hs
                ltac:(cbn; repeat split; reflexivity) i s Hi Hl) as M.
  unfold outcome_spec. destruct (matches _ input i s); auto.
Qed.

Theorem shortcuts_pure_literal_first pre rest i s :
  let o := OSeq (OAtom pre :: rest) in
  simple input ci multi hbk K o -> rest <> [] -> (N.of_nat (length pre) <= min_length o)%N ->
  i <= length input -> length (sb s) = length (eb s) ->
  same_outcome (matches (mk_program pat o K ci multi lit hbk) input i s)
               (matches (mk_program_unopt pat o K ci multi lit hbk) input i s).
Proof.
  intros o Hs Hr Hp Hi Hl.
  pose proof (matches_prefix_spec (mk_program pat o K ci multi lit hbk) input Hs pre rest i s
                eq_refl Hr eq_refl eq_refl eq_refl Hp Hi Hl) as A.
  pose proof (unopt_outcome o i s Hs Hi Hl) as B.
  exact (outcome_unique (mk_program pat o K ci multi lit hbk) input i _ _ A B).
Qed.

Theorem shortcuts_pure_class_first cls rest i s :
  let o := OSeq (OCls cls :: rest) in
  simple input ci multi hbk K o -> rest <> [] ->
  i <= length input -> length (sb s) = length (eb s) ->
  same_outcome (matches (mk_program pat o K ci multi lit hbk) input i s)
               (matches (mk_program_unopt pat o K ci multi lit hbk) input i s).
Proof.
  intros o Hs Hr Hi Hl.
  pose proof (matches_icc_spec (mk_program pat o K ci multi lit hbk) input Hs cls rest i s
                eq_refl Hr eq_refl eq_refl eq_refl eq_refl Hi Hl) as A.
  pose proof (unopt_outcome o i s Hs Hi Hl) as B.
  exact (outcome_unique (mk_program pat o K ci multi lit hbk) input i _ _ A B).
Qed.
End Pure.
