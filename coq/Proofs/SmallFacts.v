(* Stand-alone facts about the model: flag parsing, flag x stripping, anchors and dot, the
   MatchesEmptyString guards, back-reference digits, the case tables. *)
From RX Require Import Base.Prelude Base.InvList Proofs.InvListFacts.
From RX Require Import Tables.Consts Tables.FlagArms Tables.IcuCase.
From RX Require Import Spec.Syntax Spec.Parse Spec.CharSet Spec.Sem.
From RX Require Import Model.Case Model.Op Model.Engine Model.Matcher Model.Compiler Model.Api.
Local Open Scope N_scope.

(* ---------------------------------------------------------------- flags (C07, C17, C13) *)
Definition flags_agree (fl : flags) (sf : sflags) : Prop :=
  f_case fl = s_i sf /\ f_multi fl = s_m sf /\ f_single fl = s_s sf /\ f_ws fl = s_x sf /\ f_literal fl = s_q sf.

Lemma flags_main_spec : forall s xpath fl sf,
  existsb (N.eqb 59) s = false -> flags_agree fl sf -> f_xpath fl = xpath ->
  match flags_main s fl, flags_loop xpath s sf with
  | Ok fl', Valid sf' => flags_agree fl' sf' /\ f_xpath fl' = xpath
  | Err EInvalidFlags, Invalid => True
  | _, _ => False
  end.
Proof.
  induction s as [|c t IH]; intros xpath fl sf Hs Ha Hx.
  - cbn. auto.
  - cbn [existsb] in Hs. apply orb_false_iff in Hs as [Hc Ht].
    cbn [flags_main flags_loop]. unfold flag_separator. rewrite N.eqb_sym, Hc.
    destruct Ha as (A1 & A2 & A3 & A4 & A5).
    unfold main_flag_arms. cbn [assoc].
    destruct (N.eqb_spec c 105) as [->|N1].
    { cbn. apply IH; auto. repeat split; cbn; auto. }
    destruct (N.eqb_spec c 109) as [->|N2].
    { cbn. apply IH; auto. repeat split; cbn; auto. }
    destruct (N.eqb_spec c 115) as [->|N3].
    { cbn. apply IH; auto. repeat split; cbn; auto. }
    destruct (N.eqb_spec c 113) as [->|N4].
    { cbn [is_literal_field]. unfold q_requires_xpath. cbn [andb].
      rewrite Hx. destruct xpath; cbn.
      - apply IH; auto. repeat split; cbn; auto.
      - exact I. }
    destruct (N.eqb_spec c 120) as [->|N5].
    { cbn. apply IH; auto. repeat split; cbn; auto. }
    exact I.
Qed.

Theorem parse_flags_spec xpath s :
  existsb (N.eqb 59) s = false ->
  match parse_flags xpath s, spec_flags xpath s with
  | Ok fl, Valid sf => flags_agree fl sf /\ f_xpath fl = xpath
  | Err EInvalidFlags, Invalid => True
  | _, _ => False
  end.
Proof.
  intros H. unfold parse_flags, spec_flags. apply flags_main_spec; auto.
  repeat split; reflexivity.
Qed.

(* ---------------------------------------------------------------- flag x (C14) *)
(* the stripped pattern is all that compile sees of flag x *)
Theorem compile_x_same unopt fl p :
  f_literal fl = false -> f_ws fl = true ->
  compile unopt fl p
  = compile unopt {| f_case := f_case fl; f_multi := f_multi fl; f_single := f_single fl; f_ws := false;
                     f_literal := false; f_xpath := f_xpath fl |} (strip_ws p 0%Z false).
Proof. intros Hl Hw. unfold compile. rewrite Hl, Hw. cbn [f_literal f_ws f_case f_multi f_single f_xpath]. reflexivity. Qed.

(* the model's stripper (signed nesting counter, escape latch) against the specification's, on
   patterns in which an unescaped ']' never closes more brackets than are open *)
Fixpoint never_negative (s : list N) (depth : nat) (esc : bool) : bool :=
  match s with
  | [] => true
  | c :: t =>
      if Nat.eqb depth 0 && is_ws c then never_negative t depth esc
      else if esc then never_negative t depth false
      else if c =? 92 then never_negative t depth true
      else if c =? 91 then never_negative t (S depth) false
      else if c =? 93 then (match depth with O => false | S d => never_negative t d false end)
      else never_negative t depth false
  end.

Lemma is_x_ws_is_ws c : is_x_ws c = is_ws c.
Proof. reflexivity. Qed.

Theorem strip_ws_spec : forall s depth esc,
  never_negative s depth esc = true ->
  strip_ws s (Z.of_nat depth) esc = spec_strip s depth esc.
Proof.
  induction s as [|c t IH]; intros depth esc H; [reflexivity|].
  cbn [strip_ws spec_strip never_negative] in *. unfold c_bslash, c_lbrack, c_rbrack.
  rewrite is_x_ws_is_ws.
  replace (Z.of_nat depth =? 0)%Z with (Nat.eqb depth 0)
    by (destruct depth; [reflexivity|symmetry; apply Z.eqb_neq; lia]).
  destruct esc.
  - (* escaped: brackets and backslash are ordinary *)
    cbn [negb andb]. rewrite !andb_false_r.
    destruct (Nat.eqb depth 0 && is_ws c) eqn:W.
    + apply IH; auto.
    + f_equal. apply IH; auto.
  - cbn [negb]. rewrite !andb_true_r.
    destruct (Nat.eqb depth 0 && is_ws c) eqn:W.
    + (* whitespace outside brackets is none of \ [ ] *)
      apply andb_true_iff in W as [W1 W2].
      assert (c =? 92 = false /\ c =? 91 = false /\ c =? 93 = false) as (E1 & E2 & E3).
      { unfold is_ws in W2. repeat split; apply N.eqb_neq; intros ->; discriminate W2. }
      rewrite E1, E2, E3. apply IH; auto.
    + destruct (c =? 92) eqn:E1; [f_equal; apply IH; auto|].
      destruct (c =? 91) eqn:E2.
      { f_equal. replace (Z.of_nat depth + 1)%Z with (Z.of_nat (S depth)) by lia. apply IH; auto. }
      destruct (c =? 93) eqn:E3.
      { destruct depth as [|d]; [discriminate H|].
        f_equal. replace (Z.of_nat (S d) - 1)%Z with (Z.of_nat d) by lia. cbn [Nat.pred]. apply IH; auto. }
      f_equal. apply IH; auto.
Qed.

(* only the four characters are ever removed, and never inside brackets *)
Theorem spec_strip_keeps c s : is_ws c = false ->
  forall depth esc, count_occ N.eq_dec (spec_strip s depth esc) c = count_occ N.eq_dec s c.
Proof.
  intros Hc. induction s as [|x t IH]; intros depth esc; [reflexivity|].
  cbn [spec_strip].
  destruct (Nat.eqb depth 0 && is_ws x) eqn:W.
  - apply andb_true_iff in W as [_ W]. rewrite IH. cbn [count_occ].
    destruct (N.eq_dec x c) as [->|]; [congruence|reflexivity].
  - destruct esc; [|destruct (x =? 92); [|destruct (x =? 91); [|destruct (x =? 93)]]];
      cbn [count_occ]; rewrite IH; reflexivity.
Qed.

(* ---------------------------------------------------------------- anchors and dot (C12) *)
Section Anchors.
Variable input : list N.
Variable ci multi hb : bool.
Let n := length input.
Let sf := {| s_i := ci; s_m := multi; s_s := false; s_x := false; s_q := false |}.

Lemma is_nl_is_lf i : is_nl input i = is_lf input i.
Proof. reflexivity. Qed.

Theorem bol_spec path p s : (p <= n)%nat ->
  mi input ci multi hb OBol path p s = if bol_at sf input p then once p s else LNil s.
Proof.
  intros Hp. cbn [mi]. unfold bol_at. cbn [s_m sf]. fold n.
  destruct (Nat.eqb p 0) eqn:E0; [reflexivity|]. cbn [orb].
  destruct multi; [|reflexivity]. cbn [andb].
  replace (Nat.ltb n p) with false by (symmetry; apply Nat.ltb_ge; lia).
  apply Nat.eqb_neq in E0.
  replace (Nat.ltb 0 p) with true by (symmetry; apply Nat.ltb_lt; lia). cbn [andb].
  rewrite is_nl_is_lf. reflexivity.
Qed.

Theorem eol_spec path p s : (p <= n)%nat ->
  mi input ci multi hb OEol path p s = if eol_at sf input p then once p s else LNil s.
Proof.
  intros Hp. cbn [mi]. unfold eol_at. cbn [s_m sf]. fold n.
  assert (E : Nat.eqb n 0 || Nat.leb n p = Nat.eqb p n).
  { destruct (Nat.eqb_spec p n) as [->|Hne].
    - rewrite Nat.leb_refl, orb_true_r. reflexivity.
    - replace (Nat.leb n p) with false by (symmetry; apply Nat.leb_gt; lia).
      replace (Nat.eqb n 0) with false by (symmetry; apply Nat.eqb_neq; lia). reflexivity. }
  destruct multi.
  - rewrite is_nl_is_lf. rewrite E. cbn [andb]. reflexivity.
  - rewrite E. cbn [andb]. rewrite orb_false_r. reflexivity.
Qed.
End Anchors.

Lemma dot_set_wf : wf (add_char 13 (add_char 10 empty)) = true.
Proof. vm_compute. reflexivity. Qed.
Theorem dot_spec c : c <= max_cp -> mem dot_set c = negb ((c =? 10) || (c =? 13)).
Proof.
  intros Hc. unfold dot_set. rewrite mem_compl by (auto using dot_set_wf).
  f_equal. cbn. unfold inr; cbn [fst snd]. rewrite orb_false_r.
  destruct (N.eqb_spec c 10), (N.eqb_spec c 13); subst; try reflexivity; bN.
Qed.

(* ---------------------------------------------------------------- MatchesEmptyString guards (C16) *)
Definition only_repl_err {A} (r : res A) : Prop := forall e, r = Err e -> e = EInvalidRepl.

Lemma rslice_no_err input a b : forall e, rslice input a b <> Err e.
Proof. intros e. unfold rslice. destruct (_ || _); discriminate. Qed.

Lemma get_paren_no_err input s g : forall e, get_paren input s g <> Err e.
Proof.
  intros e. unfold get_paren. destruct (Nat.ltb _ _); [|discriminate].
  destruct (get_pstart s g), (get_pend s g); try discriminate.
  unfold rslice. destruct (_ || _); cbn; discriminate.
Qed.

Lemma expand_loop_errs r mc capf (Hc : forall g e, capf g <> Err e) :
  forall fuel i acc sm, only_repl_err (expand_loop r mc capf fuel i acc sm).
Proof.
  induction fuel as [|f IH]; intros i acc sm e; cbn [expand_loop]; [discriminate|].
  destruct (Nat.leb (length r) i); [discriminate|].
  destruct (nth_error r i) as [ch|]; [|discriminate].
  destruct (N.eqb ch 92).
  { destruct (Nat.leb (length r) (i + 1)); [intros [= <-]; reflexivity|].
    destruct (nth_error r (i + 1)) as [c2|]; [|discriminate].
    destruct (_ || _); [apply IH|intros [= <-]; reflexivity]. }
  destruct (N.eqb ch 36).
  { destruct (Nat.leb (length r) (i + 1)); [intros [= <-]; reflexivity|].
    destruct (nth_error r (i + 1)) as [c2|]; [|discriminate].
    destruct (negb (is_digit c2)); [intros [= <-]; reflexivity|].
    destruct (Nat.leb mc 9).
    - destruct (Nat.leb (dval c2) mc).
      + unfold push_cap. destruct (capf (dval c2)) as [o|e'| |] eqn:GP; cbn [rbind]; try discriminate.
        * apply IH.
        * exfalso. eapply Hc; eauto.
      + cbn [rbind]. apply IH.
    - destruct (digits_loop r mc (S (length r)) (i + 1) (dval c2)) as [[i' g']|]; [|discriminate].
      unfold push_cap. destruct (capf g') as [o|e'| |] eqn:GP; cbn [rbind]; try discriminate.
      + apply IH.
      + exfalso. eapply Hc; eauto. }
  apply IH.
Qed.

Lemma replace_loop_errs matchf literal maxparens input repl :
  forall fuel pos s result fm simple,
    only_repl_err (replace_loop matchf literal maxparens input repl fuel pos s result fm simple).
Proof.
  induction fuel as [|f IH]; intros pos s result fm simple e; cbn [replace_loop]; [discriminate|].
  assert (F : forall p r b e, finish input p r b <> Err e).
  { intros p r b e0. unfold finish. destruct b; [discriminate|].
    pose proof (rslice_no_err input p (length input)) as R.
    destruct (rslice input p (length input)); cbn [rbind]; try discriminate. exfalso. eapply R; eauto. }
  destruct (Nat.ltb pos (length input)); [|intros H; exfalso; eapply F; eauto].
  destruct (matchf pos s) as [s1|s1| |k]; cbn [mres_bool rbind]; try discriminate;
    [|intros H; exfalso; eapply F; eauto].
  assert (R1 : forall e0, match get_pstart s1 0 with
                          | Some start => t <- rslice input pos start ;; Ok (result ++ t)
                          | None => Ok result
                          end <> Err e0).
  { intros e0. destruct (get_pstart s1 0) as [st|]; [|discriminate].
    pose proof (rslice_no_err input pos st) as R.
    destruct (rslice input pos st); cbn [rbind]; try discriminate. exfalso. eapply R; eauto. }
  destruct (match get_pstart s1 0 with Some _ => _ | None => _ end) as [r1|e1| |]; cbn [rbind]; try discriminate;
    [|intros H; exfalso; eapply R1; eauto].
  set (sim := if fm then literal else simple).
  destruct (negb sim).
  - destruct maxparens as [|mc]; cbn [rbind]; [discriminate|].
    pose proof (expand_loop_errs repl mc (get_paren input s1) (get_paren_no_err input s1)
                                 (S (length repl)) 0%nat r1 true) as EX.
    unfold expand. destruct (expand_loop _ _ _ _ _ _ _) as [[r2 s2]|e2| |]; cbn [rbind]; try discriminate.
    + destruct (get_pend s1 0); [apply IH|discriminate].
    + intros [= <-]. apply EX. reflexivity.
  - cbn [rbind]. destruct (get_pend s1 0); [apply IH|discriminate].
Qed.

(* replace_all / analyze / tokenize fail with MatchesEmptyString exactly when the regex is nullable *)
Theorem replace_all_guard re s r : replace_all re s r = Err EMatchesEmpty <-> r_nullable re = true.
Proof.
  unfold replace_all. destruct (r_nullable re); split; intros H; try reflexivity; try discriminate.
  exfalso. unfold replace, replace_gen in H. apply replace_loop_errs in H. discriminate.
Qed.

Lemma nest_loop_no_err pattern : forall fuel i stack tos cstack ctos group inb table e,
  nest_loop pattern fuel i stack tos cstack ctos group inb table <> Err e.
Proof.
  induction fuel as [|f IH]; intros; cbn [nest_loop]; [discriminate|].
  destruct (Nat.leb _ _); [discriminate|].
  destruct (nth_error pattern i) as [ch|]; [|discriminate].
  destruct (N.eqb ch 92); [apply IH|].
  destruct (N.eqb ch 91); [apply IH|].
  destruct (N.eqb ch 93); [apply IH|].
  destruct (N.eqb ch 40 && Z.eqb inb 0).
  { destruct (nth_error pattern (i + 1)); [|discriminate].
    destruct (Nat.leb _ ctos); [discriminate|].
    destruct (negb _).
    - destruct tos; [discriminate|]. destruct (nth_error stack tos); [|discriminate].
      destruct (Nat.leb _ _); [discriminate|apply IH].
    - apply IH. }
  destruct (N.eqb ch 41 && Z.eqb inb 0).
  { destruct ctos; [discriminate|]. destruct (nth_error cstack ctos) as [[|]|]; [| |discriminate].
    - destruct tos; [discriminate|apply IH].
    - apply IH. }
  apply IH.
Qed.

Theorem analyze_guard re : (exists t, analyze re = Err EMatchesEmpty /\ t = tt) <-> r_nullable re = true.
Proof.
  unfold analyze. destruct (r_nullable re); split; intros H; try reflexivity.
  - exists tt. auto.
  - destruct H as [_ [H _]]. unfold nesting_table in H.
    destruct (nest_loop _ _ _ _ _ _ _ _ _ _) eqn:E; cbn [rbind] in H; try discriminate.
    injection H as ->. exfalso. eapply nest_loop_no_err; eauto.
  - discriminate.
Qed.

Theorem tokenize_guard re s : s <> [] -> (tokenize re s = Err EMatchesEmpty <-> r_nullable re = true).
Proof.
  intros Hs. unfold tokenize. destruct s; [congruence|].
  destruct (r_nullable re); split; intros H; try reflexivity; discriminate.
Qed.

Theorem tokenize_empty_input re prog :
  exists st, tokenize re [] = Ok st /\ tok_next prog [] st = Ok (None, st).
Proof. eexists. split; [reflexivity|]. reflexivity. Qed.

(* r_nullable is, by construction, "the regex matches the zero-length string" *)
Theorem nullable_def unopt xpath p fls re :
  regex_new unopt xpath p fls = Ok re ->
  exists s', matches (r_prog re) [] 0 st0 = (if r_nullable re then MTrue s' else MFalse s').
Proof.
  unfold regex_new. destruct (parse_flags xpath fls); cbn [rbind]; try discriminate.
  destruct (compile unopt a p) as [prog| | |]; cbn [rbind]; try discriminate.
  destruct (matches prog [] 0 st0) as [s'|s'| |] eqn:M; cbn [mres_bool rbind]; try discriminate;
    intros [= <-]; cbn [r_prog r_nullable]; exists s'; exact M.
Qed.

(* ---------------------------------------------------------------- back-reference digits (C19) *)
Lemma backref_digits_spec pat limit : forall fuel i br,
  (length pat - i < fuel)%nat -> (br <= limit)%nat ->
  let '(i', br') := backref_digits pat fuel i (N.of_nat br) (N.of_nat limit) in
  let '(g, rest) := backref_num (skipn i pat) br limit in
  br' = N.of_nat g /\ rest = skipn i' pat.
Proof.
  induction fuel as [|f IH]; intros i br Hf Hb; [lia|].
  cbn [backref_digits]. unfold at_.
  destruct (nth_error pat i) as [c|] eqn:En.
  - assert (Es : skipn i pat = c :: skipn (S i) pat).
    { clear -En. revert i En. induction pat as [|x l IHl]; intros [|i] E; cbn in *; try discriminate.
      - injection E as ->. reflexivity.
      - apply IHl; auto. }
    rewrite Es. cbn [backref_num].
    destruct (is_digit c) eqn:Ed; cbn [andb].
    + assert (Hv : N.of_nat br * 10 + (c - 48) = N.of_nat (br * 10 + dval c)).
      { unfold dval. unfold is_digit in Ed. apply andb_true_iff in Ed as [E1 E2].
        apply N.leb_le in E1, E2. lia. }
      rewrite Hv.
      destruct (N.ltb_spec (N.of_nat limit) (N.of_nat (br * 10 + dval c))) as [L|L].
      * replace (Nat.leb (br * 10 + dval c) limit) with false by (symmetry; apply Nat.leb_gt; lia).
        rewrite <- Es. split; reflexivity.
      * replace (Nat.leb (br * 10 + dval c) limit) with true by (symmetry; apply Nat.leb_le; lia).
        apply (IH (S i) (br * 10 + dval c)%nat); try lia.
        assert (i < length pat)%nat by (apply nth_error_Some; congruence). lia.
    + rewrite <- Es. split; reflexivity.
  - pose proof (proj1 (nth_error_None pat i) En) as Hlen.
    rewrite (skipn_all2 pat Hlen). cbn [backref_num]. split; reflexivity.
Qed.

(* ---------------------------------------------------------------- case tables (C11) *)
Lemma equal_case_blind_refl a : equal_case_blind a a = true.
Proof. unfold equal_case_blind. rewrite N.eqb_refl. reflexivity. Qed.
Lemma equal_case_blind_sym a b : equal_case_blind a b = equal_case_blind b a.
Proof. unfold equal_case_blind. rewrite (N.eqb_sym a b), (N.eqb_sym (simple_lower a)). reflexivity. Qed.

(* the clean alphabets of C11: ASCII, Latin-1, Greek, Cyrillic and Deseret letters *)
Definition range_list (lo : N) (k : nat) : list N := map (fun i => lo + N.of_nat i) (seq 0 k).
Definition clean_letters : list N :=
  range_list 65 26 ++ range_list 97 26                       (* A-Z a-z *)
  ++ range_list 192 23 ++ range_list 216 7 ++ range_list 224 23 ++ range_list 248 7   (* Latin-1 letters with a counterpart *)
  ++ range_list 913 17 ++ range_list 931 7 ++ range_list 945 17 ++ range_list 963 7   (* Greek, final sigma excluded *)
  ++ range_list 1040 64                                      (* Cyrillic А-я *)
  ++ range_list 66560 80.                                    (* Deseret *)
Definition caseless_sample : list N := range_list 48 10 ++ [32; 10; 13; 9; 45; 95; 33; 46].

(* on the clean alphabet (and against case-less characters) the three implementations of case
   equivalence agree: literal comparison (simple_lowercase), class closure (add_case_closure_to),
   and first-character closure *)
Lemma clean_agree_computed :
  forallb (fun a => forallb (fun b =>
     Bool.eqb (equal_case_blind a b) (mem (add_case_closure a (add_char a empty)) b))
     (clean_letters ++ caseless_sample)) (clean_letters ++ caseless_sample) = true.
Proof. vm_compute. reflexivity. Qed.

(* within the clean alphabet every letter has exactly one case counterpart other than itself (ICU's
   closure may add compatibility variants such as the Kelvin sign, which lie outside the alphabet) *)
Lemma clean_one_counterpart_computed :
  forallb (fun a => Nat.eqb (length (filter (fun b => negb (b =? a) && mem (closure_of a) b) clean_letters)) 1)
          clean_letters = true.
Proof. vm_compute. reflexivity. Qed.
Lemma caseless_computed :
  forallb (fun a => match closure_of a with [] => simple_lower a =? a | _ => false end) caseless_sample = true.
Proof. vm_compute. reflexivity. Qed.

(* ---------------------------------------------------------------- totality facts (C05) *)
Lemma flags_ext_total : forall t fl, match flags_ext t fl with Ok _ | Err EInvalidFlags => True | _ => False end.
Proof.
  induction t as [|d t' IHt]; intros fl; cbn [flags_ext]; [exact I|].
  destruct (existsb _ _); [apply IHt|exact I].
Qed.
Theorem flags_total xpath s : match parse_flags xpath s with Ok _ | Err EInvalidFlags => True | _ => False end.
Proof.
  unfold parse_flags.
  generalize {| f_case := false; f_multi := false; f_single := false; f_ws := false; f_literal := false; f_xpath := xpath |}.
  induction s as [|c t IH]; intros fl; cbn [flags_main]; [exact I|].
  destruct (N.eqb c flag_separator); [apply flags_ext_total|].
  destruct (assoc c main_flag_arms); [|exact I].
  destruct (_ && _); [exact I|apply IH].
Qed.
Theorem replace_errors_classified matchf literal maxparens input repl fuel pos s result fm simple e :
  replace_loop matchf literal maxparens input repl fuel pos s result fm simple = Err e -> e = EInvalidRepl.
Proof. intros. eapply replace_loop_errs; eauto. Qed.
