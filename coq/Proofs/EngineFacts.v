(* E1 + E2 on the history-free, back-reference-free fragment of the engine: for every operation
   built from Bol, Eol, Nothing, EndProgram, Atom, CharClass, Capture, Choice, Sequence,
   GreedyFixed and UnambiguousRepeat, whatever well-formed states are supplied on resumption, the
   stream mi yields exactly the positions of the pure list-of-successes function [Rop], every
   position lies inside the input, every state handed out is well formed, and neither LPanic nor
   LOut is reachable (YW has no constructor for them). *)
From RX Require Import Base.Prelude Base.InvList Tables.Consts Model.Case Model.Op Model.Engine.

(* ---------- array lemmas (no section variables) ---------- *)
Lemma clear_arr_len : forall st en pos, length st = length en ->
  exists r, clear_arr st en pos = Some r /\ length r = length en.
Proof.
  induction st as [|a st IH]; intros [|e en] pos H; cbn in *; try discriminate.
  - eexists; split; eauto.
  - injection H as H. destruct (IH en pos H) as [r [E L]]. rewrite E. eexists; split; eauto. cbn. lia.
Qed.

Lemma upd_len {A} (l : list A) i v : length (upd l i v) = length l.
Proof. revert i; induction l; destruct i; cbn; auto. Qed.
Lemma grow_len_eq : forall fuel l1 l2 i, length l1 = length l2 -> length (grow l1 fuel i) = length (grow l2 fuel i).
Proof.
  induction fuel; intros; cbn [grow]; auto. rewrite H. destruct (Nat.ltb i (length l2)); auto.
  apply IHfuel. rewrite !app_length, !repeat_length. lia.
Qed.
Lemma grow_len_ge : forall fuel l i, length l <= length (grow l fuel i).
Proof.
  induction fuel; intros; cbn [grow]; auto. destruct (Nat.ltb i (length l)); auto.
  etransitivity; [|apply IHfuel]. rewrite app_length. lia.
Qed.
Lemma setg_len_eq l1 l2 i v w : length l1 = length l2 -> length (setg l1 i v) = length (setg l2 i w).
Proof. intros H. unfold setg. rewrite !upd_len. apply grow_len_eq; auto. Qed.
Lemma setg_len_ge l i v : length l <= length (setg l i v).
Proof. unfold setg. rewrite upd_len. apply grow_len_ge. Qed.
Lemma setg0_len l v : 1 <= length l -> length (setg l 0 v) = length l.
Proof.
  intros H. unfold setg. rewrite upd_len.
  assert (forall fuel l, 1 <= length l -> grow l fuel 0 = l) as G.
  { induction fuel; intros l0 Hl; cbn [grow]; auto. destruct l0; cbn [length] in *; [lia|]. reflexivity. }
  rewrite G; auto.
Qed.
Lemma setg0_nth l v : 1 <= length l -> nth 0 (setg l 0 v) None = Some v.
Proof.
  intros H. unfold setg.
  assert (forall fuel l, 1 <= length l -> grow l fuel 0 = l) as G.
  { induction fuel; intros l0 Hl; cbn [grow]; auto. destruct l0; cbn [length] in *; [lia|]. reflexivity. }
  rewrite G by auto. destruct l; cbn in *; [lia|reflexivity].
Qed.
Opaque setg.


Section E.
Variable input : list N.
Variable ci multi hb : bool.
Variable K : nat.                       (* number of groups: length of the back-reference arrays *)
Let n := length input.
Let run := mi input ci multi hb.

(* ---------- state well-formedness ---------- *)
Definition wf (s : mstate) : Prop :=
  length (startn (cs_ s)) = length (endn (cs_ s)) /\ 1 <= length (startn (cs_ s)) /\
  length (sb s) = length (eb s) /\ anchored s = false /\ (hb = true -> length (sb s) = K).

Inductive YW : LS -> list nat -> Prop :=
| YWNil s : wf s -> YW (LNil s) []
| YWCons p s r ps : p <= n -> wf s -> (forall s', wf s' -> YW (r s') ps) -> YW (LCons p s r) (p :: ps).

Lemma YW_once p s : p <= n -> wf s -> YW (once p s) [p].
Proof. intros Hp H. unfold once. constructor; auto. intros s' H'. constructor; auto. Qed.

Lemma YW_append l ps k qs :
  YW l ps -> (forall s, wf s -> YW (k s) qs) -> YW (append l k) (ps ++ qs).
Proof.
  induction 1 as [s Hs|p s r ps Hp Hs H IH]; intros Hk; cbn.
  - apply Hk; auto.
  - constructor; auto.
Qed.

Lemma YW_bind l ps k f :
  YW l ps -> (forall q s, q <= n -> wf s -> YW (k q s) (f q)) -> YW (bind l k) (flat_map f ps).
Proof.
  induction 1 as [s Hs|p s r ps Hp Hs H IH]; intros Hk; cbn.
  - constructor; auto.
  - specialize (Hk p s Hp Hs) as Hkp.
    remember (k p s) as m eqn:Em. clear Em.
    induction Hkp as [s1 Hs1|q s1 r1 qs Hq Hs1 H1 IH1]; cbn.
    + apply IH; auto.
    + constructor; auto.
Qed.

Lemma YW_map_yield site f l ps :
  (forall q s, wf s -> exists s1, f q s = Some s1 /\ wf s1) ->
  YW l ps -> YW (map_yield site f l) ps.
Proof.
  intros Hf. induction 1 as [s Hs|p s r ps Hp Hs H IH]; cbn.
  - constructor; auto.
  - destruct (Hf p s Hs) as [s1 [E W]]. rewrite E. constructor; auto.
Qed.

Lemma YW_on_nil f l ps : (forall s, wf s -> wf (f s)) -> YW l ps -> YW (on_nil f l) ps.
Proof.
  intros Hf. induction 1 as [s Hs|p s r ps Hp Hs H IH]; cbn; constructor; auto.
Qed.

Lemma YW_in l ps q : YW l ps -> In q ps -> q <= n.
Proof.
  induction 1 as [s Hs|p s r ps Hp Hs H IH]; intros Hin; [inversion Hin|].
  destruct Hin as [<-|Hin]; auto. apply (IH s Hs); auto.
Qed.

(* ---------- array lemmas ---------- *)
Lemma clear_beyond_wf pos s : wf s -> exists s1, clear_beyond pos s = Some s1 /\ wf s1.
Proof.
  intros (H1 & H2 & H3 & H4 & H5). unfold clear_beyond.
  destruct (clear_arr_len _ _ pos H1) as [r1 [E1 L1]].
  destruct (clear_arr_len _ _ pos H3) as [r2 [E2 L2]].
  rewrite E1, E2. eexists; split; eauto. unfold wf; cbn. repeat split; auto; lia.
Qed.

Lemma set_ps_pe_wf g p q s2 : wf s2 -> wf (set_pend g q (set_pstart g p s2)).
Proof.
  intros (A1 & A2 & A3 & A4 & A5). unfold wf, set_pend, set_pstart, with_cs.
  cbn [cs_ startn endn sb eb anchored].
  repeat split; auto.
  - apply setg_len_eq; auto.
  - pose proof (setg_len_ge (startn (cs_ s2)) g p). lia.
Qed.
Lemma set_pcount_wf k s : wf s -> wf (set_pcount k s).
Proof. intros (A1 & A2 & A3 & A4 & A5). unfold wf, set_pcount, with_cs. cbn. auto. Qed.
Lemma set_sb_wf g v s : wf s -> g < length (sb s) -> exists s1, set_sb g v s = Some s1 /\ wf s1.
Proof.
  intros (A1 & A2 & A3 & A4 & A5) Hg. unfold set_sb.
  replace (Nat.ltb g (length (sb s))) with true by (symmetry; apply Nat.ltb_lt; auto).
  eexists; split; [reflexivity|]. unfold wf. cbn. rewrite upd_len. auto.
Qed.
Lemma set_eb_wf g v s : wf s -> g < length (eb s) -> exists s1, set_eb g v s = Some s1 /\ wf s1.
Proof.
  intros (A1 & A2 & A3 & A4 & A5) Hg. unfold set_eb.
  replace (Nat.ltb g (length (eb s))) with true by (symmetry; apply Nat.ltb_lt; auto).
  eexists; split; [reflexivity|]. unfold wf. cbn. rewrite upd_len. auto.
Qed.
Lemma setg_pend0_wf p s : wf s -> wf (set_pend 0 p s).
Proof.
  intros (H1 & H2 & H3 & H4 & H5). unfold wf, set_pend, with_cs. cbn [cs_ startn endn sb eb anchored].
  repeat split; auto. rewrite setg0_len; lia.
Qed.

(* ---------- the pure list-of-successes function ---------- *)
Fixpoint gf_probeR (body : nat -> list nat) (len : nat) (mx : N) (guard fuel p matches : nat) : option (nat * nat) :=
  match fuel with
  | O => None
  | S f => if Nat.leb p guard then
             match body p with
             | _ :: _ => let m := S matches in let p' := p + len in
                         if neq m mx then Some (p', m) else gf_probeR body len mx guard f p' m
             | [] => Some (p, matches)
             end
           else Some (p, matches)
  end.
Fixpoint int_stepR (len limit fuel cur : nat) : list nat :=
  match fuel with
  | O => []
  | S f => if Nat.leb limit cur
           then cur :: (if Nat.ltb cur len then [] else if Nat.eqb len 0 then [] else int_stepR len limit f (cur - len))
           else []
  end.
Fixpoint un_probeR (body : nat -> list nat) (mx : N) (guard fuel p matches : nat) : option (nat * nat) :=
  match fuel with
  | O => None
  | S f => if nlt matches mx && Nat.leb p guard then
             match body p with q :: _ => un_probeR body mx guard f q (S matches) | [] => Some (p, matches) end
           else Some (p, matches)
  end.

Fixpoint rf_minR (body : nat -> list nat) (mn : N) (fuel count pos : nat) : option (option (nat * nat)) :=
  match fuel with
  | O => None
  | S f => if nlt count mn then
             match body pos with q :: _ => rf_minR body mn f (S count) q | [] => Some None end
           else Some (Some (count, pos))
  end.
Fixpoint rf_moreR (body : nat -> list nat) (mx : N) (fuel count pos : nat) : option (list nat) :=
  match fuel with
  | O => None
  | S f => if nlt count mx then
             match body pos with
             | q :: _ => match rf_moreR body mx f (S count) q with Some l => Some (q :: l) | None => None end
             | [] => Some []
             end
           else Some []
  end.

Definition gf_guard (p : nat) (len mx : N) : nat :=
  if N.ltb mx umax then N.to_nat (N.min (N.of_nat n) (sadd (N.of_nat p) (smul len mx))) else n.

Fixpoint Rop (o : op) : nat -> list nat :=
  match o with
  | OAtom cs => fun p => if Nat.ltb n (p + length cs) then []
                         else if starts_with (ceq ci) cs (skipn p input) then [p + length cs] else []
  | OCls cs => fun p => match nth_error input p with Some c => if mem cs c then [S p] else [] | None => [] end
  | OBol => fun p => if Nat.eqb p 0 then [p]
                     else if multi then (if is_nl input (p - 1) && Nat.ltb p n then [p] else []) else []
  | OEol => fun p => if multi then (if Nat.eqb n 0 || Nat.leb n p || is_nl input p then [p] else [])
                     else if Nat.eqb n 0 || Nat.leb n p then [p] else []
  | ONothing => fun p => [p]
  | OEnd => fun p => [p]
  | OCapture g o' => Rop o'
  | OChoice bs => fun p => flat_map (fun b => Rop b p) bs
  | OSeq os => fun p =>
      (fix go (os : list op) (p : nat) : list nat :=
         match os with
         | [] => []
         | [o1] => Rop o1 p
         | o1 :: os' => flat_map (fun q => go os' q) (Rop o1 p)
         end) os p
  | OUnamb o' mn mx => fun p =>
      match un_probeR (Rop o') mx n (n + 5) p 0 with
      | Some (p', m) => if nlt m mn then [] else [p']
      | None => []
      end
  | OGFixed o' mn mx len => fun p =>
      let leng := N.to_nat len in
      let guard := gf_guard p len mx in
      if Nat.leb guard p && N.ltb 0 mn then []
      else match gf_probeR (Rop o') leng mx guard (n + 5) p 0 with
           | Some (p', m) => if nlt m mn then [] else int_stepR leng (p + leng * N.to_nat mn) (S p') p'
           | None => []
           end
  | ORFixed o' mn mx len => fun p =>
      match rf_minR (Rop o') mn (n + 5) 0 p with
      | Some (Some (count, pos)) =>
          match rf_moreR (Rop o') mx (n + 5) count pos with Some l => pos :: l | None => [] end
      | _ => []
      end
  | _ => fun _ => []
  end.

Definition body_ok (o : op) : Prop := match o with OCls _ => True | OAtom (_ :: _) => True | _ => False end.

(* the fragment; [fixed] is the semantic side condition of GreedyFixed (its body consumes exactly
   len characters), discharged for compiled programs by match_length's soundness *)
Fixpoint simple (o : op) : Prop :=
  match o with
  | OBackref _ | ORepeat _ _ _ _ => False
  | ORFixed o' _ _ len => simple o' /\ (0 < len)%N /\ (forall p q, In q (Rop o' p) -> q = p + N.to_nat len)
  | OCapture g o' => simple o' /\ (hb = true -> g < K)
  | OChoice bs => (fix all l := match l with [] => True | x :: t => simple x /\ all t end) bs
  | OSeq os => os <> [] /\ (fix all l := match l with [] => True | x :: t => simple x /\ all t end) os
  | OUnamb o' _ _ => simple o' /\ body_ok o'
  | OGFixed o' _ _ len => simple o' /\ (0 < len)%N /\ (forall p q, In q (Rop o' p) -> q = p + N.to_nat len)
  | _ => True
  end.

(* ---------- probes: first-result-only consumption ---------- *)
Lemma un_probe_ok body bodyR mx :
  (forall p s, p <= n -> wf s -> YW (body p s) (bodyR p)) ->
  forall fuel p m s, p <= n -> wf s ->
    match un_probeR bodyR mx n fuel p m with
    | Some (p', m') => exists s1, un_probe body mx n fuel p m s = Ok (p', m', s1) /\ wf s1 /\ p' <= n
    | None => un_probe body mx n fuel p m s = Out
    end.
Proof.
  intros Hb. induction fuel as [|f IH]; intros p m s Hp Hs; cbn [un_probe un_probeR]; auto.
  destruct (nlt m mx && Nat.leb p n); [|eexists; eauto].
  specialize (Hb p s Hp Hs). inversion Hb as [s1 H1 E1 E2|q s1 r ps Hq H1 H2 E1 E2]; cbn [first_of].
  - eexists; eauto.
  - apply IH; auto.
Qed.

Lemma gf_probe_ok body bodyR len mx guard :
  guard <= n ->
  (forall p s, p <= n -> wf s -> YW (body p s) (bodyR p)) ->
  (forall p q, In q (bodyR p) -> q = p + len) ->
  forall fuel p m s, p <= n -> wf s ->
    match gf_probeR bodyR len mx guard fuel p m with
    | Some (p', m') => exists s1, gf_probe body len mx guard fuel p m s = Ok (p', m', s1) /\ wf s1 /\ p' <= n
    | None => gf_probe body len mx guard fuel p m s = Out
    end.
Proof.
  intros Hg Hb Hfix. induction fuel as [|f IH]; intros p m s Hp Hs; cbn [gf_probe gf_probeR]; auto.
  destruct (Nat.leb p guard) eqn:E; [|eexists; eauto].
  pose proof (Hb p s Hp Hs) as Y. inversion Y as [s1 H1 E1 E2|q s1 r ps Hq H1 H2 E1 E2]; cbn [first_of].
  - eexists; eauto.
  - assert (q = p + len) by (apply Hfix; rewrite <- E2; left; auto). subst q.
    destruct (neq (S m) mx); [eexists; eauto|].
    apply IH; auto.
Qed.

Lemma int_step_ok len limit : 0 < len -> forall fuel cur s, cur <= n -> wf s -> cur < fuel ->
  YW (int_step len limit fuel cur s) (int_stepR len limit fuel cur).
Proof.
  intros Hl. induction fuel as [|f IH]; intros cur s Hcn Hs Hc; [lia|].
  cbn [int_step int_stepR]. destruct (Nat.leb limit cur); [|constructor; auto].
  constructor; auto. intros s' Hs'.
  destruct (Nat.ltb cur len) eqn:E; [constructor; auto|].
  apply Nat.ltb_ge in E.
  destruct (Nat.eqb len 0) eqn:E0; [apply Nat.eqb_eq in E0; lia|].
  apply IH; auto; lia.
Qed.

Lemma gf_probeR_fuel bodyR len mx guard : 0 < len ->
  forall fuel p m, guard + 1 - p < fuel -> gf_probeR bodyR len mx guard fuel p m <> None.
Proof.
  intros Hl. induction fuel as [|f IH]; intros p m Hf; [lia|].
  cbn [gf_probeR]. destruct (Nat.leb p guard) eqn:E; [|discriminate].
  apply Nat.leb_le in E.
  destruct (bodyR p); [discriminate|].
  destruct (neq (S m) mx); [discriminate|].
  apply IH. lia.
Qed.

Lemma body_ok_progress o p q : body_ok o -> In q (Rop o p) -> p < q.
Proof.
  destruct o; cbn [body_ok]; try tauto.
  - destruct cs as [|c cs]; [tauto|]. intros _. cbn [Rop]. fold n.
    destruct (Nat.ltb n (p + length (c :: cs))); [intros []|].
    destruct (starts_with (ceq ci) (c :: cs) (skipn p input)); [|intros []].
    intros [<-|[]]. cbn [length]. lia.
  - intros _. cbn [Rop]. destruct (nth_error input p) as [ch|]; [|intros []].
    destruct (mem s ch); [|intros []]. intros [<-|[]]. lia.
Qed.
Lemma un_probeR_fuel o mx : body_ok o ->
  forall fuel p m, n + 1 - p < fuel -> un_probeR (Rop o) mx n fuel p m <> None.
Proof.
  intros Hb. induction fuel as [|f IH]; intros p m Hf; [lia|].
  cbn [un_probeR]. destruct (nlt m mx && Nat.leb p n) eqn:E; [|discriminate].
  apply andb_true_iff in E as [_ E]. apply Nat.leb_le in E.
  destruct (Rop o p) as [|q l] eqn:Eq; [discriminate|].
  assert (p < q) by (apply (body_ok_progress o p q Hb); rewrite Eq; left; auto).
  apply IH. lia.
Qed.

(* ReluctantFixed: the minimum first, then one more repetition per resumption *)
Lemma rf_min_ok body bodyR mn :
  (forall p s, p <= n -> wf s -> YW (body p s) (bodyR p)) ->
  forall fuel count pos s, pos <= n -> wf s ->
    match rf_minR bodyR mn fuel count pos with
    | Some (Some (c, q)) => exists s1, rf_min body mn fuel count pos s = Ok (Some (c, q), s1) /\ wf s1 /\ q <= n
    | Some None => exists s1, rf_min body mn fuel count pos s = Ok (None, s1) /\ wf s1
    | None => rf_min body mn fuel count pos s = Out
    end.
Proof.
  intros Hb. induction fuel as [|f IH]; intros count pos s Hp Hs; cbn [rf_min rf_minR]; auto.
  destruct (nlt count mn); [|eexists; eauto].
  specialize (Hb pos s Hp Hs). inversion Hb as [s1 H1 E1 E2|q s1 r ps Hq H1 H2 E1 E2]; cbn [first_of].
  - eexists; eauto.
  - apply IH; auto.
Qed.

Lemma rf_more_ok body bodyR mx position :
  (forall p s, p <= n -> wf s -> YW (body p s) (bodyR p)) ->
  forall fuel count pos s, pos <= n -> wf s ->
    match rf_moreR bodyR mx fuel count pos with
    | Some l => YW (rf_more body mx position fuel count pos s) l
    | None => True
    end.
Proof.
  intros Hb. induction fuel as [|f IH]; intros count pos s Hp Hs; cbn [rf_more rf_moreR]; auto.
  destruct (nlt count mx); [|constructor; auto].
  destruct (clear_beyond_wf position s Hs) as [s0 [E0 W0]]. rewrite E0.
  specialize (Hb pos s0 Hp W0). inversion Hb as [s1 H1 E1 E2|q s1 r ps Hq H1 H2 E1 E2].
  - constructor; auto.
  - specialize (IH (S count) q).
    destruct (rf_moreR bodyR mx f (S count) q) as [l|] eqn:El; auto.
    constructor; auto.
    all: intros s' Hs'; specialize (IH s' Hq Hs'); rewrite El in IH; exact IH.
Qed.

Lemma rf_minR_fuel bodyR mn len : 0 < len -> (forall p q, In q (bodyR p) -> q = p + len) ->
  (forall p q, p <= n -> In q (bodyR p) -> q <= n) ->
  forall fuel count pos, pos <= n -> n + 1 - pos < fuel -> rf_minR bodyR mn fuel count pos <> None.
Proof.
  intros Hl Hfix Hle. induction fuel as [|f IH]; intros count pos Hp Hf; [lia|].
  cbn [rf_minR]. destruct (nlt count mn); [|discriminate].
  destruct (bodyR pos) as [|q l] eqn:E; [discriminate|].
  assert (Hin : In q (bodyR pos)) by (rewrite E; left; auto).
  pose proof (Hfix _ _ Hin). pose proof (Hle _ _ Hp Hin). apply IH; lia.
Qed.
Lemma rf_moreR_fuel bodyR mx len : 0 < len -> (forall p q, In q (bodyR p) -> q = p + len) ->
  (forall p q, p <= n -> In q (bodyR p) -> q <= n) ->
  forall fuel count pos, pos <= n -> n + 1 - pos < fuel -> rf_moreR bodyR mx fuel count pos <> None.
Proof.
  intros Hl Hfix Hle. induction fuel as [|f IH]; intros count pos Hp Hf; [lia|].
  cbn [rf_moreR]. destruct (nlt count mx); [|discriminate].
  destruct (bodyR pos) as [|q l] eqn:E; [discriminate|].
  assert (Hin : In q (bodyR pos)) by (rewrite E; left; auto).
  pose proof (Hfix _ _ Hin). pose proof (Hle _ _ Hp Hin).
  specialize (IH (S count) q ltac:(lia) ltac:(lia)).
  destruct (rf_moreR bodyR mx f (S count) q); [discriminate|congruence].
Qed.

(* ---------- induction principle for the nested op type ---------- *)
Section Ind.
Variable P : op -> Prop.
Hypothesis HBol : P OBol. Hypothesis HEol : P OEol. Hypothesis HNo : P ONothing. Hypothesis HEnd : P OEnd.
Hypothesis HAt : forall cs, P (OAtom cs). Hypothesis HCl : forall i, P (OCls i). Hypothesis HBr : forall g, P (OBackref g).
Hypothesis HCap : forall g o, P o -> P (OCapture g o).
Hypothesis HCh : forall bs, Forall P bs -> P (OChoice bs).
Hypothesis HSeq : forall os, Forall P os -> P (OSeq os).
Hypothesis HRep : forall o mn mx g, P o -> P (ORepeat o mn mx g).
Hypothesis HGF : forall o mn mx l, P o -> P (OGFixed o mn mx l).
Hypothesis HRF : forall o mn mx l, P o -> P (ORFixed o mn mx l).
Hypothesis HUn : forall o mn mx, P o -> P (OUnamb o mn mx).
Fixpoint op_ind2 (o : op) : P o :=
  let fix go (l : list op) : Forall P l :=
      match l with [] => Forall_nil _ | x :: t => Forall_cons _ (op_ind2 x) (go t) end in
  match o with
  | OBol => HBol | OEol => HEol | ONothing => HNo | OEnd => HEnd
  | OAtom cs => HAt cs | OCls i => HCl i | OBackref g => HBr g
  | OCapture g o' => HCap g o' (op_ind2 o')
  | OChoice bs => HCh bs (go bs)
  | OSeq os => HSeq os (go os)
  | ORepeat o' mn mx g => HRep o' mn mx g (op_ind2 o')
  | OGFixed o' mn mx l => HGF o' mn mx l (op_ind2 o')
  | ORFixed o' mn mx l => HRF o' mn mx l (op_ind2 o')
  | OUnamb o' mn mx => HUn o' mn mx (op_ind2 o')
  end.
End Ind.

Opaque gf_probe gf_probeR un_probe un_probeR int_step int_stepR rf_min rf_minR rf_more rf_moreR.
Ltac yw_ifs := repeat match goal with
  | |- YW (if ?c then _ else _) (if ?c then _ else _) => destruct c
  | |- YW (match ?c with Some _ => _ | None => _ end) (match ?c with Some _ => _ | None => _ end) => destruct c
  end; try (apply YW_once; auto); try (constructor; auto).

Lemma gf_guard_le p len mx : gf_guard p len mx <= n.
Proof. unfold gf_guard. destruct (N.ltb mx umax); lia. Qed.

Theorem engine_yields_Rop : forall o, simple o -> forall path p s, p <= n -> wf s -> YW (run o path p s) (Rop o p).
Proof.
  unfold run.
  induction o using op_ind2; intros Hsim path p s Hp Hs; cbn [mi Rop]; fold n; try (cbn in Hsim; tauto).
  - (* Bol *)
    destruct (Nat.eqb p 0); [apply YW_once; auto|].
    destruct multi; [|constructor; auto].
    replace (Nat.ltb n p) with false by (symmetry; apply Nat.ltb_ge; lia).
    destruct (is_nl input (p - 1) && Nat.ltb p n); [apply YW_once; auto|constructor; auto].
  - (* Eol *) yw_ifs.
  - (* Nothing *) apply YW_once; auto.
  - (* End *)
    destruct Hs as (H1 & H2 & H3 & H4 & H5). rewrite H4. apply YW_once; auto.
    apply setg_pend0_wf; unfold wf; auto.
  - (* Atom *)
    destruct (Nat.ltb n (p + length cs)) eqn:E; [constructor; auto|].
    apply Nat.ltb_ge in E.
    destruct (starts_with (ceq ci) cs (skipn p input)); [apply YW_once; auto|constructor; auto].
  - (* Cls *)
    destruct (nth_error input p) as [c|] eqn:E; [|constructor; auto].
    assert (p < n) by (apply nth_error_Some; congruence).
    destruct (mem i c); [apply YW_once; auto|constructor; auto].
  - (* Capture *) cbn in Hsim. destruct Hsim as [Hsim Hg].
    apply YW_map_yield.
    + intros q s1 W.
      assert (W2 : wf (if Nat.leb (pcount (cs_ s1)) g then set_pcount (S g) s1 else s1))
        by (destruct (Nat.leb _ _); auto using set_pcount_wf).
      pose proof (set_ps_pe_wf g p q _ W2) as W3.
      destruct hb eqn:Ehb; [|eexists; eauto].
      destruct (set_sb_wf g (Some p) _ W3) as [s4 [E4 W4]].
      { destruct W3 as (_ & _ & _ & _ & H5). rewrite (H5 Ehb). auto. }
      rewrite E4.
      apply set_eb_wf; auto. destruct W4 as (_ & _ & H3 & _ & H5). rewrite <- H3, (H5 Ehb). auto.
    + apply IHo; auto.
  - (* Choice *) cbn in Hsim.
    assert (G : forall i s, wf s ->
      YW ((fix go (bs0 : list op) (i0 : nat) (s1 : mstate) {struct bs0} : LS :=
             match bs0 with
             | [] => LNil s1
             | b :: bs' => match clear_beyond p s1 with
                           | Some s0 => append (mi input ci multi hb b (i0 :: path) p s0) (fun s' => go bs' (S i0) s')
                           | None => LPanic 6
                           end
             end) bs i s) (flat_map (fun b => Rop b p) bs)).
    { induction H as [|b bs Hb Hbs IHb]; intros i s0 Hs0; cbn.
      - constructor; auto.
      - destruct Hsim as [Sb Sbs]. destruct (clear_beyond_wf p s0 Hs0) as [s1 [E W]]. rewrite E.
        apply YW_append; [apply Hb; auto|]. intros s' Hs'. apply IHb; auto. }
    apply G; auto.
  - (* Seq *) cbn in Hsim. destruct Hsim as [Hne Hall].
    apply YW_on_nil.
    { intros s' W'. destruct (contains_cap (OSeq os)); auto.
      destruct W' as (H1 & H2 & H3 & H4 & H5).
      destruct Hs as (G1 & G2 & G3 & G4 & G5). unfold wf, with_cs; cbn [cs_ startn endn sb eb anchored].
      repeat split; auto. }
    assert (G : forall i p s, p <= n -> wf s ->
      YW ((fix go (os0 : list op) (i0 p0 : nat) (s0 : mstate) {struct os0} : LS :=
             match os0 with
             | [] => LPanic 7
             | [o1] => map_yield 8 (fun q s1 => clear_beyond q s1) (mi input ci multi hb o1 (i0 :: path) p0 s0)
             | o1 :: (_ :: _) as os' =>
                 bind (mi input ci multi hb o1 (i0 :: path) p0 s0)
                      (fun q s1 => match clear_beyond q s1 with
                                   | Some s2 => go os' (S i0) q s2
                                   | None => LPanic 8
                                   end)
             end) os i p s)
         ((fix go (os0 : list op) (p0 : nat) {struct os0} : list nat :=
             match os0 with
             | [] => []
             | [o1] => Rop o1 p0
             | o1 :: (_ :: _) as os' => flat_map (fun q => go os' q) (Rop o1 p0)
             end) os p)).
    { clear Hp Hs p s. induction H as [|o1 os Ho Hos IHos]; [congruence|]. intros i p s Hp Hs.
      destruct Hall as [H1 Hrest].
      destruct os as [|o2 os'].
      - apply YW_map_yield; [intros q s1 W; apply clear_beyond_wf; auto|]. apply Ho; auto.
      - apply YW_bind; [apply Ho; auto|].
        intros q s1 Hq W. destruct (clear_beyond_wf q s1 W) as [s2 [E W2]]. rewrite E.
        apply IHos; auto. discriminate. }
    apply G; auto.
  - (* GFixed *) cbn in Hsim. destruct Hsim as (Hs2 & Hlen & Hfix).
    fold (gf_guard p l mx).
    pose proof (gf_guard_le p l mx) as Hgl.
    destruct (Nat.leb (gf_guard p l mx) p && N.ltb 0 mn); [constructor; auto|].
    assert (Hl0 : 0 < N.to_nat l) by lia.
    pose proof (gf_probe_ok (mi input ci multi hb o (0 :: path)) (Rop o) (N.to_nat l) mx (gf_guard p l mx) Hgl
                            (fun p s Hp W => IHo Hs2 (0 :: path) p s Hp W) Hfix (n + 5) p 0 s Hp Hs) as Kp.
    destruct (gf_probeR (Rop o) (N.to_nat l) mx (gf_guard p l mx) (n + 5) p 0) as [[p' m]|] eqn:E.
    + destruct Kp as [s1 [K1 [W1 Hp']]]. rewrite K1.
      destruct (nlt m mn); [constructor; auto|].
      apply int_step_ok; auto.
    + exfalso. revert E. apply gf_probeR_fuel; auto. lia.
  - (* RFixed *) cbn in Hsim. destruct Hsim as (Hs2 & Hlen & Hfix).
    assert (Hb : forall p s, p <= n -> wf s -> YW (mi input ci multi hb o (0 :: path) p s) (Rop o p))
      by (intros; apply IHo; auto).
    assert (Hle : forall p q, p <= n -> In q (Rop o p) -> q <= n).
    { intros p0 q0 Hp0 Hq0. eapply YW_in; [apply (Hb p0 s Hp0 Hs)|exact Hq0]. }
    pose proof (rf_min_ok _ _ mn Hb (n + 5) 0 p s Hp Hs) as Km.
    destruct (rf_minR (Rop o) mn (n + 5) 0 p) as [[[c q]|]|] eqn:Em.
    + destruct Km as [s1 [K1 [W1 Hq]]]. rewrite K1.
      pose proof (rf_more_ok _ _ mx p Hb (n + 5) c q) as Kr.
      destruct (rf_moreR (Rop o) mx (n + 5) c q) as [l0|] eqn:Er.
      * constructor; auto.
        all: intros s' Hs'; specialize (Kr s' Hq Hs'); rewrite Er in Kr; exact Kr.
      * exfalso. revert Er. apply (rf_moreR_fuel (Rop o) mx (N.to_nat l)); auto; lia.
    + destruct Km as [s1 [K1 W1]]. rewrite K1. constructor; auto.
    + exfalso. revert Em. apply (rf_minR_fuel (Rop o) mn (N.to_nat l)); auto; lia.
  - (* Unamb *) cbn in Hsim. destruct Hsim as [Hs2 Hbo].
    pose proof (un_probe_ok (mi input ci multi hb o (0 :: path)) (Rop o) mx
                            (fun p s Hp W => IHo Hs2 (0 :: path) p s Hp W) (n + 5) p 0 s Hp Hs) as Kp.
    destruct (un_probeR (Rop o) mx n (n + 5) p 0) as [[p' m]|] eqn:E.
    + destruct Kp as [s1 [K1 [W1 Hp']]]. rewrite K1.
      destruct (nlt m mn); [constructor; auto|apply YW_once; auto].
    + exfalso. revert E. apply un_probeR_fuel; auto. lia.
Qed.

(* no panic, no fuel exhaustion: what the first-result consumers see *)
Corollary engine_first_safe o path p s : simple o -> p <= n -> wf s ->
  match first_of (run o path p s) with
  | FSome q s' => q <= n /\ wf s' /\ exists rest, Rop o p = q :: rest
  | FNone s' => wf s' /\ Rop o p = []
  | FOut | FPanic _ => False
  end.
Proof.
  intros Hsim Hp Hs. pose proof (engine_yields_Rop o Hsim path p s Hp Hs) as Y.
  inversion Y as [s1 H1 E1 E2|q s1 r ps Hq H1 H2 E1 E2]; cbn [first_of]; eauto.
Qed.
End E.
