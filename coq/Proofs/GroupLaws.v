(* C20 on the grammar of Proofs/GroupGrammar.v, from the pattern text: rewriting every  c+  of a
   pattern to  cc*  (and  c+?  to  cc*? ), and every  c?  to  (c|) , gives a pattern that the model
   compiles as well and that has the same verdict on every input.  The rewriting is done on grammar
   trees, the theorem is about the printed texts. *)
From RX Require Import Base.Prelude Base.InvList Tables.Consts Model.Case Model.Op Model.Engine Model.Matcher
     Model.Compiler Model.Api Spec.Syntax Spec.Sem Proofs.EngineFacts Proofs.LowerFacts Proofs.QuantFacts Proofs.QuantLaws
     Proofs.PlainPattern Proofs.GroupGrammar Proofs.GroupSpec.

Fixpoint plus_b (b : branch) : branch :=
  match b with
  | BEnd cs => BEnd cs
  | BGrp cs cap a b' => BGrp cs cap (plus_a a) (plus_b b')
  | BQ cs c QPlus rel b' => BQ (cs ++ [c]) c QStar rel (plus_b b')
  | BQ cs c k rel b' => BQ cs c k rel (plus_b b')
  | BAn cs eol b' => BAn cs eol (plus_b b')
  | BD cs da q b' => BD cs da q (plus_b b')
  end
with plus_a (a : alt) : alt :=
  match a with
  | AOne b => AOne (plus_b b)
  | ACons b a' => ACons (plus_b b) (plus_a a')
  end.

Fixpoint opt_b (b : branch) : branch :=
  match b with
  | BEnd cs => BEnd cs
  | BGrp cs cap a b' => BGrp cs cap (opt_a a) (opt_b b')
  | BQ cs c QOpt false b' => BGrp cs true (ACons (BEnd [c]) (AOne (BEnd []))) (opt_b b')
  | BQ cs c k rel b' => BQ cs c k rel (opt_b b')
  | BAn cs eol b' => BAn cs eol (opt_b b')
  | BD cs da q b' => BD cs da q (opt_b b')
  end
with opt_a (a : alt) : alt :=
  match a with
  | AOne b => AOne (opt_b b)
  | ACons b a' => ACons (opt_b b) (opt_a a')
  end.

(* c{n,} = n copies of c followed by c* *)
Fixpoint atl_b (b : branch) : branch :=
  match b with
  | BEnd cs => BEnd cs
  | BGrp cs cap a b' => BGrp cs cap (atl_a a) (atl_b b')
  | BQ cs c (QBr ds BrOpen) rel b' => BQ (cs ++ repeat c (N.to_nat (dec ds))) c QStar rel (atl_b b')
  | BQ cs c k rel b' => BQ cs c k rel (atl_b b')
  | BAn cs eol b' => BAn cs eol (atl_b b')
  | BD cs da q b' => BD cs da q (atl_b b')
  end
with atl_a (a : alt) : alt :=
  match a with
  | AOne b => AOne (atl_b b)
  | ACons b a' => ACons (atl_b b) (atl_a a')
  end.

Example atl_text : show_a (atl_a (AOne (BQ [120] 97 (QBr [51] BrOpen) true (BEnd [121]))))%N = [120; 97; 97; 97; 97; 42; 63; 121]%N.
Proof. reflexivity. Qed.

(* c{n,m} with n < m = n copies of c followed by m-n copies of c? *)
Fixpoint opts (c : N) (rel : bool) (d : nat) (b : branch) : branch :=
  match d with O => b | S d' => BQ [] c QOpt rel (opts c rel d' b) end.
Fixpoint bnd_b (b : branch) : branch :=
  match b with
  | BEnd cs => BEnd cs
  | BGrp cs cap a b' => BGrp cs cap (bnd_a a) (bnd_b b')
  | BQ cs c (QBr ds (BrTo d2)) rel b' =>
      if (dec ds <? dec d2)%N
      then BQ (cs ++ repeat c (N.to_nat (dec ds))) c QOpt rel (opts c rel (N.to_nat (dec d2 - dec ds) - 1) (bnd_b b'))
      else BQ cs c (QBr ds (BrTo d2)) rel (bnd_b b')
  | BQ cs c k rel b' => BQ cs c k rel (bnd_b b')
  | BAn cs eol b' => BAn cs eol (bnd_b b')
  | BD cs da q b' => BD cs da q (bnd_b b')
  end
with bnd_a (a : alt) : alt :=
  match a with
  | AOne b => AOne (bnd_b b)
  | ACons b a' => ACons (bnd_b b) (bnd_a a')
  end.

Example bnd_text : show_a (bnd_a (AOne (BQ [120] 97 (QBr [50] (BrTo [52])) false (BEnd [121]))))%N
                   = [120; 97; 97; 97; 63; 97; 63; 121]%N.
Proof. reflexivity. Qed.

(* r = r|r: the last alternative of every alternation (the whole pattern's included) written twice *)
Fixpoint dup_b (b : branch) : branch :=
  match b with
  | BEnd cs => BEnd cs
  | BGrp cs cap a b' => BGrp cs cap (dup_a a) (dup_b b')
  | BQ cs c k rel b' => BQ cs c k rel (dup_b b')
  | BAn cs eol b' => BAn cs eol (dup_b b')
  | BD cs da q b' => BD cs da q (dup_b b')
  end
with dup_a (a : alt) : alt :=
  match a with
  | AOne b => ACons (dup_b b) (AOne (dup_b b))
  | ACons b a' => ACons (dup_b b) (dup_a a')
  end.
(* a capturing group turned into a non-capturing one (XPath) *)
Fixpoint uncap_b (b : branch) : branch :=
  match b with
  | BEnd cs => BEnd cs
  | BGrp cs cap a b' => BGrp cs false (uncap_a a) (uncap_b b')
  | BQ cs c k rel b' => BQ cs c k rel (uncap_b b')
  | BAn cs eol b' => BAn cs eol (uncap_b b')
  | BD cs da q b' => BD cs da q (uncap_b b')
  end
with uncap_a (a : alt) : alt :=
  match a with
  | AOne b => AOne (uncap_b b)
  | ACons b a' => ACons (uncap_b b) (uncap_a a')
  end.
(* a quantified character wrapped in (?: ) (XPath) *)
Fixpoint wrap_b (b : branch) : branch :=
  match b with
  | BEnd cs => BEnd cs
  | BGrp cs cap a b' => BGrp cs cap (wrap_a a) (wrap_b b')
  | BQ cs c k rel b' => BGrp cs false (AOne (BQ [] c k rel (BEnd []))) (wrap_b b')
  | BAn cs eol b' => BAn cs eol (wrap_b b')
  | BD cs da q b' => BD cs da q (wrap_b b')
  end
with wrap_a (a : alt) : alt :=
  match a with
  | AOne b => AOne (wrap_b b)
  | ACons b a' => ACons (wrap_b b) (wrap_a a')
  end.

Example dup_text : show_a (dup_a (AOne (BGrp [120] true (ACons (BEnd [97]) (AOne (BEnd [98]))) (BEnd []))))%N
                   = [120; 40; 97; 124; 98; 124; 98; 41; 124; 120; 40; 97; 124; 98; 124; 98; 41]%N.
Proof. reflexivity. Qed.
Example wrap_text : show_a (wrap_a (AOne (BQ [120] 97 QStar true (BEnd [121]))))%N = [120; 40; 63; 58; 97; 42; 63; 41; 121]%N.
Proof. reflexivity. Qed.

(* c{n} = n copies of c: they join the run before and the run after *)
Definition pre_b (cs0 : list N) (b : branch) : branch :=
  match b with
  | BEnd cs => BEnd (cs0 ++ cs)
  | BGrp cs cap a b' => BGrp (cs0 ++ cs) cap a b'
  | BQ cs c k rel b' => BQ (cs0 ++ cs) c k rel b'
  | BAn cs eol b' => BAn (cs0 ++ cs) eol b'
  | BD cs da q b' => BD (cs0 ++ cs) da q b'
  end.
Fixpoint exa_b (b : branch) : branch :=
  match b with
  | BEnd cs => BEnd cs
  | BGrp cs cap a b' => BGrp cs cap (exa_a a) (exa_b b')
  | BQ cs c (QBr ds BrExact) rel b' => pre_b (cs ++ repeat c (N.to_nat (dec ds))) (exa_b b')
  | BQ cs c k rel b' => BQ cs c k rel (exa_b b')
  | BAn cs eol b' => BAn cs eol (exa_b b')
  | BD cs da q b' => BD cs da q (exa_b b')
  end
with exa_a (a : alt) : alt :=
  match a with
  | AOne b => AOne (exa_b b)
  | ACons b a' => ACons (exa_b b) (exa_a a')
  end.
Example exa_text : show_a (exa_a (AOne (BQ [120] 97 (QBr [51] BrExact) false (BQ [121] 98 QStar false (BEnd [])))))%N
                   = [120; 97; 97; 97; 121; 98; 42]%N.
Proof. reflexivity. Qed.

(* (?:r|s)t = rt|st : an alternative that is a two-way non-capturing group followed by a rest t becomes two
   alternatives, each followed by t (XPath; applied to every such alternative of every alternation, the
   parts themselves left as they are) *)
Fixpoint app_b (b1 t : branch) : branch :=
  match b1 with
  | BEnd cs => pre_b cs t
  | BGrp cs cap a b' => BGrp cs cap a (app_b b' t)
  | BQ cs c k rel b' => BQ cs c k rel (app_b b' t)
  | BAn cs eol b' => BAn cs eol (app_b b' t)
  | BD cs da q b' => BD cs da q (app_b b' t)
  end.
Fixpoint dist_b (b : branch) : branch :=
  match b with
  | BEnd cs => BEnd cs
  | BGrp cs cap a b' => BGrp cs cap (dist_a a) (dist_b b')
  | BQ cs c k rel b' => BQ cs c k rel (dist_b b')
  | BAn cs eol b' => BAn cs eol (dist_b b')
  | BD cs da q b' => BD cs da q (dist_b b')
  end
with dist_a (a : alt) : alt :=
  match a with
  | AOne (BGrp [] false (ACons b1 (AOne b2)) t) => ACons (app_b b1 t) (AOne (app_b b2 t))
  | AOne b => AOne (dist_b b)
  | ACons (BGrp [] false (ACons b1 (AOne b2)) t) a' => ACons (app_b b1 t) (ACons (app_b b2 t) (dist_a a'))
  | ACons b a' => ACons (dist_b b) (dist_a a')
  end.
Example dist_text : show_a (dist_a (ACons (BEnd [120]) (AOne (BGrp [] false (ACons (BEnd [97]) (AOne (BQ [] 98 QStar false (BEnd [])))) (BEnd [99; 100])))))%N
                    = [120; 124; 97; 99; 100; 124; 98; 42; 99; 100]%N.
Proof. reflexivity. Qed.

Example plus_text : show_a (plus_a (AOne (BQ [120] 97 QPlus false (BEnd [121]))))%N = [120; 97; 97; 42; 121]%N.
Proof. reflexivity. Qed.
Example opt_text : show_a (opt_a (AOne (BQ [120] 97 QOpt false (BEnd [121]))))%N = [120; 40; 97; 124; 41; 121]%N.
Proof. reflexivity. Qed.

Lemma forallb_app_one cs c : forallb ordinary cs = true -> ordinary c = true -> forallb ordinary (cs ++ [c]) = true.
Proof. intros H1 H2. rewrite forallb_app, H1. cbn. rewrite H2. reflexivity. Qed.

Lemma plus_ok xpath : (forall b, ok_b xpath b = true -> ok_b xpath (plus_b b) = true)
                      /\ (forall a, ok_a xpath a = true -> ok_a xpath (plus_a a) = true).
Proof.
  apply branch_alt_ind.
  - intros cs H. exact H.
  - intros cs cap a IHa b IHb H. cbn [plus_b ok_b] in *. apply andb_true_iff in H as [H Hb]. apply andb_true_iff in H as [H Ha].
    rewrite H, (IHa Ha), (IHb Hb). reflexivity.
  - intros cs c k rel b IHb H. cbn [ok_b] in H. apply andb_true_iff in H as [H Hb]. apply andb_true_iff in H as [H Hk].
    apply andb_true_iff in H as [H Hr]. apply andb_true_iff in H as [Hcs Hc].
    destruct k; cbn [plus_b ok_b]; rewrite ?Hcs, ?Hc, ?Hr, ?Hk, ?(IHb Hb), ?(forallb_app_one cs c Hcs Hc); reflexivity.
  - intros cs eol b IHb H. cbn [plus_b ok_b] in *. apply andb_true_iff in H as [H Hb]. rewrite H, (IHb Hb). reflexivity.
  - intros cs da q b IHb H. cbn [plus_b ok_b] in *. apply andb_true_iff in H as [H Hb]. rewrite H, (IHb Hb). reflexivity.
  - intros b IHb H. exact (IHb H).
  - intros b IHb a IHa H. cbn [plus_a ok_a] in *. apply andb_true_iff in H as [H1 H2]. rewrite (IHb H1), (IHa H2). reflexivity.
Qed.

Lemma opt_ok xpath : (forall b, ok_b xpath b = true -> ok_b xpath (opt_b b) = true)
                     /\ (forall a, ok_a xpath a = true -> ok_a xpath (opt_a a) = true).
Proof.
  apply branch_alt_ind.
  - intros cs H. exact H.
  - intros cs cap a IHa b IHb H. cbn [opt_b ok_b] in *. apply andb_true_iff in H as [H Hb]. apply andb_true_iff in H as [H Ha].
    rewrite H, (IHa Ha), (IHb Hb). reflexivity.
  - intros cs c k rel b IHb H. cbn [ok_b] in H. apply andb_true_iff in H as [H Hb]. apply andb_true_iff in H as [H Hk].
    apply andb_true_iff in H as [H Hr]. apply andb_true_iff in H as [Hcs Hc].
    destruct k, rel; cbn [opt_b ok_b ok_a forallb orb]; rewrite ?Hcs, ?Hc, ?Hr, ?Hk, ?(IHb Hb); reflexivity.
  - intros cs eol b IHb H. cbn [opt_b ok_b] in *. apply andb_true_iff in H as [H Hb]. rewrite H, (IHb Hb). reflexivity.
  - intros cs da q b IHb H. cbn [opt_b ok_b] in *. apply andb_true_iff in H as [H Hb]. rewrite H, (IHb Hb). reflexivity.
  - intros b IHb H. exact (IHb H).
  - intros b IHb a IHa H. cbn [opt_a ok_a] in *. apply andb_true_iff in H as [H1 H2]. rewrite (IHb H1), (IHa H2). reflexivity.
Qed.

Lemma forallb_app_rep cs c k : forallb ordinary cs = true -> ordinary c = true -> forallb ordinary (cs ++ repeat c k) = true.
Proof.
  intros H1 H2. rewrite forallb_app, H1. induction k as [|k IH]; [reflexivity|]. cbn [repeat forallb andb] in *. rewrite H2. exact IH.
Qed.
Lemma atl_ok xpath : (forall b, ok_b xpath b = true -> ok_b xpath (atl_b b) = true)
                     /\ (forall a, ok_a xpath a = true -> ok_a xpath (atl_a a) = true).
Proof.
  apply branch_alt_ind.
  - intros cs H. exact H.
  - intros cs cap a IHa b IHb H. cbn [atl_b ok_b] in *. apply andb_true_iff in H as [H Hb]. apply andb_true_iff in H as [H Ha].
    rewrite H, (IHa Ha), (IHb Hb). reflexivity.
  - intros cs c k rel b IHb H. cbn [ok_b] in H. apply andb_true_iff in H as [H Hb]. apply andb_true_iff in H as [H Hk].
    apply andb_true_iff in H as [H Hr]. apply andb_true_iff in H as [Hcs Hc].
    destruct k as [| | |ds [| |d2]]; cbn [atl_b ok_b]; rewrite ?Hcs, ?Hc, ?Hr, ?Hk, ?(IHb Hb), ?(forallb_app_rep cs c _ Hcs Hc); reflexivity.
  - intros cs eol b IHb H. cbn [atl_b ok_b] in *. apply andb_true_iff in H as [H Hb]. rewrite H, (IHb Hb). reflexivity.
  - intros cs da q b IHb H. cbn [atl_b ok_b] in *. apply andb_true_iff in H as [H Hb]. rewrite H, (IHb Hb). reflexivity.
  - intros b IHb H. exact (IHb H).
  - intros b IHb a IHa H. cbn [atl_a ok_a] in *. apply andb_true_iff in H as [H1 H2]. rewrite (IHb H1), (IHa H2). reflexivity.
Qed.

Lemma opts_ok xpath c rel d b : ordinary c = true -> negb rel || xpath = true -> ok_b xpath b = true ->
  ok_b xpath (opts c rel d b) = true.
Proof.
  intros Hc Hr Hb. induction d as [|d IH]; [exact Hb|]. cbn [opts ok_b forallb okq]. rewrite Hc, Hr, IH. reflexivity.
Qed.
Lemma bnd_ok xpath : (forall b, ok_b xpath b = true -> ok_b xpath (bnd_b b) = true)
                     /\ (forall a, ok_a xpath a = true -> ok_a xpath (bnd_a a) = true).
Proof.
  apply branch_alt_ind.
  - intros cs H. exact H.
  - intros cs cap a IHa b IHb H. cbn [bnd_b ok_b] in *. apply andb_true_iff in H as [H Hb]. apply andb_true_iff in H as [H Ha].
    rewrite H, (IHa Ha), (IHb Hb). reflexivity.
  - intros cs c k rel b IHb H. cbn [ok_b] in H. apply andb_true_iff in H as [H Hb]. apply andb_true_iff in H as [H Hk].
    apply andb_true_iff in H as [H Hr]. apply andb_true_iff in H as [Hcs Hc].
    destruct k as [| | |ds [| |d2]]; cbn [bnd_b]; try (cbn [ok_b]; rewrite ?Hcs, ?Hc, ?Hr, ?Hk, ?(IHb Hb); reflexivity).
    destruct (dec ds <? dec d2)%N.
    + cbn [ok_b okq]. rewrite (forallb_app_rep cs c _ Hcs Hc), Hc, Hr, (opts_ok xpath c rel _ _ Hc Hr (IHb Hb)). reflexivity.
    + cbn [ok_b]. rewrite Hcs, Hc, Hr, Hk, (IHb Hb). reflexivity.
  - intros cs eol b IHb H. cbn [bnd_b ok_b] in *. apply andb_true_iff in H as [H Hb]. rewrite H, (IHb Hb). reflexivity.
  - intros cs da q b IHb H. cbn [bnd_b ok_b] in *. apply andb_true_iff in H as [H Hb]. rewrite H, (IHb Hb). reflexivity.
  - intros b IHb H. exact (IHb H).
  - intros b IHb a IHa H. cbn [bnd_a ok_a] in *. apply andb_true_iff in H as [H1 H2]. rewrite (IHb H1), (IHa H2). reflexivity.
Qed.

Lemma dup_ok xpath : (forall b, ok_b xpath b = true -> ok_b xpath (dup_b b) = true)
                     /\ (forall a, ok_a xpath a = true -> ok_a xpath (dup_a a) = true).
Proof.
  apply branch_alt_ind.
  - intros cs H. exact H.
  - intros cs cap a IHa b IHb H. cbn [dup_b ok_b] in *. apply andb_true_iff in H as [H Hb]. apply andb_true_iff in H as [H Ha].
    rewrite H, (IHa Ha), (IHb Hb). reflexivity.
  - intros cs c k rel b IHb H. cbn [dup_b ok_b] in *. apply andb_true_iff in H as [H Hb]. rewrite H, (IHb Hb). reflexivity.
  - intros cs eol b IHb H. cbn [dup_b ok_b] in *. apply andb_true_iff in H as [H Hb]. rewrite H, (IHb Hb). reflexivity.
  - intros cs da q b IHb H. cbn [dup_b ok_b] in *. apply andb_true_iff in H as [H Hb]. rewrite H, (IHb Hb). reflexivity.
  - intros b IHb H. cbn [dup_a ok_a] in *. rewrite (IHb H). reflexivity.
  - intros b IHb a IHa H. cbn [dup_a ok_a] in *. apply andb_true_iff in H as [H1 H2]. rewrite (IHb H1), (IHa H2). reflexivity.
Qed.
Lemma uncap_ok : (forall b, ok_b true b = true -> ok_b true (uncap_b b) = true)
                 /\ (forall a, ok_a true a = true -> ok_a true (uncap_a a) = true).
Proof.
  apply branch_alt_ind.
  - intros cs H. exact H.
  - intros cs cap a IHa b IHb H. cbn [uncap_b ok_b] in *. apply andb_true_iff in H as [H Hb]. apply andb_true_iff in H as [H Ha].
    apply andb_true_iff in H as [Hcs _]. rewrite Hcs, (IHa Ha), (IHb Hb). reflexivity.
  - intros cs c k rel b IHb H. cbn [uncap_b ok_b] in *. apply andb_true_iff in H as [H Hb]. rewrite H, (IHb Hb). reflexivity.
  - intros cs eol b IHb H. cbn [uncap_b ok_b] in *. apply andb_true_iff in H as [H Hb]. rewrite H, (IHb Hb). reflexivity.
  - intros cs da q b IHb H. cbn [uncap_b ok_b] in *. apply andb_true_iff in H as [H Hb]. rewrite H, (IHb Hb). reflexivity.
  - intros b IHb H. exact (IHb H).
  - intros b IHb a IHa H. cbn [uncap_a ok_a] in *. apply andb_true_iff in H as [H1 H2]. rewrite (IHb H1), (IHa H2). reflexivity.
Qed.
Lemma wrap_ok : (forall b, ok_b true b = true -> ok_b true (wrap_b b) = true)
                /\ (forall a, ok_a true a = true -> ok_a true (wrap_a a) = true).
Proof.
  apply branch_alt_ind.
  - intros cs H. exact H.
  - intros cs cap a IHa b IHb H. cbn [wrap_b ok_b] in *. apply andb_true_iff in H as [H Hb]. apply andb_true_iff in H as [H Ha].
    rewrite H, (IHa Ha), (IHb Hb). reflexivity.
  - intros cs c k rel b IHb H. cbn [ok_b] in H. apply andb_true_iff in H as [H Hb]. apply andb_true_iff in H as [H Hk].
    apply andb_true_iff in H as [H Hr]. apply andb_true_iff in H as [Hcs Hc].
    cbn [wrap_b ok_b ok_a forallb orb andb]. rewrite Hcs, Hc, Hr, Hk, (IHb Hb). reflexivity.
  - intros cs eol b IHb H. cbn [wrap_b ok_b] in *. apply andb_true_iff in H as [H Hb]. rewrite H, (IHb Hb). reflexivity.
  - intros cs da q b IHb H. cbn [wrap_b ok_b] in *. apply andb_true_iff in H as [H Hb]. rewrite H, (IHb Hb). reflexivity.
  - intros b IHb H. exact (IHb H).
  - intros b IHb a IHa H. cbn [wrap_a ok_a] in *. apply andb_true_iff in H as [H1 H2]. rewrite (IHb H1), (IHa H2). reflexivity.
Qed.

Lemma pre_ok xpath cs0 b : forallb ordinary cs0 = true -> ok_b xpath b = true -> ok_b xpath (pre_b cs0 b) = true.
Proof.
  intros H0 Hb. destruct b as [cs|cs cap a b'|cs c k rel b'|cs eol b'|cs da q b']; cbn [pre_b ok_b] in *; rewrite ?forallb_app, ?H0; cbn [andb].
  - exact Hb.
  - exact Hb.
  - exact Hb.
  - exact Hb.
  - exact Hb.
Qed.
Lemma exa_ok xpath : (forall b, ok_b xpath b = true -> ok_b xpath (exa_b b) = true)
                     /\ (forall a, ok_a xpath a = true -> ok_a xpath (exa_a a) = true).
Proof.
  apply branch_alt_ind.
  - intros cs H. exact H.
  - intros cs cap a IHa b IHb H. cbn [exa_b ok_b] in *. apply andb_true_iff in H as [H Hb]. apply andb_true_iff in H as [H Ha].
    rewrite H, (IHa Ha), (IHb Hb). reflexivity.
  - intros cs c k rel b IHb H. cbn [ok_b] in H. apply andb_true_iff in H as [H Hb]. apply andb_true_iff in H as [H Hk].
    apply andb_true_iff in H as [H Hr]. apply andb_true_iff in H as [Hcs Hc].
    destruct k as [| | |ds [| |d2]]; cbn [exa_b]; try (cbn [ok_b]; rewrite ?Hcs, ?Hc, ?Hr, ?Hk, ?(IHb Hb); reflexivity).
    apply pre_ok; [apply forallb_app_rep; assumption|apply IHb; exact Hb].
  - intros cs eol b IHb H. cbn [exa_b ok_b] in *. apply andb_true_iff in H as [H Hb]. rewrite H, (IHb Hb). reflexivity.
  - intros cs da q b IHb H. cbn [exa_b ok_b] in *. apply andb_true_iff in H as [H Hb]. rewrite H, (IHb Hb). reflexivity.
  - intros b IHb H. exact (IHb H).
  - intros b IHb a IHa H. cbn [exa_a ok_a] in *. apply andb_true_iff in H as [H1 H2]. rewrite (IHb H1), (IHa H2). reflexivity.
Qed.

Definition split_b (b : branch) : option (branch * branch * branch) :=
  match b with
  | BGrp [] false (ACons b1 (AOne b2)) t => Some (b1, b2, t)
  | _ => None
  end.
Lemma split_some b b1 b2 t : split_b b = Some (b1, b2, t) -> b = BGrp [] false (ACons b1 (AOne b2)) t.
Proof.
  destruct b as [cs|cs cap a b'|cs c k rel b'|cs eol b'|cs da q b']; try discriminate.
  destruct cs as [|c0 cs]; [|discriminate]. destruct cap; [discriminate|].
  destruct a as [x|x [y|y z]]; try discriminate. cbn [split_b]. intros [= -> -> ->]. reflexivity.
Qed.
Lemma dist_one b : dist_a (AOne b) = match split_b b with
                                     | Some (b1, b2, t) => ACons (app_b b1 t) (AOne (app_b b2 t))
                                     | None => AOne (dist_b b)
                                     end.
Proof.
  destruct b as [cs|cs cap a b'|cs c k rel b'|cs eol b'|cs da q b']; try reflexivity.
  destruct cs as [|c0 cs]; [|reflexivity]. destruct cap; [reflexivity|].
  destruct a as [x|x [y|y z]]; reflexivity.
Qed.
Lemma dist_cons b a' : dist_a (ACons b a') = match split_b b with
                                             | Some (b1, b2, t) => ACons (app_b b1 t) (ACons (app_b b2 t) (dist_a a'))
                                             | None => ACons (dist_b b) (dist_a a')
                                             end.
Proof.
  destruct b as [cs|cs cap a b'|cs c k rel b'|cs eol b'|cs da q b']; try reflexivity.
  destruct cs as [|c0 cs]; [|reflexivity]. destruct cap; [reflexivity|].
  destruct a as [x|x [y|y z]]; reflexivity.
Qed.

(* what the appended branch prints *)
Lemma show_pre cs0 b : show_b (pre_b cs0 b) = cs0 ++ show_b b.
Proof. destruct b; cbn [pre_b show_b]; rewrite <- ?app_assoc; reflexivity. Qed.
Lemma show_app t : forall b1, show_b (app_b b1 t) = show_b b1 ++ show_b t.
Proof.
  apply (branch_mind (fun b1 => show_b (app_b b1 t) = show_b b1 ++ show_b t) (fun _ => True)); auto.
  - intros cs. cbn [app_b show_b]. apply show_pre.
  - intros cs cap a _ b IH. cbn [app_b show_b]. rewrite IH. repeat (rewrite <- ?app_assoc; cbn [app]). reflexivity.
  - intros cs c k rel b IH. cbn [app_b show_b]. rewrite IH. repeat (rewrite <- ?app_assoc; cbn [app]). reflexivity.
  - intros cs eol b IH. cbn [app_b show_b]. rewrite IH. repeat (rewrite <- ?app_assoc; cbn [app]). reflexivity.
  - intros cs da q b IH. cbn [app_b show_b]. rewrite IH. repeat (rewrite <- ?app_assoc; cbn [app]). reflexivity.
Qed.

Lemma app_ok xpath t : ok_b xpath t = true -> forall b1, ok_b xpath b1 = true -> ok_b xpath (app_b b1 t) = true.
Proof.
  intros Ht. apply (branch_mind (fun b1 => ok_b xpath b1 = true -> ok_b xpath (app_b b1 t) = true) (fun _ => True)); auto.
  - intros cs H. cbn [app_b]. apply pre_ok; [exact H|exact Ht].
  - intros cs cap a _ b IHb H. cbn [app_b ok_b] in *. apply andb_true_iff in H as [H Hb]. rewrite H, (IHb Hb). reflexivity.
  - intros cs c k rel b IHb H. cbn [app_b ok_b] in *. apply andb_true_iff in H as [H Hb]. rewrite H, (IHb Hb). reflexivity.
  - intros cs eol b IHb H. cbn [app_b ok_b] in *. apply andb_true_iff in H as [H Hb]. rewrite H, (IHb Hb). reflexivity.
  - intros cs da q b IHb H. cbn [app_b ok_b] in *. apply andb_true_iff in H as [H Hb]. rewrite H, (IHb Hb). reflexivity.
Qed.
Lemma split_ok xpath b b1 b2 t : split_b b = Some (b1, b2, t) -> ok_b xpath b = true ->
  ok_b xpath b1 = true /\ ok_b xpath b2 = true /\ ok_b xpath t = true.
Proof.
  intros Hs Hok. rewrite (split_some _ _ _ _ Hs) in Hok. cbn [ok_b ok_a forallb orb andb] in Hok.
  apply andb_true_iff in Hok as [Hok Ht]. apply andb_true_iff in Hok as [_ H12]. apply andb_true_iff in H12 as [H1 H2]. auto.
Qed.
Lemma dist_ok xpath : (forall b, ok_b xpath b = true -> ok_b xpath (dist_b b) = true)
                      /\ (forall a, ok_a xpath a = true -> ok_a xpath (dist_a a) = true).
Proof.
  apply branch_alt_ind.
  - intros cs H. exact H.
  - intros cs cap a IHa b IHb H. cbn [dist_b ok_b] in *. apply andb_true_iff in H as [H Hb]. apply andb_true_iff in H as [H Ha].
    rewrite H, (IHa Ha), (IHb Hb). reflexivity.
  - intros cs c k rel b IHb H. cbn [dist_b ok_b] in *. apply andb_true_iff in H as [H Hb]. rewrite H, (IHb Hb). reflexivity.
  - intros cs eol b IHb H. cbn [dist_b ok_b] in *. apply andb_true_iff in H as [H Hb]. rewrite H, (IHb Hb). reflexivity.
  - intros cs da q b IHb H. cbn [dist_b ok_b] in *. apply andb_true_iff in H as [H Hb]. rewrite H, (IHb Hb). reflexivity.
  - intros b IHb H. rewrite dist_one. cbn [ok_a] in H. destruct (split_b b) as [[[b1 b2] t]|] eqn:Es; [|exact (IHb H)].
    destruct (split_ok xpath b b1 b2 t Es H) as (H1 & H2 & Ht). cbn [ok_a]. rewrite (app_ok xpath t Ht b1 H1), (app_ok xpath t Ht b2 H2). reflexivity.
  - intros b IHb a IHa H. rewrite dist_cons. cbn [ok_a] in H. apply andb_true_iff in H as [Hb Ha].
    destruct (split_b b) as [[[b1 b2] t]|] eqn:Es; [|cbn [ok_a]; rewrite (IHb Hb), (IHa Ha); reflexivity].
    destruct (split_ok xpath b b1 b2 t Es Hb) as (H1 & H2 & Ht). cbn [ok_a].
    rewrite (app_ok xpath t Ht b1 H1), (app_ok xpath t Ht b2 H2), (IHa Ha). reflexivity.
Qed.

Section Laws.
Variable input : list N.
Variable ci multi single : bool.
Let n := length input.
Let fl := fl_of ci multi single.

Lemma lit_one c m q : m <= n -> (In q (lit input ci [c] m) <-> In q (ends fl input (RChar c) m)).
Proof.
  intros Hm. rewrite <- (SE_one input fl (RChar c) m q). symmetry. exact (SE_run input fl [c] m q Hm).
Qed.

Lemma SE_run' cs m q : m <= n -> (In q (seq_ends input fl (map RChar cs) [m]) <-> In q (lit input ci cs m)).
Proof. exact (SE_run input fl cs m q). Qed.

Lemma lit_app cs c m q : m <= n ->
  (In q (lit input ci (cs ++ [c]) m) <-> exists k, In k (lit input ci cs m) /\ In q (lit input ci [c] k)).
Proof.
  intros Hm. rewrite <- (SE_run' (cs ++ [c]) m q Hm). rewrite map_app. cbn [map].
  rewrite (SE_app input fl). rewrite (SE_in input fl). split.
  - intros (k & Hk & Hq). exists k. split; [apply (SE_run' cs m k Hm); exact Hk|].
    assert (k <= n) by (apply (SE_run' cs m k Hm) in Hk; apply lit_le in Hk; tauto).
    apply (SE_run' [c] k q); auto.
  - intros (k & Hk & Hq). exists k. split; [apply (SE_run' cs m k Hm); exact Hk|].
    assert (k <= n) by (apply lit_le in Hk; tauto).
    apply (SE_run' [c] k q); auto.
Qed.

(* c+ = c c*  (greedy and reluctant alike: the set of end positions is the same) *)
Lemma plus_step c rel m q : m <= n ->
  (In q (Dq input ci multi single c QPlus rel m) <-> exists k, In k (lit input ci [c] m) /\ In q (Dq input ci multi single c QStar rel k)).
Proof.
  intros Hm. unfold Dq. cbn [qmin qmaxo].
  pose proof (law_plus fl input (RChar c) (negb rel) I m q Hm) as L. fold fl. rewrite L.
  rewrite ends_seq. cbn [seq_reach]. split.
  - intros (k & Hk & q' & Hq & ->). exists k. split; [apply lit_one; [exact Hm|exact Hk]|exact Hq].
  - intros (k & Hk & Hq). exists k. split; [apply lit_one; [exact Hm|exact Hk]|]. exists q. split; [exact Hq|reflexivity].
Qed.

(* c? = (c|) *)
Lemma opt_step c m q : m <= n ->
  (In q (Dq input ci multi single c QOpt false m) <-> In q (lit input ci [c] m ++ lit input ci [] m)).
Proof.
  intros Hm. unfold Dq. cbn [qmin qmaxo negb]. fold fl.
  assert (W : quant_wf (RQuant (RChar c) 0 (Some 1%N) true)) by (cbn [quant_wf]; split; [exact I|lia]).
  rewrite (ends_quant fl input (RChar c) 0 (Some 1%N) true m q W Hm).
  rewrite in_app_iff, (lit_nil input ci m Hm). split.
  - intros (k & _ & Hk & R). destruct k as [|[|k]]; [|
      |cbn in Hk; lia].
    + cbn [reach] in R. subst q. right. left. reflexivity.
    + cbn [reach] in R. destruct R as (x & Hx & ->). left. apply lit_one; [exact Hm|exact Hx].
  - intros [H|[<-|[]]].
    + exists 1. split; [cbn; lia|]. split; [cbn; lia|]. cbn [reach]. exists q. split; [apply lit_one; [exact Hm|exact H]|reflexivity].
    + exists 0. split; [cbn; lia|]. split; [cbn; lia|]. reflexivity.
Qed.

Lemma map_rep {A B} (f : A -> B) x k : map f (repeat x k) = repeat (f x) k.
Proof. induction k as [|k IH]; [reflexivity|]. cbn [repeat map]. rewrite IH. reflexivity. Qed.

Lemma lit_app2 cs cs2 m q : m <= n ->
  (In q (lit input ci (cs ++ cs2) m) <-> exists k, In k (lit input ci cs m) /\ In q (lit input ci cs2 k)).
Proof.
  intros Hm. rewrite <- (SE_run' (cs ++ cs2) m q Hm). rewrite map_app.
  rewrite (SE_app input fl). rewrite (SE_in input fl). split.
  - intros (k & Hk & Hq). exists k. split; [apply (SE_run' cs m k Hm); exact Hk|].
    assert (k <= n) by (apply (SE_run' cs m k Hm) in Hk; apply lit_le in Hk; tauto).
    apply (SE_run' cs2 k q); auto.
  - intros (k & Hk & Hq). exists k. split; [apply (SE_run' cs m k Hm); exact Hk|].
    assert (k <= n) by (apply lit_le in Hk; tauto).
    apply (SE_run' cs2 k q); auto.
Qed.

(* c{n,} = c^n c*  (greedy and reluctant alike: the set of end positions is the same) *)
Lemma atl_step c ds rel m q : m <= n ->
  (In q (Dq input ci multi single c (QBr ds BrOpen) rel m)
   <-> exists k, In k (lit input ci (repeat c (N.to_nat (dec ds))) m) /\ In q (Dq input ci multi single c QStar rel k)).
Proof.
  intros Hm. unfold Dq. cbn [qmin qmaxo]. fold fl.
  set (k0 := N.to_nat (dec ds)). replace (dec ds) with (N.of_nat k0) by (subst k0; apply N2Nat.id).
  pose proof (law_at_least fl input (RChar c) k0 (negb rel) I m q Hm) as L. rewrite L.
  rewrite ends_seq, seq_reach_app.
  assert (Run : forall k, seq_reach fl input (repeat (RChar c) k0) m k <-> In k (lit input ci (repeat c k0) m)).
  { intros k. rewrite <- (SE_run' (repeat c k0) m k Hm), map_rep. symmetry. apply (ends_seq fl input). }
  cbn [seq_reach]. split.
  - intros (k & Hk & q' & Hq & ->). exists k. split; [apply Run; exact Hk|exact Hq].
  - intros (k & Hk & Hq). exists k. split; [apply Run; exact Hk|]. exists q. split; [exact Hq|reflexivity].
Qed.

Lemma wf_seq_all rs : Forall quant_wf rs -> quant_wf (RSeq rs).
Proof. induction 1 as [|x t Hx Ht IH]; [exact I|]. change (quant_wf x /\ quant_wf (RSeq t)). split; assumption. Qed.
Lemma wf_opts c g k : quant_wf (RSeq (repeat (RQuant (RChar c) 0 (Some 1%N) g) k)).
Proof.
  apply wf_seq_all. induction k as [|k IH]; cbn [repeat]; constructor; [|exact IH]. cbn [quant_wf]. split; [exact I|lia].
Qed.

(* a chain of d optional characters, then b *)
Lemma opts_D c rel d : forall b p q, p <= n ->
  (In q (Db input ci multi single (opts c rel d b) p)
   <-> exists k, seq_reach fl input (repeat (RQuant (RChar c) 0 (Some 1%N) (negb rel)) d) p k /\ In q (Db input ci multi single b k)).
Proof.
  induction d as [|d IH]; intros b p q Hp; cbn [opts repeat seq_reach].
  - split; [intros H; exists p; auto|intros (k & -> & H); exact H].
  - cbn [Db]. rewrite (lit_nil input ci p Hp). cbn [flat_map]. rewrite app_nil_r, in_flat_map. split.
    + intros (k & Hk & H). assert (k <= n) by (exact (Dq_le input ci multi single c QOpt rel p k eq_refl Hp Hk)).
      apply IH in H; [|assumption]. destruct H as (k2 & R & H). exists k2. split; [|exact H]. exists k. split; [exact Hk|exact R].
    + intros (k2 & (k & Hk & R) & H). exists k. split; [exact Hk|].
      assert (k <= n) by (exact (Dq_le input ci multi single c QOpt rel p k eq_refl Hp Hk)).
      apply IH; [assumption|]. exists k2. auto.
Qed.

(* c{n,m}, n < m *)
Lemma bnd_step c ds d2 rel m q : (dec ds < dec d2)%N -> m <= n ->
  (In q (Dq input ci multi single c (QBr ds (BrTo d2)) rel m)
   <-> exists k, In k (lit input ci (repeat c (N.to_nat (dec ds))) m)
                 /\ seq_reach fl input (repeat (RQuant (RChar c) 0 (Some 1%N) (negb rel)) (N.to_nat (dec d2 - dec ds))) k q).
Proof.
  intros Hlt Hm. unfold Dq. cbn [qmin qmaxo]. fold fl.
  set (k0 := N.to_nat (dec ds)). set (d := N.to_nat (dec d2 - dec ds)).
  replace (dec d2) with (N.of_nat (k0 + d)) by (subst k0 d; lia).
  replace (dec ds) with (N.of_nat k0) by (subst k0; apply N2Nat.id).
  pose proof (law_bounded fl input (RChar c) k0 d (negb rel) I m q Hm) as L. rewrite L.
  rewrite ends_seq, seq_reach_app.
  assert (Run : forall k, seq_reach fl input (repeat (RChar c) k0) m k <-> In k (lit input ci (repeat c k0) m)).
  { intros k. rewrite <- (SE_run' (repeat c k0) m k Hm), map_rep. symmetry. apply (ends_seq fl input). }
  split; intros (k & Hk & R); exists k; (split; [apply Run; exact Hk|exact R]).
Qed.

Lemma flat_map_eqv {A} (f g : A -> list nat) (l1 l2 : list A) q :
  (forall x, In x l1 <-> In x l2) -> (forall x, In x l1 -> (forall y, In y (f x) <-> In y (g x))) ->
  (In q (flat_map f l1) <-> In q (flat_map g l2)).
Proof.
  intros H1 H2. rewrite !in_flat_map. split; intros (x & Hx & Hq); exists x.
  - split; [apply H1; exact Hx|apply (H2 x Hx); exact Hq].
  - split; [apply H1; exact Hx|apply (H2 x (proj2 (H1 x) Hx)); exact Hq].
Qed.

Theorem plus_D xpath :
     (forall b, ok_b xpath b = true -> forall p q, p <= n -> (In q (Db input ci multi single (plus_b b) p) <-> In q (Db input ci multi single b p)))
  /\ (forall a, ok_a xpath a = true -> forall p q, p <= n -> (In q (Da input ci multi single (plus_a a) p) <-> In q (Da input ci multi single a p))).
Proof.
  apply branch_alt_ind.
  - intros cs _ p q Hp. reflexivity.
  - intros cs cap a IHa b IHb Hok p q Hp. cbn [ok_b] in Hok. apply andb_true_iff in Hok as [Hok Okb].
    apply andb_true_iff in Hok as [_ Oka]. cbn [plus_b Db].
    apply flat_map_eqv.
    + intros x. apply flat_map_eqv; [reflexivity|]. intros k Hk y. apply (IHa Oka). apply lit_le in Hk. tauto.
    + intros x Hx y. apply (IHb Okb). apply in_flat_map in Hx as (k & Hk & Hx). apply lit_le in Hk.
      eapply (proj2 (D_le input ci multi single xpath)); [apply (proj2 (plus_ok xpath)); exact Oka| |exact Hx]. tauto.
  - intros cs c k rel b IHb Hok p q Hp. cbn [ok_b] in Hok. apply andb_true_iff in Hok as [Hok Okb].
    apply andb_true_iff in Hok as [_ Hkq].
    assert (Same : forall k0, okq k0 = true -> In q (Db input ci multi single (BQ cs c k0 rel (plus_b b)) p) <-> In q (Db input ci multi single (BQ cs c k0 rel b) p)).
    { intros k0 Hk0q. cbn [Db]. apply flat_map_eqv; [reflexivity|]. intros x Hx y. apply (IHb Okb).
      apply in_flat_map in Hx as (k1 & Hk1 & Hx). apply lit_le in Hk1. eapply (Dq_le input ci multi single); [exact Hk0q| |exact Hx]. tauto. }
    destruct k; cbn [plus_b]; try (apply Same; exact Hkq).
    (* QPlus *)
    cbn [Db]. apply flat_map_eqv.
    + intros x. rewrite !in_flat_map. split.
      * intros (k1 & Hk1 & Hx). apply (lit_app cs c p k1 Hp) in Hk1. destruct Hk1 as (k0 & Hk0 & Hk1).
        exists k0. split; [exact Hk0|]. apply plus_step; [apply lit_le in Hk0; tauto|]. eauto.
      * intros (k0 & Hk0 & Hx). apply plus_step in Hx; [|apply lit_le in Hk0; tauto]. destruct Hx as (k1 & Hk1 & Hx).
        exists k1. split; [|exact Hx]. apply (lit_app cs c p k1 Hp). eauto.
    + intros x Hx y. apply (IHb Okb). apply in_flat_map in Hx as (k1 & Hk1 & Hx). apply lit_le in Hk1.
      eapply (Dq_le input ci multi single); [|  |exact Hx]; [reflexivity|]. tauto.
  - intros cs eol b IHb Hok p q Hp. cbn [ok_b] in Hok. apply andb_true_iff in Hok as [_ Okb].
    cbn [plus_b Db]. apply flat_map_eqv; [reflexivity|]. intros x Hx y. apply (IHb Okb).
    apply in_flat_map in Hx as (k1 & Hk1 & Hx). apply lit_le in Hk1. eapply (Dan_le input ci multi single); [|exact Hx]. tauto.
  - intros cs da q0 b IHb Hok p q Hp. cbn [ok_b] in Hok. apply andb_true_iff in Hok as [Hok Okb]. apply andb_true_iff in Hok as [_ Hkq].
    cbn [plus_b Db]. apply flat_map_eqv; [reflexivity|]. intros x Hx y. apply (IHb Okb).
    apply in_flat_map in Hx as (k1 & Hk1 & Hx). apply lit_le in Hk1. eapply (Dd_le input ci multi single xpath); [exact Hkq| |exact Hx]. tauto.
  - intros b IHb Hok p q Hp. exact (IHb Hok p q Hp).
  - intros b IHb a IHa Hok p q Hp. cbn [ok_a] in Hok. apply andb_true_iff in Hok as [Okb Oka].
    cbn [plus_a Da]. rewrite !in_app_iff, (IHb Okb p q Hp), (IHa Oka p q Hp). reflexivity.
Qed.

Theorem opt_D xpath :
     (forall b, ok_b xpath b = true -> forall p q, p <= n -> (In q (Db input ci multi single (opt_b b) p) <-> In q (Db input ci multi single b p)))
  /\ (forall a, ok_a xpath a = true -> forall p q, p <= n -> (In q (Da input ci multi single (opt_a a) p) <-> In q (Da input ci multi single a p))).
Proof.
  apply branch_alt_ind.
  - intros cs _ p q Hp. reflexivity.
  - intros cs cap a IHa b IHb Hok p q Hp. cbn [ok_b] in Hok. apply andb_true_iff in Hok as [Hok Okb].
    apply andb_true_iff in Hok as [_ Oka]. cbn [opt_b Db].
    apply flat_map_eqv.
    + intros x. apply flat_map_eqv; [reflexivity|]. intros k Hk y. apply (IHa Oka). apply lit_le in Hk. tauto.
    + intros x Hx y. apply (IHb Okb). apply in_flat_map in Hx as (k & Hk & Hx). apply lit_le in Hk.
      eapply (proj2 (D_le input ci multi single xpath)); [apply (proj2 (opt_ok xpath)); exact Oka| |exact Hx]. tauto.
  - intros cs c k rel b IHb Hok p q Hp. cbn [ok_b] in Hok. apply andb_true_iff in Hok as [Hok Okb].
    apply andb_true_iff in Hok as [_ Hkq].
    assert (Same : forall k0 r0, okq k0 = true -> In q (Db input ci multi single (BQ cs c k0 r0 (opt_b b)) p) <-> In q (Db input ci multi single (BQ cs c k0 r0 b) p)).
    { intros k0 r0 Hk0q. cbn [Db]. apply flat_map_eqv; [reflexivity|]. intros x Hx y. apply (IHb Okb).
      apply in_flat_map in Hx as (k1 & Hk1 & Hx). apply lit_le in Hk1. eapply (Dq_le input ci multi single); [exact Hk0q| |exact Hx]. tauto. }
    destruct k, rel; cbn [opt_b]; try (apply Same; exact Hkq).
    (* c? *)
    cbn [Db Da]. apply flat_map_eqv.
    + intros x. apply flat_map_eqv; [reflexivity|]. intros k0 Hk0 y. symmetry. apply opt_step. apply lit_le in Hk0. tauto.
    + intros x Hx y. apply (IHb Okb). apply in_flat_map in Hx as (k1 & Hk1 & Hx). apply lit_le in Hk1.
      assert (k1 <= n) by tauto. apply in_app_iff in Hx as [Hx|Hx]; apply lit_le in Hx; tauto.
  - intros cs eol b IHb Hok p q Hp. cbn [ok_b] in Hok. apply andb_true_iff in Hok as [_ Okb].
    cbn [opt_b Db]. apply flat_map_eqv; [reflexivity|]. intros x Hx y. apply (IHb Okb).
    apply in_flat_map in Hx as (k1 & Hk1 & Hx). apply lit_le in Hk1. eapply (Dan_le input ci multi single); [|exact Hx]. tauto.
  - intros cs da q0 b IHb Hok p q Hp. cbn [ok_b] in Hok. apply andb_true_iff in Hok as [Hok Okb]. apply andb_true_iff in Hok as [_ Hkq].
    cbn [opt_b Db]. apply flat_map_eqv; [reflexivity|]. intros x Hx y. apply (IHb Okb).
    apply in_flat_map in Hx as (k1 & Hk1 & Hx). apply lit_le in Hk1. eapply (Dd_le input ci multi single xpath); [exact Hkq| |exact Hx]. tauto.
  - intros b IHb Hok p q Hp. exact (IHb Hok p q Hp).
  - intros b IHb a IHa Hok p q Hp. cbn [ok_a] in Hok. apply andb_true_iff in Hok as [Okb Oka].
    cbn [opt_a Da]. rewrite !in_app_iff, (IHb Okb p q Hp), (IHa Oka p q Hp). reflexivity.
Qed.

Theorem atl_D xpath :
     (forall b, ok_b xpath b = true -> forall p q, p <= n -> (In q (Db input ci multi single (atl_b b) p) <-> In q (Db input ci multi single b p)))
  /\ (forall a, ok_a xpath a = true -> forall p q, p <= n -> (In q (Da input ci multi single (atl_a a) p) <-> In q (Da input ci multi single a p))).
Proof.
  apply branch_alt_ind.
  - intros cs _ p q Hp. reflexivity.
  - intros cs cap a IHa b IHb Hok p q Hp. cbn [ok_b] in Hok. apply andb_true_iff in Hok as [Hok Okb].
    apply andb_true_iff in Hok as [_ Oka]. cbn [atl_b Db].
    apply flat_map_eqv.
    + intros x. apply flat_map_eqv; [reflexivity|]. intros k Hk y. apply (IHa Oka). apply lit_le in Hk. tauto.
    + intros x Hx y. apply (IHb Okb). apply in_flat_map in Hx as (k & Hk & Hx). apply lit_le in Hk.
      eapply (proj2 (D_le input ci multi single xpath)); [apply (proj2 (atl_ok xpath)); exact Oka| |exact Hx]. tauto.
  - intros cs c k rel b IHb Hok p q Hp. cbn [ok_b] in Hok. apply andb_true_iff in Hok as [Hok Okb].
    apply andb_true_iff in Hok as [_ Hkq].
    assert (Same : forall k0, okq k0 = true -> In q (Db input ci multi single (BQ cs c k0 rel (atl_b b)) p) <-> In q (Db input ci multi single (BQ cs c k0 rel b) p)).
    { intros k0 Hk0q. cbn [Db]. apply flat_map_eqv; [reflexivity|]. intros x Hx y. apply (IHb Okb).
      apply in_flat_map in Hx as (k1 & Hk1 & Hx). apply lit_le in Hk1. eapply (Dq_le input ci multi single); [exact Hk0q| |exact Hx]. tauto. }
    destruct k as [| | |ds [| |d2]]; cbn [atl_b]; try (apply Same; exact Hkq).
    (* {n,} *)
    cbn [Db]. apply flat_map_eqv.
    + intros x. rewrite !in_flat_map. split.
      * intros (k1 & Hk1 & Hx). apply (lit_app2 cs _ p k1 Hp) in Hk1. destruct Hk1 as (k0 & Hk0 & Hk1).
        exists k0. split; [exact Hk0|]. apply atl_step; [apply lit_le in Hk0; tauto|]. eauto.
      * intros (k0 & Hk0 & Hx). apply atl_step in Hx; [|apply lit_le in Hk0; tauto]. destruct Hx as (k1 & Hk1 & Hx).
        exists k1. split; [|exact Hx]. apply (lit_app2 cs _ p k1 Hp). eauto.
    + intros x Hx y. apply (IHb Okb). apply in_flat_map in Hx as (k1 & Hk1 & Hx). apply lit_le in Hk1.
      eapply (Dq_le input ci multi single); [|  |exact Hx]; [reflexivity|]. tauto.
  - intros cs eol b IHb Hok p q Hp. cbn [ok_b] in Hok. apply andb_true_iff in Hok as [_ Okb].
    cbn [atl_b Db]. apply flat_map_eqv; [reflexivity|]. intros x Hx y. apply (IHb Okb).
    apply in_flat_map in Hx as (k1 & Hk1 & Hx). apply lit_le in Hk1. eapply (Dan_le input ci multi single); [|exact Hx]. tauto.
  - intros cs da q0 b IHb Hok p q Hp. cbn [ok_b] in Hok. apply andb_true_iff in Hok as [Hok Okb]. apply andb_true_iff in Hok as [_ Hkq].
    cbn [atl_b Db]. apply flat_map_eqv; [reflexivity|]. intros x Hx y. apply (IHb Okb).
    apply in_flat_map in Hx as (k1 & Hk1 & Hx). apply lit_le in Hk1. eapply (Dd_le input ci multi single xpath); [exact Hkq| |exact Hx]. tauto.
  - intros b IHb Hok p q Hp. exact (IHb Hok p q Hp).
  - intros b IHb a IHa Hok p q Hp. cbn [ok_a] in Hok. apply andb_true_iff in Hok as [Okb Oka].
    cbn [atl_a Da]. rewrite !in_app_iff, (IHb Okb p q Hp), (IHa Oka p q Hp). reflexivity.
Qed.

Theorem bnd_D xpath :
     (forall b, ok_b xpath b = true -> forall p q, p <= n -> (In q (Db input ci multi single (bnd_b b) p) <-> In q (Db input ci multi single b p)))
  /\ (forall a, ok_a xpath a = true -> forall p q, p <= n -> (In q (Da input ci multi single (bnd_a a) p) <-> In q (Da input ci multi single a p))).
Proof.
  apply branch_alt_ind.
  - intros cs _ p q Hp. reflexivity.
  - intros cs cap a IHa b IHb Hok p q Hp. cbn [ok_b] in Hok. apply andb_true_iff in Hok as [Hok Okb].
    apply andb_true_iff in Hok as [_ Oka]. cbn [bnd_b Db].
    apply flat_map_eqv.
    + intros x. apply flat_map_eqv; [reflexivity|]. intros k Hk y. apply (IHa Oka). apply lit_le in Hk. tauto.
    + intros x Hx y. apply (IHb Okb). apply in_flat_map in Hx as (k & Hk & Hx). apply lit_le in Hk.
      eapply (proj2 (D_le input ci multi single xpath)); [apply (proj2 (bnd_ok xpath)); exact Oka| |exact Hx]. tauto.
  - intros cs c k rel b IHb Hok p q Hp. cbn [ok_b] in Hok. apply andb_true_iff in Hok as [Hok Okb].
    apply andb_true_iff in Hok as [_ Hkq].
    assert (Same : forall k0, okq k0 = true -> In q (Db input ci multi single (BQ cs c k0 rel (bnd_b b)) p) <-> In q (Db input ci multi single (BQ cs c k0 rel b) p)).
    { intros k0 Hk0q. cbn [Db]. apply flat_map_eqv; [reflexivity|]. intros x Hx y. apply (IHb Okb).
      apply in_flat_map in Hx as (k1 & Hk1 & Hx). apply lit_le in Hk1. eapply (Dq_le input ci multi single); [exact Hk0q| |exact Hx]. tauto. }
    destruct k as [| | |ds [| |d2]]; cbn [bnd_b]; try (apply Same; exact Hkq).
    destruct (dec ds <? dec d2)%N eqn:Hlt; [|apply Same; exact Hkq]. apply N.ltb_lt in Hlt.
    (* {n,m}, n < m *)
    set (d := N.to_nat (dec d2 - dec ds)). assert (Hd : d = S (d - 1)) by (subst d; lia).
    cbn [Db]. rewrite !in_flat_map. split.
    + intros (k2 & Hk2 & H). apply in_flat_map in Hk2 as (k1 & Hk1 & Hk2).
      apply (lit_app2 cs _ p k1 Hp) in Hk1. destruct Hk1 as (k0 & Hk0 & Hk1).
      assert (L0 : k0 <= n) by (apply lit_le in Hk0; tauto). assert (L1 : k1 <= n) by (apply lit_le in Hk1; tauto).
      assert (L2 : k2 <= n) by (exact (Dq_le input ci multi single c QOpt rel k1 k2 eq_refl L1 Hk2)).
      apply opts_D in H; [|exact L2]. destruct H as (k3 & R & H).
      exists k3. split.
      * apply in_flat_map. exists k0. split; [exact Hk0|]. apply bnd_step; [exact Hlt|exact L0|].
        exists k1. split; [exact Hk1|]. fold d. rewrite Hd. cbn [repeat seq_reach]. exists k2. split; [exact Hk2|exact R].
      * apply (IHb Okb); [|exact H].
        assert (Wf : quant_wf (RSeq (repeat (RQuant (RChar c) 0 (Some 1%N) (negb rel)) (d - 1)))).
        { apply wf_opts. }
        eapply (ends_le fl input _ Wf k2 k3 L2). apply ends_seq. exact R.
    + intros (k3 & Hk3 & H). apply in_flat_map in Hk3 as (k0 & Hk0 & Hk3).
      assert (L0 : k0 <= n) by (apply lit_le in Hk0; tauto).
      apply bnd_step in Hk3; [|exact Hlt|exact L0]. destruct Hk3 as (k1 & Hk1 & R). fold d in R. rewrite Hd in R.
      cbn [repeat seq_reach] in R. destruct R as (k2 & Hk2 & R).
      assert (L1 : k1 <= n) by (apply lit_le in Hk1; tauto).
      assert (L2 : k2 <= n) by (exact (Dq_le input ci multi single c QOpt rel k1 k2 eq_refl L1 Hk2)).
      assert (L3 : k3 <= n).
      { assert (Wf : quant_wf (RSeq (repeat (RQuant (RChar c) 0 (Some 1%N) (negb rel)) (d - 1)))).
        { apply wf_opts. }
        eapply (ends_le fl input _ Wf k2 k3 L2). apply ends_seq. exact R. }
      exists k2. split.
      * apply in_flat_map. exists k1. split; [apply (lit_app2 cs _ p k1 Hp); eauto|exact Hk2].
      * apply opts_D; [exact L2|]. exists k3. split; [exact R|]. apply (IHb Okb); [exact L3|exact H].
  - intros cs eol b IHb Hok p q Hp. cbn [ok_b] in Hok. apply andb_true_iff in Hok as [_ Okb].
    cbn [bnd_b Db]. apply flat_map_eqv; [reflexivity|]. intros x Hx y. apply (IHb Okb).
    apply in_flat_map in Hx as (k1 & Hk1 & Hx). apply lit_le in Hk1. eapply (Dan_le input ci multi single); [|exact Hx]. tauto.
  - intros cs da q0 b IHb Hok p q Hp. cbn [ok_b] in Hok. apply andb_true_iff in Hok as [Hok Okb]. apply andb_true_iff in Hok as [_ Hkq].
    cbn [bnd_b Db]. apply flat_map_eqv; [reflexivity|]. intros x Hx y. apply (IHb Okb).
    apply in_flat_map in Hx as (k1 & Hk1 & Hx). apply lit_le in Hk1. eapply (Dd_le input ci multi single xpath); [exact Hkq| |exact Hx]. tauto.
  - intros b IHb Hok p q Hp. exact (IHb Hok p q Hp).
  - intros b IHb a IHa Hok p q Hp. cbn [ok_a] in Hok. apply andb_true_iff in Hok as [Okb Oka].
    cbn [bnd_a Da]. rewrite !in_app_iff, (IHb Okb p q Hp), (IHa Oka p q Hp). reflexivity.
Qed.

Theorem dup_D xpath :
     (forall b, ok_b xpath b = true -> forall p q, p <= n -> (In q (Db input ci multi single (dup_b b) p) <-> In q (Db input ci multi single b p)))
  /\ (forall a, ok_a xpath a = true -> forall p q, p <= n -> (In q (Da input ci multi single (dup_a a) p) <-> In q (Da input ci multi single a p))).
Proof.
  apply branch_alt_ind.
  - intros cs _ p q Hp. reflexivity.
  - intros cs cap a IHa b IHb Hok p q Hp. cbn [ok_b] in Hok. apply andb_true_iff in Hok as [Hok Okb].
    apply andb_true_iff in Hok as [_ Oka]. cbn [dup_b Db].
    apply flat_map_eqv.
    + intros x. apply flat_map_eqv; [reflexivity|]. intros k Hk y. apply (IHa Oka). apply lit_le in Hk. tauto.
    + intros x Hx y. apply (IHb Okb). apply in_flat_map in Hx as (k & Hk & Hx). apply lit_le in Hk.
      eapply (proj2 (D_le input ci multi single xpath)); [apply (proj2 (dup_ok xpath)); exact Oka| |exact Hx]. tauto.
  - intros cs c k rel b IHb Hok p q Hp. cbn [ok_b] in Hok. apply andb_true_iff in Hok as [Hok Okb].
    apply andb_true_iff in Hok as [_ Hkq]. cbn [dup_b Db]. apply flat_map_eqv; [reflexivity|]. intros x Hx y. apply (IHb Okb).
    apply in_flat_map in Hx as (k1 & Hk1 & Hx). apply lit_le in Hk1. eapply (Dq_le input ci multi single); [exact Hkq| |exact Hx]. tauto.
  - intros cs eol b IHb Hok p q Hp. cbn [ok_b] in Hok. apply andb_true_iff in Hok as [_ Okb].
    cbn [dup_b Db]. apply flat_map_eqv; [reflexivity|]. intros x Hx y. apply (IHb Okb).
    apply in_flat_map in Hx as (k1 & Hk1 & Hx). apply lit_le in Hk1. eapply (Dan_le input ci multi single); [|exact Hx]. tauto.
  - intros cs da q0 b IHb Hok p q Hp. cbn [ok_b] in Hok. apply andb_true_iff in Hok as [Hok Okb]. apply andb_true_iff in Hok as [_ Hkq].
    cbn [dup_b Db]. apply flat_map_eqv; [reflexivity|]. intros x Hx y. apply (IHb Okb).
    apply in_flat_map in Hx as (k1 & Hk1 & Hx). apply lit_le in Hk1. eapply (Dd_le input ci multi single xpath); [exact Hkq| |exact Hx]. tauto.
  - intros b IHb Hok p q Hp. cbn [dup_a Da]. rewrite in_app_iff, (IHb Hok p q Hp). tauto.
  - intros b IHb a IHa Hok p q Hp. cbn [ok_a] in Hok. apply andb_true_iff in Hok as [Okb Oka].
    cbn [dup_a Da]. rewrite !in_app_iff, (IHb Okb p q Hp), (IHa Oka p q Hp). reflexivity.
Qed.

Theorem uncap_D :
     (forall b, ok_b true b = true -> forall p q, p <= n -> (In q (Db input ci multi single (uncap_b b) p) <-> In q (Db input ci multi single b p)))
  /\ (forall a, ok_a true a = true -> forall p q, p <= n -> (In q (Da input ci multi single (uncap_a a) p) <-> In q (Da input ci multi single a p))).
Proof.
  apply branch_alt_ind.
  - intros cs _ p q Hp. reflexivity.
  - intros cs cap a IHa b IHb Hok p q Hp. cbn [ok_b] in Hok. apply andb_true_iff in Hok as [Hok Okb].
    apply andb_true_iff in Hok as [_ Oka]. cbn [uncap_b Db].
    apply flat_map_eqv.
    + intros x. apply flat_map_eqv; [reflexivity|]. intros k Hk y. apply (IHa Oka). apply lit_le in Hk. tauto.
    + intros x Hx y. apply (IHb Okb). apply in_flat_map in Hx as (k & Hk & Hx). apply lit_le in Hk.
      eapply (proj2 (D_le input ci multi single true)); [apply (proj2 uncap_ok); exact Oka| |exact Hx]. tauto.
  - intros cs c k rel b IHb Hok p q Hp. cbn [ok_b] in Hok. apply andb_true_iff in Hok as [Hok Okb].
    apply andb_true_iff in Hok as [_ Hkq]. cbn [uncap_b Db]. apply flat_map_eqv; [reflexivity|]. intros x Hx y. apply (IHb Okb).
    apply in_flat_map in Hx as (k1 & Hk1 & Hx). apply lit_le in Hk1. eapply (Dq_le input ci multi single); [exact Hkq| |exact Hx]. tauto.
  - intros cs eol b IHb Hok p q Hp. cbn [ok_b] in Hok. apply andb_true_iff in Hok as [_ Okb].
    cbn [uncap_b Db]. apply flat_map_eqv; [reflexivity|]. intros x Hx y. apply (IHb Okb).
    apply in_flat_map in Hx as (k1 & Hk1 & Hx). apply lit_le in Hk1. eapply (Dan_le input ci multi single); [|exact Hx]. tauto.
  - intros cs da q0 b IHb Hok p q Hp. cbn [ok_b] in Hok. apply andb_true_iff in Hok as [Hok Okb]. apply andb_true_iff in Hok as [_ Hkq].
    cbn [uncap_b Db]. apply flat_map_eqv; [reflexivity|]. intros x Hx y. apply (IHb Okb).
    apply in_flat_map in Hx as (k1 & Hk1 & Hx). apply lit_le in Hk1. eapply (Dd_le input ci multi single true); [exact Hkq| |exact Hx]. tauto.
  - intros b IHb Hok p q Hp. exact (IHb Hok p q Hp).
  - intros b IHb a IHa Hok p q Hp. cbn [ok_a] in Hok. apply andb_true_iff in Hok as [Okb Oka].
    cbn [uncap_a Da]. rewrite !in_app_iff, (IHb Okb p q Hp), (IHa Oka p q Hp). reflexivity.
Qed.

(* a quantified character alone in a non-capturing group is that quantified character *)
Lemma wrap_step c k rel m q : okq k = true -> m <= n ->
  (In q (Da input ci multi single (AOne (BQ [] c k rel (BEnd []))) m) <-> In q (Dq input ci multi single c k rel m)).
Proof.
  intros Hk Hm. cbn [Da Db]. rewrite (lit_nil input ci m Hm). cbn [flat_map]. rewrite app_nil_r, in_flat_map. split.
  - intros (x & Hx & Hq). rewrite lit_nil in Hq by (eapply (Dq_le input ci multi single); eauto). destruct Hq as [<-|[]]. exact Hx.
  - intros H. exists q. split; [exact H|]. rewrite lit_nil by (eapply (Dq_le input ci multi single); eauto). left. reflexivity.
Qed.

Theorem wrap_D :
     (forall b, ok_b true b = true -> forall p q, p <= n -> (In q (Db input ci multi single (wrap_b b) p) <-> In q (Db input ci multi single b p)))
  /\ (forall a, ok_a true a = true -> forall p q, p <= n -> (In q (Da input ci multi single (wrap_a a) p) <-> In q (Da input ci multi single a p))).
Proof.
  apply branch_alt_ind.
  - intros cs _ p q Hp. reflexivity.
  - intros cs cap a IHa b IHb Hok p q Hp. cbn [ok_b] in Hok. apply andb_true_iff in Hok as [Hok Okb].
    apply andb_true_iff in Hok as [_ Oka]. cbn [wrap_b Db].
    apply flat_map_eqv.
    + intros x. apply flat_map_eqv; [reflexivity|]. intros k Hk y. apply (IHa Oka). apply lit_le in Hk. tauto.
    + intros x Hx y. apply (IHb Okb). apply in_flat_map in Hx as (k & Hk & Hx). apply lit_le in Hk.
      eapply (proj2 (D_le input ci multi single true)); [apply (proj2 wrap_ok); exact Oka| |exact Hx]. tauto.
  - intros cs c k rel b IHb Hok p q Hp. cbn [ok_b] in Hok. apply andb_true_iff in Hok as [Hok Okb].
    apply andb_true_iff in Hok as [_ Hkq]. cbn [wrap_b]. cbn [Db].
    apply flat_map_eqv.
    + intros x. apply flat_map_eqv; [reflexivity|]. intros k0 Hk0 y. apply wrap_step; [exact Hkq|]. apply lit_le in Hk0. tauto.
    + intros x Hx y. apply (IHb Okb). apply in_flat_map in Hx as (k1 & Hk1 & Hx). apply lit_le in Hk1.
      apply wrap_step in Hx; [|exact Hkq|tauto]. eapply (Dq_le input ci multi single); [exact Hkq| |exact Hx]. tauto.
  - intros cs eol b IHb Hok p q Hp. cbn [ok_b] in Hok. apply andb_true_iff in Hok as [_ Okb].
    cbn [wrap_b Db]. apply flat_map_eqv; [reflexivity|]. intros x Hx y. apply (IHb Okb).
    apply in_flat_map in Hx as (k1 & Hk1 & Hx). apply lit_le in Hk1. eapply (Dan_le input ci multi single); [|exact Hx]. tauto.
  - intros cs da q0 b IHb Hok p q Hp. cbn [ok_b] in Hok. apply andb_true_iff in Hok as [Hok Okb]. apply andb_true_iff in Hok as [_ Hkq].
    cbn [wrap_b Db]. apply flat_map_eqv; [reflexivity|]. intros x Hx y. apply (IHb Okb).
    apply in_flat_map in Hx as (k1 & Hk1 & Hx). apply lit_le in Hk1. eapply (Dd_le input ci multi single true); [exact Hkq| |exact Hx]. tauto.
  - intros b IHb Hok p q Hp. exact (IHb Hok p q Hp).
  - intros b IHb a IHa Hok p q Hp. cbn [ok_a] in Hok. apply andb_true_iff in Hok as [Okb Oka].
    cbn [wrap_a Da]. rewrite !in_app_iff, (IHb Okb p q Hp), (IHa Oka p q Hp). reflexivity.
Qed.

(* a run put in front of a branch *)
Lemma pre_D cs0 b p q : p <= n ->
  (In q (Db input ci multi single (pre_b cs0 b) p) <-> exists k, In k (lit input ci cs0 p) /\ In q (Db input ci multi single b k)).
Proof.
  intros Hp.
  assert (G : forall (F : nat -> list nat) cs,
            In q (flat_map F (lit input ci (cs0 ++ cs) p)) <-> exists k, In k (lit input ci cs0 p) /\ In q (flat_map F (lit input ci cs k))).
  { intros F cs. rewrite in_flat_map. split.
    - intros (x & Hx & Hq). apply (lit_app2 cs0 cs p x Hp) in Hx. destruct Hx as (k & Hk & Hx).
      exists k. split; [exact Hk|]. apply in_flat_map. eauto.
    - intros (k & Hk & Hq). apply in_flat_map in Hq as (x & Hx & Hq). exists x. split; [|exact Hq].
      apply (lit_app2 cs0 cs p x Hp). eauto. }
  destruct b as [cs|cs cap a b'|cs c k rel b'|cs eol b'|cs da q0 b']; cbn [pre_b Db].
  - split.
    + intros H. apply (lit_app2 cs0 cs p q Hp) in H. exact H.
    + intros H. apply (lit_app2 cs0 cs p q Hp). exact H.
  - rewrite flat_map_assoc, G. split; intros (k & Hk & H); exists k; (split; [exact Hk|]); [rewrite flat_map_assoc|rewrite <- flat_map_assoc]; exact H.
  - rewrite flat_map_assoc, G. split; intros (k0 & Hk & H); exists k0; (split; [exact Hk|]); [rewrite flat_map_assoc|rewrite <- flat_map_assoc]; exact H.
  - rewrite flat_map_assoc, G. split; intros (k & Hk & H); exists k; (split; [exact Hk|]); [rewrite flat_map_assoc|rewrite <- flat_map_assoc]; exact H.
  - rewrite flat_map_assoc, G. split; intros (k & Hk & H); exists k; (split; [exact Hk|]); [rewrite flat_map_assoc|rewrite <- flat_map_assoc]; exact H.
Qed.

(* c{n} = c^n *)
Lemma exa_step c ds rel m q : m <= n ->
  (In q (Dq input ci multi single c (QBr ds BrExact) rel m) <-> In q (lit input ci (repeat c (N.to_nat (dec ds))) m)).
Proof.
  intros Hm. unfold Dq. cbn [qmin qmaxo]. fold fl.
  set (k0 := N.to_nat (dec ds)).
  replace (Some (dec ds)) with (Some (N.of_nat (k0 + 0))) by (f_equal; subst k0; lia).
  replace (dec ds) with (N.of_nat k0) by (subst k0; apply N2Nat.id).
  pose proof (law_bounded fl input (RChar c) k0 0 (negb rel) I m q Hm) as L. rewrite L.
  cbn [repeat]. rewrite app_nil_r.
  rewrite <- (SE_run' (repeat c k0) m q Hm), map_rep. reflexivity.
Qed.

Theorem exa_D xpath :
     (forall b, ok_b xpath b = true -> forall p q, p <= n -> (In q (Db input ci multi single (exa_b b) p) <-> In q (Db input ci multi single b p)))
  /\ (forall a, ok_a xpath a = true -> forall p q, p <= n -> (In q (Da input ci multi single (exa_a a) p) <-> In q (Da input ci multi single a p))).
Proof.
  apply branch_alt_ind.
  - intros cs _ p q Hp. reflexivity.
  - intros cs cap a IHa b IHb Hok p q Hp. cbn [ok_b] in Hok. apply andb_true_iff in Hok as [Hok Okb].
    apply andb_true_iff in Hok as [_ Oka]. cbn [exa_b Db].
    apply flat_map_eqv.
    + intros x. apply flat_map_eqv; [reflexivity|]. intros k Hk y. apply (IHa Oka). apply lit_le in Hk. tauto.
    + intros x Hx y. apply (IHb Okb). apply in_flat_map in Hx as (k & Hk & Hx). apply lit_le in Hk.
      eapply (proj2 (D_le input ci multi single xpath)); [apply (proj2 (exa_ok xpath)); exact Oka| |exact Hx]. tauto.
  - intros cs c k rel b IHb Hok p q Hp. cbn [ok_b] in Hok. apply andb_true_iff in Hok as [Hok Okb].
    apply andb_true_iff in Hok as [_ Hkq].
    assert (Same : forall k0, okq k0 = true -> In q (Db input ci multi single (BQ cs c k0 rel (exa_b b)) p) <-> In q (Db input ci multi single (BQ cs c k0 rel b) p)).
    { intros k0 Hk0q. cbn [Db]. apply flat_map_eqv; [reflexivity|]. intros x Hx y. apply (IHb Okb).
      apply in_flat_map in Hx as (k1 & Hk1 & Hx). apply lit_le in Hk1. eapply (Dq_le input ci multi single); [exact Hk0q| |exact Hx]. tauto. }
    destruct k as [| | |ds [| |d2]]; cbn [exa_b]; try (apply Same; exact Hkq).
    (* {n} *)
    rewrite (pre_D _ _ p q Hp). cbn [Db]. rewrite in_flat_map. split.
    + intros (k2 & Hk2 & H). apply (lit_app2 cs _ p k2 Hp) in Hk2. destruct Hk2 as (k0 & Hk0 & Hk2).
      assert (L0 : k0 <= n) by (apply lit_le in Hk0; tauto). assert (L2 : k2 <= n) by (apply lit_le in Hk2; tauto).
      exists k2. split; [|apply (IHb Okb); assumption].
      apply in_flat_map. exists k0. split; [exact Hk0|]. apply exa_step; assumption.
    + intros (k2 & Hk2 & H). apply in_flat_map in Hk2 as (k0 & Hk0 & Hk2).
      assert (L0 : k0 <= n) by (apply lit_le in Hk0; tauto).
      apply exa_step in Hk2; [|exact L0]. assert (L2 : k2 <= n) by (apply lit_le in Hk2; tauto).
      exists k2. split; [apply (lit_app2 cs _ p k2 Hp); eauto|apply (IHb Okb); assumption].
  - intros cs eol b IHb Hok p q Hp. cbn [ok_b] in Hok. apply andb_true_iff in Hok as [_ Okb].
    cbn [exa_b Db]. apply flat_map_eqv; [reflexivity|]. intros x Hx y. apply (IHb Okb).
    apply in_flat_map in Hx as (k1 & Hk1 & Hx). apply lit_le in Hk1. eapply (Dan_le input ci multi single); [|exact Hx]. tauto.
  - intros cs da q0 b IHb Hok p q Hp. cbn [ok_b] in Hok. apply andb_true_iff in Hok as [Hok Okb]. apply andb_true_iff in Hok as [_ Hkq].
    cbn [exa_b Db]. apply flat_map_eqv; [reflexivity|]. intros x Hx y. apply (IHb Okb).
    apply in_flat_map in Hx as (k1 & Hk1 & Hx). apply lit_le in Hk1. eapply (Dd_le input ci multi single xpath); [exact Hkq| |exact Hx]. tauto.
  - intros b IHb Hok p q Hp. exact (IHb Hok p q Hp).
  - intros b IHb a IHa Hok p q Hp. cbn [ok_a] in Hok. apply andb_true_iff in Hok as [Okb Oka].
    cbn [exa_a Da]. rewrite !in_app_iff, (IHb Okb p q Hp), (IHa Oka p q Hp). reflexivity.
Qed.

(* a branch followed by a branch *)
Lemma app_D xpath t : forall b1, ok_b xpath b1 = true -> forall p q, p <= n ->
  (In q (Db input ci multi single (app_b b1 t) p) <-> exists k, In k (Db input ci multi single b1 p) /\ In q (Db input ci multi single t k)).
Proof.
  apply (branch_mind (fun b1 => ok_b xpath b1 = true -> forall p q, p <= n ->
           (In q (Db input ci multi single (app_b b1 t) p) <-> exists k, In k (Db input ci multi single b1 p) /\ In q (Db input ci multi single t k)))
         (fun _ => True)); auto.
  - intros cs _ p q Hp. cbn [app_b Db]. apply pre_D. exact Hp.
  - intros cs cap a _ b IHb Hok p q Hp. cbn [ok_b] in Hok. apply andb_true_iff in Hok as [Hok Okb].
    apply andb_true_iff in Hok as [_ Oka]. cbn [app_b Db]. rewrite in_flat_map. split.
    + intros (x & Hx & H). assert (Lx : x <= n).
      { apply in_flat_map in Hx as (k & Hk & Hx). apply lit_le in Hk. eapply (proj2 (D_le input ci multi single xpath)); [exact Oka| |exact Hx]. tauto. }
      apply (IHb Okb x q Lx) in H. destruct H as (k & Hk & H). exists k. split; [|exact H]. apply in_flat_map. eauto.
    + intros (k & Hk & H). apply in_flat_map in Hk as (x & Hx & Hk). exists x. split; [exact Hx|].
      assert (Lx : x <= n).
      { apply in_flat_map in Hx as (k0 & Hk0 & Hx). apply lit_le in Hk0. eapply (proj2 (D_le input ci multi single xpath)); [exact Oka| |exact Hx]. tauto. }
      apply (IHb Okb x q Lx). eauto.
  - intros cs c k rel b IHb Hok p q Hp. cbn [ok_b] in Hok. apply andb_true_iff in Hok as [Hok Okb].
    apply andb_true_iff in Hok as [_ Hkq]. cbn [app_b Db]. rewrite in_flat_map. split.
    + intros (x & Hx & H). assert (Lx : x <= n).
      { apply in_flat_map in Hx as (k0 & Hk0 & Hx). apply lit_le in Hk0. eapply (Dq_le input ci multi single); [exact Hkq| |exact Hx]. tauto. }
      apply (IHb Okb x q Lx) in H. destruct H as (k0 & Hk0 & H). exists k0. split; [|exact H]. apply in_flat_map. eauto.
    + intros (k0 & Hk0 & H). apply in_flat_map in Hk0 as (x & Hx & Hk0). exists x. split; [exact Hx|].
      assert (Lx : x <= n).
      { apply in_flat_map in Hx as (k1 & Hk1 & Hx). apply lit_le in Hk1. eapply (Dq_le input ci multi single); [exact Hkq| |exact Hx]. tauto. }
      apply (IHb Okb x q Lx). eauto.
  - intros cs eol b IHb Hok p q Hp. cbn [ok_b] in Hok. apply andb_true_iff in Hok as [_ Okb].
    cbn [app_b Db]. rewrite in_flat_map. split.
    + intros (x & Hx & H). assert (Lx : x <= n).
      { apply in_flat_map in Hx as (k0 & Hk0 & Hx). apply lit_le in Hk0. eapply (Dan_le input ci multi single); [|exact Hx]. tauto. }
      apply (IHb Okb x q Lx) in H. destruct H as (k0 & Hk0 & H). exists k0. split; [|exact H]. apply in_flat_map. eauto.
    + intros (k0 & Hk0 & H). apply in_flat_map in Hk0 as (x & Hx & Hk0). exists x. split; [exact Hx|].
      assert (Lx : x <= n).
      { apply in_flat_map in Hx as (k1 & Hk1 & Hx). apply lit_le in Hk1. eapply (Dan_le input ci multi single); [|exact Hx]. tauto. }
      apply (IHb Okb x q Lx). eauto.
  - intros cs da q0 b IHb Hok p q Hp. cbn [ok_b] in Hok. apply andb_true_iff in Hok as [Hok Okb].
    apply andb_true_iff in Hok as [_ Hkq]. cbn [app_b Db]. rewrite in_flat_map. split.
    + intros (x & Hx & H). assert (Lx : x <= n).
      { apply in_flat_map in Hx as (k0 & Hk0 & Hx). apply lit_le in Hk0. eapply (Dd_le input ci multi single xpath); [exact Hkq| |exact Hx]. tauto. }
      apply (IHb Okb x q Lx) in H. destruct H as (k0 & Hk0 & H). exists k0. split; [|exact H]. apply in_flat_map. eauto.
    + intros (k0 & Hk0 & H). apply in_flat_map in Hk0 as (x & Hx & Hk0). exists x. split; [exact Hx|].
      assert (Lx : x <= n).
      { apply in_flat_map in Hx as (k1 & Hk1 & Hx). apply lit_le in Hk1. eapply (Dd_le input ci multi single xpath); [exact Hkq| |exact Hx]. tauto. }
      apply (IHb Okb x q Lx). eauto.
Qed.

(* the two alternatives of a distributed group *)
Lemma dist_step xpath b b1 b2 t p q : split_b b = Some (b1, b2, t) -> ok_b xpath b = true -> p <= n ->
  (In q (Db input ci multi single (app_b b1 t) p ++ Db input ci multi single (app_b b2 t) p) <-> In q (Db input ci multi single b p)).
Proof.
  intros Hs Hok Hp. destruct (split_ok xpath b b1 b2 t Hs Hok) as (H1 & H2 & Ht).
  rewrite (split_some _ _ _ _ Hs). cbn [Db Da]. rewrite (lit_nil input ci p Hp). cbn [flat_map]. rewrite app_nil_r.
  rewrite in_app_iff, (app_D xpath t b1 H1 p q Hp), (app_D xpath t b2 H2 p q Hp), in_flat_map. split.
  - intros [(k & Hk & H)|(k & Hk & H)]; exists k; (split; [apply in_app_iff; auto|exact H]).
  - intros (k & Hk & H). apply in_app_iff in Hk as [Hk|Hk]; [left|right]; eauto.
Qed.

Theorem dist_D xpath :
     (forall b, ok_b xpath b = true -> forall p q, p <= n -> (In q (Db input ci multi single (dist_b b) p) <-> In q (Db input ci multi single b p)))
  /\ (forall a, ok_a xpath a = true -> forall p q, p <= n -> (In q (Da input ci multi single (dist_a a) p) <-> In q (Da input ci multi single a p))).
Proof.
  apply branch_alt_ind.
  - intros cs _ p q Hp. reflexivity.
  - intros cs cap a IHa b IHb Hok p q Hp. cbn [ok_b] in Hok. apply andb_true_iff in Hok as [Hok Okb].
    apply andb_true_iff in Hok as [_ Oka]. cbn [dist_b Db].
    apply flat_map_eqv.
    + intros x. apply flat_map_eqv; [reflexivity|]. intros k Hk y. apply (IHa Oka). apply lit_le in Hk. tauto.
    + intros x Hx y. apply (IHb Okb). apply in_flat_map in Hx as (k & Hk & Hx). apply lit_le in Hk.
      eapply (proj2 (D_le input ci multi single xpath)); [apply (proj2 (dist_ok xpath)); exact Oka| |exact Hx]. tauto.
  - intros cs c k rel b IHb Hok p q Hp. cbn [ok_b] in Hok. apply andb_true_iff in Hok as [Hok Okb].
    apply andb_true_iff in Hok as [_ Hkq]. cbn [dist_b Db]. apply flat_map_eqv; [reflexivity|]. intros x Hx y. apply (IHb Okb).
    apply in_flat_map in Hx as (k1 & Hk1 & Hx). apply lit_le in Hk1. eapply (Dq_le input ci multi single); [exact Hkq| |exact Hx]. tauto.
  - intros cs eol b IHb Hok p q Hp. cbn [ok_b] in Hok. apply andb_true_iff in Hok as [_ Okb].
    cbn [dist_b Db]. apply flat_map_eqv; [reflexivity|]. intros x Hx y. apply (IHb Okb).
    apply in_flat_map in Hx as (k1 & Hk1 & Hx). apply lit_le in Hk1. eapply (Dan_le input ci multi single); [|exact Hx]. tauto.
  - intros cs da q0 b IHb Hok p q Hp. cbn [ok_b] in Hok. apply andb_true_iff in Hok as [Hok Okb]. apply andb_true_iff in Hok as [_ Hkq].
    cbn [dist_b Db]. apply flat_map_eqv; [reflexivity|]. intros x Hx y. apply (IHb Okb).
    apply in_flat_map in Hx as (k1 & Hk1 & Hx). apply lit_le in Hk1. eapply (Dd_le input ci multi single xpath); [exact Hkq| |exact Hx]. tauto.
  - intros b IHb Hok p q Hp. rewrite dist_one. cbn [ok_a] in Hok.
    destruct (split_b b) as [[[b1 b2] t]|] eqn:Es; [|exact (IHb Hok p q Hp)].
    cbn [Da]. apply (dist_step xpath b b1 b2 t p q Es Hok Hp).
  - intros b IHb a IHa Hok p q Hp. rewrite dist_cons. cbn [ok_a] in Hok. apply andb_true_iff in Hok as [Okb Oka].
    destruct (split_b b) as [[[b1 b2] t]|] eqn:Es.
    + cbn [Da]. rewrite app_assoc, in_app_iff, (dist_step xpath b b1 b2 t p q Es Okb Hp), (IHa Oka p q Hp), in_app_iff. reflexivity.
    + cbn [Da]. rewrite !in_app_iff, (IHb Okb p q Hp), (IHa Oka p q Hp). reflexivity.
Qed.

Lemma Dmatch_eqv a1 a2 :
  (forall p q, p <= n -> (In q (Da input ci multi single a1 p) <-> In q (Da input ci multi single a2 p))) ->
  Dmatch input ci multi single a1 = Dmatch input ci multi single a2.
Proof.
  intros H. unfold Dmatch. fold n.
  assert (G : forall l, (forall m, In m l -> m <= n) ->
            existsb (fun m => match Da input ci multi single a1 m with [] => false | _ => true end) l
            = existsb (fun m => match Da input ci multi single a2 m with [] => false | _ => true end) l).
  { induction l as [|m t IH]; intros Hl; [reflexivity|]. cbn [existsb]. rewrite IH by (intros; apply Hl; right; auto).
    f_equal. specialize (H m). assert (Hm : m <= n) by (apply Hl; left; reflexivity).
    destruct (Da input ci multi single a1 m) as [|x1 t1] eqn:E1; destruct (Da input ci multi single a2 m) as [|x2 t2] eqn:E2; auto.
    - exfalso. apply (proj2 (H x2 Hm)). left. reflexivity.
    - exfalso. apply (proj1 (H x1 Hm)). left. reflexivity. }
  apply G. intros m Hm. apply in_seq in Hm. lia.
Qed.
End Laws.

(* ---------------------------------------------------------------- from the pattern text *)
Section E2E.
Variable rw : alt -> alt.
Hypothesis rw_ok : forall xpath a, ok_a xpath a = true -> ok_a xpath (rw a) = true.
Hypothesis rw_D : forall xpath input ci multi single a, ok_a xpath a = true -> forall p q, p <= length input ->
  (In q (Da input ci multi single (rw a) p) <-> In q (Da input ci multi single a p)).

Theorem rewrite_same_verdict fl a input :
  ok_a (f_xpath fl) a = true -> f_literal fl = false -> f_ws fl = false -> (N.of_nat (length input) < umax)%N -> valid_in input ->
  exists prog prog', compile true fl (show_a a) = Ok prog /\ compile true fl (show_a (rw a)) = Ok prog'
    /\ match matches prog input 0 st0, matches prog' input 0 st0 with
       | MTrue _, MTrue _ | MFalse _, MFalse _ => True
       | _, _ => False
       end.
Proof.
  intros Hok Hq Hw Hfit Hval.
  destruct (compile_grammar_D fl a input Hok Hq Hw Hfit Hval) as (prog & E & M).
  destruct (compile_grammar_D fl (rw a) input (rw_ok _ _ Hok) Hq Hw Hfit Hval) as (prog' & E' & M').
  exists prog, prog'. split; [exact E|]. split; [exact E'|].
  rewrite (Dmatch_eqv input (f_case fl) (f_multi fl) (f_single fl) (rw a) a (rw_D (f_xpath fl) input (f_case fl) (f_multi fl) (f_single fl) a Hok)) in M'.
  destruct (matches prog input 0 st0); destruct (matches prog' input 0 st0); try contradiction; auto; congruence.
Qed.
End E2E.

Theorem plus_law_end_to_end fl a input :
  ok_a (f_xpath fl) a = true -> f_literal fl = false -> f_ws fl = false -> (N.of_nat (length input) < umax)%N -> valid_in input ->
  exists prog prog', compile true fl (show_a a) = Ok prog /\ compile true fl (show_a (plus_a a)) = Ok prog'
    /\ match matches prog input 0 st0, matches prog' input 0 st0 with
       | MTrue _, MTrue _ | MFalse _, MFalse _ => True
       | _, _ => False
       end.
Proof.
  apply (rewrite_same_verdict plus_a).
  - intros xpath a0. apply (proj2 (plus_ok xpath)).
  - intros xpath input0 ci multi single a0. apply (proj2 (plus_D input0 ci multi single xpath)).
Qed.

Theorem opt_law_end_to_end fl a input :
  ok_a (f_xpath fl) a = true -> f_literal fl = false -> f_ws fl = false -> (N.of_nat (length input) < umax)%N -> valid_in input ->
  exists prog prog', compile true fl (show_a a) = Ok prog /\ compile true fl (show_a (opt_a a)) = Ok prog'
    /\ match matches prog input 0 st0, matches prog' input 0 st0 with
       | MTrue _, MTrue _ | MFalse _, MFalse _ => True
       | _, _ => False
       end.
Proof.
  apply (rewrite_same_verdict opt_a).
  - intros xpath a0. apply (proj2 (opt_ok xpath)).
  - intros xpath input0 ci multi single a0. apply (proj2 (opt_D input0 ci multi single xpath)).
Qed.

(* c{n,} and c...cc* (n copies, then a star), from the pattern text, with the counts as written in decimal *)
Theorem at_least_law_end_to_end fl a input :
  ok_a (f_xpath fl) a = true -> f_literal fl = false -> f_ws fl = false -> (N.of_nat (length input) < umax)%N -> valid_in input ->
  exists prog prog', compile true fl (show_a a) = Ok prog /\ compile true fl (show_a (atl_a a)) = Ok prog'
    /\ match matches prog input 0 st0, matches prog' input 0 st0 with
       | MTrue _, MTrue _ | MFalse _, MFalse _ => True
       | _, _ => False
       end.
Proof.
  apply (rewrite_same_verdict atl_a).
  - intros xpath a0. apply (proj2 (atl_ok xpath)).
  - intros xpath input0 ci multi single a0. apply (proj2 (atl_D input0 ci multi single xpath)).
Qed.

(* c{n,m} with n < m and c...cc?...c? (n copies, then m-n optional ones), from the pattern text *)
Theorem bounded_law_end_to_end fl a input :
  ok_a (f_xpath fl) a = true -> f_literal fl = false -> f_ws fl = false -> (N.of_nat (length input) < umax)%N -> valid_in input ->
  exists prog prog', compile true fl (show_a a) = Ok prog /\ compile true fl (show_a (bnd_a a)) = Ok prog'
    /\ match matches prog input 0 st0, matches prog' input 0 st0 with
       | MTrue _, MTrue _ | MFalse _, MFalse _ => True
       | _, _ => False
       end.
Proof.
  apply (rewrite_same_verdict bnd_a).
  - intros xpath a0. apply (proj2 (bnd_ok xpath)).
  - intros xpath input0 ci multi single a0. apply (proj2 (bnd_D input0 ci multi single xpath)).
Qed.

(* the same for rewritings that exist in one dialect only *)
Section E2EX.
Variable X : bool.
Variable rw : alt -> alt.
Hypothesis rw_ok : forall a, ok_a X a = true -> ok_a X (rw a) = true.
Hypothesis rw_D : forall input ci multi single a, ok_a X a = true -> forall p q, p <= length input ->
  (In q (Da input ci multi single (rw a) p) <-> In q (Da input ci multi single a p)).

Theorem rewrite_same_verdict_X fl a input : f_xpath fl = X ->
  ok_a X a = true -> f_literal fl = false -> f_ws fl = false -> (N.of_nat (length input) < umax)%N -> valid_in input ->
  exists prog prog', compile true fl (show_a a) = Ok prog /\ compile true fl (show_a (rw a)) = Ok prog'
    /\ match matches prog input 0 st0, matches prog' input 0 st0 with
       | MTrue _, MTrue _ | MFalse _, MFalse _ => True
       | _, _ => False
       end.
Proof.
  intros HX Hok Hq Hw Hfit Hval.
  assert (Hok1 : ok_a (f_xpath fl) a = true) by (rewrite HX; exact Hok).
  assert (Hok2 : ok_a (f_xpath fl) (rw a) = true) by (rewrite HX; apply rw_ok; exact Hok).
  destruct (compile_grammar_D fl a input Hok1 Hq Hw Hfit Hval) as (prog & E & M).
  destruct (compile_grammar_D fl (rw a) input Hok2 Hq Hw Hfit Hval) as (prog' & E' & M').
  exists prog, prog'. split; [exact E|]. split; [exact E'|].
  rewrite (Dmatch_eqv input (f_case fl) (f_multi fl) (f_single fl) (rw a) a (rw_D input (f_case fl) (f_multi fl) (f_single fl) a Hok)) in M'.
  destruct (matches prog input 0 st0); destruct (matches prog' input 0 st0); try contradiction; auto; congruence.
Qed.
End E2EX.

(* r = r|r at the end of every alternation *)
Theorem duplicate_law_end_to_end fl a input :
  ok_a (f_xpath fl) a = true -> f_literal fl = false -> f_ws fl = false -> (N.of_nat (length input) < umax)%N -> valid_in input ->
  exists prog prog', compile true fl (show_a a) = Ok prog /\ compile true fl (show_a (dup_a a)) = Ok prog'
    /\ match matches prog input 0 st0, matches prog' input 0 st0 with
       | MTrue _, MTrue _ | MFalse _, MFalse _ => True
       | _, _ => False
       end.
Proof.
  apply (rewrite_same_verdict dup_a).
  - intros xpath a0. apply (proj2 (dup_ok xpath)).
  - intros xpath input0 ci multi single a0. apply (proj2 (dup_D input0 ci multi single xpath)).
Qed.

(* every capturing group turned into a non-capturing one (XPath) *)
Theorem uncapture_law_end_to_end fl a input : f_xpath fl = true ->
  ok_a true a = true -> f_literal fl = false -> f_ws fl = false -> (N.of_nat (length input) < umax)%N -> valid_in input ->
  exists prog prog', compile true fl (show_a a) = Ok prog /\ compile true fl (show_a (uncap_a a)) = Ok prog'
    /\ match matches prog input 0 st0, matches prog' input 0 st0 with
       | MTrue _, MTrue _ | MFalse _, MFalse _ => True
       | _, _ => False
       end.
Proof.
  apply (rewrite_same_verdict_X true uncap_a).
  - apply (proj2 uncap_ok).
  - intros input0 ci multi single a0. apply (proj2 (uncap_D input0 ci multi single)).
Qed.

(* every quantified character wrapped in (?: ) (XPath) *)
Theorem wrap_law_end_to_end fl a input : f_xpath fl = true ->
  ok_a true a = true -> f_literal fl = false -> f_ws fl = false -> (N.of_nat (length input) < umax)%N -> valid_in input ->
  exists prog prog', compile true fl (show_a a) = Ok prog /\ compile true fl (show_a (wrap_a a)) = Ok prog'
    /\ match matches prog input 0 st0, matches prog' input 0 st0 with
       | MTrue _, MTrue _ | MFalse _, MFalse _ => True
       | _, _ => False
       end.
Proof.
  apply (rewrite_same_verdict_X true wrap_a).
  - apply (proj2 wrap_ok).
  - intros input0 ci multi single a0. apply (proj2 (wrap_D input0 ci multi single)).
Qed.

(* c{n} and c...c (n copies), from the pattern text *)
Theorem exact_law_end_to_end fl a input :
  ok_a (f_xpath fl) a = true -> f_literal fl = false -> f_ws fl = false -> (N.of_nat (length input) < umax)%N -> valid_in input ->
  exists prog prog', compile true fl (show_a a) = Ok prog /\ compile true fl (show_a (exa_a a)) = Ok prog'
    /\ match matches prog input 0 st0, matches prog' input 0 st0 with
       | MTrue _, MTrue _ | MFalse _, MFalse _ => True
       | _, _ => False
       end.
Proof.
  apply (rewrite_same_verdict exa_a).
  - intros xpath a0. apply (proj2 (exa_ok xpath)).
  - intros xpath input0 ci multi single a0. apply (proj2 (exa_D input0 ci multi single xpath)).
Qed.

(* (?:r|s)t = rt|st wherever an alternative has that shape, from the pattern text *)
Theorem distribute_law_end_to_end fl a input :
  ok_a (f_xpath fl) a = true -> f_literal fl = false -> f_ws fl = false -> (N.of_nat (length input) < umax)%N -> valid_in input ->
  exists prog prog', compile true fl (show_a a) = Ok prog /\ compile true fl (show_a (dist_a a)) = Ok prog'
    /\ match matches prog input 0 st0, matches prog' input 0 st0 with
       | MTrue _, MTrue _ | MFalse _, MFalse _ => True
       | _, _ => False
       end.
Proof.
  apply (rewrite_same_verdict dist_a).
  - intros xpath a0. apply (proj2 (dist_ok xpath)).
  - intros xpath input0 ci multi single a0. apply (proj2 (dist_D input0 ci multi single xpath)).
Qed.
