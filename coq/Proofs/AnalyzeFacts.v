(* C03 / C04: the event walk of process_matching_substring preserves the text: whatever group
   events are queued at whatever offsets, the String leaves of the frames it leaves behind, read
   from the outermost frame inwards, concatenate to the matched substring. *)
From RX Require Import Base.Prelude Model.Engine Model.Matcher Model.Api.

Fixpoint etext (e : mentry) : list N :=
  match e with
  | MStr s => s
  | MGrp _ v => (fix go (l : list mentry) : list N := match l with [] => [] | x :: t => etext x ++ go t end) v
  end.
Definition vtext (v : list mentry) : list N := flat_map etext v.

Lemma etext_grp nr v : etext (MGrp nr v) = vtext v.
Proof. unfold vtext. cbn [etext]. induction v as [|x t IH]; cbn; [reflexivity|]. rewrite IH. reflexivity. Qed.

Lemma vtext_app a b : vtext (a ++ b) = vtext a ++ vtext b.
Proof. unfold vtext. apply flat_map_app. Qed.

(* frames are kept innermost first, entries of a frame in reverse: the text of the whole stack *)
Fixpoint stext (stack : list frame) : list N :=
  match stack with
  | [] => []
  | (_, es) :: rest => stext rest ++ vtext (rev es)
  end.

Lemma push_top_text e stack stack' : push_top e stack = Ok stack' -> stext stack' = stext stack ++ etext e.
Proof.
  destruct stack as [|[nr es] rest]; cbn [push_top]; [discriminate|].
  intros [= <-]. cbn [stext rev]. rewrite vtext_app, app_assoc. unfold vtext at 2. cbn [flat_map].
  rewrite app_nil_r. reflexivity.
Qed.

Lemma run_events_text : forall evs stack stack', run_events evs stack = Ok stack' -> stext stack' = stext stack.
Proof.
  induction evs as [|g t IH]; intros stack stack' H; cbn [run_events] in H.
  - injection H as <-. reflexivity.
  - destruct (Z.ltb 0 g).
    + rewrite (IH _ _ H). cbn [stext rev]. unfold vtext. cbn. rewrite app_nil_r. reflexivity.
    + destruct stack as [|[nr es] rest]; [discriminate|].
      destruct (push_top (MGrp nr (rev es)) rest) as [st'| | |] eqn:E; cbn [rbind] in H; try discriminate.
      rewrite (IH _ _ H), (push_top_text _ _ _ E), etext_grp. reflexivity.
Qed.

Lemma skipn_cons_nth {A} (l : list A) i c : nth_error l i = Some c -> skipn i l = c :: skipn (S i) l.
Proof.
  revert i. induction l as [|x t IH]; intros [|i] E; cbn in *; try discriminate.
  - injection E as ->. reflexivity.
  - apply IH; auto.
Qed.
Lemma skipn_none_nth {A} (l : list A) i : nth_error l i = None -> skipn i l = [] /\ skipn (S i) l = [].
Proof. intros E. apply nth_error_None in E. split; apply skipn_all2; lia. Qed.

Section W.
Variable current : list N.

Definition btext (buf : option (list N)) : list N := match buf with Some b => b | None => [] end.

Theorem walk_text : forall fuel i actions buf stack stack',
  walk current fuel i actions buf stack = Ok stack' ->
  stext stack' = stext stack ++ btext buf ++ skipn i current.
Proof.
  induction fuel as [|f IH]; intros i actions buf stack stack' H; cbn [walk] in H; [discriminate|].
  destruct (Nat.ltb (length current) i) eqn:Lt.
  - apply Nat.ltb_lt in Lt. rewrite skipn_all2 by lia. rewrite app_nil_r.
    destruct buf as [b|]; cbn [btext].
    + apply push_top_text in H. exact H.
    + injection H as <-. rewrite app_nil_r. reflexivity.
  - apply Nat.ltb_ge in Lt.
    destruct (lookup_nat i actions) as [evs|].
    + destruct (match buf with Some b => push_top (MStr b) stack | None => Ok stack end) as [st1| | |] eqn:E1;
        cbn [rbind] in H; try discriminate.
      destruct (run_events evs st1) as [st2| | |] eqn:E2; cbn [rbind] in H; try discriminate.
      apply IH in H. rewrite H, (run_events_text _ _ _ E2).
      assert (T1 : stext st1 = stext stack ++ btext buf).
      { destruct buf as [b|]; cbn [btext].
        - apply push_top_text in E1. exact E1.
        - injection E1 as <-. rewrite app_nil_r. reflexivity. }
      rewrite T1, <- app_assoc. f_equal.
      destruct (nth_error current i) as [c|] eqn:En; cbn [btext].
      * rewrite (skipn_cons_nth _ _ _ En). reflexivity.
      * destruct (skipn_none_nth _ _ En) as [E1' E2']. rewrite E1', E2'. reflexivity.
    + cbn [rbind] in H. apply IH in H. rewrite H. f_equal.
      destruct (nth_error current i) as [c|] eqn:En; cbn [btext].
      * rewrite (skipn_cons_nth _ _ _ En). destruct buf as [b|]; cbn [btext]; [rewrite <- app_assoc|]; reflexivity.
      * destruct (skipn_none_nth _ _ En) as [E1' E2']. rewrite E1', E2'. reflexivity.
Qed.

(* when the events are balanced (one frame is left), the leaves of the reported tree are the match *)
Corollary walk_leaves fuel actions es nr :
  walk current fuel 0 actions None [(O, [])] = Ok [(nr, es)] -> vtext (rev es) = current.
Proof.
  intros H. apply walk_text in H. cbn [stext btext skipn app] in H. exact H.
Qed.
End W.
