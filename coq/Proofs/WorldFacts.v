(* W1: every result of a history is the pure function of (pattern, flags, dialect) and the call's
   arguments; objects do not influence one another. *)
From RX Require Import Base.Prelude Model.Engine Model.Matcher Model.Compiler Model.Api Model.World.

Lemma nth_error_upd_same {A} (l : list A) i v : i < length l -> nth_error (upd l i v) i = Some v.
Proof. revert i; induction l as [|x t IH]; intros [|i] H; cbn in *; try lia; auto. apply IH. lia. Qed.
Lemma nth_error_upd_other {A} (l : list A) i j v : i <> j -> nth_error (upd l i v) j = nth_error l j.
Proof.
  revert i j; induction l as [|x t IH]; intros [|i] [|j] H; cbn; auto; try congruence.
Qed.
Lemma upd_length {A} (l : list A) i v : length (upd l i v) = length l.
Proof. revert i; induction l; destruct i; cbn; auto. Qed.

(* a Regex object, once created, is never changed by any operation *)
Theorem regex_immutable w o h re :
  get_regex w h = Some re -> get_regex (fst (step w o)) h = Some re.
Proof.
  unfold get_regex. intros H.
  assert (Hh : h < length w).
  { apply nth_error_Some. destruct (nth_error w h); [discriminate|discriminate H]. }
  assert (App : forall x, match nth_error (w ++ [x]) h with Some (ORegex r) => Some r | _ => None end = Some re).
  { intros x. rewrite nth_error_app1 by auto. exact H. }
  destruct o; cbn [step].
  - destruct (regex_new false xpath pattern flags); cbn [fst]; auto; try apply App.
  - destruct (get_regex w h0) as [r|]; cbn [fst]; auto; try apply App.
  - destruct (get_regex w h0) as [r|]; cbn [fst]; auto; try apply App.
  - destruct (get_regex w h0) as [r|]; cbn [fst]; auto; try apply App.
    destruct (tokenize r input); cbn [fst]; auto; try apply App.
  - destruct (get_regex w h0) as [r|]; cbn [fst]; auto; try apply App.
    destruct (analyze r) as [[t st]| | |]; cbn [fst]; auto; try apply App.
  - destruct (nth_error w h0) as [[r|r s st|r s tb st|]|] eqn:E; cbn [fst]; auto; try apply App.
    + destruct (tok_next (r_prog r) s st) as [[t st']| | |]; cbn [fst]; auto; try apply App.
      destruct (Nat.eq_dec h0 h) as [->|Hne]; [rewrite E in H; discriminate H|].
      rewrite nth_error_upd_other by auto. exact H.
    + destruct (an_next (r_prog r) s tb st) as [[t st']| | |]; cbn [fst]; auto; try apply App.
      destruct (Nat.eq_dec h0 h) as [->|Hne]; [rewrite E in H; discriminate H|].
      rewrite nth_error_upd_other by auto. exact H.
  - destruct (nth_error w h0) as [[r|r s st|r s tb st|]|] eqn:E; cbn [fst]; auto;
      (destruct (Nat.eq_dec h0 h) as [->|Hne]; [rewrite E in H; discriminate H|];
       rewrite nth_error_upd_other by auto; exact H).
Qed.

(* ... hence the result of a call depends only on the object's (pattern, flags, dialect) - the
   regex value it was constructed from - and on the call's arguments, whatever the world holds *)
Theorem call_is_pure w h re s r :
  get_regex w h = Some re ->
  snd (step w (WIsMatch h s)) = of_res RBool (is_match re s)
  /\ snd (step w (WReplace h s r)) = of_res RText (replace_all re s r).
Proof. intros H. cbn [step]. rewrite H. split; reflexivity. Qed.

Theorem compile_is_deterministic w1 w2 xpath p f :
  snd (step w1 (WCompile xpath p f)) = RNew (length w1) ->
  exists re, regex_new false xpath p f = Ok re
             /\ get_regex (fst (step w1 (WCompile xpath p f))) (length w1) = Some re
             /\ get_regex (fst (step w2 (WCompile xpath p f))) (length w2) = Some re.
Proof.
  cbn [step]. destruct (regex_new false xpath p f) as [re| | |]; cbn [snd fst]; try discriminate.
  intros _. exists re. unfold get_regex. rewrite !nth_error_app2, !Nat.sub_diag by lia. auto.
Qed.

(* an iterator object is changed only by its own next / drop: other calls, on the same Regex or
   on other objects, leave it as it is *)
Theorem iterator_isolated w o h x :
  nth_error w h = Some x ->
  (match o with WNext h' | WDrop h' => h' <> h | _ => True end) ->
  nth_error (fst (step w o)) h = Some x.
Proof.
  intros H Ho.
  assert (Hh : h < length w) by (apply nth_error_Some; congruence).
  assert (App : forall y, nth_error (w ++ [y]) h = Some x) by (intros; rewrite nth_error_app1; auto).
  destruct o; cbn [step].
  - destruct (regex_new false xpath pattern flags); cbn [fst]; auto; try apply App.
  - destruct (get_regex w h0); cbn [fst]; auto; try apply App.
  - destruct (get_regex w h0); cbn [fst]; auto; try apply App.
  - destruct (get_regex w h0); cbn [fst]; auto; try apply App. destruct (tokenize r input); cbn [fst]; auto; try apply App.
  - destruct (get_regex w h0); cbn [fst]; auto; try apply App. destruct (analyze r) as [[t st]| | |]; cbn [fst]; auto; try apply App.
  - destruct (nth_error w h0) as [[r|r s st|r s tb st|]|]; cbn [fst]; auto; try apply App.
    + destruct (tok_next (r_prog r) s st) as [[t st']| | |]; cbn [fst]; auto; try apply App.
      rewrite nth_error_upd_other; auto.
    + destruct (an_next (r_prog r) s tb st) as [[t st']| | |]; cbn [fst]; auto; try apply App.
      rewrite nth_error_upd_other; auto.
  - destruct (nth_error w h0) as [[r|r s st|r s tb st|]|]; cbn [fst]; auto;
      rewrite nth_error_upd_other; auto.
Qed.

(* the n-th item of an iterator is a function of (regex, input) alone: next on handle h computes
   tok_next / an_next from the iterator's own stored state *)
Theorem next_is_own_state w h re s st :
  nth_error w h = Some (OTok re s st) ->
  snd (step w (WNext h)) = match tok_next (r_prog re) s st with
                           | Ok (t, _) => RTok t | Err e => RErr e | Panic _ => RPanic | Out => ROut end.
Proof. intros H. cbn [step]. rewrite H. destruct (tok_next (r_prog re) s st) as [[t st']| | |]; reflexivity. Qed.
