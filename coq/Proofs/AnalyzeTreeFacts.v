(* C03 / C04: process_matching_substring returns a forest whose leaves concatenate to the matched
   substring, provided the groups the matcher state records lie inside the match.  The argument:
   every recorded group queues one opening and one closing event at offsets inside the substring,
   so the event walk ends with exactly the frame it started with (the frames are counted), and
   AnalyzeFacts.walk_text says what the leaves of that frame are. *)
From RX Require Import Base.Prelude Model.Engine Model.Matcher Model.Api Proofs.AnalyzeFacts.

Definition sgn (g : Z) : Z := if Z.ltb 0 g then 1%Z else (-1)%Z.
Fixpoint net (evs : list Z) : Z := match evs with [] => 0%Z | g :: t => (sgn g + net t)%Z end.
Definition onet (o : option (list Z)) : Z := match o with Some v => net v | None => 0%Z end.

Lemma net_app a b : net (a ++ b) = (net a + net b)%Z.
Proof. induction a as [|x t IH]; cbn [app net]; [reflexivity|]. rewrite IH. lia. Qed.

Lemma net_insert_at : forall pos x v, net (insert_at pos x v) = (sgn x + net v)%Z.
Proof.
  induction pos as [|p IH]; intros x v; cbn [insert_at net]; [reflexivity|].
  destruct v as [|h t]; cbn [net]; [lia|]. rewrite IH. lia.
Qed.

Lemma lookup_update {B} k (v : B) : forall a k', lookup_nat k' (update_nat k v a) = if Nat.eqb k' k then Some v else lookup_nat k' a.
Proof.
  induction a as [|[k0 v0] t IH]; intros k'; cbn [update_nat lookup_nat].
  - destruct (Nat.eqb k' k); reflexivity.
  - destruct (Nat.eqb k k0) eqn:E; cbn [lookup_nat].
    + apply Nat.eqb_eq in E. subst k0. destruct (Nat.eqb k' k); reflexivity.
    + rewrite IH. destruct (Nat.eqb k' k) eqn:E2; [|reflexivity].
      apply Nat.eqb_eq in E2. subst k'. rewrite E. reflexivity.
Qed.

Lemma push_top_len e st st' : push_top e st = Ok st' -> length st' = length st.
Proof. destruct st as [|[nr es] t]; cbn [push_top]; [discriminate|]. intros [= <-]. reflexivity. Qed.

Lemma run_events_len : forall evs st st', run_events evs st = Ok st' ->
  Z.of_nat (length st') = (Z.of_nat (length st) + net evs)%Z.
Proof.
  induction evs as [|g t IH]; intros st st' H; cbn [run_events] in H; cbn [net].
  - injection H as <-. lia.
  - unfold sgn. destruct (Z.ltb 0 g).
    + apply IH in H. cbn [length] in H. lia.
    + destruct st as [|[nr es] rest]; [discriminate|].
      destruct (push_top (MGrp nr (rev es)) rest) as [st1| | |] eqn:E; cbn [rbind] in H; try discriminate.
      apply IH in H. apply push_top_len in E. cbn [length]. lia.
Qed.

Section T.
Variable current : list N.
Let L := length current.

(* the events the walk runs through, counted *)
Fixpoint wnet (fuel i : nat) (a : list (nat * list Z)) : Z :=
  match fuel with
  | O => 0%Z
  | S f => if Nat.ltb L i then 0%Z else (onet (lookup_nat i a) + wnet f (S i) a)%Z
  end.

Lemma wnet_nil : forall fuel i, wnet fuel i [] = 0%Z.
Proof. induction fuel as [|f IH]; intros i; cbn [wnet lookup_nat onet]; [reflexivity|]. destruct (Nat.ltb L i); [reflexivity|]. rewrite IH. reflexivity. Qed.

Lemma wnet_update : forall fuel i k v a,
  wnet fuel i (update_nat k v a)
  = (wnet fuel i a + (if Nat.leb i k && Nat.leb k L && Nat.ltb k (i + fuel) then net v - onet (lookup_nat k a) else 0))%Z.
Proof.
  induction fuel as [|f IH]; intros i k v a; cbn [wnet].
  - destruct (Nat.leb i k) eqn:E; cbn [andb]; [|reflexivity].
    apply Nat.leb_le in E.
    replace (Nat.ltb k (i + 0)) with false by (symmetry; apply Nat.ltb_ge; lia).
    rewrite andb_false_r. reflexivity.
  - destruct (Nat.ltb L i) eqn:Li.
    + apply Nat.ltb_lt in Li.
      replace (Nat.leb i k && Nat.leb k L) with false; [cbn [andb]; lia|].
      symmetry. destruct (Nat.leb i k) eqn:E; cbn [andb]; [|reflexivity].
      apply Nat.leb_le in E. apply Nat.leb_gt. lia.
    + apply Nat.ltb_ge in Li. rewrite IH, lookup_update.
      destruct (Nat.eqb i k) eqn:Eik.
      * apply Nat.eqb_eq in Eik. subst k. cbn [onet].
        replace (Nat.leb (S i) i) with false by (symmetry; apply Nat.leb_gt; lia). cbn [andb].
        replace (Nat.leb i i) with true by (symmetry; apply Nat.leb_le; lia).
        replace (Nat.leb i L) with true by (symmetry; apply Nat.leb_le; lia).
        replace (Nat.ltb i (i + S f)) with true by (symmetry; apply Nat.ltb_lt; lia). cbn [andb]. lia.
      * apply Nat.eqb_neq in Eik.
        replace (Nat.ltb k (S i + f)) with (Nat.ltb k (i + S f)) by (f_equal; lia).
        replace (Nat.leb (S i) k) with (Nat.leb i k); [lia|].
        destruct (Nat.leb i k) eqn:E1; symmetry.
        -- apply Nat.leb_le in E1. apply Nat.leb_le. lia.
        -- apply Nat.leb_gt in E1. apply Nat.leb_gt. lia.
Qed.

(* an update of a key the walk visits changes the count by the difference of the two event lists *)
Corollary wnet_update_in k v a : k <= L ->
  wnet (L + 2) 0 (update_nat k v a) = (wnet (L + 2) 0 a + net v - onet (lookup_nat k a))%Z.
Proof.
  intros Hk. rewrite wnet_update.
  replace (Nat.leb 0 k && Nat.leb k L && Nat.ltb k (0 + (L + 2))) with true; [lia|].
  symmetry. apply andb_true_iff. split; [apply andb_true_iff; split|].
  - apply Nat.leb_le. lia.
  - apply Nat.leb_le. lia.
  - apply Nat.ltb_lt. lia.
Qed.

Theorem walk_len : forall fuel i a buf st st', walk current fuel i a buf st = Ok st' ->
  Z.of_nat (length st') = (Z.of_nat (length st) + wnet fuel i a)%Z.
Proof.
  induction fuel as [|f IH]; intros i a buf st st' H; cbn [walk] in H; [discriminate|]. cbn [wnet]. fold L in H.
  destruct (Nat.ltb L i).
  - destruct buf as [b|]; [apply push_top_len in H; lia|injection H as <-; lia].
  - destruct (lookup_nat i a) as [evs|]; cbn [onet].
    + destruct (match buf with Some b => push_top (MStr b) st | None => Ok st end) as [st1| | |] eqn:E1;
        cbn [rbind] in H; try discriminate.
      destruct (run_events evs st1) as [st2| | |] eqn:E2; cbn [rbind] in H; try discriminate.
      apply IH in H. apply run_events_len in E2.
      assert (length st1 = length st).
      { destruct buf as [b|]; [apply push_top_len in E1; exact E1|injection E1 as <-; reflexivity]. }
      lia.
    + cbn [rbind] in H. apply IH in H. lia.
Qed.

Section B.
Variable table : list (nat * nat).
Variable s : mstate.
(* the groups the state records start and end inside the substring *)
Hypothesis inside : forall i a0 si ei, 1 <= i -> get_pstart s 0 = Some a0 -> get_pstart s i = Some si ->
  get_pend s i = Some ei -> si <= a0 + L /\ ei <= a0 + L.

Lemma build_actions_net : forall todo i a a', 1 <= i -> build_actions table s i todo a = Ok a' ->
  wnet (L + 2) 0 a' = wnet (L + 2) 0 a.
Proof.
  induction todo as [|t IH]; intros i a a' Hi H; cbn [build_actions] in H; [injection H as <-; reflexivity|].
  destruct (get_pstart s i) as [si|] eqn:Esi; [|apply IH in H; [exact H|lia]].
  destruct (get_pstart s 0) as [a0|] eqn:E0; [|apply IH in H; [exact H|lia]].
  destruct (Nat.ltb si a0) eqn:L1; [discriminate|]. apply Nat.ltb_ge in L1.
  destruct (get_pend s i) as [ei|] eqn:Eei; [|discriminate].
  destruct (Nat.ltb ei a0) eqn:L2; [discriminate|]. apply Nat.ltb_ge in L2.
  destruct (inside i a0 si ei Hi eq_refl Esi Eei) as [I1 I2].
  assert (Zi : Z.ltb 0 (Z.of_nat i) = true) by (apply Z.ltb_lt; lia).
  assert (Zn : Z.ltb 0 (- Z.of_nat i) = false) by (apply Z.ltb_ge; lia).
  destruct (Nat.ltb (si - a0) (ei - a0)) eqn:L3.
  - apply IH in H; [|lia]. rewrite H.
    rewrite wnet_update_in by lia. rewrite wnet_update_in by lia. rewrite lookup_update.
    destruct (Nat.eqb (ei - a0) (si - a0)) eqn:Eq.
    + apply Nat.ltb_lt in L3. apply Nat.eqb_eq in Eq. lia.
    + destruct (lookup_nat (ei - a0) a) as [v1|]; destruct (lookup_nat (si - a0) a) as [v0|]; cbn [onet net];
        rewrite ?net_app; cbn [net]; unfold sgn; rewrite ?Zi, ?Zn; lia.
  - destruct (lookup_nat i table) as [parent|]; [|discriminate].
    apply IH in H; [|lia]. rewrite H. rewrite wnet_update_in by lia.
    destruct (lookup_nat (si - a0) a) as [v0|]; cbn [onet net].
    + rewrite !net_insert_at. unfold sgn. rewrite Zi, Zn. lia.
    + unfold sgn. rewrite Zi, Zn. lia.
Qed.

Theorem pms_text v : process_matching_substring table s current = Ok v -> vtext v = current.
Proof.
  unfold process_matching_substring. intros H.
  destruct (pcount (cs_ s)) as [|c]; [discriminate|].
  destruct c as [|c'].
  - injection H as <-. unfold vtext. cbn. apply app_nil_r.
  - destruct (build_actions table s 1 (S c') []) as [a| | |] eqn:Ea; cbn [rbind] in H; try discriminate.
    destruct (walk current (length current + 2) 0 a None [(0, [])]) as [st| | |] eqn:Ew; cbn [rbind] in H; try discriminate.
    pose proof (walk_len _ _ _ _ _ _ Ew) as Hl. fold L in Hl.
    rewrite (build_actions_net _ _ _ _ (le_n 1) Ea), wnet_nil in Hl. cbn [length] in Hl.
    destruct st as [|[nr es] rest]; [discriminate|]. injection H as <-.
    destruct rest; [|cbn [length] in Hl; lia].
    exact (walk_leaves _ _ _ _ _ Ew).
Qed.
End B.
End T.
