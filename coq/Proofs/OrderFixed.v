(* C02 for quantifiers over fixed-length bodies: the greedy repeat yields its end positions from
   the most repetitions down to the fewest, the reluctant one from the fewest up - exactly the
   order of the specification's ordered-choice semantics R for r{n,m} and r{n,m}?.  Both sides are
   shown to be the strictly monotone list of one and the same set of positions. *)
From RX Require Import Base.Prelude Base.InvList.
From RX Require Import Spec.Syntax Spec.Parse Spec.CharSet Spec.Sem.
From RX Require Import Tables.Consts Model.Case Model.Op Model.Engine Model.Matcher Model.Api.
From RX Require Import Proofs.EngineFacts Proofs.LeafFacts Proofs.LowerFacts Proofs.QuantFacts Proofs.QuantLaws
     Proofs.FixedFacts.
From Coq Require Import Sorting.Sorted.
Transparent gf_probeR int_stepR rf_minR rf_moreR.

(* two strictly descending (or ascending) lists with the same members are equal *)
Lemma sorted_gt_head_max l x : StronglySorted gt (x :: l) -> forall y, In y (x :: l) -> y <= x.
Proof.
  intros H y [<-|Hy]; [lia|]. apply StronglySorted_inv in H. destruct H as [_ H].
  rewrite Forall_forall in H. specialize (H y Hy). lia.
Qed.
Lemma sorted_gt_ext : forall l1 l2, StronglySorted gt l1 -> StronglySorted gt l2 ->
  (forall q, In q l1 <-> In q l2) -> l1 = l2.
Proof.
  induction l1 as [|x t IH]; intros l2 S1 S2 E.
  - destruct l2 as [|y t2]; [reflexivity|]. exfalso. apply (E y). left; reflexivity.
  - destruct l2 as [|y t2]; [exfalso; apply (E x); left; reflexivity|].
    assert (x = y).
    { pose proof (sorted_gt_head_max t x S1 y (proj2 (E y) (or_introl eq_refl))).
      pose proof (sorted_gt_head_max t2 y S2 x (proj1 (E x) (or_introl eq_refl))). lia. }
    subst y. f_equal. apply StronglySorted_inv in S1. apply StronglySorted_inv in S2.
    destruct S1 as [S1 F1]. destruct S2 as [S2 F2]. apply IH; auto.
    rewrite Forall_forall in F1, F2.
    intros q. split; intros Hq.
    + destruct (proj1 (E q) (or_intror Hq)) as [<-|H]; [specialize (F1 _ Hq); lia|exact H].
    + destruct (proj2 (E q) (or_intror Hq)) as [<-|H]; [specialize (F2 _ Hq); lia|exact H].
Qed.
Lemma sorted_lt_ext : forall l1 l2, StronglySorted lt l1 -> StronglySorted lt l2 ->
  (forall q, In q l1 <-> In q l2) -> l1 = l2.
Proof.
  induction l1 as [|x t IH]; intros l2 S1 S2 E.
  - destruct l2 as [|y t2]; [reflexivity|]. exfalso. apply (E y). left; reflexivity.
  - destruct l2 as [|y t2]; [exfalso; apply (E x); left; reflexivity|].
    apply StronglySorted_inv in S1. apply StronglySorted_inv in S2.
    destruct S1 as [S1 F1]. destruct S2 as [S2 F2]. rewrite Forall_forall in F1, F2.
    assert (x = y).
    { destruct (proj1 (E x) (or_introl eq_refl)) as [->|H1]; [reflexivity|].
      destruct (proj2 (E y) (or_introl eq_refl)) as [->|H2]; [reflexivity|].
      specialize (F1 _ H2). specialize (F2 _ H1). lia. }
    subst y. f_equal. apply IH; auto.
    intros q. split; intros Hq.
    + destruct (proj1 (E q) (or_intror Hq)) as [<-|H]; [specialize (F1 _ Hq); lia|exact H].
    + destruct (proj2 (E q) (or_intror Hq)) as [<-|H]; [specialize (F2 _ Hq); lia|exact H].
Qed.

Section Chains.
Variable fl : sflags.
Variable s : list N.
Let n := length s.
Variable r' : re.
Variable body : nat -> list nat.
Variable leng : nat.
Variable mn : N.
Variable mxo : option N.
Hypothesis Hleng : 0 < leng.
Hypothesis Hdet : forall p e, p <= n -> map fst (R fl s r' p e) = body p.
Hypothesis Hone : forall p, body p = [] \/ body p = [p + leng].
Hypothesis Hle : forall p q, p <= n -> In q (body p) -> q <= n.

(* the positions in priority order: greedy = deeper first, reluctant = stop first *)
Fixpoint chain (greedy : bool) (fuel k i : nat) : list nat :=
  match fuel with
  | O => []
  | S f =>
      let stop := if N.leb mn (N.of_nat k) then [i] else [] in
      let more := if mx_allows k mxo then match body i with [] => [] | _ => chain greedy f (S k) (i + leng) end else [] in
      if greedy then more ++ stop else stop ++ more
  end.

Lemma quantR_chain greedy : forall fuel k i e, i <= n ->
  map fst (quantR (R fl s r') mn mxo greedy fuel k i e) = chain greedy fuel k i.
Proof.
  induction fuel as [|f IH]; intros k i e Hi; [reflexivity|]. cbn [quantR chain].
  assert (Stop : map fst (if N.leb mn (N.of_nat k) then [(i, e)] else []) = (if N.leb mn (N.of_nat k) then [i] else []))
    by (destruct (N.leb mn (N.of_nat k)); reflexivity).
  assert (More : map fst (if mx_allows k mxo
                          then flat_map (fun je : nat * env => let '(j, e') := je in
                                           if Nat.eqb j i then [(j, e')] else quantR (R fl s r') mn mxo greedy f (S k) j e')
                                        (R fl s r' i e)
                          else [])
                 = (if mx_allows k mxo then match body i with [] => [] | _ => chain greedy f (S k) (i + leng) end else [])).
  { destruct (mx_allows k mxo); [|reflexivity].
    pose proof (Hdet i e Hi) as D. destruct (Hone i) as [E|E]; rewrite E in *.
    - destruct (R fl s r' i e); [reflexivity|discriminate].
    - destruct (R fl s r' i e) as [|[j e'] t]; [discriminate|]. cbn [map fst] in D. injection D as -> Dt.
      destruct t; [|discriminate]. cbn [flat_map].
      replace (Nat.eqb (i + leng) i) with false by (symmetry; apply Nat.eqb_neq; lia).
      rewrite app_nil_r. apply IH. apply (Hle i); [exact Hi|rewrite E; left; reflexivity]. }
  destruct greedy; rewrite map_app, Stop, More; reflexivity.
Qed.

Lemma chain_in greedy : forall fuel k i q,
  In q (chain greedy fuel k i)
  <-> exists d, d < fuel /\ q = i + d * leng /\ (mn <= N.of_nat (k + d))%N
                /\ forall j, j < d -> body (i + j * leng) <> [] /\ mx_allows (k + j) mxo = true.
Proof.
  induction fuel as [|f IH]; intros k i q; cbn [chain].
  - split; [intros []|intros (d & Hd & _); lia].
  - assert (Stop : In q (if N.leb mn (N.of_nat k) then [i] else []) <-> (q = i /\ (mn <= N.of_nat k)%N)).
    { destruct (N.leb mn (N.of_nat k)) eqn:E.
      - apply N.leb_le in E. split; [intros [<-|[]]; auto|intros [-> _]; left; reflexivity].
      - apply N.leb_gt in E. split; [intros []|intros [_ H]; lia]. }
    assert (More : In q (if mx_allows k mxo then match body i with [] => [] | _ => chain greedy f (S k) (i + leng) end else [])
                   <-> (mx_allows k mxo = true /\ body i <> [] /\ In q (chain greedy f (S k) (i + leng)))).
    { destruct (mx_allows k mxo); [|split; [intros []|intros [H _]; discriminate]].
      destruct (body i) eqn:E; [split; [intros []|intros (_ & H & _); contradiction]|].
      split; [intros H; repeat split; auto; discriminate|intros (_ & _ & H); exact H]. }
    assert (Both : In q (if greedy then (if mx_allows k mxo then match body i with [] => [] | _ => chain greedy f (S k) (i + leng) end else [])
                                        ++ (if N.leb mn (N.of_nat k) then [i] else [])
                         else (if N.leb mn (N.of_nat k) then [i] else [])
                              ++ (if mx_allows k mxo then match body i with [] => [] | _ => chain greedy f (S k) (i + leng) end else []))
                   <-> ((q = i /\ (mn <= N.of_nat k)%N)
                        \/ (mx_allows k mxo = true /\ body i <> [] /\ In q (chain greedy f (S k) (i + leng))))).
    { destruct greedy; rewrite in_app_iff, Stop, More; tauto. }
    rewrite Both, IH. split.
    + intros [[-> H]|(H1 & H2 & d & Hd & -> & Hm & Hj)].
      * exists 0. split; [lia|]. split; [lia|]. split; [replace (k + 0) with k by lia; exact H|]. intros j Hj; lia.
      * exists (S d). split; [lia|]. split; [lia|]. split; [replace (k + S d) with (S k + d) by lia; exact Hm|].
        intros [|j] Hj'.
        -- replace (i + 0 * leng) with i by lia. replace (k + 0) with k by lia. auto.
        -- replace (i + S j * leng) with (i + leng + j * leng) by lia. replace (k + S j) with (S k + j) by lia. apply Hj. lia.
    + intros (d & Hd & -> & Hm & Hj). destruct d as [|d].
      * left. split; [lia|]. replace (k + 0) with k in Hm by lia. exact Hm.
      * right. destruct (Hj 0 ltac:(lia)) as [H1 H2]. replace (i + 0 * leng) with i in H1 by lia. replace (k + 0) with k in H2 by lia.
        split; [exact H2|]. split; [exact H1|]. exists d. split; [lia|]. split; [lia|].
        split; [replace (S k + d) with (k + S d) by lia; exact Hm|].
        intros j Hj'. replace (i + leng + j * leng) with (i + S j * leng) by lia. replace (S k + j) with (k + S j) by lia. apply Hj. lia.
Qed.

Lemma chain_ge greedy fuel k i q : In q (chain greedy fuel k i) -> i <= q.
Proof. intros H. apply chain_in in H. destruct H as (d & _ & -> & _). lia. Qed.

Lemma chain_sorted_g : forall fuel k i, StronglySorted gt (chain true fuel k i).
Proof.
  induction fuel as [|f IH]; intros k i; cbn [chain]; [constructor|].
  assert (S0 : StronglySorted gt (if N.leb mn (N.of_nat k) then [i] else []))
    by (destruct (N.leb mn (N.of_nat k)); repeat constructor).
  destruct (mx_allows k mxo); [|exact S0].
  destruct (body i); [exact S0|].
  destruct (N.leb mn (N.of_nat k)); [|rewrite app_nil_r; apply IH].
  (* every deeper position is beyond i *)
  assert (G : forall ll, StronglySorted gt ll -> (forall q, In q ll -> i < q) -> StronglySorted gt (ll ++ [i])).
  { intros ll. induction ll as [|x t IHl]; intros Sl Hl; cbn [app]; [repeat constructor|].
    apply StronglySorted_inv in Sl. destruct Sl as [St Ft]. constructor.
    - apply IHl; [exact St|]. intros q Hq. apply Hl. right; exact Hq.
    - apply Forall_app. split; [exact Ft|]. constructor; [|constructor]. apply Hl. left; reflexivity. }
  apply G; [apply IH|]. intros q Hq. apply chain_ge in Hq. lia.
Qed.

Lemma chain_sorted_r : forall fuel k i, StronglySorted lt (chain false fuel k i).
Proof.
  induction fuel as [|f IH]; intros k i; cbn [chain]; [constructor|].
  assert (M : StronglySorted lt (if mx_allows k mxo then match body i with [] => [] | _ => chain false f (S k) (i + leng) end else [])).
  { destruct (mx_allows k mxo); [|constructor]. destruct (body i); [constructor|apply IH]. }
  destruct (N.leb mn (N.of_nat k)); [|exact M]. cbn [app]. constructor; [exact M|].
  apply Forall_forall. intros q Hq.
  destruct (mx_allows k mxo); [|destruct Hq]. destruct (body i); [destruct Hq|]. apply chain_ge in Hq. lia.
Qed.
End Chains.

(* ---------- the engine's lists are strictly monotone ---------- *)
Lemma int_step_le len limit : forall fuel cur q, In q (int_stepR len limit fuel cur) -> q <= cur.
Proof.
  induction fuel as [|f IH]; intros cur q H; cbn [int_stepR] in H; [destruct H|].
  destruct (Nat.leb limit cur); [|destruct H]. destruct H as [<-|H]; [lia|].
  destruct (Nat.ltb cur len); [destruct H|]. destruct (Nat.eqb len 0); [destruct H|].
  apply IH in H. lia.
Qed.
Lemma int_step_sorted len limit : 0 < len -> forall fuel cur, StronglySorted gt (int_stepR len limit fuel cur).
Proof.
  intros Hl. induction fuel as [|f IH]; intros cur; cbn [int_stepR]; [constructor|].
  destruct (Nat.leb limit cur); [|constructor].
  destruct (Nat.ltb cur len) eqn:E; [repeat constructor|]. apply Nat.ltb_ge in E.
  replace (Nat.eqb len 0) with false by (symmetry; apply Nat.eqb_neq; lia).
  constructor; [apply IH|]. apply Forall_forall. intros q Hq. apply int_step_le in Hq. lia.
Qed.

Lemma rf_more_sorted (body : nat -> list nat) leng mx : 0 < leng ->
  (forall p, body p = [] \/ body p = [p + leng]) ->
  forall fuel count pos l, rf_moreR body mx fuel count pos = Some l ->
    StronglySorted lt l /\ forall q, In q l -> pos < q.
Proof.
  intros Hl Hone. induction fuel as [|f IH]; intros count pos l H; cbn [rf_moreR] in H; [discriminate|].
  destruct (nlt count mx); [|injection H as <-; split; [constructor|intros q []]].
  destruct (Hone pos) as [E|E]; rewrite E in H; [injection H as <-; split; [constructor|intros q []]|].
  destruct (rf_moreR body mx f (S count) (pos + leng)) as [l'|] eqn:E'; [|discriminate]. injection H as <-.
  destruct (IH _ _ _ E') as [S' L']. split.
  - constructor; [exact S'|]. apply Forall_forall. intros q Hq. apply L' in Hq. lia.
  - intros q [<-|Hq]; [lia|]. apply L' in Hq. lia.
Qed.

Section OrderG.
Variable input : list N.
Variable ci multi hb : bool.
Variable K : nat.
Variable fl : sflags.
Let n := length input.
Let Rop := Rop input ci multi.
Variable o' : op.
Variable r' : re.
Variable mn mx len : N.
Let leng := N.to_nat len.
Hypothesis Hsim : simple input ci multi hb K o'.
Hypothesis Hlen : (0 < len)%N.
Hypothesis Hmx : (0 < mx)%N.
Hypothesis Hmn : (mn <= mx)%N.
Hypothesis Hfit : (N.of_nat n < umax)%N.
Hypothesis Hone : forall p, Rop o' p = [] \/ Rop o' p = [p + leng].
Hypothesis Hdet : forall p e, p <= n -> map fst (R fl input r' p e) = Rop o' p.

Lemma Hfix' : forall p q, In q (Rop o' p) -> q = p + leng.
Proof. intros p q H. destruct (Hone p) as [E|E]; rewrite E in H; [destruct H|destruct H as [<-|[]]; reflexivity]. Qed.
Lemma Hle' : forall p q, p <= n -> In q (Rop o' p) -> q <= n.
Proof. intros p q Hp H. eapply (Rop_le_n input ci multi hb K o' p q); eauto. Qed.

(* membership of the chain = k rounds within the bounds *)
Lemma chain_reach greedy p q : p <= n ->
  (In q (chain (Rop o') leng mn (mx_opt mx) greedy (n + 2) 0 p)
   <-> exists k, N.to_nat mn <= k /\ (N.of_nat k <= mx)%N /\ reach (Rop o') k p q).
Proof.
  intros Hp. assert (Hl : 0 < leng) by (unfold leng; lia).
  pose proof (reach_fixed (Rop o') leng Hl Hfix') as RF.
  rewrite (chain_in input (Rop o') leng mn (mx_opt mx) Hl). split.
  - intros (d & Hd & -> & Hm & Hj). cbn [Nat.add] in *.
    assert (R : reach (Rop o') d p (p + d * leng)).
    { apply RF. split; [reflexivity|]. intros j Hj'. apply (Hj j Hj'). }
    pose proof (reach_le (Rop o') n Hle' d p _ Hp R) as Hq.
    exists d. split; [lia|]. split; [|exact R].
    destruct d as [|d]; [lia|]. destruct (Hj d ltac:(lia)) as [_ Ha]. unfold mx_opt, mx_allows in Ha.
    destruct (N.ltb mx umax) eqn:Eu.
    + apply N.ltb_lt in Ha. lia.
    + apply N.ltb_ge in Eu. assert (S d <= n) by nia. lia.
  - intros (k & Hk1 & Hk2 & R).
    pose proof (reach_le (Rop o') n Hle' k p q Hp R) as Hq.
    apply RF in R. destruct R as [-> Hh]. assert (Hkn : k <= n) by nia.
    exists k. cbn [Nat.add]. split; [lia|]. split; [reflexivity|]. split; [lia|].
    intros j Hj. split; [apply Hh; exact Hj|].
    unfold mx_opt, mx_allows. destruct (N.ltb mx umax); [apply N.ltb_lt; lia|reflexivity].
Qed.

(* the specification's priority order for r{mn,mx} / r{mn,mx}? is the engine's order *)
Theorem gfixed_order p e g' : p <= n -> g' = true ->
  map fst (R fl input (RQuant r' mn (mx_opt mx) g') p e) = Rop (OGFixed o' mn mx len) p.
Proof.
  intros Hp ->. assert (Hl : 0 < leng) by (unfold leng; lia).
  cbn [R]. fold n.
  rewrite (quantR_chain fl input r' (Rop o') leng mn (mx_opt mx) Hl Hdet Hone Hle' true (n + 2) 0 p e Hp).
  apply sorted_gt_ext.
  - apply (chain_sorted_g input); exact Hl.
  - unfold Rop. cbn [EngineFacts.Rop]. fold n. fold Rop.
    destruct (Nat.leb _ p && N.ltb 0 mn); [constructor|].
    destruct (gf_probeR (Rop o') (N.to_nat len) mx _ (n + 5) p 0) as [[p' m]|]; [|constructor].
    destruct (nlt m mn); [constructor|]. apply int_step_sorted. exact Hl.
  - intros q. rewrite (chain_reach true p q Hp).
    symmetry. apply (gfixed_reach input ci multi hb K o' mn mx len Hsim Hlen Hfix' Hmx Hfit p q Hp).
Qed.

Theorem rfixed_order p e g' : p <= n -> g' = false ->
  map fst (R fl input (RQuant r' mn (mx_opt mx) g') p e) = Rop (ORFixed o' mn mx len) p.
Proof.
  intros Hp ->. assert (Hl : 0 < leng) by (unfold leng; lia).
  cbn [R]. fold n.
  rewrite (quantR_chain fl input r' (Rop o') leng mn (mx_opt mx) Hl Hdet Hone Hle' false (n + 2) 0 p e Hp).
  apply sorted_lt_ext.
  - apply (chain_sorted_r input); exact Hl.
  - unfold Rop. cbn [EngineFacts.Rop]. fold n. fold Rop.
    destruct (rf_minR (Rop o') mn (n + 5) 0 p) as [[[c q0]|]|]; try constructor.
    destruct (rf_moreR (Rop o') mx (n + 5) c q0) as [l|] eqn:E; [|constructor].
    destruct (rf_more_sorted (Rop o') leng mx Hl Hone _ _ _ _ E) as [S L].
    constructor; [exact S|]. apply Forall_forall. exact L.
  - intros q. rewrite (chain_reach false p q Hp).
    symmetry. apply (rfixed_reach input ci multi hb K o' mn mx len Hsim Hlen Hfix' Hmx Hfit p q Hmn Hp).
Qed.
End OrderG.

(* ---------- the fragment with fixed-length repeats, in priority order ---------- *)
From RX Require Import Proofs.OrderFacts Proofs.FragmentSpec Model.Compiler Proofs.MatcherFacts Proofs.EngineCorollaries.

Section OrderQ.
Variable input : list N.
Variable ci multi hb : bool.
Variable K : nat.
Variable fl : sflags.
Hypothesis Hci : s_i fl = ci.
Hypothesis Hmulti : s_m fl = multi.
Let n := length input.
Hypothesis Hfit : (N.of_nat n < umax)%N.
Let Rop := Rop input ci multi.
Let R := R fl input.

(* as lowersq, with the greediness of the quantifier tied to the operation *)
Fixpoint lowerso (o : op) (r : re) {struct o} : Prop :=
  match o with
  | OAtom cs => unnc r = RSeq (map RChar cs) \/ (exists c, cs = [c] /\ unnc r = RChar c)
  | OCls set => exists pr, leaf_pred ci fl (unnc r) = Some pr /\ forall c, In c input -> mem set c = pr c
  | OBol => unnc r = RBol
  | OEol => unnc r = REol
  | ONothing | OEnd => unnc r = RSeq []
  | OCapture g o' => exists r', unnc r = RGroup g r' /\ lowerso o' r'
  | OGFixed o' mn mx len => exists r', unnc r = RQuant r' mn (mx_opt mx) true /\ lowerso o' r'
  | ORFixed o' mn mx len => exists r', unnc r = RQuant r' mn (mx_opt mx) false /\ lowerso o' r'
  | OSeq os =>
      exists rs, unnc r = RSeq rs /\
        (fix all2 (os : list op) (rs : list re) : Prop :=
           match os, rs with
           | [], [] => True
           | o1 :: os', r1 :: rs' => lowerso o1 r1 /\ all2 os' rs'
           | _, _ => False
           end) os rs
  | OChoice bs =>
      exists rs, unnc r = RAlt rs /\
        (fix all2 (os : list op) (rs : list re) : Prop :=
           match os, rs with
           | [], [] => True
           | o1 :: os', r1 :: rs' => lowerso o1 r1 /\ all2 os' rs'
           | _, _ => False
           end) bs rs
  | _ => False
  end.

(* as plainq, with bodies of repeats that have at most one way to match *)
Fixpoint plaino (o : op) : Prop :=
  match o with
  | OBackref _ | ORepeat _ _ _ _ | OUnamb _ _ _ => False
  | OGFixed o' mn mx len | ORFixed o' mn mx len =>
      plaino o' /\ (0 < len)%N /\ (0 < mx)%N /\ (mn <= mx)%N
      /\ (forall p, Rop o' p = [] \/ Rop o' p = [p + N.to_nat len])
  | OCapture g o' => plaino o' /\ (hb = true -> g < K)
  | OChoice bs => (fix all l := match l with [] => True | x :: t => plaino x /\ all t end) bs
  | OSeq os => os <> [] /\ (fix all l := match l with [] => True | x :: t => plaino x /\ all t end) os
  | _ => True
  end.

Lemma one_fixed o' len : (forall p, Rop o' p = [] \/ Rop o' p = [p + N.to_nat len]) ->
  forall p q, In q (Rop o' p) -> q = p + N.to_nat len.
Proof. intros H p q Hq. destruct (H p) as [E|E]; rewrite E in Hq; [destruct Hq|destruct Hq as [<-|[]]; reflexivity]. Qed.

Lemma plaino_plainq : forall o, plaino o -> plainq input ci multi hb K o.
Proof.
  induction o using op_ind2; cbn [plaino plainq]; auto; try tauto.
  - induction H as [|x t Hx Ht IH]; intros Hall; [exact I|]. destruct Hall as [Hp Hall].
    split; [apply Hx; exact Hp|apply IH; exact Hall].
  - intros [Hne Hall]. split; [exact Hne|]. clear Hne. revert Hall.
    induction H as [|x t Hx Ht IH]; intros Hall; [exact I|]. destruct Hall as [Hp Hall].
    split; [apply Hx; exact Hp|apply IH; exact Hall].
  - intros (H1 & H2 & H3 & H4 & H5). repeat split; auto. apply one_fixed; exact H5.
  - intros (H1 & H2 & H3 & H4 & H5). repeat split; auto. apply one_fixed; exact H5.
Qed.
Lemma plaino_simple o : plaino o -> simple input ci multi hb K o.
Proof. intros H. apply plainq_simple. apply plaino_plainq. exact H. Qed.

Theorem lowerso_order : forall o, plaino o -> forall r, lowerso o r ->
  forall p e, p <= n -> map fst (R r p e) = Rop o p.
Proof.
  induction o using op_ind2; intros Hpl r Hl p e Hp; unfold R; rewrite <- (R_unnc input fl r); cbn [lowerso plaino] in Hl, Hpl;
    try contradiction.
  - (* Bol *) unfold Rop; cbn [EngineFacts.Rop]; fold n. rewrite Hl. cbn [Sem.R]. unfold bol_at. rewrite Hmulti. fold n.
    destruct (Nat.eqb p 0) eqn:E0; cbn [orb]; [reflexivity|].
    destruct multi; cbn [andb]; [|reflexivity].
    apply Nat.eqb_neq in E0. replace (Nat.ltb 0 p) with true by (symmetry; apply Nat.ltb_lt; lia). cbn [andb].
    unfold is_nl, is_lf, char_at. destruct (match nth_error input (p - 1) with Some c => N.eqb c 10 | None => false end && Nat.ltb p n); reflexivity.
  - (* Eol *) unfold Rop; cbn [EngineFacts.Rop]; fold n. rewrite Hl. cbn [Sem.R]. unfold eol_at. rewrite Hmulti. fold n.
    unfold is_nl, is_lf, char_at.
    assert (E : (Nat.eqb n 0 || Nat.leb n p) = Nat.eqb p n).
    { destruct (Nat.eqb n 0) eqn:E0; cbn [orb].
      - apply Nat.eqb_eq in E0. symmetry. apply Nat.eqb_eq. lia.
      - destruct (Nat.leb n p) eqn:E1.
        + apply Nat.leb_le in E1. symmetry. apply Nat.eqb_eq. lia.
        + apply Nat.leb_gt in E1. symmetry. apply Nat.eqb_neq. lia. }
    destruct multi; cbn [andb].
    + rewrite <- orb_assoc. rewrite orb_assoc, E.
      destruct (Nat.eqb p n || match nth_error input p with Some c => N.eqb c 10 | None => false end); reflexivity.
    + rewrite orb_false_r, E. destruct (Nat.eqb p n); reflexivity.
  - (* Nothing *) rewrite Hl. reflexivity.
  - (* End *) rewrite Hl. reflexivity.
  - (* Atom *) unfold Rop; cbn [EngineFacts.Rop]; fold n.
    destruct Hl as [Hl|(c & -> & Hl)]; rewrite Hl.
    + change (Sem.R fl input (RSeq (map RChar cs)) p e) with (seqR input fl (map RChar cs) p e).
      apply (atom_R input ci fl Hci). exact Hp.
    + pose proof (atom_R input ci fl Hci [c] p e Hp) as A. cbn [map length seqR] in A. fold n in A.
      cbn [length]. rewrite <- A.
      rewrite (map_fst_flat_map _ (fun q => [q])); [rewrite flat_map_single; reflexivity|].
      intros je _. reflexivity.
  - (* Cls *) unfold Rop; cbn [EngineFacts.Rop]; fold n.
    destruct Hl as (pr & Hpr & Hmem). rewrite (leaf_R input ci fl Hci _ _ _ _ Hpr). unfold one_charR, char_at.
    destruct (nth_error input p) as [c|] eqn:Ec; [|reflexivity]. rewrite (Hmem c (nth_error_In _ _ Ec)). destruct (pr c); reflexivity.
  - (* Capture *) unfold Rop; cbn [EngineFacts.Rop]; fold n.
    destruct Hl as (r' & Hr & Hl). rewrite Hr. destruct Hpl as [Hpl _].
    cbn [Sem.R]. rewrite map_map. cbn [fst]. apply IHo; auto.
  - (* Choice *) unfold Rop; cbn [EngineFacts.Rop]; fold n.
    destruct Hl as (rs & Hr & Hall). rewrite Hr. clear Hr r.
    change (Sem.R fl input (RAlt rs) p e) with
      ((fix go (l : list re) : list (nat * env) := match l with [] => [] | x :: t => R x p e ++ go t end) rs).
    revert rs Hall Hpl. induction H as [|x t Hx Ht IH]; intros rs Hall Hpl; destruct rs as [|r1 rs']; try contradiction.
    + reflexivity.
    + destruct Hall as [Hl1 Hall]. destruct Hpl as [Hp1 Hpl]. cbn [flat_map].
      rewrite map_app. pose proof (Hx Hp1 r1 Hl1 p e Hp) as Hx'. unfold Rop in Hx'. rewrite Hx'.
      rewrite (IH rs' Hall Hpl). reflexivity.
  - (* Seq *) unfold Rop; cbn [EngineFacts.Rop]; fold n.
    destruct Hl as (rs & Hr & Hall). rewrite Hr. clear Hr r. destruct Hpl as [Hne Hpl].
    change (Sem.R fl input (RSeq rs) p e) with (seqR input fl rs p e).
    change (map fst (seqR input fl rs p e) = seq_go input ci multi os p).
    revert rs Hall p e Hp. induction H as [|o1 t Ho1 Ht IH]; [contradiction|].
    intros rs Hall p e Hp. destruct rs as [|r1 rs']; [contradiction|]. destruct Hall as [Hl1 Hall].
    destruct Hpl as [Hp1 Hpl].
    pose proof (Ho1 Hp1 r1 Hl1) as S1.
    destruct t as [|o2 t'].
    + destruct rs'; [|contradiction]. cbn [seqR seq_go].
      rewrite (map_fst_flat_map _ (fun q => [q])); [rewrite flat_map_single; apply S1; exact Hp|].
      intros je _. reflexivity.
    + assert (Hne2 : o2 :: t' <> []) by discriminate.
      change (seqR input fl (r1 :: rs') p e) with (flat_map (fun je => seqR input fl rs' (fst je) (snd je)) (R r1 p e)).
      change (seq_go input ci multi (o1 :: o2 :: t') p)
        with (flat_map (fun q => seq_go input ci multi (o2 :: t') q) (Rop o1 p)).
      rewrite (map_fst_flat_map _ (fun q => seq_go input ci multi (o2 :: t') q)).
      * rewrite (S1 p e Hp). reflexivity.
      * intros [j e'] Hin. cbn [fst snd]. apply (IH Hne2 Hpl rs' Hall).
        assert (Hj : In j (map fst (R r1 p e))) by (apply in_map_iff; exists (j, e'); auto).
        rewrite (S1 p e Hp) in Hj.
        eapply (Rop_le_n input ci multi hb K o1 p j); eauto. apply plaino_simple; exact Hp1.
  - (* GFixed *)
    destruct Hl as (r' & Hr & Hl). rewrite Hr. destruct Hpl as (Hp1 & Hlen & Hmx & Hmn & Hone).
    apply (gfixed_order input ci multi hb K fl o r' mn mx l (plaino_simple o Hp1) Hlen Hmx Hmn Hfit Hone); auto; intros p0 e0 Hp0; apply IHo; auto.
  - (* RFixed *)
    destruct Hl as (r' & Hr & Hl). rewrite Hr. destruct Hpl as (Hp1 & Hlen & Hmx & Hmn & Hone).
    apply (rfixed_order input ci multi hb K fl o r' mn mx l (plaino_simple o Hp1) Hlen Hmx Hmn Hfit Hone); auto; intros p0 e0 Hp0; apply IHo; auto.
Qed.
End OrderQ.

(* the selected match, end to end *)
Lemma plaino_all_app input ci multi hb K (l1 l2 : list op) :
  (fix all l := match l with [] => True | x :: t => plaino input ci multi hb K x /\ all t end) l1 ->
  (fix all l := match l with [] => True | x :: t => plaino input ci multi hb K x /\ all t end) l2 ->
  (fix all l := match l with [] => True | x :: t => plaino input ci multi hb K x /\ all t end) (l1 ++ l2).
Proof. induction l1 as [|x t IH]; intros H1 H2; [exact H2|]. destruct H1 as [Hx H1]. split; [exact Hx|apply IH; auto]. Qed.
Lemma plaino_with_end input ci multi hb K o : plaino input ci multi hb K o -> plaino input ci multi hb K (make_sequence o OEnd).
Proof.
  intros Hp. destruct o; cbn [make_sequence]; try (split; [discriminate|split; [exact Hp|split; exact I]]).
  cbn [plaino] in Hp. cbn [plaino]. destruct Hp as [Hne Hall]. split.
  - destruct os; [contradiction|discriminate].
  - apply plaino_all_app; [exact Hall|]. split; exact I.
Qed.

Theorem fragmentq_selected_match prog input fl o r s :
  p_op prog = make_sequence o OEnd ->
  plaino input (p_case prog) (p_multi prog) (p_hasbackrefs prog) (p_maxparens prog) o ->
  lowerso input (p_case prog) fl o r -> s_i fl = p_case prog -> s_m fl = p_multi prog ->
  (N.of_nat (length input) < umax)%N ->
  (p_hasbol prog = false /\ p_minlen prog = 0%N /\ p_prefix prog = None /\ p_icc prog = None /\ p_pre prog = []) ->
  length (sb s) = length (eb s) ->
  match matches prog input 0 s with
  | MTrue s' => exists k q e, first_match fl input r (length input + 2) 0 = Some (k, q, e) /\ get_pend s' 0 = Some q
  | MFalse _ => first_match fl input r (length input + 2) 0 = None
  | MOut | MPanic _ => False
  end.
Proof.
  intros Hop Hpl Hl Hi Hm Hfit Hun Hs.
  assert (Hne : match o with OSeq [] => False | _ => True end).
  { destruct o; auto. destruct os; auto. cbn [plaino] in Hpl. destruct Hpl as [H _]. apply H. reflexivity. }
  assert (Hsim : simple input (p_case prog) (p_multi prog) (p_hasbackrefs prog) (p_maxparens prog) (p_op prog)).
  { rewrite Hop. apply plaino_simple. apply plaino_with_end. exact Hpl. }
  assert (E : forall m, m <= length input ->
            map fst (R fl input r m []) = Rop input (p_case prog) (p_multi prog) (p_op prog) m).
  { intros m Hm'. rewrite Hop, (Rop_with_end input (p_case prog) (p_multi prog) o m Hne).
    apply (lowerso_order input (p_case prog) (p_multi prog) (p_hasbackrefs prog) (p_maxparens prog) fl Hi Hm Hfit o Hpl r Hl m [] Hm'). }
  pose proof (matches_unopt_spec prog input Hsim Hun 0 s (Nat.le_0_l _) Hs) as M.
  destruct (matches prog input 0 s) as [s'|s'| |k0]; try contradiction.
  - destruct M as (k & q & rest & Hk & Hbefore & Hat & Hq & Hpend).
    rewrite <- (E k) in Hat by lia.
    destruct (R fl input r k []) as [|[q' e'] rest'] eqn:ER; [discriminate|].
    cbn [map fst] in Hat. injection Hat as -> _.
    exists k, q, e'. split; [|exact Hpend].
    apply (first_match_spec fl input r _ 0 k q rest' e'); try lia; auto.
    intros m Hm'. specialize (Hbefore m ltac:(lia)). rewrite <- (E m) in Hbefore by lia.
    destruct (R fl input r m []); [reflexivity|discriminate].
  - apply first_match_none. intros m Hm'. specialize (M m ltac:(lia)). rewrite <- (E m) in M by lia.
    destruct (R fl input r m []); [reflexivity|discriminate].
Qed.
