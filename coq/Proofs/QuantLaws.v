(* C20 at the level of the specification's language: the quantifier laws the property lists -
   r{1} = r, r{0} = empty, r+ = rr*, r{n,} = n copies of r followed by r*, r{n,m} = n copies of r
   followed by m-n copies of (?:r)? - hold for the denoted language (set of end positions from
   every start position), for every regular expression r without back-references, every flag set
   and every input.  They rest on QuantFacts.quant_ends_spec: r{mn,mx} ends exactly at the
   positions reachable by k rounds of r for some k between mn and mx. *)
From RX Require Import Base.Prelude Base.InvList Spec.Syntax Spec.Parse Spec.CharSet Spec.Sem.
From RX Require Import Proofs.LeafFacts Proofs.LowerFacts Proofs.QuantFacts.

Section ReInd.
Variable P : re -> Prop.
Hypothesis HChar : forall c, P (RChar c).
Hypothesis HDot : P RDot.
Hypothesis HCls : forall ce, P (RCls ce).
Hypothesis HEsc : forall e, P (REsc e).
Hypothesis HBol : P RBol.
Hypothesis HEol : P REol.
Hypothesis HBr : forall g, P (RBackref g).
Hypothesis HGroup : forall g r, P r -> P (RGroup g r).
Hypothesis HNc : forall r, P r -> P (RNc r).
Hypothesis HSeq : forall rs, Forall P rs -> P (RSeq rs).
Hypothesis HAlt : forall rs, Forall P rs -> P (RAlt rs).
Hypothesis HQuant : forall r mn mx g, P r -> P (RQuant r mn mx g).
Fixpoint re_ind2 (r : re) : P r :=
  let fix go (l : list re) : Forall P l :=
      match l with [] => Forall_nil _ | x :: t => Forall_cons _ (re_ind2 x) (go t) end in
  match r with
  | RChar c => HChar c | RDot => HDot | RCls ce => HCls ce | REsc e => HEsc e
  | RBol => HBol | REol => HEol | RBackref g => HBr g
  | RGroup g r' => HGroup g r' (re_ind2 r')
  | RNc r' => HNc r' (re_ind2 r')
  | RSeq rs => HSeq rs (go rs)
  | RAlt rs => HAlt rs (go rs)
  | RQuant r' mn mx g => HQuant r' mn mx g (re_ind2 r')
  end.
End ReInd.

(* every quantifier of r has a well-formed pair of bounds (the grammar rejects the others) *)
Fixpoint quant_wf (r : re) : Prop :=
  match r with
  | RGroup _ r' | RNc r' => quant_wf r'
  | RSeq rs | RAlt rs => (fix all l := match l with [] => True | x :: t => quant_wf x /\ all t end) rs
  | RQuant r' mn mx _ => quant_wf r' /\ match mx with Some m => (mn <= m)%N | None => True end
  | _ => True
  end.

Section L.
Variable fl : sflags.
Variable s : list N.
Let n := length s.
Let ends := ends fl s.

Definition seq_reach : list re -> nat -> nat -> Prop :=
  fix go (rs : list re) (i q : nat) : Prop :=
    match rs with
    | [] => q = i
    | r :: t => exists m, In m (ends r i) /\ go t m q
    end.

Lemma one_char_le pr i q : In q (one_char s pr i) -> q <= n.
Proof.
  unfold one_char, char_at. destruct (nth_error s i) eqn:E; [|intros []].
  destruct (pr n0); [|intros []]. intros [<-|[]]. apply nth_error_Some. congruence.
Qed.

Lemma seq_ends_set rs : forall a q, In q (seq_ends s fl rs a) <-> exists p, In p a /\ seq_reach rs p q.
Proof.
  induction rs as [|r t IH]; intros a q.
  - cbn [seq_ends seq_reach]. split; [intros H; exists q; auto|intros (p & Hp & ->); exact Hp].
  - rewrite seq_ends_cons, IH. cbn [seq_reach]. split.
    + intros (m & Hm & H). apply In_step_set in Hm. destruct Hm as (p & Hp & Hm). exists p. split; [exact Hp|]. exists m. auto.
    + intros (p & Hp & m & Hm & H). exists m. split; [|exact H]. apply In_step_set. exists p. auto.
Qed.

Lemma ends_seq rs i q : In q (ends (RSeq rs) i) <-> seq_reach rs i q.
Proof.
  change (ends (RSeq rs) i) with (seq_ends s fl rs [i]). rewrite seq_ends_set.
  split; [intros (p & [<-|[]] & H); exact H|intros H; exists i; cbn; auto].
Qed.

Lemma ends_alt rs i q : In q (ends (RAlt rs) i) <-> exists r, In r rs /\ In q (ends r i).
Proof.
  change (ends (RAlt rs) i) with
    ((fix go (l : list re) : list nat := match l with [] => [] | x :: t => set_union (ends x i) (go t) end) rs).
  induction rs as [|x t IH].
  - split; [intros []|intros (r & [] & _)].
  - rewrite In_set_union, IH. split.
    + intros [H|(r & Hr & H)]; [exists x; cbn; auto|exists r; cbn; auto].
    + intros (r & [<-|Hr] & H); [left; exact H|right; exists r; auto].
Qed.

Theorem ends_le : forall r, quant_wf r -> forall i q, i <= n -> In q (ends r i) -> q <= n.
Proof.
  induction r using re_ind2; intros Hwf i q Hi Hq; unfold ends in Hq; cbn [Sem.ends] in Hq; cbn [quant_wf] in Hwf.
  - eapply one_char_le; eauto.
  - eapply one_char_le; eauto.
  - eapply one_char_le; eauto.
  - eapply one_char_le; eauto.
  - destruct (bol_at fl s i); [destruct Hq as [<-|[]]; exact Hi|destruct Hq].
  - destruct (eol_at fl s i); [destruct Hq as [<-|[]]; exact Hi|destruct Hq].
  - destruct Hq.
  - eapply IHr; eauto.
  - eapply IHr; eauto.
  - fold (ends (RSeq rs) i) in Hq. apply ends_seq in Hq.
    revert i Hi Hq Hwf. induction H as [|x t Hx Ht IH]; intros i Hi Hq Hwf; cbn [seq_reach] in Hq; [subst; exact Hi|].
    destruct Hq as (m & Hm & Hq). destruct Hwf as [Hw1 Hw2]. apply (IH m); auto. eapply Hx; eauto.
  - fold (ends (RAlt rs) i) in Hq. apply ends_alt in Hq. destruct Hq as (r & Hr & Hq).
    revert Hwf. induction H as [|x t Hx Ht IH]; intros Hwf; [destruct Hr|].
    destruct Hwf as [Hw1 Hw2]. destruct Hr as [<-|Hr]; [eapply Hx; eauto|apply IH; auto].
  - destruct Hwf as [Hw Hb].
    assert (SL : forall p x, p <= n -> In x (Sem.ends fl s r p) -> x <= n) by (intros p x Hp Hx; eapply IHr; eauto).
    apply (quant_ends_spec s _ mn mx i q SL Hi Hb) in Hq. destruct Hq as (k & _ & _ & R).
    exact (reach_le _ n SL k i q Hi R).
Qed.

(* the meaning of a quantifier *)
Theorem ends_quant r mn mx g i q : quant_wf (RQuant r mn mx g) -> i <= n ->
  (In q (ends (RQuant r mn mx g) i)
   <-> exists k, N.to_nat mn <= k /\ match mx with Some m => k <= N.to_nat m | None => True end /\ reach (ends r) k i q).
Proof.
  intros [Hw Hb] Hi. unfold ends at 1; cbn [Sem.ends].
  apply quant_ends_spec; auto. intros p x Hp Hx. eapply ends_le; eauto.
Qed.

Definition same_lang (a b : re) : Prop := forall i q, i <= n -> (In q (ends a i) <-> In q (ends b i)).

Lemma seq_reach_app l1 l2 i q : seq_reach (l1 ++ l2) i q <-> exists m, seq_reach l1 i m /\ seq_reach l2 m q.
Proof.
  revert i. induction l1 as [|r t IH]; intros i; cbn [app seq_reach].
  - split; [intros H; exists i; auto|intros (m & -> & H); exact H].
  - split.
    + intros (m & Hm & H). apply IH in H. destruct H as (m' & H1 & H2). exists m'. split; [exists m; auto|exact H2].
    + intros (m' & (m & Hm & H1) & H2). exists m. split; [exact Hm|]. apply IH. exists m'. auto.
Qed.

Lemma seq_reach_repeat r : forall k i q, seq_reach (repeat r k) i q <-> reach (ends r) k i q.
Proof.
  induction k as [|k IH]; intros i q; cbn [repeat seq_reach reach]; [reflexivity|].
  split; intros (m & Hm & H); exists m; (split; [exact Hm|]); apply IH; exact H.
Qed.

(* r{1} = r *)
Theorem law_one r g : quant_wf r -> same_lang (RQuant r 1 (Some 1%N) g) r.
Proof.
  intros Hw i q Hi. rewrite ends_quant; [|solve [cbn [quant_wf]; repeat split; (assumption || lia)]|assumption].
  split.
  - intros (k & H1 & H2 & R). assert (k = 1) by lia. subst k. cbn [reach] in R.
    destruct R as (m & Hm & ->). exact Hm.
  - intros H. exists 1. repeat split; try lia. exists q. split; [exact H|reflexivity].
Qed.

(* r{0} = the empty regular expression *)
Theorem law_zero r g : quant_wf r -> same_lang (RQuant r 0 (Some 0%N) g) (RSeq []).
Proof.
  intros Hw i q Hi. rewrite ends_quant; [|solve [cbn [quant_wf]; repeat split; (assumption || lia)]|assumption].
  rewrite ends_seq. cbn [seq_reach]. split.
  - intros (k & H1 & H2 & R). assert (k = 0) by lia. subst k. exact R.
  - intros ->. exists 0. repeat split; lia.
Qed.

(* r{n,} = n copies of r followed by r*;  in particular r+ = rr* *)
Theorem law_at_least r (k0 : nat) g : quant_wf r ->
  same_lang (RQuant r (N.of_nat k0) None g) (RSeq (repeat r k0 ++ [RQuant r 0 None g])).
Proof.
  intros Hw i q Hi. rewrite ends_quant; [|solve [cbn [quant_wf]; repeat split; (assumption || lia)]|assumption].
  rewrite ends_seq, seq_reach_app. rewrite Nat2N.id. split.
  - intros (k & H1 & _ & R). replace k with (k0 + (k - k0)) in R by lia. apply reach_add in R.
    destruct R as (m & R1 & R2). exists m. split; [apply seq_reach_repeat; exact R1|].
    cbn [seq_reach]. exists q. split; [|reflexivity].
    assert (m <= n) by (eapply (reach_le (ends r) n); eauto; intros p x Hp Hx; eapply ends_le; eauto).
    apply ends_quant; [cbn [quant_wf]; auto|assumption|]. exists (k - k0). repeat split; [lia|exact R2].
  - intros (m & R1 & R2). apply seq_reach_repeat in R1. cbn [seq_reach] in R2. destruct R2 as (q' & Hq' & ->).
    assert (m <= n) by (eapply (reach_le (ends r) n); eauto; intros p x Hp Hx; eapply ends_le; eauto).
    apply ends_quant in Hq'; [|cbn [quant_wf]; auto|assumption]. destruct Hq' as (k & _ & _ & R2).
    exists (k0 + k). repeat split; [lia|]. apply reach_add. exists m. auto.
Qed.

Corollary law_plus r g : quant_wf r -> same_lang (RQuant r 1 None g) (RSeq [r; RQuant r 0 None g]).
Proof. intros Hw. exact (law_at_least r 1 g Hw). Qed.

(* d copies of (?:r)? : between 0 and d rounds *)
Lemma seq_reach_opts r g : quant_wf r -> forall d i q, i <= n ->
  (seq_reach (repeat (RQuant r 0 (Some 1%N) g) d) i q <-> exists k, k <= d /\ reach (ends r) k i q).
Proof.
  intros Hw. induction d as [|d IH]; intros i q Hi; cbn [repeat seq_reach].
  - split; [intros ->; exists 0; split; [lia|reflexivity]|intros (k & Hk & R); assert (k = 0) by lia; subst; exact R].
  - split.
    + intros (m & Hm & H). apply ends_quant in Hm; [|cbn [quant_wf]; split; [exact Hw|lia]|exact Hi].
      destruct Hm as (k1 & _ & Hk1 & R1). cbn in Hk1.
      assert (m <= n) by (eapply (reach_le (ends r) n); eauto; intros p x Hp Hx; eapply ends_le; eauto).
      apply IH in H; [|assumption]. destruct H as (k2 & Hk2 & R2).
      exists (k1 + k2). split; [lia|]. apply reach_add. exists m. auto.
    + intros (k & Hk & R). destruct k as [|k].
      * cbn [reach] in R. subst q. exists i. split.
        -- apply ends_quant; [cbn [quant_wf]; split; [exact Hw|lia]|exact Hi|]. exists 0. repeat split; lia.
        -- apply IH; [exact Hi|]. exists 0. split; [lia|reflexivity].
      * cbn [reach] in R. destruct R as (m & Hm & R). exists m. split.
        -- apply ends_quant; [cbn [quant_wf]; split; [exact Hw|lia]|exact Hi|]. exists 1. repeat split; try lia. exists m. split; [exact Hm|reflexivity].
        -- assert (m <= n) by (eapply ends_le; eauto).
           apply IH; [assumption|]. exists k. split; [lia|exact R].
Qed.

(* r{n,m} = n copies of r followed by m-n copies of (?:r)? *)
Theorem law_bounded r (k0 d : nat) g : quant_wf r ->
  same_lang (RQuant r (N.of_nat k0) (Some (N.of_nat (k0 + d))) g)
            (RSeq (repeat r k0 ++ repeat (RQuant r 0 (Some 1%N) g) d)).
Proof.
  intros Hw i q Hi. rewrite ends_quant; [|solve [cbn [quant_wf]; repeat split; (assumption || lia)]|assumption].
  rewrite ends_seq, seq_reach_app. rewrite !Nat2N.id. split.
  - intros (k & H1 & H2 & R). replace k with (k0 + (k - k0)) in R by lia. apply reach_add in R.
    destruct R as (m & R1 & R2). exists m. split; [apply seq_reach_repeat; exact R1|].
    assert (m <= n) by (eapply (reach_le (ends r) n); eauto; intros p x Hp Hx; eapply ends_le; eauto).
    apply seq_reach_opts; auto. exists (k - k0). split; [lia|exact R2].
  - intros (m & R1 & R2). apply seq_reach_repeat in R1.
    assert (m <= n) by (eapply (reach_le (ends r) n); eauto; intros p x Hp Hx; eapply ends_le; eauto).
    apply seq_reach_opts in R2; auto. destruct R2 as (k & Hk & R2).
    exists (k0 + k). repeat split; [lia|lia|]. apply reach_add. exists m. auto.
Qed.

(* (?:r|s)t = rt|st *)
Theorem law_distrib r1 r2 t : same_lang (RSeq [RNc (RAlt [r1; r2]); t]) (RAlt [RSeq [r1; t]; RSeq [r2; t]]).
Proof.
  intros i q Hi. rewrite ends_seq, ends_alt. cbn [seq_reach]. split.
  - intros (m & Hm & (q' & Hq' & ->)).
    change (ends (RNc (RAlt [r1; r2])) i) with (ends (RAlt [r1; r2]) i) in Hm.
    apply ends_alt in Hm. destruct Hm as (r & [<-|[<-|[]]] & Hm).
    + exists (RSeq [r1; t]). split; [left; reflexivity|]. apply ends_seq. cbn [seq_reach]. exists m. split; [exact Hm|]. exists q'. auto.
    + exists (RSeq [r2; t]). split; [right; left; reflexivity|]. apply ends_seq. cbn [seq_reach]. exists m. split; [exact Hm|]. exists q'. auto.
  - intros (r & [<-|[<-|[]]] & H); apply ends_seq in H; cbn [seq_reach] in H; destruct H as (m & Hm & (q' & Hq' & ->));
      exists m; (split; [|exists q'; auto]);
      change (ends (RNc (RAlt [r1; r2])) i) with (ends (RAlt [r1; r2]) i); apply ends_alt.
    + exists r1. split; [left; reflexivity|exact Hm].
    + exists r2. split; [right; left; reflexivity|exact Hm].
Qed.

(* without flag i: x = [x] and [xy] = (?:x|y) *)
Theorem law_char_class c : s_i fl = false -> forall i, ends (RChar c) i = ends (RCls (CGroup false [IChar c] None)) i.
Proof.
  intros Hi i. unfold ends; cbn [Sem.ends]. rewrite Hi. unfold one_char. destruct (char_at s i); [|reflexivity].
  unfold lit_eq. cbn [class_mem existsb item_mem andb]. rewrite !orb_false_r. reflexivity.
Qed.
Theorem law_class_alt x y : s_i fl = false ->
  same_lang (RCls (CGroup false [IChar x; IChar y] None)) (RNc (RAlt [RChar x; RChar y])).
Proof.
  intros Hi i q _. change (ends (RNc (RAlt [RChar x; RChar y])) i) with (ends (RAlt [RChar x; RChar y]) i).
  rewrite ends_alt. unfold ends at 1; cbn [Sem.ends]. rewrite Hi, In_one_char.
  assert (EC : forall c, class_mem false (CGroup false [IChar x; IChar y] None) c = N.eqb x c || N.eqb y c).
  { intros c. cbn [class_mem existsb item_mem andb]. rewrite !orb_false_r. reflexivity. }
  assert (EL : forall z c, lit_eq false z c = N.eqb z c) by (intros; unfold lit_eq; cbn [andb]; apply orb_false_r).
  split.
  - intros (c & Hc & Hm & ->). rewrite EC in Hm. apply orb_true_iff in Hm. destruct Hm as [Hm|Hm].
    + exists (RChar x). split; [left; reflexivity|]. unfold ends; cbn [Sem.ends]. rewrite Hi. apply In_one_char.
      exists c. rewrite EL. auto.
    + exists (RChar y). split; [right; left; reflexivity|]. unfold ends; cbn [Sem.ends]. rewrite Hi. apply In_one_char.
      exists c. rewrite EL. auto.
  - intros (r & [<-|[<-|[]]] & H); unfold ends in H; cbn [Sem.ends] in H; rewrite Hi in H; apply In_one_char in H;
      destruct H as (c & Hc & Hm & ->); rewrite EL in Hm; exists c; rewrite EC, Hm; repeat split; auto.
    apply orb_true_r.
Qed.
End L.
