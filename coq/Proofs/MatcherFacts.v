(* E5 on the unoptimised search loop: for a program without search shortcuts whose operation is in
   the fragment of EngineFacts, ReMatcher::matches never panics or runs out of fuel and reports the
   leftmost start position at which the operation has a match, with the first (highest-priority)
   end position of the pure list-of-successes function. *)
From RX Require Import Base.Prelude Base.InvList Tables.Consts Model.Case Model.Op Model.Engine Model.Matcher Model.Compiler Model.Api
     Proofs.EngineFacts.

Section M.
Variable prog : program.
Variable input : list N.
Let n := length input.
Let K := p_maxparens prog.
Let wfK := wf (p_hasbackrefs prog) K.
Let R := Rop input (p_case prog) (p_multi prog) (p_op prog).

Hypothesis Hsimple : simple input (p_case prog) (p_multi prog) (p_hasbackrefs prog) K (p_op prog).

(* states between calls: the arrays have equal lengths; match_at resets the rest itself *)
Definition wf0 (s : mstate) : Prop :=
  length (startn (cs_ s)) = length (endn (cs_ s)) /\ 1 <= length (startn (cs_ s)) /\ length (sb s) = length (eb s).

Lemma wf0_set_pend0 q s3 : wf0 s3 -> wf0 (set_pend 0 q s3) /\ get_pend (set_pend 0 q s3) 0 = Some q.
Proof.
  intros (A1 & A2 & A3).
  assert (B : 1 <= length (endn (cs_ s3))) by lia.
  pose proof (setg0_len (endn (cs_ s3)) q B) as L.
  split.
  - unfold wf0, set_pend, with_cs. cbn [cs_ startn endn sb eb]. rewrite L. auto.
  - unfold get_pend, set_pend, with_cs. cbn [cs_ endn]. rewrite L.
    replace (Nat.ltb 0 (length (endn (cs_ s3)))) with true by (symmetry; apply Nat.ltb_lt; lia).
    apply setg0_nth; auto.
Qed.

Lemma match_at_spec i s : i <= n -> wf0 s ->
  match match_at prog input i s with
  | MTrue s' => exists q rest, R i = q :: rest /\ q <= n /\ get_pend s' 0 = Some q /\ wf0 s'
  | MFalse s' => R i = [] /\ wf0 s'
  | MOut | MPanic _ => False
  end.
Proof.
  intros Hi (W1 & W2 & W3). unfold match_at.
  set (s1 := set_pstart 0 i (set_pcount 1 s)).
  set (s2 := {| cs_ := cs_ s1;
                sb := if p_hasbackrefs prog then repeat None (p_maxparens prog) else sb s1;
                eb := if p_hasbackrefs prog then repeat None (p_maxparens prog) else eb s1;
                anchored := false; hist := [] |}).
  assert (Ws2 : wfK s2).
  { unfold wfK, wf, s2, s1, set_pstart, set_pcount, with_cs. cbn [cs_ startn endn sb eb anchored pcount].
    rewrite setg0_len by auto. repeat split; auto.
    - destruct (p_hasbackrefs prog); auto.
    - intros E. rewrite E. apply repeat_length. }
  pose proof (engine_first_safe input (p_case prog) (p_multi prog) (p_hasbackrefs prog) K
                                (p_op prog) [0] i s2 Hsimple Hi Ws2) as F.
  unfold first_of in F.
  destruct (mi input (p_case prog) (p_multi prog) (p_hasbackrefs prog) (p_op prog) [0] i s2) as [s3|q s3 r| |k].
  - destruct F as [W E]. split; [exact E|].
    destruct W as (A1 & A2 & A3 & _). unfold wf0, set_pcount, with_cs. cbn. auto.
  - destruct F as (Hq & W & rest & E). exists q, rest.
    destruct W as (A1 & A2 & A3 & _).
    destruct (wf0_set_pend0 q s3 (conj A1 (conj A2 A3))) as [Wp Gp].
    repeat split; auto; apply Wp.
  - contradiction.
  - contradiction.
Qed.

Lemma try_from_spec : forall fuel j s, j + fuel <= n + 1 -> wf0 s ->
  match try_from prog input fuel j (fun _ => true) s with
  | MTrue s' => exists k q rest, j <= k < j + fuel /\ (forall m, j <= m < k -> R m = [])
                                /\ R k = q :: rest /\ q <= n /\ get_pend s' 0 = Some q
  | MFalse s' => forall m, j <= m < j + fuel -> R m = []
  | MOut | MPanic _ => False
  end.
Proof.
  induction fuel as [|f IH]; intros j s Hj Ws; cbn [try_from].
  - intros m Hm. lia.
  - pose proof (match_at_spec j s ltac:(lia) Ws) as M.
    destruct (match_at prog input j s) as [s'|s'| |k]; try contradiction.
    + destruct M as (q & rest & E & Hq & Hp & _).
      exists j, q, rest. repeat split; auto; try lia.
    + destruct M as [E Ws'].
      specialize (IH (S j) s' ltac:(lia) Ws').
      destruct (try_from prog input f (S j) (fun _ => true) s') as [s''|s''| |k]; try contradiction.
      * destruct IH as (k & q & rest & Hk & Hbefore & Ek & Hq & Hp).
        exists k, q, rest. repeat split; auto; try lia.
        intros m Hm. destruct (Nat.eq_dec m j) as [->|]; auto. apply Hbefore. lia.
      * intros m Hm. destruct (Nat.eq_dec m j) as [->|]; auto. apply IH. lia.
Qed.

Hypothesis Hunopt : p_hasbol prog = false /\ p_minlen prog = 0%N /\ p_prefix prog = None
                    /\ p_icc prog = None /\ p_pre prog = [].

Theorem matches_unopt_spec i s_in : i <= n -> length (sb s_in) = length (eb s_in) ->
  match matches prog input i s_in with
  | MTrue s' => exists k q rest, i <= k <= n /\ (forall m, i <= m < k -> R m = [])
                                /\ R k = q :: rest /\ q <= n /\ get_pend s' 0 = Some q
  | MFalse _ => forall m, i <= m <= n -> R m = []
  | MOut | MPanic _ => False
  end.
Proof.
  intros Hi Hsb. destruct Hunopt as (U1 & U2 & U3 & U4 & U5).
  unfold matches. rewrite U1, U2, U3, U4, U5. fold n.
  replace (Nat.ltb n i) with false by (symmetry; apply Nat.ltb_ge; lia).
  replace (N.ltb (N.of_nat (n - i)) 0) with false by (symmetry; apply N.ltb_ge; lia).
  cbn [check_pre].
  assert (Ws : wf0 (with_cs cs0 s_in)).
  { unfold wf0, with_cs, cs0. cbn [cs_ startn endn sb eb]. rewrite !repeat_length.
    unfold capture_initial_len. repeat split; auto. }
  pose proof (try_from_spec (n + 1 - i) i _ ltac:(lia) Ws) as T.
  destruct (try_from prog input (n + 1 - i) i (fun _ => true) (with_cs cs0 s_in)) as [s'|s'| |k]; try contradiction.
  - destruct T as (k & q & rest & Hk & Hb & E & Hq & Hp). exists k, q, rest. repeat split; auto; lia.
  - intros m Hm. apply T. lia.
Qed.
End M.
