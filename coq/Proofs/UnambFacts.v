(* C08, the replacement of a backtracking repetition by a non-backtracking one: when no position at
   which the repeated term matches can start a match of what follows (semantic disjointness), the
   sequence gives exactly the same results - as lists, so also the same selected match - whether the
   fixed-length repeat is the backtracking GreedyFixed / ReluctantFixed or the UnambiguousRepeat,
   which consumes the maximum and never gives back. *)
From RX Require Import Base.Prelude Base.InvList.
From RX Require Import Tables.Consts Model.Case Model.Op Model.Engine Model.Matcher Model.Api.
From RX Require Import Proofs.EngineFacts Proofs.LeafFacts Proofs.LowerFacts Proofs.QuantFacts Proofs.QuantLaws
     Proofs.FixedFacts Proofs.OrderFixed.
From Coq Require Import Sorting.Sorted.
Transparent gf_probeR int_stepR rf_minR rf_moreR un_probeR.

Section Abs.
Variable body : nat -> list nat.
Variable n leng : nat.
Hypothesis Hleng : 0 < leng.
Hypothesis Hone : forall p, body p = [] \/ body p = [p + leng].
Hypothesis Hle : forall p q, p <= n -> In q (body p) -> q <= n.

Lemma Hfix0 : forall p q, In q (body p) -> q = p + leng.
Proof. intros p q H. destruct (Hone p) as [E|E]; rewrite E in H; [destruct H|destruct H as [<-|[]]; reflexivity]. Qed.

(* the non-backtracking probe: as many copies as match in a row, at most max *)
Lemma un_probe_spec mx : forall fuel pc m, pc <= n -> n - pc < fuel ->
  exists d, un_probeR body mx n fuel pc m = Some (pc + d * leng, m + d)
            /\ (forall j, j < d -> hit body (pc + j * leng) /\ (N.of_nat (m + j) < mx)%N)
            /\ pc + d * leng <= n
            /\ ((N.of_nat (m + d) >= mx)%N \/ ~ hit body (pc + d * leng)).
Proof.
  induction fuel as [|f IH]; intros pc m Hpc Hf; [lia|]. cbn [un_probeR]. unfold nlt.
  destruct (N.ltb (N.of_nat m) mx) eqn:El; cbn [andb].
  - apply N.ltb_lt in El. replace (Nat.leb pc n) with true by (symmetry; apply Nat.leb_le; lia).
    destruct (Hone pc) as [E|E]; rewrite E.
    + exists 0. replace (pc + 0 * leng) with pc by lia. replace (m + 0) with m by lia.
      split; [reflexivity|]. split; [intros j Hj; lia|]. split; [lia|]. right. unfold hit. rewrite E. intros H; apply H; reflexivity.
    + assert (Hqn : pc + leng <= n) by (apply (Hle pc); [exact Hpc|rewrite E; left; reflexivity]).
      assert (Hh : hit body pc) by (unfold hit; rewrite E; discriminate).
      destruct (IH (pc + leng) (S m) Hqn ltac:(lia)) as (d & Ed & H1 & H2 & H3). rewrite Ed.
      exists (S d). replace (pc + leng + d * leng) with (pc + S d * leng) by lia. replace (S m + d) with (m + S d) by lia.
      split; [reflexivity|]. split; [|split; [lia|]].
      * intros [|j] Hj.
        -- replace (pc + 0 * leng) with pc by lia. replace (m + 0) with m by lia. auto.
        -- replace (pc + S j * leng) with (pc + leng + j * leng) by lia. replace (m + S j) with (S m + j) by lia. apply H1. lia.
      * replace (m + S d) with (S m + d) by lia. replace (pc + S d * leng) with (pc + leng + d * leng) by lia. exact H3.
  - apply N.ltb_ge in El. exists 0. replace (pc + 0 * leng) with pc by lia. replace (m + 0) with m by lia.
    split; [reflexivity|]. split; [intros j Hj; lia|]. split; [lia|]. left. lia.
Qed.

(* a list all of whose members but one contribute nothing *)
Lemma flat_map_only {A} (F : nat -> list A) h : forall L, NoDup L -> In h L ->
  (forall x, In x L -> x <> h -> F x = []) -> flat_map F L = F h.
Proof.
  induction L as [|x t IH]; intros Hnd Hin Hz; [destruct Hin|]. cbn [flat_map].
  apply NoDup_cons_iff in Hnd. destruct Hnd as [Hx Hnd].
  destruct Hin as [->|Hin].
  - assert (E : flat_map F t = []).
    { clear IH. induction t as [|y t' IHt]; [reflexivity|]. cbn [flat_map].
      rewrite (Hz y); [|right; left; reflexivity|intros ->; apply Hx; left; reflexivity].
      apply IHt.
      - intros H. apply Hx. right; exact H.
      - apply NoDup_cons_iff in Hnd. apply Hnd.
      - intros z Hz' Hne. apply Hz; [destruct Hz' as [->|Hz']; [left; reflexivity|right; right; exact Hz']|exact Hne]. }
    rewrite E. apply app_nil_r.
  - rewrite (Hz x); [|left; reflexivity|intros ->; contradiction]. cbn [app]. apply IH; auto.
    intros z Hz' Hne. apply Hz; [right; exact Hz'|exact Hne].
Qed.
Lemma flat_map_none {A} (F : nat -> list A) : forall L, (forall x, In x L -> F x = []) -> flat_map F L = [].
Proof. induction L as [|x t IH]; intros H; [reflexivity|]. cbn [flat_map]. rewrite (H x), IH; auto; [intros y Hy; apply H; right; exact Hy|left; reflexivity]. Qed.
End Abs.

Lemma sorted_gt_nodup l : StronglySorted gt l -> NoDup l.
Proof.
  induction l as [|x t IH]; intros H; [constructor|]. apply StronglySorted_inv in H. destruct H as [Ht Hx].
  constructor; [|apply IH; exact Ht]. intros Hin. rewrite Forall_forall in Hx. specialize (Hx x Hin). lia.
Qed.
Lemma sorted_lt_nodup l : StronglySorted lt l -> NoDup l.
Proof.
  induction l as [|x t IH]; intros H; [constructor|]. apply StronglySorted_inv in H. destruct H as [Ht Hx].
  constructor; [|apply IH; exact Ht]. intros Hin. rewrite Forall_forall in Hx. specialize (Hx x Hin). lia.
Qed.

Section U.
Variable input : list N.
Variable ci multi hb : bool.
Variable K : nat.
Let n := length input.
Let Rop := Rop input ci multi.
Variable o' : op.
Variable mn mx len : N.
Let leng := N.to_nat len.
Hypothesis Hsim : simple input ci multi hb K o'.
Hypothesis Hlen : (0 < len)%N.
Hypothesis Hmx : (0 < mx)%N.
Hypothesis Hmn : (mn <= mx)%N.
Hypothesis Hfit : (N.of_nat n < umax)%N.
Hypothesis Hone : forall p, Rop o' p = [] \/ Rop o' p = [p + leng].

(* what follows the repeat, as a function from positions to results, and semantic disjointness:
   it has no result from a position where the repeated term matches *)
Variable A : Type.
Variable F : nat -> list A.
Hypothesis HF : forall q, q <= n -> hit (Rop o') q -> F q = [].

Let Hl : 0 < leng. Proof. unfold leng. lia. Qed.
Let Hle0 : forall p q, p <= n -> In q (Rop o' p) -> q <= n.
Proof. intros p q Hp H. eapply (Rop_le_n input ci multi hb K o' p q); eauto. Qed.
Let Hfix1 : forall p q, In q (Rop o' p) -> q = p + leng.
Proof. apply (Hfix0 (Rop o') leng Hone). Qed.

(* membership of either backtracking repeat, in terms of the probe's count d *)
Lemma members_below_d p d : p <= n ->
  (forall j, j < d -> hit (Rop o') (p + j * leng) /\ (N.of_nat j < mx)%N) ->
  ((N.of_nat d >= mx)%N \/ ~ hit (Rop o') (p + d * leng)) ->
  forall q, (exists k, N.to_nat mn <= k /\ (N.of_nat k <= mx)%N /\ reach (Rop o') k p q)
            <-> exists k, N.to_nat mn <= k /\ k <= d /\ q = p + k * leng.
Proof.
  intros Hp Hh Hstop q. pose proof (reach_fixed (Rop o') leng Hl Hfix1) as RF. split.
  - intros (k & Hk1 & Hk2 & R). apply RF in R. destruct R as [-> Hk]. exists k. split; [exact Hk1|]. split; [|reflexivity].
    destruct (Nat.le_gt_cases k d) as [|Hgt]; [assumption|exfalso].
    destruct Hstop as [Hs|Hs]; [lia|]. apply Hs. apply Hk. exact Hgt.
  - intros (k & Hk1 & Hk2 & ->). exists k. split; [exact Hk1|]. split.
    + destruct k as [|k]; [lia|]. destruct (Hh k ltac:(lia)) as [_ H]. lia.
    + apply RF. split; [reflexivity|]. intros j Hj. apply Hh. lia.
Qed.

Theorem unamb_same_results (greedy : bool) p : p <= n ->
  flat_map F (Rop (if greedy then OGFixed o' mn mx len else ORFixed o' mn mx len) p)
  = flat_map F (Rop (OUnamb o' mn mx) p).
Proof.
  intros Hp.
  destruct (un_probe_spec (Rop o') n leng Hl Hone Hle0 mx (n + 5) p 0 Hp ltac:(lia)) as (d & E & Hh & Hdn & Hstop).
  cbn [Nat.add] in *.
  assert (EU : Rop (OUnamb o' mn mx) p = if nlt d mn then [] else [p + d * leng]).
  { unfold Rop. cbn [EngineFacts.Rop]. fold n. fold Rop. rewrite E. reflexivity. }
  rewrite EU.
  set (L := Rop (if greedy then OGFixed o' mn mx len else ORFixed o' mn mx len) p).
  assert (Hmem : forall q, In q L <-> exists k, N.to_nat mn <= k /\ k <= d /\ q = p + k * leng).
  { intros q. rewrite <- (members_below_d p d Hp Hh Hstop q). unfold L. destruct greedy.
    - apply (gfixed_reach input ci multi hb K o' mn mx len Hsim Hlen Hfix1 Hmx Hfit p q Hp).
    - apply (rfixed_reach input ci multi hb K o' mn mx len Hsim Hlen Hfix1 Hmx Hfit p q Hmn Hp). }
  assert (Hnd : NoDup L).
  { unfold L. destruct greedy.
    - apply sorted_gt_nodup. unfold Rop. cbn [EngineFacts.Rop]. fold n. fold Rop.
      destruct (Nat.leb _ p && N.ltb 0 mn); [constructor|].
      destruct (gf_probeR (Rop o') (N.to_nat len) mx _ (n + 5) p 0) as [[p' m]|]; [|constructor].
      destruct (nlt m mn); [constructor|]. apply int_step_sorted. exact Hl.
    - apply sorted_lt_nodup. unfold Rop. cbn [EngineFacts.Rop]. fold n. fold Rop.
      destruct (rf_minR (Rop o') mn (n + 5) 0 p) as [[[c q0]|]|]; try constructor.
      destruct (rf_moreR (Rop o') mx (n + 5) c q0) as [l|] eqn:El; [|constructor].
      destruct (rf_more_sorted (Rop o') leng mx Hl Hone _ _ _ _ El) as [S0 L0].
      constructor; [exact S0|]. apply Forall_forall. exact L0. }
  unfold nlt. destruct (N.ltb (N.of_nat d) mn) eqn:Ed.
  - apply N.ltb_lt in Ed. cbn [flat_map]. apply flat_map_none.
    intros x Hx. apply Hmem in Hx. destruct Hx as (k & Hk1 & Hk2 & _). lia.
  - apply N.ltb_ge in Ed. cbn [flat_map]. rewrite app_nil_r.
    apply flat_map_only; [exact Hnd| |].
    + apply Hmem. exists d. split; [lia|]. split; [lia|reflexivity].
    + intros x Hx Hne. apply Hmem in Hx. destruct Hx as (k & Hk1 & Hk2 & ->).
      assert (k < d) by (destruct (Nat.eq_dec k d); [subst; contradiction|lia]).
      apply HF; [|apply Hh; assumption].
      assert (p + k * leng <= p + d * leng) by nia. lia.
Qed.
End U.

(* in a sequence: the repeat, then at least one more term *)
From RX Require Import Proofs.FragmentSpec.

Theorem seq_unamb_same input ci multi hb K c mn mx len nxt rest (greedy : bool) p :
  let n := length input in
  let Rop := Rop input ci multi in
  simple input ci multi hb K c -> (0 < len)%N -> (0 < mx)%N -> (mn <= mx)%N -> (N.of_nat n < umax)%N ->
  (forall p, Rop c p = [] \/ Rop c p = [p + N.to_nat len]) ->
  (forall q, q <= n -> hit (Rop c) q -> seq_go input ci multi (nxt :: rest) q = []) ->
  p <= n ->
  Rop (OSeq ((if greedy then OGFixed c mn mx len else ORFixed c mn mx len) :: nxt :: rest)) p
  = Rop (OSeq (OUnamb c mn mx :: nxt :: rest)) p.
Proof.
  intros n Rop Hsim Hlen Hmx Hmn Hfit Hone HF Hp.
  change (Rop (OSeq ((if greedy then OGFixed c mn mx len else ORFixed c mn mx len) :: nxt :: rest)) p)
    with (flat_map (fun q => seq_go input ci multi (nxt :: rest) q)
                   (Rop (if greedy then OGFixed c mn mx len else ORFixed c mn mx len) p)).
  change (Rop (OSeq (OUnamb c mn mx :: nxt :: rest)) p)
    with (flat_map (fun q => seq_go input ci multi (nxt :: rest) q) (Rop (OUnamb c mn mx) p)).
  apply (unamb_same_results input ci multi hb K c mn mx len Hsim Hlen Hmx Hmn Hfit Hone _ _ HF greedy p Hp).
Qed.

(* ---------- from the compiler's decision to semantic disjointness (leaf followers) ---------- *)
From RX Require Import Proofs.InvListFacts Proofs.DisjointFacts.

Section Decide.
Variable input : list N.
Variable multi hb : bool.
Variable K : nat.
Let n := length input.
Let Rop := Rop input false multi.      (* case-sensitive matching *)
(* a Rust string holds Unicode scalar values only *)
Hypothesis Hscalar : forall p ch, nth_error input p = Some ch -> is_scalar ch = true.

(* the repeated term: one character, or one character of a set *)
Definition single (c : op) : Prop :=
  match c with OCls s => InvList.wf s = true | OAtom [x] => (x <= max_cp)%N | _ => False end.
(* the term that follows: a literal, a class, or '$' *)
Definition leaf_follower (o : op) : Prop :=
  match o with OCls s => InvList.wf s = true | OAtom (y :: _) => (y <= max_cp)%N | OEol => True | _ => False end.
Definition char_follower (o : op) : Prop :=
  match o with OCls s => InvList.wf s = true | OAtom (y :: _) => (y <= max_cp)%N | _ => False end.

Lemma single_one c : single c -> forall p, Rop c p = [] \/ Rop c p = [p + N.to_nat 1].
Proof.
  intros Hc p. destruct c as [| | | |cs|st| | | | | | | |]; try contradiction.
  - destruct cs as [|x [|? ?]]; try contradiction. unfold Rop. cbn [EngineFacts.Rop length].
    destruct (Nat.ltb _ _); [left; reflexivity|]. destruct (starts_with _ _ _); [right|left]; reflexivity.
  - unfold Rop. cbn [EngineFacts.Rop]. destruct (nth_error input p) as [ch|]; [|left; reflexivity].
    destruct (mem st ch); [right; f_equal; lia|left; reflexivity].
Qed.

Lemma skipn_head (l : list N) p : skipn p l = match nth_error l p with Some c => c :: skipn (S p) l | None => [] end.
Proof. revert p. induction l as [|x t IH]; intros [|p]; cbn [skipn nth_error]; try reflexivity. rewrite IH. destruct (nth_error t p); reflexivity. Qed.

(* a match of a single-character term, or of a leaf, starts with a character of its first set *)
Lemma first_char_in o p : (single o \/ char_follower o) -> Rop o p <> [] ->
  exists ch, nth_error input p = Some ch /\ mem (icc false o) ch = true.
Proof.
  intros Ho Hne. destruct o as [| | | |cs|st| | | | | | | |]; try (destruct Ho; contradiction).
  - (* Atom *)
    assert (Hy : exists y t, cs = y :: t /\ (y <= max_cp)%N).
    { destruct Ho as [Ho|Ho]; cbn in Ho; destruct cs as [|y t]; try contradiction; [destruct t; [|contradiction]|]; eauto. }
    destruct Hy as (y & t & -> & Hy). unfold Rop in Hne. cbn [EngineFacts.Rop] in Hne.
    destruct (Nat.ltb _ _); [contradiction|]. rewrite skipn_head in Hne.
    destruct (nth_error input p) as [ch|]; [|cbn in Hne; contradiction].
    cbn [starts_with] in Hne. unfold ceq in Hne.
    destruct (N.eqb y ch) eqn:E; [|cbn in Hne; contradiction]. apply N.eqb_eq in E. subst ch.
    exists y. split; [reflexivity|]. cbn [icc]. rewrite mem_add_char by reflexivity. rewrite N.eqb_refl. reflexivity.
  - (* Cls *)
    unfold Rop in Hne. cbn [EngineFacts.Rop] in Hne. destruct (nth_error input p) as [ch|]; [|contradiction].
    destruct (mem st ch) eqn:E; [|contradiction]. exists ch. split; [reflexivity|exact E].
Qed.

Lemma classic_follower nxt : leaf_follower nxt -> char_follower nxt \/ nxt = OEol.
Proof. destruct nxt as [| | | |cs|st| | | | | | | |]; cbn; try contradiction; auto. Qed.

Theorem no_ambiguity_leaf_sound c nxt reluctant : single c -> leaf_follower nxt ->
  no_ambiguity c nxt false reluctant = true ->
  forall q, hit (Rop c) q -> Rop nxt q = [].
Proof.
  intros Hc Hn Hna q Hh.
  destruct (first_char_in c q (or_introl Hc) Hh) as (ch & Hch & Hm1).
  destruct (classic_follower nxt Hn) as [Hcf|Heol].
  - assert (Hd : is_disjoint disjoint_threshold (icc false c) (icc false nxt) = true).
    { unfold no_ambiguity in Hna. destruct nxt as [| | | |cs|st| | | | | | | |]; try contradiction.
      - destruct cs as [|y t]; [contradiction|]. exact Hna.
      - exact Hna. }
    destruct (Rop nxt q) eqn:E; [reflexivity|exfalso].
    destruct (first_char_in nxt q (or_intror Hcf)) as (ch' & Hch' & Hm2); [rewrite E; discriminate|].
    rewrite Hch in Hch'. injection Hch' as <-.
    pose proof (is_disjoint_sound _ _ _ ch Hd (Hscalar q ch Hch) Hm2). congruence.
  - (* '$' : the repeated term does not match a newline, and a match of it is not at the end *)
    subst nxt. unfold no_ambiguity in Hna. apply negb_true_iff in Hna.
    assert (Hq : q < n) by (apply nth_error_Some; congruence).
    assert (Hnl : ch <> 10%N) by (intros ->; congruence).
    unfold Rop. cbn [EngineFacts.Rop]. fold n. unfold is_nl. rewrite Hch.
    replace (Nat.eqb n 0) with false by (symmetry; apply Nat.eqb_neq; lia).
    replace (Nat.leb n q) with false by (symmetry; apply Nat.leb_gt; lia).
    replace (N.eqb ch 10) with false by (symmetry; apply N.eqb_neq; exact Hnl).
    destruct multi; reflexivity.
Qed.

(* the optimiser's rewriting step, on the results: a counted repeat of a single-character term
   followed by a literal or class the compiler judges disjoint *)
Theorem unambiguous_replacement c mn mx nxt rest (greedy : bool) p :
  single c -> leaf_follower nxt ->
  no_ambiguity c nxt false (negb greedy) = true ->
  (0 < mx)%N -> (mn <= mx)%N -> (N.of_nat n < umax)%N -> p <= n ->
  Rop (OSeq ((if greedy then OGFixed c mn mx 1 else ORFixed c mn mx 1) :: nxt :: rest)) p
  = Rop (OSeq (OUnamb c mn mx :: nxt :: rest)) p.
Proof.
  intros Hc Hn Hna Hmx Hmn Hfit Hp.
  assert (Hsim : simple input false multi hb K c).
  { destruct c; try contradiction; exact I. }
  apply (seq_unamb_same input false multi hb K c mn mx 1%N nxt rest greedy p Hsim); auto; try lia.
  - apply single_one. exact Hc.
  - intros q Hq Hh. pose proof (no_ambiguity_leaf_sound c nxt (negb greedy) Hc Hn Hna q Hh) as E.
    fold Rop in E. destruct rest as [|r1 rest']; cbn [seq_go]; fold Rop; rewrite E; reflexivity.
Qed.
End Decide.
