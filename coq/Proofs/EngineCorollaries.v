(* Projections of E5 (MatcherFacts) used by the property files, and a non-vacuity instance. *)
From RX Require Import Base.Prelude Base.InvList Tables.Consts Model.Case Model.Op Model.Engine Model.Matcher
     Model.Compiler Model.Api Proofs.EngineFacts Proofs.MatcherFacts.

Section C.
Variable prog : program.
Variable input : list N.
Let n := length input.
Let R := Rop input (p_case prog) (p_multi prog) (p_op prog).
Hypothesis Hsimple : simple input (p_case prog) (p_multi prog) (p_hasbackrefs prog) (p_maxparens prog) (p_op prog).
Hypothesis Hunopt : p_hasbol prog = false /\ p_minlen prog = 0%N /\ p_prefix prog = None
                    /\ p_icc prog = None /\ p_pre prog = [].

Theorem fragment_no_panic_no_out i s : i <= n -> length (sb s) = length (eb s) ->
  match matches prog input i s with MTrue _ | MFalse _ => True | MOut | MPanic _ => False end.
Proof.
  intros Hi Hs. pose proof (matches_unopt_spec prog input Hsimple Hunopt i s Hi Hs) as M.
  destruct (matches prog input i s); auto.
Qed.

Theorem fragment_is_match_iff i s : i <= n -> length (sb s) = length (eb s) ->
  (exists s', matches prog input i s = MTrue s') <-> (exists m, i <= m <= n /\ R m <> []).
Proof.
  intros Hi Hs. pose proof (matches_unopt_spec prog input Hsimple Hunopt i s Hi Hs) as M. fold R in M.
  destruct (matches prog input i s) as [s'|s'| |k]; try contradiction.
  - destruct M as (k & q & rest & Hk & _ & E & _). split; [|eauto].
    intros _. exists k. split; auto. rewrite E. discriminate.
  - split; [intros [s'' H]; discriminate|].
    intros (m & Hm & Hne). exfalso. apply Hne. apply M; auto.
Qed.

Theorem fragment_leftmost_first i s s' : i <= n -> length (sb s) = length (eb s) ->
  matches prog input i s = MTrue s' ->
  exists k q rest, i <= k <= n /\ (forall m, i <= m < k -> R m = []) /\ R k = q :: rest
                   /\ q <= n /\ get_pend s' 0 = Some q.
Proof.
  intros Hi Hs E. pose proof (matches_unopt_spec prog input Hsimple Hunopt i s Hi Hs) as M. fold R in M.
  rewrite E in M. exact M.
Qed.
End C.

(* non-vacuity: the unoptimised program of [ab](?:c|dd)x is in the fragment *)
Definition ex_prog : program :=
  mk_program_unopt [] (OSeq [OCls [(97, 98)%N]; OChoice [OAtom [99%N]; OAtom [100%N; 100%N]]; OAtom [120%N]; OEnd])
                   1 false false false false.
Example ex_simple input : simple input false false false 1 (p_op ex_prog).
Proof. cbn. repeat split; auto; discriminate. Qed.
Example ex_unopt : p_hasbol ex_prog = false /\ p_minlen ex_prog = 0%N /\ p_prefix ex_prog = None
                   /\ p_icc ex_prog = None /\ p_pre ex_prog = [].
Proof. repeat split. Qed.
Example ex_runs : exists s', matches ex_prog [122; 98; 100; 100; 120]%N 0 st0 = MTrue s'.
Proof. vm_compute. eexists. reflexivity. Qed.
