(* The compiler on the smallest sub-grammar, from the pattern string: a non-empty pattern made of
   ordinary characters only (none of \ [ ] ( ) { } | . ^ $ ? * +) compiles, in both dialects and under any
   of the flags i m s, to the program of the literal - the very program flag q gives (only the
   field that tells replace_all / analyze "literal" differs).  So everything proved about literal
   programs (Proofs/LiteralFacts.v, Proofs/LiteralApi.v) holds for such patterns without flag q,
   end to end from the pattern text. *)
From RX Require Import Base.Prelude Base.InvList Tables.Consts Model.Case Model.Op Model.Engine Model.Matcher
     Model.Compiler.

Definition metachars : list N := [92; 91; 93; 40; 41; 123; 125; 124; 46; 94; 36; 63; 42; 43]%N.
Definition ordinary (c : N) : bool := negb (existsb (N.eqb c) metachars).

Lemma ordinary_tests c : ordinary c = true ->
  (c =? c_bslash = false /\ c =? c_lbrack = false /\ c =? c_rbrack = false /\ c =? c_lparen = false
   /\ c =? c_rparen = false /\ c =? c_lbrace = false /\ c =? c_rbrace = false /\ c =? c_bar = false
   /\ c =? c_dot = false /\ c =? c_caret = false /\ c =? c_dollar = false /\ c =? c_qmark = false
   /\ c =? c_star = false /\ c =? c_plus = false)%N.
Proof.
  unfold ordinary, metachars, c_bslash, c_lbrack, c_rbrack, c_lparen, c_rparen, c_lbrace, c_rbrace, c_bar, c_dot,
    c_caret, c_dollar, c_qmark, c_star, c_plus. cbn [existsb]. intros H. apply negb_true_iff in H.
  repeat (apply orb_false_iff in H; destruct H as [? H]). repeat split; assumption.
Qed.

Lemma ordinary_not_quant c : ordinary c = true -> is_quant c = false.
Proof.
  intros H. destruct (ordinary_tests c H) as (_ & _ & _ & _ & _ & H6 & _ & _ & _ & _ & _ & H12 & H13 & H14).
  unfold is_quant. rewrite H6, H12, H13, H14. reflexivity.
Qed.

Lemma skipn_cons_nth {A} (l : list A) i c : nth_error l i = Some c -> skipn i l = c :: skipn (S i) l.
Proof.
  revert i. induction l as [|x t IH]; intros [|i] E; cbn in *; try discriminate.
  - injection E as ->. reflexivity.
  - apply IH. exact E.
Qed.

Lemma set_idx_same st : set_idx (idx st) st = st.
Proof. destruct st. reflexivity. Qed.

Section P.
Variable pat : list N.
Variable xpath ci single : bool.
Let len := length pat.
Hypothesis Hord : forallb ordinary pat = true.

Lemma ord_at i c : nth_error pat i = Some c -> ordinary c = true.
Proof. intros H. apply nth_error_In in H. rewrite forallb_forall in Hord. apply Hord. exact H. Qed.

Lemma is_at_ord i c : existsb (N.eqb c) metachars = true -> is_at pat i c = false.
Proof.
  intros Hc. unfold is_at, at_. destruct (nth_error pat i) as [x|] eqn:E; [|reflexivity].
  pose proof (ord_at i x E) as Ho. unfold ordinary in Ho. apply negb_true_iff in Ho.
  destruct (N.eqb_spec x c) as [->|]; [congruence|reflexivity].
Qed.

(* the atom scanner runs to the end of the pattern *)
Lemma atom_loop_ord : forall fuel st ub, len - idx st < fuel -> idx st <= len ->
  atom_loop pat xpath fuel st ub = Ok (rev (skipn (idx st) pat) ++ ub, set_idx len st).
Proof.
  induction fuel as [|f IH]; intros st ub Hf Hi; [lia|]. cbn [atom_loop]. fold len.
  destruct (Nat.leb len (idx st)) eqn:L.
  - apply Nat.leb_le in L. assert (E : idx st = len) by lia.
    rewrite skipn_all2 by (fold len; lia). cbn [rev app]. rewrite <- E, set_idx_same. reflexivity.
  - apply Nat.leb_gt in L.
    destruct (nth_error pat (idx st)) as [ch|] eqn:Ech; [|apply nth_error_None in Ech; fold len in Ech; lia].
    pose proof (ord_at _ _ Ech) as Oc. destruct (ordinary_tests ch Oc) as (T1 & T2 & T3 & T4 & T5 & T6 & T7 & T8 & T9 & T10 & T11 & T12 & T13 & T14).
    assert (Hb : is_at pat (idx st) c_bslash = false) by (apply is_at_ord; reflexivity).
    assert (Tail : (match at_ pat (idx st) with
              | None => Panic 35
              | Some ch0 =>
                  if (ch0 =? c_rbrack) || (ch0 =? c_dot) || (ch0 =? c_lbrack) || (ch0 =? c_lparen)
                     || (ch0 =? c_rparen) || (ch0 =? c_bar) then Ok (ub, st)
                  else if is_quant ch0 then match ub with [] => Err ESyntax | _ => Ok (ub, st) end
                  else if ch0 =? c_rbrace then Err ESyntax
                  else if ch0 =? c_bslash then
                    '(e, st') <- escape pat xpath false st ;;
                    match e with
                    | EChar c => atom_loop pat xpath f st' (c :: ub)
                    | _ => Ok (ub, {| idx := idx st; parens := parens st'; bmin := bmin st'; bmax := bmax st';
                                      captures := captures st'; hasbr := hasbr st' |})
                    end
                  else if ((ch0 =? c_caret) || (ch0 =? c_dollar)) && xpath then Ok (ub, st)
                  else atom_loop pat xpath f (adv 1 st) (ch0 :: ub)
              end)%N = Ok (rev (skipn (idx st) pat) ++ ub, set_idx len st)).
    { unfold at_. rewrite Ech, T3, T9, T2, T4, T5, T8. cbn [orb].
      rewrite (ordinary_not_quant ch Oc), T7, T1, T10, T11. cbn [orb andb].
      rewrite IH by (unfold adv, set_idx; cbn [idx]; lia).
      unfold adv, set_idx. cbn [idx parens bmin bmax captures hasbr].
      f_equal. f_equal.
      rewrite (skipn_cons_nth _ _ _ Ech). cbn [rev]. replace (idx st + 1) with (S (idx st)) by lia.
      rewrite <- app_assoc. reflexivity. }
    destruct (Nat.ltb (idx st + 1) len) eqn:L1.
    + apply Nat.ltb_lt in L1. unfold at_ at 1.
      destruct (nth_error pat (idx st + 1)) as [c|] eqn:Ec; [|apply nth_error_None in Ec; fold len in Ec; lia].
      rewrite Hb. cbn [rbind]. rewrite (ordinary_not_quant c (ord_at _ _ Ec)). cbn [andb]. exact Tail.
    + cbn [rbind]. exact Tail.
Qed.

Hypothesis Hne : pat <> [].

Lemma parse_atom_ord st : idx st = 0 ->
  parse_atom pat xpath st = Ok (OAtom pat, set_idx len st).
Proof.
  intros H0. unfold parse_atom. fold len. rewrite atom_loop_ord by lia. cbn [rbind].
  rewrite H0. cbn [skipn]. rewrite app_nil_r.
  destruct (rev pat) as [|x t] eqn:E.
  - exfalso. apply Hne. rewrite <- (rev_involutive pat), E. reflexivity.
  - rewrite <- E, rev_involutive. reflexivity.
Qed.

Lemma len_pos : 0 < len.
Proof. unfold len. destruct pat; [contradiction Hne; reflexivity|cbn; lia]. Qed.

(* one-step unfoldings of the mutually recursive parser *)
Lemma piece_S f st : piece pat xpath ci single (S f) st
  = ('(ret, st') <- parse_terminal pat xpath ci single f st ;; quantify pat xpath ret st').
Proof. reflexivity. Qed.
Lemma branch_loop_S f st cur : branch_loop pat xpath ci single (S f) st cur
  = if Nat.ltb (idx st) (length pat) && negb (is_at pat (idx st) c_bar) && negb (is_at pat (idx st) c_rparen) then
      '(o, st') <- piece pat xpath ci single f st ;;
      branch_loop pat xpath ci single f st' (Some (match cur with Some c => make_sequence c o | None => o end))
    else Ok (cur, st).
Proof. reflexivity. Qed.
Lemma parse_branch_S f st : parse_branch pat xpath ci single (S f) st
  = ('(cur, st') <- branch_loop pat xpath ci single f st None ;;
     Ok (match cur with Some c => c | None => ONothing end, st')).
Proof. reflexivity. Qed.
Lemma branches_loop_S f st acc : branches_loop pat xpath ci single (S f) st acc
  = if Nat.ltb (idx st) (length pat) && is_at pat (idx st) c_bar then
      '(b, st') <- parse_branch pat xpath ci single f (adv 1 st) ;;
      branches_loop pat xpath ci single f st' (b :: acc)
    else Ok (acc, st).
Proof. reflexivity. Qed.
Lemma parse_expr_top_S f st : parse_expr pat xpath ci single (S f) true st
  = ('(b, st1) <- parse_branch pat xpath ci single f st ;;
     '(branches, st2) <- branches_loop pat xpath ci single f st1 [b] ;;
     Ok (make_sequence (match branches with [x] => x | _ => OChoice (rev branches) end) OEnd, st2)).
Proof. cbn [parse_expr negb rbind]. reflexivity. Qed.

Theorem parse_expr_ord fuel : 5 <= fuel ->
  parse_expr pat xpath ci single fuel true st_init = Ok (OSeq [OAtom pat; OEnd], set_idx len st_init).
Proof.
  intros Hf. pose proof len_pos as Lp.
  destruct fuel as [|[|[|[|[|f]]]]]; try lia.
  destruct (nth_error pat 0) as [c|] eqn:Ec; [|apply nth_error_None in Ec; fold len in Ec; lia].
  pose proof (ord_at _ _ Ec) as Oc.
  destruct (ordinary_tests c Oc) as (T1 & T2 & T3 & T4 & T5 & T6 & T7 & T8 & T9 & T10 & T11 & T12 & T13 & T14).
  assert (Term : parse_terminal pat xpath ci single (S f) st_init = Ok (OAtom pat, set_idx len st_init)).
  { cbn [parse_terminal]. unfold at_. cbn [idx st_init]. rewrite Ec, T11, T10, T9, T2, T4, T5, T8, T3.
    rewrite (ordinary_not_quant c Oc), T1. cbn [andb]. apply parse_atom_ord. reflexivity. }
  assert (Piece : piece pat xpath ci single (S (S f)) st_init = Ok (OAtom pat, set_idx len st_init)).
  { rewrite piece_S, Term. cbn [rbind]. unfold quantify. fold len. cbn [set_idx idx].
    rewrite Nat.leb_refl. reflexivity. }
  assert (BL : branch_loop pat xpath ci single (S (S (S f))) st_init None = Ok (Some (OAtom pat), set_idx len st_init)).
  { rewrite branch_loop_S. fold len. cbn [idx st_init].
    replace (Nat.ltb 0 len) with true by (symmetry; apply Nat.ltb_lt; lia).
    rewrite (is_at_ord 0 c_bar), (is_at_ord 0 c_rparen) by reflexivity. cbn [negb andb].
    rewrite Piece. cbn [rbind].
    rewrite branch_loop_S. fold len. cbn [set_idx idx]. rewrite Nat.ltb_irrefl. reflexivity. }
  rewrite parse_expr_top_S, parse_branch_S, BL. cbn [rbind].
  rewrite branches_loop_S. fold len. cbn [set_idx idx]. rewrite Nat.ltb_irrefl. cbn [andb rbind rev app].
  reflexivity.
Qed.
End P.

(* the whole compiler on an ordinary pattern: the literal's program *)
Theorem compile_ordinary unopt fl pat :
  f_literal fl = false -> f_ws fl = false -> forallb ordinary pat = true -> pat <> [] ->
  compile unopt fl pat
  = Ok ((if unopt then mk_program_unopt else mk_program) pat (OSeq [OAtom pat; OEnd]) 1%nat
          (f_case fl) (f_multi fl) false false).
Proof.
  intros Hq Hx Ho Hne. unfold compile. rewrite Hq, Hx.
  rewrite parse_expr_ord by (auto; lia). cbn [rbind set_idx idx st_init parens hasbr].
  rewrite Nat.eqb_refl. cbn [negb]. destruct unopt; reflexivity.
Qed.

(* flag x on an ordinary pattern only removes the whitespace characters *)
Lemma strip_ws_ordinary pat : forallb ordinary pat = true ->
  strip_ws pat 0%Z false = filter (fun c => negb (is_x_ws c)) pat.
Proof.
  induction pat as [|c t IH]; intros H; [reflexivity|]. cbn [forallb] in H. apply andb_true_iff in H as [Hc Ht].
  destruct (ordinary_tests c Hc) as (T1 & T2 & T3 & _).
  cbn [strip_ws filter]. rewrite T1, T2, T3. cbn [andb negb Z.eqb].
  destruct (is_x_ws c); cbn [negb]; rewrite IH by exact Ht; reflexivity.
Qed.

Lemma forallb_filter {A} (f g : A -> bool) l : forallb f l = true -> forallb f (filter g l) = true.
Proof.
  induction l as [|x t IH]; intros H; [reflexivity|]. cbn [forallb] in H. apply andb_true_iff in H as [Hx Ht].
  cbn [filter]. destruct (g x); [cbn [forallb]; rewrite Hx|]; apply IH; exact Ht.
Qed.

Theorem compile_ordinary_x unopt fl pat :
  f_literal fl = false -> f_ws fl = true -> forallb ordinary pat = true ->
  filter (fun c => negb (is_x_ws c)) pat <> [] ->
  compile unopt fl pat
  = Ok ((if unopt then mk_program_unopt else mk_program) (filter (fun c => negb (is_x_ws c)) pat)
          (OSeq [OAtom (filter (fun c => negb (is_x_ws c)) pat); OEnd]) 1%nat (f_case fl) (f_multi fl) false false).
Proof.
  intros Hq Hx Ho Hne. unfold compile. rewrite Hq, Hx, (strip_ws_ordinary pat Ho).
  rewrite parse_expr_ord by (auto using forallb_filter; lia). cbn [rbind set_idx idx st_init parens hasbr].
  rewrite Nat.eqb_refl. cbn [negb]. destruct unopt; reflexivity.
Qed.

(* non-vacuity *)
Example ordinary_abc : forallb ordinary [97; 98; 45; 99]%N = true /\ [97; 98; 45; 99]%N <> [].
Proof. split; [reflexivity|discriminate]. Qed.
