(* E4 on the quantifier-free fragment: the positions the engine yields for an operation tree are
   exactly the end positions of the specification's set semantics for the regular expression the
   tree was lowered from.  [lowers o r] relates an operation tree to a regular expression without
   mentioning the compiler: leaves correspond when their character predicates agree, sequences and
   alternations member by member, a Capture to a group, and (?: ) is transparent.  Together with
   E5 (MatcherFacts) this gives C01 on the fragment: is_match is true exactly when some substring
   of the input belongs to the language the pattern denotes. *)
From RX Require Import Base.Prelude Base.InvList.
From RX Require Import Spec.Syntax Spec.Parse Spec.CharSet Spec.Sem.
From RX Require Import Tables.Consts Model.Case Model.Op Model.Engine Model.Matcher Model.Api.
From RX Require Import Proofs.EngineFacts Proofs.LeafFacts.

(* ---------- sets of positions as lists: membership facts ---------- *)
Lemma existsb_In j l : existsb (Nat.eqb j) l = true <-> In j l.
Proof.
  rewrite existsb_exists. split.
  - intros (x & Hx & E). apply Nat.eqb_eq in E. subst. exact Hx.
  - intros H. exists j. split; [exact H|apply Nat.eqb_refl].
Qed.

Lemma In_insert j x l : In j (insert x l) <-> j = x \/ In j l.
Proof.
  rewrite <- existsb_In, in_insert, orb_true_iff, Nat.eqb_eq, existsb_In. reflexivity.
Qed.
Lemma In_set_union j a b : In j (set_union a b) <-> In j a \/ In j b.
Proof.
  rewrite <- !existsb_In, in_set_union, orb_true_iff. reflexivity.
Qed.
Lemma In_step_set step q a : In q (step_set step a) <-> exists p, In p a /\ In q (step p).
Proof.
  unfold step_set. induction a as [|x t IH]; cbn [fold_right].
  - split; [intros []|intros (p & [] & _)].
  - rewrite In_set_union, IH. split.
    + intros [H|(p & Hp & H)]; [exists x; cbn; auto|exists p; cbn; auto].
    + intros (p & [<-|Hp] & H); [left; exact H|right; exists p; auto].
Qed.

Fixpoint unnc (r : re) : re := match r with RNc r' => unnc r' | _ => r end.

Section Lower.
Variable input : list N.
Variable ci multi hb : bool.
Variable K : nat.
Variable fl : sflags.
Hypothesis Hci : s_i fl = ci.
Hypothesis Hmulti : s_m fl = multi.
Let n := length input.
Let Rop := Rop input ci multi.
Let ends := ends fl input.

Lemma ends_unnc r i : ends (unnc r) i = ends r i.
Proof. induction r; cbn [unnc]; try reflexivity. exact IHr. Qed.

(* the character predicate of a one-character regular expression *)
Definition leaf_pred (r : re) : option (N -> bool) :=
  match r with
  | RChar c => Some (lit_eq ci c)
  | RDot => Some (dot_mem fl)
  | RCls ce => Some (class_mem ci ce)
  | REsc e => Some (esc_mem e)
  | _ => None
  end.

Lemma leaf_ends r pr i : leaf_pred r = Some pr -> ends r i = one_char input pr i.
Proof.
  destruct r; cbn [leaf_pred]; intros [= <-]; unfold ends; cbn [Sem.ends]; rewrite ?Hci; reflexivity.
Qed.

Fixpoint lowers (o : op) (r : re) {struct o} : Prop :=
  match o with
  | OAtom cs => unnc r = RSeq (map RChar cs) \/ (exists c, cs = [c] /\ unnc r = RChar c)
  | OCls set => exists pr, leaf_pred (unnc r) = Some pr /\ forall c, In c input -> mem set c = pr c
  | OBol => unnc r = RBol
  | OEol => unnc r = REol
  | ONothing | OEnd => unnc r = RSeq []
  | OCapture g o' => exists r', unnc r = RGroup g r' /\ lowers o' r'
  | OSeq os =>
      exists rs, unnc r = RSeq rs /\
        (fix all2 (os : list op) (rs : list re) : Prop :=
           match os, rs with
           | [], [] => True
           | o1 :: os', r1 :: rs' => lowers o1 r1 /\ all2 os' rs'
           | _, _ => False
           end) os rs
  | OChoice bs =>
      exists rs, unnc r = RAlt rs /\
        (fix all2 (os : list op) (rs : list re) : Prop :=
           match os, rs with
           | [], [] => True
           | o1 :: os', r1 :: rs' => lowers o1 r1 /\ all2 os' rs'
           | _, _ => False
           end) bs rs
  | _ => False
  end.

(* the fragment: no repetition operations at all *)
Fixpoint plain (o : op) : Prop :=
  match o with
  | OBackref _ | ORepeat _ _ _ _ | OGFixed _ _ _ _ | ORFixed _ _ _ _ | OUnamb _ _ _ => False
  | OCapture g o' => plain o' /\ (hb = true -> g < K)
  | OChoice bs => (fix all l := match l with [] => True | x :: t => plain x /\ all t end) bs
  | OSeq os => os <> [] /\ (fix all l := match l with [] => True | x :: t => plain x /\ all t end) os
  | _ => True
  end.

Lemma plain_simple : forall o, plain o -> simple input ci multi hb K o.
Proof.
  induction o using op_ind2; cbn [plain simple]; auto; try tauto.
  - induction H as [|x t Hx Ht IH]; intros Hall; [exact I|]. destruct Hall as [Hp Hall]. split; [apply Hx; exact Hp|apply IH; exact Hall].
  - intros [Hne Hall]. split; [exact Hne|]. clear Hne. revert Hall.
    induction H as [|x t Hx Ht IH]; intros Hall; [exact I|]. destruct Hall as [Hp Hall]. split; [apply Hx; exact Hp|apply IH; exact Hall].
Qed.

Lemma Rop_le_n o p q : simple input ci multi hb K o -> p <= n -> In q (Rop o p) -> q <= n.
Proof.
  intros Hs Hp Hin.
  set (s := {| cs_ := cs0; sb := repeat None K; eb := repeat None K; anchored := false; hist := [] |}).
  assert (W : wf hb K s).
  { unfold wf, s, cs0. cbn. rewrite !repeat_length. unfold capture_initial_len. repeat split; auto. }
  pose proof (engine_yields_Rop input ci multi hb K o Hs [0] p s Hp W) as Y.
  eapply YW_in; eauto.
Qed.

(* the specification's sequence loop *)
Definition seq_ends (rs : list re) (a : list nat) : list nat :=
  (fix go (l : list re) (a : list nat) : list nat :=
     match l with
     | [] => a
     | x :: t => go t (step_set (ends x) a)
     end) rs a.
Lemma seq_ends_cons x t a : seq_ends (x :: t) a = seq_ends t (step_set (ends x) a).
Proof. reflexivity. Qed.
Lemma seq_ends_nil_set rs : seq_ends rs [] = [].
Proof. induction rs as [|x t IH]; [reflexivity|]. rewrite seq_ends_cons. cbn [step_set fold_right]. exact IH. Qed.

Lemma In_one_char pr p q : In q (one_char input pr p) <-> exists c, nth_error input p = Some c /\ pr c = true /\ q = S p.
Proof.
  unfold one_char, char_at. destruct (nth_error input p) as [c|].
  - destruct (pr c) eqn:E.
    + split; [intros [<-|[]]; eauto|intros (c' & [= <-] & _ & ->); left; reflexivity].
    + split; [intros []|intros (c' & [= <-] & E' & _); congruence].
  - split; [intros []|intros (c' & E & _); discriminate].
Qed.

Lemma skipn_nth (l : list N) p : skipn p l = match nth_error l p with Some c => c :: skipn (S p) l | None => [] end.
Proof.
  revert p. induction l as [|x t IH]; intros [|p]; cbn [skipn nth_error]; try reflexivity.
  rewrite IH. destruct (nth_error t p); reflexivity.
Qed.

(* a literal: the characters one after the other *)
Lemma atom_ends : forall cs p q, p <= n ->
  (In q (seq_ends (map RChar cs) [p])
   <-> (p + length cs <= n /\ starts_with (ceq ci) cs (skipn p input) = true /\ q = p + length cs)).
Proof.
  induction cs as [|c cs IH]; intros p q Hp; cbn [map length].
  - cbn [seq_ends starts_with]. split; [intros [<-|[]]; repeat split; lia|intros (_ & _ & ->); left; lia].
  - rewrite seq_ends_cons. cbn [step_set fold_right].
    assert (E : set_union (ends (RChar c) p) [] = ends (RChar c) p).
    { unfold ends; cbn [Sem.ends]. unfold one_char. destruct (char_at input p); [|reflexivity].
      destruct (lit_eq (s_i fl) c n0); reflexivity. }
    rewrite E. unfold ends at 1; cbn [Sem.ends]. rewrite Hci.
    rewrite (skipn_nth input p). unfold one_char, char_at.
    destruct (nth_error input p) as [x|] eqn:En.
    + assert (p < n) by (apply nth_error_Some; congruence).
      cbn [starts_with]. rewrite ceq_lit_eq.
      destruct (lit_eq ci c x); cbn [andb].
      * rewrite IH by lia. split; intros (H1 & H2 & H3); repeat split; auto; lia.
      * rewrite seq_ends_nil_set. split; [intros []|intros (_ & H2 & _); discriminate].
    + rewrite seq_ends_nil_set. cbn [starts_with].
      split; [intros []|intros (_ & H2 & _); discriminate].
Qed.

Theorem lowers_ends : forall o, plain o -> forall r, lowers o r ->
  forall p q, p <= n -> (In q (Rop o p) <-> In q (ends r p)).
Proof.
  induction o using op_ind2; intros Hpl r Hl p q Hp; rewrite <- (ends_unnc r); cbn [lowers plain] in Hl, Hpl;
    try contradiction; unfold Rop; cbn [EngineFacts.Rop]; fold n.
  - (* Bol *) rewrite Hl. unfold ends; cbn [Sem.ends]. unfold bol_at. rewrite Hmulti. fold n.
    destruct (Nat.eqb p 0) eqn:E0; cbn [orb]; [reflexivity|].
    destruct multi; cbn [andb]; [|reflexivity].
    apply Nat.eqb_neq in E0. replace (Nat.ltb 0 p) with true by (symmetry; apply Nat.ltb_lt; lia). cbn [andb].
    unfold is_nl, is_lf, char_at. reflexivity.
  - (* Eol *) rewrite Hl. unfold ends; cbn [Sem.ends]. unfold eol_at. rewrite Hmulti. fold n.
    unfold is_nl, is_lf, char_at.
    destruct multi; cbn [andb].
    + destruct (Nat.eqb n 0) eqn:E0; cbn [orb].
      * apply Nat.eqb_eq in E0. assert (p = 0) by lia. subst p. rewrite E0. cbn. reflexivity.
      * destruct (Nat.leb n p) eqn:E1; cbn [orb].
        -- apply Nat.leb_le in E1. assert (p = n) by lia. subst p. rewrite Nat.eqb_refl. reflexivity.
        -- apply Nat.leb_gt in E1. replace (Nat.eqb p n) with false by (symmetry; apply Nat.eqb_neq; lia). reflexivity.
    + rewrite orb_false_r. destruct (Nat.eqb n 0) eqn:E0; cbn [orb].
      * apply Nat.eqb_eq in E0. assert (p = 0) by lia. subst p. rewrite E0. reflexivity.
      * destruct (Nat.leb n p) eqn:E1.
        -- apply Nat.leb_le in E1. assert (p = n) by lia. subst p. rewrite Nat.eqb_refl. reflexivity.
        -- apply Nat.leb_gt in E1. replace (Nat.eqb p n) with false by (symmetry; apply Nat.eqb_neq; lia). reflexivity.
  - (* Nothing *) rewrite Hl. reflexivity.
  - (* End *) rewrite Hl. reflexivity.
  - (* Atom *)
    destruct Hl as [Hl|(c & -> & Hl)]; rewrite Hl.
    + change (ends (RSeq (map RChar cs)) p) with (seq_ends (map RChar cs) [p]).
      rewrite atom_ends by exact Hp.
      destruct (Nat.ltb n (p + length cs)) eqn:E.
      * apply Nat.ltb_lt in E. split; [intros []|intros (H1 & _); lia].
      * apply Nat.ltb_ge in E. destruct (starts_with (ceq ci) cs (skipn p input)).
        -- split; [intros [<-|[]]; auto|intros (_ & _ & ->); left; reflexivity].
        -- split; [intros []|intros (_ & H2 & _); discriminate].
    + pose proof (atom_ends [c] p q Hp) as A. cbn [map length] in A.
      assert (E : seq_ends [RChar c] [p] = ends (RChar c) p).
      { rewrite seq_ends_cons. cbn [step_set fold_right seq_ends].
        unfold ends; cbn [Sem.ends]. unfold one_char. destruct (char_at input p); [|reflexivity].
        destruct (lit_eq (s_i fl) c n0); reflexivity. }
      rewrite E in A. rewrite A. cbn [length].
      destruct (Nat.ltb n (p + 1)) eqn:E1.
      * apply Nat.ltb_lt in E1. split; [intros []|intros (H1 & _); lia].
      * apply Nat.ltb_ge in E1. destruct (starts_with (ceq ci) [c] (skipn p input)).
        -- split; [intros [<-|[]]; auto|intros (_ & _ & ->); left; reflexivity].
        -- split; [intros []|intros (_ & H2 & _); discriminate].
  - (* Cls *)
    destruct Hl as (pr & Hpr & Hmem). rewrite (leaf_ends _ _ _ Hpr). unfold one_char, char_at.
    destruct (nth_error input p) as [c|] eqn:Ec; [|reflexivity]. rewrite (Hmem c (nth_error_In _ _ Ec)). reflexivity.
  - (* Capture *)
    destruct Hl as (r' & Hr & Hl). rewrite Hr. destruct Hpl as [Hpl _].
    change (ends (RGroup g r') p) with (ends r' p). apply IHo; auto.
  - (* Choice *)
    destruct Hl as (rs & Hr & Hall). rewrite Hr. clear Hr r.
    change (ends (RAlt rs) p) with
      ((fix go (l : list re) : list nat := match l with [] => [] | x :: t => set_union (ends x p) (go t) end) rs).
    revert rs Hall Hpl. induction H as [|x t Hx Ht IH]; intros rs Hall Hpl; destruct rs as [|r1 rs']; try contradiction.
    + reflexivity.
    + destruct Hall as [Hl1 Hall]. destruct Hpl as [Hp1 Hpl]. cbn [flat_map].
      pose proof (Hx Hp1 r1 Hl1 p q Hp) as Hx'. unfold Rop in Hx'.
      rewrite in_app_iff, In_set_union, Hx', (IH rs' Hall Hpl). reflexivity.
  - (* Seq *)
    destruct Hl as (rs & Hr & Hall). rewrite Hr. clear Hr r. destruct Hpl as [Hne Hpl].
    change (ends (RSeq rs) p) with (seq_ends rs [p]).
    set (go := fix go (os : list op) (p : nat) : list nat :=
                 match os with
                 | [] => []
                 | [o1] => Rop o1 p
                 | o1 :: os' => flat_map (fun q => go os' q) (Rop o1 p)
                 end).
    change (In q (go os p) <-> In q (seq_ends rs [p])).
    (* over a set of start positions *)
    assert (G : forall rs, (fix all2 (os : list op) (rs : list re) : Prop :=
                              match os, rs with
                              | [], [] => True
                              | o1 :: os', r1 :: rs' => lowers o1 r1 /\ all2 os' rs'
                              | _, _ => False
                              end) os rs ->
                forall a, (forall x, In x a -> x <= n) ->
                  ((exists p0, In p0 a /\ In q (go os p0)) <-> In q (seq_ends rs a))).
    { clear rs Hall p Hp. induction H as [|o1 t Ho1 Ht IH]; [contradiction|].
      intros rs Hall a Ha. destruct rs as [|r1 rs']; [contradiction|]. destruct Hall as [Hl1 Hall].
      destruct Hpl as [Hp1 Hpl]. rewrite seq_ends_cons.
      assert (S1 : forall p0 m, p0 <= n -> (In m (Rop o1 p0) <-> In m (ends r1 p0))) by (intros; apply Ho1; auto).
      destruct t as [|o2 t'].
      - destruct rs'; [|contradiction]. cbn [seq_ends go]. rewrite In_step_set.
        split; intros (p0 & Hp0 & Hq); exists p0; (split; [exact Hp0|]); apply (S1 p0 q (Ha p0 Hp0)); exact Hq.
      - assert (Hne2 : o2 :: t' <> []) by discriminate.
        assert (Ha' : forall x, In x (step_set (ends r1) a) -> x <= n).
        { intros x Hx. apply In_step_set in Hx. destruct Hx as (p0 & Hp0 & Hx).
          apply (S1 p0 x (Ha p0 Hp0)) in Hx.
          eapply (Rop_le_n o1 p0 x); eauto. apply plain_simple; exact Hp1. }
        rewrite <- (IH Hne2 Hpl rs' Hall _ Ha').
        change (go (o1 :: o2 :: t')) with (fun p0 => flat_map (fun q0 => go (o2 :: t') q0) (Rop o1 p0)).
        split.
        + intros (p0 & Hp0 & Hq). apply in_flat_map in Hq. destruct Hq as (m & Hm & Hq).
          exists m. split; [|exact Hq]. apply In_step_set. exists p0. split; [exact Hp0|].
          apply (S1 p0 m (Ha p0 Hp0)). exact Hm.
        + intros (m & Hm & Hq). apply In_step_set in Hm. destruct Hm as (p0 & Hp0 & Hm).
          exists p0. split; [exact Hp0|]. apply in_flat_map. exists m. split; [|exact Hq].
          apply (S1 p0 m (Ha p0 Hp0)). exact Hm. }
    rewrite <- (G rs Hall [p]).
    + split; [intros Hq; exists p; cbn; auto|intros (p0 & [<-|[]] & Hq); exact Hq].
    + intros x [<-|[]]. exact Hp.
Qed.
End Lower.
