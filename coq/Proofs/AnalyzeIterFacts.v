(* S* for AnalyzeIter::next: over an abstract match function with the interface of a regex that
   cannot match empty, and an abstract tree builder whose leaves concatenate to the text it is
   given (AnalyzeFacts proves that of the event walk), the texts of all entries, in order,
   concatenate to the input; there are at most 2*len+1 of them; the iterator is fused. *)
From RX Require Import Base.Prelude Model.Engine Model.Matcher Model.Api Model.Run Proofs.ScanFacts Proofs.AnalyzeFacts Proofs.AnalyzeTreeFacts.

Section A.
Variable matchf : nat -> mstate -> mres.
Variable proc : mstate -> list N -> res (list mentry).
Variable input : list N.
Let n := length input.
(* an invariant of the matcher state (trivial in the wrappers below) *)
Variable Inv : mstate -> Prop.
Hypothesis G : good_step_on matchf input Inv.
(* what the tree builder needs of the matcher state it is given (for process_matching_substring:
   the recorded groups lie inside the match, see pms_text below) *)
Variable P : mstate -> Prop.
Hypothesis GP : forall pos s s', pos <= n -> Inv s -> matchf pos s = MTrue s' -> P s'.
Hypothesis Hproc : forall s a b v, P s -> get_pstart s 0 = Some a -> get_pend s 0 = Some b -> a < b -> b <= n ->
  proc s (slice input a b) = Ok v -> vtext v = slice input a b.

Definition atext (e : aentry) : list N := match e with AMatch v => vtext v | ANon t => t end.

Fixpoint an_all (fuel : nat) (st : anst) : res (list aentry) :=
  match fuel with
  | O => Out
  | S f =>
      match an_next_gen matchf proc input st with
      | Ok (None, _) => Ok []
      | Ok (Some e, st') => l <- an_all f st' ;; Ok (e :: l)
      | Err e => Err e
      | Panic k => Panic k
      | Out => Out
      end
  end.

Lemma an_all_S f st :
  an_all (S f) st = match an_next_gen matchf proc input st with
                    | Ok (None, _) => Ok []
                    | Ok (Some e, st') => l <- an_all f st' ;; Ok (e :: l)
                    | Err e => Err e
                    | Panic k => Panic k
                    | Out => Out
                    end.
Proof. reflexivity. Qed.

Lemma firstn_add {A} (l : list A) : forall x y, firstn (x + y) l = firstn x l ++ firstn y (skipn x l).
Proof.
  induction l as [|h t IH]; intros [|x] y; cbn [firstn skipn Nat.add app]; try reflexivity.
  - destruct y; reflexivity.
  - rewrite IH. reflexivity.
Qed.
Lemma skipn_add {A} (l : list A) : forall x y, skipn x (skipn y l) = skipn (x + y) l.
Proof.
  induction l as [|h t IH]; intros x [|y]; rewrite ?Nat.add_0_r; cbn [skipn]; try reflexivity.
  - destruct x; reflexivity.
  - rewrite IH. replace (x + S y) with (S (x + y)) by lia. reflexivity.
Qed.
Lemma slice_app a b c : a <= b -> b <= c -> c <= n -> slice input a b ++ slice input b c = slice input a c.
Proof.
  intros H1 H2 H3. unfold slice.
  replace (c - a) with ((b - a) + (c - b)) by lia.
  rewrite firstn_add, skipn_add. replace (b - a + a) with b by lia. reflexivity.
Qed.
Lemma slice_to_end a : a <= n -> slice input a n = skipn a input.
Proof. intros H. unfold slice. apply firstn_all2. rewrite skipn_length. fold n. lia. Qed.

(* state after a NonMatch that precedes a match: the match text is pending *)
Definition pending (st : anst) (a b : nat) : Prop :=
  a_next st = Some (slice input a b) /\ (exists pe, a_prev st = Some pe) /\ get_pend (a_ms st) 0 = Some b
  /\ get_pstart (a_ms st) 0 = Some a /\ P (a_ms st) /\ Inv (a_ms st)
  /\ a_skip st = false /\ a < b /\ b <= n.

Definition searching (st : anst) (pe : nat) : Prop :=
  a_next st = None /\ a_prev st = Some pe /\ a_skip st = false /\ pe <= n /\ Inv (a_ms st).

Theorem an_all_text : forall fuel st l, an_all fuel st = Ok l ->
  (forall pe, searching st pe -> flat_map atext l = skipn pe input /\ length l <= 2 * (n - pe) + 1)
  /\ (forall a b, pending st a b -> flat_map atext l = skipn a input /\ length l <= 2 * (n - b) + 2).
Proof.
  induction fuel as [|f IH]; intros st l H; [discriminate|].
  rewrite an_all_S in H. split.
  - (* searching state *)
    intros pe (Hn & Hp & Hs & Hpe & Hinv).
    unfold an_next_gen in H. rewrite Hp, Hn, Hs in H. cbn [andb] in H.
    pose proof (G pe (a_ms st) Hpe Hinv) as Gp.
    pose proof (GP pe (a_ms st)) as Gq.
    destruct (matchf pe (a_ms st)) as [s1|s1| |e]; cbn [mres_bool rbind] in H; try contradiction.
    + specialize (Gq s1 Hpe Hinv eq_refl). destruct Gp as [(a & b & Ha & Hb & H1 & H2 & H3) Hinv1]. rewrite Ha, Hb in H.
      replace (Nat.eqb a b) with false in H by (symmetry; apply Nat.eqb_neq; lia).
      destruct (Nat.eqb pe a) eqn:Epa.
      * apply Nat.eqb_eq in Epa. subst a.
        rewrite rslice_ok in H by lia. cbn [rbind analyze_entry] in H.
        destruct (proc s1 (slice input pe b)) as [v| | |] eqn:Ev; cbn [rbind] in H; try discriminate.
        set (st' := {| a_next := None; a_prev := Some b; a_skip := false; a_ms := s1 |}) in H.
        destruct (an_all f st') as [l'| | |] eqn:El; cbn [rbind] in H; try discriminate.
        injection H as <-.
        destruct (IH st' l' El) as [IH1 _].
        destruct (IH1 b ltac:(unfold searching, st'; cbn; repeat split; auto)) as [T L].
        cbn [flat_map atext length]. rewrite (Hproc _ _ _ _ Gq Ha Hb ltac:(lia) H3 Ev), T.
        split; [|lia].
        rewrite <- (slice_to_end b) by lia. rewrite slice_app by lia. apply slice_to_end. lia.
      * apply Nat.eqb_neq in Epa.
        rewrite !rslice_ok in H by lia. cbn [rbind analyze_entry] in H.
        set (st' := {| a_next := Some (slice input a b); a_prev := Some pe; a_skip := false; a_ms := s1 |}) in H.
        destruct (an_all f st') as [l'| | |] eqn:El; cbn [rbind] in H; try discriminate.
        injection H as <-.
        destruct (IH st' l' El) as [_ IH2].
        destruct (IH2 a b ltac:(unfold pending, st'; cbn; repeat split; eauto)) as [T L].
        cbn [flat_map atext length]. rewrite T. split; [|lia].
        rewrite <- (slice_to_end a) by lia. rewrite slice_app by lia. apply slice_to_end. lia.
    + (* no further match *)
      fold n in H. destruct (Nat.ltb pe n) eqn:Lt.
      * apply Nat.ltb_lt in Lt. rewrite rslice_ok in H by lia. cbn [rbind] in H.
        set (st' := {| a_next := None; a_prev := None; a_skip := a_skip st; a_ms := s1 |}) in H.
        destruct f as [|f']; [discriminate|]. rewrite an_all_S in H. unfold an_next_gen in H. cbn [st' a_prev rbind] in H.
        injection H as <-. cbn [flat_map atext length app]. rewrite app_nil_r. split; [apply slice_to_end; lia|lia].
      * apply Nat.ltb_ge in Lt. injection H as <-. cbn. assert (pe = n) by lia. subst pe.
        rewrite skipn_all2 by (fold n; lia). split; [reflexivity|lia].
  - (* the pending match is emitted *)
    intros a b (Hnx & (pe & Hp) & Hpend & Hpst & HP & Hinv & Hsk & Hab & Hb).
    unfold an_next_gen in H. rewrite Hp, Hnx in H. rewrite Hpend in H. cbn [analyze_entry] in H.
    destruct (proc (a_ms st) (slice input a b)) as [v| | |] eqn:Ev; cbn [rbind] in H; try discriminate.
    set (st' := {| a_next := None; a_prev := Some b; a_skip := a_skip st; a_ms := a_ms st |}) in H.
    destruct (an_all f st') as [l'| | |] eqn:El; cbn [rbind] in H; try discriminate.
    injection H as <-.
    destruct (IH st' l' El) as [IH1 _].
    destruct (IH1 b ltac:(unfold searching, st'; cbn; repeat split; auto)) as [T L].
    cbn [flat_map atext length]. rewrite (Hproc _ _ _ _ HP Hpst Hpend Hab Hb Ev), T. split; [|lia].
    rewrite <- (slice_to_end b) by lia. rewrite slice_app by lia. apply slice_to_end. lia.
Qed.

(* from the state Regex::analyze starts the iterator in *)
Corollary analyze_partition_on fuel s l : Inv s ->
  an_all fuel {| a_next := None; a_prev := Some 0; a_skip := false; a_ms := s |} = Ok l ->
  flat_map atext l = input /\ length l <= 2 * n + 1.
Proof.
  intros Hinv H. destruct (an_all_text _ _ _ H) as [H1 _].
  destruct (H1 0) as [T L]; [unfold searching; cbn; repeat split; auto; lia|].
  cbn [skipn] in T. split; [exact T|lia].
Qed.

(* once next() has returned None it keeps returning None *)
Lemma an_fused st st' : an_next_gen matchf proc input st = Ok (None, st') ->
  an_next_gen matchf proc input st' = Ok (None, st').
Proof.
  unfold an_next_gen at 1. intros H.
  assert (E : a_prev st' = None).
  { destruct (a_prev st) as [pe|] eqn:Ep; [|injection H as <-; exact Ep].
    destruct (a_next st) as [sub|].
    - unfold analyze_entry in H. destruct (get_pend (a_ms st) 0).
      + destruct (proc (a_ms st) sub); cbn [rbind] in H; discriminate.
      + cbn [rbind] in H. discriminate.
    - destruct (a_skip st && Nat.leb (length input) (if a_skip st then S pe else pe) && negb (Nat.ltb pe (length input))).
      + injection H as <-. reflexivity.
      + destruct (mres_bool (matchf (if a_skip st then S pe else pe) (a_ms st))) as [[b s1]| | |]; cbn [rbind] in H; try discriminate.
        destruct b.
        * destruct (get_pstart s1 0) as [a|]; [|discriminate]. destruct (get_pend s1 0) as [b|]; [|discriminate].
          destruct (Nat.eqb pe a).
          -- destruct (rslice input a b) as [cur| | |]; cbn [rbind] in H; try discriminate.
             unfold analyze_entry in H. destruct (proc s1 cur); cbn [rbind] in H; discriminate.
          -- destruct (rslice input a b); cbn [rbind] in H; try discriminate.
             destruct (rslice input pe a); cbn [rbind] in H; discriminate.
        * destruct (Nat.ltb pe (length input)).
          -- destruct (rslice input pe (length input)); cbn [rbind] in H; discriminate.
          -- injection H as <-. reflexivity. }
  unfold an_next_gen. rewrite E. reflexivity.
Qed.
End A.

(* the instance with the trivial invariant *)
Corollary analyze_partition matchf proc input (G : good_step matchf input) (P : mstate -> Prop)
  (GP : forall pos s s', pos <= length input -> matchf pos s = MTrue s' -> P s')
  (Hproc : forall s a b v, P s -> get_pstart s 0 = Some a -> get_pend s 0 = Some b -> a < b -> b <= length input ->
     proc s (slice input a b) = Ok v -> vtext v = slice input a b) fuel s l :
  an_all matchf proc input fuel {| a_next := None; a_prev := Some 0; a_skip := false; a_ms := s |} = Ok l ->
  flat_map atext l = input /\ length l <= 2 * length input + 1.
Proof.
  apply (analyze_partition_on matchf proc input (fun _ => True) (good_step_trivial _ _ G) P
           (fun pos s s' Hp _ E => GP pos s s' Hp E) Hproc fuel s l I).
Qed.

(* the driver the correspondence check executes (Model/Run.v) collects exactly the entries of
   an_all when it reports a finished iteration *)
Lemma an_run_an_all prog input table : forall fuel cap count st acc l,
  an_run prog input table fuel cap count st acc = (l, TDone) ->
  exists l', an_all (matches prog input) (process_matching_substring table) input fuel st = Ok l'
             /\ l = rev acc ++ l'.
Proof.
  induction fuel as [|f IH]; intros cap count st acc l H; cbn [an_run] in H; [discriminate|].
  rewrite an_all_S. unfold an_next in H.
  destruct (an_next_gen (matches prog input) (process_matching_substring table) input st) as [[[e|] st']| | |];
    try discriminate.
  - destruct (Nat.ltb cap (S count)); [discriminate|].
    destruct (IH _ _ _ _ _ H) as (l' & E & ->). rewrite E. cbn [rbind].
    exists (e :: l'). split; [reflexivity|]. cbn [rev]. rewrite <- app_assoc. reflexivity.
  - injection H as <-. exists []. split; [reflexivity|]. rewrite app_nil_r. reflexivity.
Qed.

Theorem run_analyze_partition re input l :
  good_step (matches (r_prog re) input) input ->
  forall P : mstate -> Prop,
  (forall pos s s', pos <= length input -> matches (r_prog re) input pos s = MTrue s' -> P s') ->
  (forall table s a b v, P s -> get_pstart s 0 = Some a -> get_pend s 0 = Some b -> a < b -> b <= length input ->
     process_matching_substring table s (slice input a b) = Ok v -> vtext v = slice input a b) ->
  run_analyze re input = Ok (l, TDone) ->
  flat_map atext l = input /\ length l <= 2 * length input + 1.
Proof.
  intros G P GP Hp H. unfold run_analyze, analyze in H.
  destruct (r_nullable re); [discriminate|].
  destruct (nesting_table _) as [table| | |]; cbn [rbind] in H; try discriminate.
  injection H as H.
  destruct (an_run_an_all _ _ _ _ _ _ _ _ _ H) as (l' & E & ->). cbn [rev app].
  exact (analyze_partition _ _ input G P GP (Hp table) _ _ _ E).
Qed.

(* with the real tree builder: what is needed of the matcher is good_step and that the groups it
   records end inside the match it reports *)
Definition caps_inside (s : mstate) : Prop :=
  forall i b si ei, 1 <= i -> get_pend s 0 = Some b -> get_pstart s i = Some si -> get_pend s i = Some ei ->
    si <= b /\ ei <= b.

Lemma slice_length (input : list N) a b : a <= b -> b <= length input -> length (slice input a b) = b - a.
Proof. intros H1 H2. unfold slice. rewrite firstn_length, skipn_length. lia. Qed.

Theorem run_analyze_text re input l :
  good_step (matches (r_prog re) input) input ->
  (forall pos s s', pos <= length input -> matches (r_prog re) input pos s = MTrue s' -> caps_inside s') ->
  run_analyze re input = Ok (l, TDone) ->
  flat_map atext l = input /\ length l <= 2 * length input + 1.
Proof.
  intros G GP H. apply (run_analyze_partition re input l G caps_inside GP); [|exact H].
  intros table s a b v Hc Ha Hb Hab Hbn Hv.
  apply (pms_text (slice input a b) table s); [|exact Hv].
  intros i a0 si ei Hi E0 Esi Eei. rewrite Ha in E0. injection E0 as <-.
  rewrite slice_length by lia. destruct (Hc i b si ei Hi Hb Esi Eei). lia.
Qed.
