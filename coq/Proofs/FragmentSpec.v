(* C01 on the quantifier-free fragment, end to end on the model: for a program whose operation
   tree is [make_sequence o OEnd] with o in the fragment and lowered from the regular expression r,
   and with the search shortcuts off, ReMatcher::matches from offset 0 finds a match exactly when
   the specification says that some substring of the input belongs to the language of r. *)
From RX Require Import Base.Prelude Base.InvList.
From RX Require Import Spec.Syntax Spec.Parse Spec.CharSet Spec.Sem.
From RX Require Import Tables.Consts Model.Case Model.Op Model.Engine Model.Matcher Model.Compiler Model.Api.
From RX Require Import Proofs.EngineFacts Proofs.MatcherFacts Proofs.EngineCorollaries Proofs.LeafFacts Proofs.LowerFacts.

Section F.
Variable input : list N.
Variable ci multi hb : bool.
Variable K : nat.
Let n := length input.
Let Rop := Rop input ci multi.

Definition seq_go : list op -> nat -> list nat :=
  fix go (os : list op) (p : nat) : list nat :=
    match os with
    | [] => []
    | [o1] => Rop o1 p
    | o1 :: os' => flat_map (fun q => go os' q) (Rop o1 p)
    end.

Lemma flat_map_single {A} (l : list A) : flat_map (fun q => [q]) l = l.
Proof. induction l as [|x t IH]; cbn; [reflexivity|]. rewrite IH. reflexivity. Qed.

Lemma seq_go_end : forall os p, os <> [] -> seq_go (os ++ [OEnd]) p = seq_go os p.
Proof.
  induction os as [|o1 t IH]; intros p Hne; [contradiction|].
  destruct t as [|o2 t'].
  - cbn [app seq_go]. change (EngineFacts.Rop input ci multi OEnd) with (fun q : nat => [q]).
    apply flat_map_single.
  - change ((o1 :: o2 :: t') ++ [OEnd]) with (o1 :: ((o2 :: t') ++ [OEnd])).
    change (seq_go (o1 :: (o2 :: t') ++ [OEnd]) p)
      with (flat_map (fun q => seq_go ((o2 :: t') ++ [OEnd]) q) (Rop o1 p)).
    change (seq_go (o1 :: o2 :: t') p) with (flat_map (fun q => seq_go (o2 :: t') q) (Rop o1 p)).
    apply flat_map_ext. intros q. apply IH. discriminate.
Qed.

Lemma Rop_with_end o p : (match o with OSeq [] => False | _ => True end) ->
  Rop (make_sequence o OEnd) p = Rop o p.
Proof.
  intros Hne. destruct o; cbn [make_sequence]; try (unfold Rop; cbn [EngineFacts.Rop]; apply flat_map_single).
  change (Rop (OSeq (os ++ [OEnd])) p) with (seq_go (os ++ [OEnd]) p).
  change (Rop (OSeq os) p) with (seq_go os p).
  apply seq_go_end. destruct os; [contradiction|discriminate].
Qed.

Lemma plain_all_app (l1 l2 : list op) :
  (fix all l := match l with [] => True | x :: t => plain hb K x /\ all t end) l1 ->
  (fix all l := match l with [] => True | x :: t => plain hb K x /\ all t end) l2 ->
  (fix all l := match l with [] => True | x :: t => plain hb K x /\ all t end) (l1 ++ l2).
Proof. induction l1 as [|x t IH]; intros H1 H2; [exact H2|]. destruct H1 as [Hx H1]. split; [exact Hx|apply IH; auto]. Qed.

Lemma plain_with_end o : plain hb K o -> plain hb K (make_sequence o OEnd).
Proof.
  intros Hp. destruct o; cbn [make_sequence]; try (split; [discriminate|split; [exact Hp|split; exact I]]).
  cbn [plain] in Hp. cbn [plain]. destruct Hp as [Hne Hall]. split.
  - destruct os; [contradiction|discriminate].
  - apply plain_all_app; [exact Hall|]. split; exact I.
Qed.
End F.

Theorem fragment_is_match_spec prog input fl o r s :
  p_op prog = make_sequence o OEnd ->
  plain (p_hasbackrefs prog) (p_maxparens prog) o ->
  lowers input (p_case prog) fl o r -> s_i fl = p_case prog -> s_m fl = p_multi prog ->
  (p_hasbol prog = false /\ p_minlen prog = 0%N /\ p_prefix prog = None /\ p_icc prog = None /\ p_pre prog = []) ->
  length (sb s) = length (eb s) ->
  ((exists s', matches prog input 0 s = MTrue s') <-> spec_is_match fl input r = true).
Proof.
  intros Hop Hpl Hl Hi Hm Hun Hs.
  assert (Hne : match o with OSeq [] => False | _ => True end).
  { destruct o; auto. destruct os; auto. cbn [plain] in Hpl. destruct Hpl as [H _]. apply H. reflexivity. }
  assert (Hsim : simple input (p_case prog) (p_multi prog) (p_hasbackrefs prog) (p_maxparens prog) (p_op prog)).
  { rewrite Hop. apply plain_simple. apply plain_with_end. exact Hpl. }
  rewrite (fragment_is_match_iff prog input Hsim Hun 0 s (Nat.le_0_l _) Hs).
  unfold spec_is_match. rewrite existsb_exists.
  assert (NE : forall m, m <= length input ->
            (Rop input (p_case prog) (p_multi prog) (p_op prog) m <> []
             <-> (match ends fl input r m with [] => false | _ => true end) = true)).
  { intros m Hm'. rewrite Hop, (Rop_with_end input (p_case prog) (p_multi prog) o m Hne).
    pose proof (lowers_ends input (p_case prog) (p_multi prog) (p_hasbackrefs prog) (p_maxparens prog) fl Hi Hm o Hpl r Hl m) as LE.
    destruct (Rop input (p_case prog) (p_multi prog) o m) as [|q t] eqn:E1;
      destruct (ends fl input r m) as [|q' t'] eqn:E2.
    - split; [intros H; contradiction|discriminate].
    - exfalso. apply (proj2 (LE q' Hm')). left; reflexivity.
    - exfalso. apply (proj1 (LE q Hm')). left; reflexivity.
    - split; [reflexivity|discriminate]. }
  split.
  - intros (m & [_ Hm'] & Hne'). exists m. split; [apply in_seq; lia|]. apply NE; auto.
  - intros (m & Hin & Hb). apply in_seq in Hin. exists m. split; [lia|]. apply NE; [lia|exact Hb].
Qed.

(* non-vacuity: EngineCorollaries.ex_prog is the unoptimised program of [a-b](?:c|dd)x *)
Definition ex_re : re :=
  RSeq [RCls (CGroup false [IRange 97 98] None); RNc (RAlt [RChar 99; RSeq [RChar 100; RChar 100]]); RChar 120]%N.
Definition ex_fl : sflags := {| s_i := false; s_m := false; s_s := false; s_x := false; s_q := false |}.
Definition ex_op : op := OSeq [OCls [(97, 98)%N]; OChoice [OAtom [99%N]; OAtom [100%N; 100%N]]; OAtom [120%N]].
Example ex_shape : p_op ex_prog = make_sequence ex_op OEnd.
Proof. reflexivity. Qed.
Example ex_plain : plain false 1 ex_op.
Proof. cbn. repeat split; auto; discriminate. Qed.
Example ex_lowers : forall input, lowers input false ex_fl ex_op ex_re.
Proof.
  intros input. cbn [lowers ex_op ex_re unnc]. eexists. split; [reflexivity|]. repeat split.
  - eexists. split; [reflexivity|]. intros c _. cbn. rewrite !orb_false_r. reflexivity.
  - eexists. split; [reflexivity|]. repeat split.
    + right. eexists. split; reflexivity.
    + left. reflexivity.
  - right. eexists. split; reflexivity.
Qed.
Example ex_agree : spec_is_match ex_fl [122; 98; 100; 100; 120]%N ex_re = true.
Proof. vm_compute. reflexivity. Qed.
