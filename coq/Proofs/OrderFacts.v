(* C02 on the quantifier-free fragment: the engine yields end positions in the order of the
   specification's ordered-choice semantics R (an earlier alternative before a later one, the
   preference of an earlier term before that of a later term), so the match ReMatcher::matches
   selects is the specification's selected match: leftmost start, first end in priority order. *)
From RX Require Import Base.Prelude Base.InvList.
From RX Require Import Spec.Syntax Spec.Parse Spec.CharSet Spec.Sem.
From RX Require Import Tables.Consts Model.Case Model.Op Model.Engine Model.Matcher Model.Compiler Model.Api.
From RX Require Import Proofs.EngineFacts Proofs.MatcherFacts Proofs.EngineCorollaries Proofs.LeafFacts
     Proofs.LowerFacts Proofs.FragmentSpec.

Section Order.
Variable input : list N.
Variable ci multi hb : bool.
Variable K : nat.
Variable fl : sflags.
Hypothesis Hci : s_i fl = ci.
Hypothesis Hmulti : s_m fl = multi.
Let n := length input.
Let Rop := Rop input ci multi.
Let R := R fl input.

Lemma R_unnc r i e : R (unnc r) i e = R r i e.
Proof. induction r; cbn [unnc]; try reflexivity. exact IHr. Qed.

Lemma leaf_R r pr i e : leaf_pred ci fl r = Some pr -> R r i e = one_charR input pr i e.
Proof.
  destruct r; cbn [leaf_pred]; intros [= <-]; unfold R; cbn [Sem.R]; rewrite ?Hci; reflexivity.
Qed.

Definition seqR : list re -> nat -> env -> list (nat * env) :=
  fix go (l : list re) (i : nat) (e : env) : list (nat * env) :=
    match l with
    | [] => [(i, e)]
    | x :: t => flat_map (fun je => go t (fst je) (snd je)) (R x i e)
    end.

Lemma map_fst_flat_map {A} (f : nat * A -> list (nat * A)) (g : nat -> list nat) (l : list (nat * A)) :
  (forall je, In je l -> map fst (f je) = g (fst je)) ->
  map fst (flat_map f l) = flat_map g (map fst l).
Proof.
  induction l as [|x t IH]; intros H; cbn [flat_map map]; [reflexivity|].
  rewrite map_app, H by (left; reflexivity). rewrite IH; [reflexivity|].
  intros je Hin. apply H. right. exact Hin.
Qed.

Lemma atom_R : forall cs p e, p <= n ->
  map fst (seqR (map RChar cs) p e)
  = if Nat.ltb n (p + length cs) then [] else if starts_with (ceq ci) cs (skipn p input) then [p + length cs] else [].
Proof.
  induction cs as [|c cs IH]; intros p e Hp; cbn [map length seqR fst].
  - replace (Nat.ltb n (p + 0)) with false by (symmetry; apply Nat.ltb_ge; lia).
    cbn [starts_with]. f_equal. lia.
  - unfold R at 1; cbn [Sem.R]. rewrite Hci. unfold one_charR, char_at.
    rewrite (skipn_nth input p).
    destruct (nth_error input p) as [x|] eqn:En.
    + assert (p < n) by (apply nth_error_Some; congruence).
      cbn [starts_with]. rewrite ceq_lit_eq.
      destruct (lit_eq ci c x); cbn [andb flat_map fst snd].
      * rewrite app_nil_r. fold seqR. rewrite IH by lia.
        replace (S p + length cs) with (p + S (length cs)) by lia. reflexivity.
      * destruct (Nat.ltb n (p + S (length cs))); reflexivity.
    + assert (n <= p) by (apply nth_error_None; exact En).
      replace (Nat.ltb n (p + S (length cs))) with true by (symmetry; apply Nat.ltb_lt; lia). reflexivity.
Qed.

Theorem lowers_order : forall o, plain hb K o -> forall r, lowers input ci fl o r ->
  forall p e, p <= n -> map fst (R r p e) = Rop o p.
Proof.
  induction o using op_ind2; intros Hpl r Hl p e Hp; rewrite <- (R_unnc r); cbn [lowers plain] in Hl, Hpl;
    try contradiction; unfold Rop; cbn [EngineFacts.Rop]; fold n.
  - (* Bol *) rewrite Hl. unfold R; cbn [Sem.R]. unfold bol_at. rewrite Hmulti. fold n.
    destruct (Nat.eqb p 0) eqn:E0; cbn [orb]; [reflexivity|].
    destruct multi; cbn [andb]; [|reflexivity].
    apply Nat.eqb_neq in E0. replace (Nat.ltb 0 p) with true by (symmetry; apply Nat.ltb_lt; lia). cbn [andb].
    unfold is_nl, is_lf, char_at. destruct (match nth_error input (p - 1) with Some c => N.eqb c 10 | None => false end && Nat.ltb p n); reflexivity.
  - (* Eol *) rewrite Hl. unfold R; cbn [Sem.R]. unfold eol_at. rewrite Hmulti. fold n.
    unfold is_nl, is_lf, char_at.
    assert (E : (Nat.eqb n 0 || Nat.leb n p) = Nat.eqb p n).
    { destruct (Nat.eqb n 0) eqn:E0; cbn [orb].
      - apply Nat.eqb_eq in E0. symmetry. apply Nat.eqb_eq. lia.
      - destruct (Nat.leb n p) eqn:E1.
        + apply Nat.leb_le in E1. symmetry. apply Nat.eqb_eq. lia.
        + apply Nat.leb_gt in E1. symmetry. apply Nat.eqb_neq. lia. }
    destruct multi; cbn [andb].
    + rewrite <- orb_assoc. rewrite orb_assoc, E.
      destruct (Nat.eqb p n || match nth_error input p with Some c => N.eqb c 10 | None => false end); reflexivity.
    + rewrite orb_false_r, E. destruct (Nat.eqb p n); reflexivity.
  - (* Nothing *) rewrite Hl. reflexivity.
  - (* End *) rewrite Hl. reflexivity.
  - (* Atom *)
    destruct Hl as [Hl|(c & -> & Hl)]; rewrite Hl.
    + change (R (RSeq (map RChar cs)) p e) with (seqR (map RChar cs) p e). apply atom_R. exact Hp.
    + pose proof (atom_R [c] p e Hp) as A. cbn [map length seqR] in A.
      cbn [length]. rewrite <- A.
      rewrite (map_fst_flat_map _ (fun q => [q])); [rewrite flat_map_single; reflexivity|].
      intros je _. reflexivity.
  - (* Cls *)
    destruct Hl as (pr & Hpr & Hmem). rewrite (leaf_R _ _ _ _ Hpr). unfold one_charR, char_at.
    destruct (nth_error input p) as [c|] eqn:Ec; [|reflexivity]. rewrite (Hmem c (nth_error_In _ _ Ec)). destruct (pr c); reflexivity.
  - (* Capture *)
    destruct Hl as (r' & Hr & Hl). rewrite Hr. destruct Hpl as [Hpl _].
    unfold R; cbn [Sem.R]. rewrite map_map. cbn [fst]. apply IHo; auto.
  - (* Choice *)
    destruct Hl as (rs & Hr & Hall). rewrite Hr. clear Hr r.
    change (R (RAlt rs) p e) with
      ((fix go (l : list re) : list (nat * env) := match l with [] => [] | x :: t => R x p e ++ go t end) rs).
    revert rs Hall Hpl. induction H as [|x t Hx Ht IH]; intros rs Hall Hpl; destruct rs as [|r1 rs']; try contradiction.
    + reflexivity.
    + destruct Hall as [Hl1 Hall]. destruct Hpl as [Hp1 Hpl]. cbn [flat_map].
      rewrite map_app. pose proof (Hx Hp1 r1 Hl1 p e Hp) as Hx'. unfold Rop in Hx'. rewrite Hx'.
      rewrite (IH rs' Hall Hpl). reflexivity.
  - (* Seq *)
    destruct Hl as (rs & Hr & Hall). rewrite Hr. clear Hr r. destruct Hpl as [Hne Hpl].
    change (R (RSeq rs) p e) with (seqR rs p e).
    change (map fst (seqR rs p e) = seq_go input ci multi os p).
    revert rs Hall p e Hp. induction H as [|o1 t Ho1 Ht IH]; [contradiction|].
    intros rs Hall p e Hp. destruct rs as [|r1 rs']; [contradiction|]. destruct Hall as [Hl1 Hall].
    destruct Hpl as [Hp1 Hpl].
    pose proof (Ho1 Hp1 r1 Hl1) as S1.
    destruct t as [|o2 t'].
    + destruct rs'; [|contradiction]. cbn [seqR seq_go].
      rewrite (map_fst_flat_map _ (fun q => [q])); [rewrite flat_map_single; apply S1; exact Hp|].
      intros je _. reflexivity.
    + assert (Hne2 : o2 :: t' <> []) by discriminate.
      change (seqR (r1 :: rs') p e) with (flat_map (fun je => seqR rs' (fst je) (snd je)) (R r1 p e)).
      change (seq_go input ci multi (o1 :: o2 :: t') p)
        with (flat_map (fun q => seq_go input ci multi (o2 :: t') q) (Rop o1 p)).
      rewrite (map_fst_flat_map _ (fun q => seq_go input ci multi (o2 :: t') q)).
      * rewrite (S1 p e Hp). reflexivity.
      * intros [j e'] Hin. cbn [fst snd]. apply (IH Hne2 Hpl rs' Hall).
        assert (Hj : In j (map fst (R r1 p e))) by (apply in_map_iff; exists (j, e'); auto).
        rewrite (S1 p e Hp) in Hj.
        eapply (Rop_le_n input ci multi hb K o1 p j); eauto. apply plain_simple; exact Hp1.
Qed.
End Order.

(* the selected match of the specification: scan start positions from pos *)
Lemma first_match_spec fl input r : forall fuel pos k q rest e,
  pos <= k -> k <= length input -> length input + 1 - pos <= fuel ->
  (forall m, pos <= m < k -> R fl input r m [] = []) ->
  R fl input r k [] = (q, e) :: rest ->
  first_match fl input r fuel pos = Some (k, q, e).
Proof.
  induction fuel as [|f IH]; intros pos k q rest e Hpk Hk Hf Hbefore Hat; [lia|].
  cbn [first_match].
  replace (Nat.ltb (length input) pos) with false by (symmetry; apply Nat.ltb_ge; lia).
  destruct (Nat.eq_dec pos k) as [->|Hne].
  - rewrite Hat. reflexivity.
  - rewrite (Hbefore pos) by lia. apply (IH (S pos) k q rest e); try lia; auto.
    intros m Hm. apply Hbefore. lia.
Qed.

Lemma first_match_none fl input r : forall fuel pos,
  (forall m, pos <= m <= length input -> R fl input r m [] = []) ->
  first_match fl input r fuel pos = None.
Proof.
  induction fuel as [|f IH]; intros pos H; [reflexivity|]. cbn [first_match].
  destruct (Nat.ltb (length input) pos) eqn:E; [reflexivity|]. apply Nat.ltb_ge in E.
  rewrite (H pos) by lia. apply IH. intros m Hm. apply H. lia.
Qed.

Theorem fragment_selected_match prog input fl o r s :
  p_op prog = make_sequence o OEnd ->
  plain (p_hasbackrefs prog) (p_maxparens prog) o ->
  lowers input (p_case prog) fl o r -> s_i fl = p_case prog -> s_m fl = p_multi prog ->
  (p_hasbol prog = false /\ p_minlen prog = 0%N /\ p_prefix prog = None /\ p_icc prog = None /\ p_pre prog = []) ->
  length (sb s) = length (eb s) ->
  match matches prog input 0 s with
  | MTrue s' => exists k q e, first_match fl input r (length input + 2) 0 = Some (k, q, e) /\ get_pend s' 0 = Some q
  | MFalse _ => first_match fl input r (length input + 2) 0 = None
  | MOut | MPanic _ => False
  end.
Proof.
  intros Hop Hpl Hl Hi Hm Hun Hs.
  assert (Hne : match o with OSeq [] => False | _ => True end).
  { destruct o; auto. destruct os; auto. cbn [plain] in Hpl. destruct Hpl as [H _]. apply H. reflexivity. }
  assert (Hsim : simple input (p_case prog) (p_multi prog) (p_hasbackrefs prog) (p_maxparens prog) (p_op prog)).
  { rewrite Hop. apply plain_simple. apply plain_with_end. exact Hpl. }
  assert (E : forall m, m <= length input ->
            map fst (R fl input r m []) = Rop input (p_case prog) (p_multi prog) (p_op prog) m).
  { intros m Hm'. rewrite Hop, (Rop_with_end input (p_case prog) (p_multi prog) o m Hne).
    apply (lowers_order input (p_case prog) (p_multi prog) (p_hasbackrefs prog) (p_maxparens prog) fl Hi Hm o Hpl r Hl m [] Hm'). }
  pose proof (matches_unopt_spec prog input Hsim Hun 0 s (Nat.le_0_l _) Hs) as M.
  destruct (matches prog input 0 s) as [s'|s'| |k0]; try contradiction.
  - destruct M as (k & q & rest & Hk & Hbefore & Hat & Hq & Hpend).
    rewrite <- (E k) in Hat by lia.
    destruct (R fl input r k []) as [|[q' e'] rest'] eqn:ER; [discriminate|].
    cbn [map fst] in Hat. injection Hat as -> _.
    exists k, q, e'. split; [|exact Hpend].
    apply (first_match_spec fl input r _ 0 k q rest' e'); try lia; auto.
    intros m Hm'. specialize (Hbefore m ltac:(lia)). rewrite <- (E m) in Hbefore by lia.
    destruct (R fl input r m []); [reflexivity|discriminate].
  - apply first_match_none. intros m Hm'. specialize (M m ltac:(lia)). rewrite <- (E m) in M by lia.
    destruct (R fl input r m []); [reflexivity|discriminate].
Qed.
