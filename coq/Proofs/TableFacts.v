(* T*: facts about the generated tables, by computation over range lists (finite domain: all code
   points 0..0x10FFFF; the bound is in every statement), lifted with the InvList algebra. *)
From RX Require Import Base.Prelude Base.InvList Proofs.InvListFacts.
From RX Require Import Tables.IcuGc Tables.Category Tables.BlocksRs Tables.BlocksTxt Tables.Consts.
From RX Require Import Spec.Syntax Spec.Parse Spec.CharSet Model.Case Model.Op Model.Matcher Model.Compiler.
Local Open Scope N_scope.

Definition cset_eqb (a b : cset) : bool :=
  list_eqb (fun x y => (fst x =? fst y) && (snd x =? snd y)) a b.
Lemma cset_eqb_eq a b : cset_eqb a b = true -> a = b.
Proof.
  revert b; induction a as [|[x y] t IH]; intros [|[x' y'] t'] H; cbn in H; try discriminate; auto.
  apply andb_true_iff in H as [H1 H2]. apply andb_true_iff in H1 as [Hx Hy].
  apply N.eqb_eq in Hx, Hy. cbn [fst snd] in *. subst. f_equal. auto.
Qed.

(* union of a list of sets *)
Definition big_union (l : list cset) : cset := fold_right (fun s acc => union acc s) empty l.
Lemma wf_big_union l : forallb wf l = true -> wf (big_union l) = true.
Proof.
  induction l as [|s t IH]; intros H; cbn [big_union fold_right]; [reflexivity|].
  cbn [forallb] in H. apply andb_true_iff in H as [Hs Ht]. apply wf_union; auto.
Qed.
Lemma mem_big_union l c : forallb wf l = true -> mem (big_union l) c = existsb (fun s => mem s c) l.
Proof.
  induction l as [|s t IH]; intros H; cbn [big_union fold_right existsb]; [reflexivity|].
  cbn [forallb] in H. apply andb_true_iff in H as [Hs Ht].
  rewrite mem_union by (auto using wf_ok; apply wf_ok, wf_big_union; auto).
  fold (big_union t). rewrite IH by auto. apply orb_comm.
Qed.

(* ---------------------------------------------------------------- General_Category *)
Definition cats30 : list cset := map snd two_letter ++ [gc_Surrogate].

Lemma cats30_wf : forallb wf cats30 = true.
Proof. vm_compute. reflexivity. Qed.

Lemma cats30_cover_computed : cset_eqb (big_union cats30) all = true.
Proof. vm_compute. reflexivity. Qed.

Fixpoint pairs {A} (l : list A) : list (A * A) :=
  match l with [] => [] | x :: t => map (fun y => (x, y)) t ++ pairs t end.
Lemma cats30_disjoint_computed :
  forallb (fun p => match inter (fst p) (snd p) with [] => true | _ => false end) (pairs cats30) = true.
Proof. vm_compute. reflexivity. Qed.

Lemma in_pairs {A} (l : list A) (i j : nat) x y :
  (i < j)%nat -> nth_error l i = Some x -> nth_error l j = Some y -> In (x, y) (pairs l).
Proof.
  revert i j; induction l as [|h t IH]; intros i j Hij Hi Hj; [destruct i; discriminate|].
  destruct i as [|i]; destruct j as [|j]; try lia; cbn in Hi, Hj.
  - injection Hi as <-. cbn [pairs]. apply in_or_app; left. apply in_map. eapply nth_error_In; eauto.
  - cbn [pairs]. apply in_or_app; right. apply (IH i j); auto. lia.
Qed.

(* the two-letter categories and Cs partition the code points *)
Theorem gc_cover c : c <= max_cp -> existsb (fun s => mem s c) cats30 = true.
Proof.
  intros Hc. rewrite <- mem_big_union by apply cats30_wf.
  rewrite (cset_eqb_eq _ _ cats30_cover_computed). apply mem_all; auto.
Qed.
Theorem gc_disjoint (i j : nat) a b c : (i < j)%nat -> nth_error cats30 i = Some a -> nth_error cats30 j = Some b ->
  c <= max_cp -> mem a c = true -> mem b c = true -> False.
Proof.
  intros Hij Ha Hb Hc Ma Mb.
  pose proof (in_pairs cats30 i j a b Hij Ha Hb) as Hin.
  pose proof cats30_disjoint_computed as D. rewrite forallb_forall in D. specialize (D _ Hin). cbn [fst snd] in D.
  assert (Wa : wf a = true). { pose proof cats30_wf as W. rewrite forallb_forall in W. apply W. eapply nth_error_In; eauto. }
  assert (Wb : wf b = true). { pose proof cats30_wf as W. rewrite forallb_forall in W. apply W. eapply nth_error_In; eauto. }
  pose proof (mem_inter a b c Wa Wb Hc) as E. rewrite Ma, Mb in E.
  destruct (inter a b); [discriminate E|discriminate D].
Qed.

(* the set a category name stands for in the specification: the union of the two-letter members *)
Definition spec_cat_set (name : list N) : cset :=
  match name with
  | [_; _] => big_union (map snd (filter (fun kv => name_eqb (fst kv) name) two_letter))
  | [g] => big_union (map snd (filter (fun kv => match fst kv with g' :: _ => g' =? g | [] => false end) two_letter))
  | _ => empty
  end.

Lemma two_letter_wf : forallb (fun kv => wf (snd kv)) two_letter = true.
Proof. vm_compute. reflexivity. Qed.

Lemma filter_wf (f : list N * cset -> bool) :
  forallb wf (map snd (filter f two_letter)) = true.
Proof.
  pose proof two_letter_wf as W. rewrite forallb_forall in W.
  apply forallb_forall. intros s Hs. apply in_map_iff in Hs as [kv [<- Hin]].
  apply filter_In in Hin as [Hin _]. apply W; auto.
Qed.

Lemma existsb_filter_map {A} (f : A -> bool) (g : A -> bool) (l : list A) :
  existsb g (filter f l) = existsb (fun x => f x && g x) l.
Proof. induction l as [|x t IH]; cbn; auto. destruct (f x); cbn; rewrite IH; auto. Qed.

Lemma existsb_map' {A B} (f : A -> B) (g : B -> bool) (l : list A) :
  existsb g (map f l) = existsb (fun x => g (f x)) l.
Proof. induction l as [|x t IH]; cbn; auto. rewrite IH; auto. Qed.

Lemma spec_cat_set_mem name c : mem (spec_cat_set name) c = cat_mem name c.
Proof.
  unfold spec_cat_set, cat_mem.
  destruct name as [|g [|g2 [|g3 rest]]]; try reflexivity.
  - rewrite mem_big_union by apply filter_wf. rewrite existsb_map', existsb_filter_map. reflexivity.
  - rewrite mem_big_union by apply filter_wf. rewrite existsb_map', existsb_filter_map. reflexivity.
Qed.

(* the match arms of get_category_group select exactly these sets, on scalar values (the ICU group
   "Other" also contains the surrogate code points, which are not characters) *)
Definition surr : cset := [(55296, 57343)].
Lemma arms_computed :
  forallb (fun kv => wf (snd kv) && cset_eqb (diff (snd kv) surr) (diff (spec_cat_set (fst kv)) surr)) category_arms = true.
Proof. vm_compute. reflexivity. Qed.
Lemma arm_names_computed :
  list_eqb name_eqb (map fst category_arms) spec_categories = true.
Proof. vm_compute. reflexivity. Qed.

Lemma wf_spec_cat_set name : wf (spec_cat_set name) = true.
Proof.
  unfold spec_cat_set. destruct name as [|g [|g2 [|g3 rest]]]; try reflexivity; apply wf_big_union, filter_wf.
Qed.

Lemma scalar_not_surr c : is_scalar c = true -> c <= max_cp /\ mem surr c = false.
Proof.
  unfold is_scalar, max_cp. intros H. cbn. unfold inr; cbn [fst snd]. unfold max_cp in *.
  apply orb_true_iff in H as [H|H].
  - apply N.ltb_lt in H. split; [lia|]. bN.
  - apply andb_true_iff in H as [H1 H2]. apply N.leb_le in H1, H2. split; [lia|]. bN.
Qed.

Lemma assoc_str_In {B} (k : list N) (l : list (list N * B)) v :
  assoc_str k l = Some v -> exists k', In (k', v) l /\ list_eqb N.eqb k k' = true.
Proof.
  induction l as [|[k0 v0] t IH]; cbn; [discriminate|].
  destruct (list_eqb N.eqb k k0) eqn:E.
  - intros [= <-]. exists k0. split; auto.
  - intros H. destruct (IH H) as [k' [Hin Hk]]. exists k'. split; auto.
Qed.

Lemma list_eqb_N_eq (a b : list N) : list_eqb N.eqb a b = true -> a = b.
Proof.
  revert b; induction a as [|x t IH]; intros [|y t'] H; cbn in H; try discriminate; auto.
  apply andb_true_iff in H as [H1 H2]. apply N.eqb_eq in H1. subst. f_equal; auto.
Qed.

Theorem category_group_spec name s c : is_scalar c = true ->
  category_group name = Some s -> mem s c = cat_mem name c.
Proof.
  unfold category_group. intros Hsc H. destruct (assoc_str_In _ _ _ H) as [k' [Hin Hk]].
  apply list_eqb_N_eq in Hk. subst k'.
  pose proof arms_computed as A. rewrite forallb_forall in A. specialize (A _ Hin). cbn [fst snd] in A.
  apply andb_true_iff in A as [W A]. apply cset_eqb_eq in A.
  destruct (scalar_not_surr c Hsc) as [Hc Hs].
  rewrite <- spec_cat_set_mem.
  assert (E : mem (diff s surr) c = mem (diff (spec_cat_set name) surr) c) by (rewrite A; reflexivity).
  rewrite !mem_diff in E by (auto using wf_spec_cat_set). rewrite Hs in E. cbn [negb] in E.
  rewrite !andb_true_r in E. exact E.
Qed.

(* ---------------------------------------------------------------- \d \w \s \i \c *)
Lemma decimal_is_Nd : cset_eqb decimal_number_set gc_DecimalNumber = true.
Proof. vm_compute. reflexivity. Qed.

Lemma gc_groups_wf : wf gc_Punctuation && wf gc_Separator && wf gc_Other = true.
Proof. vm_compute. reflexivity. Qed.
(* the generated definition must be this expression as written: a syntactic comparison, because
   unification of two different set expressions would evaluate them *)
Lemma word_set_shape : word_char_set = diff (diff (diff all gc_Punctuation) gc_Separator) gc_Other.
Proof.
  unfold word_char_set.
  lazymatch goal with |- ?a = ?b => first [constr_eq a b | fail 1 "word_char() is not all - P - Z - C as written"] end.
  reflexivity.
Qed.

Theorem word_char_spec c : c <= max_cp ->
  mem word_char_set c = negb (mem gc_Punctuation c || mem gc_Separator c || mem gc_Other c).
Proof.
  intros Hc. pose proof gc_groups_wf as W.
  apply andb_true_iff in W as [W Wo]. apply andb_true_iff in W as [Wp Wz].
  rewrite word_set_shape.
  rewrite !mem_diff by (auto using wf_diff, wf_all). rewrite mem_all by auto.
  destruct (mem gc_Punctuation c), (mem gc_Separator c), (mem gc_Other c); reflexivity.
Qed.

Lemma s_set_spec c : mem s_set c = is_ws c.
Proof.
  unfold s_set, is_ws. cbn. unfold inr; cbn [fst snd].
  destruct (N.eqb_spec c 9), (N.eqb_spec c 10), (N.eqb_spec c 13), (N.eqb_spec c 32); subst; try reflexivity; bN.
Qed.

Definition of_ranges (l : list (N * N)) : cset := fold_right (fun r acc => add_range (fst r) (snd r) acc) empty l.
Lemma of_ranges_mem l c : forallb (fun r => (fst r <=? snd r) && (snd r <=? max_cp)) l = true ->
  wf (of_ranges l) = true /\ mem (of_ranges l) c = in_ranges l c.
Proof.
  induction l as [|[a b] t IH]; intros H; cbn [of_ranges fold_right in_ranges existsb].
  - split; reflexivity.
  - cbn [forallb fst snd] in H. apply andb_true_iff in H as [H Ht]. apply andb_true_iff in H as [Hab Hb].
    apply N.leb_le in Hab, Hb. destruct (IH Ht) as [W M]. split.
    + apply wf_add_range0; auto.
    + fold (of_ranges t). rewrite mem_add_range by (auto using wf_ok). rewrite M. reflexivity.
Qed.

Lemma name_start_computed : cset_eqb name_start_char_set (of_ranges xml_name_start) = true.
Proof. vm_compute. reflexivity. Qed.
Lemma name_char_computed : cset_eqb name_char_set (of_ranges (xml_name_start ++ xml_name_extra)) = true.
Proof. vm_compute. reflexivity. Qed.

Theorem name_start_spec c : mem name_start_char_set c = is_name_start c.
Proof.
  rewrite (cset_eqb_eq _ _ name_start_computed).
  apply of_ranges_mem. vm_compute. reflexivity.
Qed.
Theorem name_char_spec c : mem name_char_set c = is_name_char c.
Proof.
  rewrite (cset_eqb_eq _ _ name_char_computed).
  destruct (of_ranges_mem (xml_name_start ++ xml_name_extra) c) as [_ M]; [vm_compute; reflexivity|].
  rewrite M. unfold is_name_char, in_ranges. apply existsb_app.
Qed.

(* ---------------------------------------------------------------- blocks *)
Theorem blocks_rs_eq_txt : blocks_rs = blocks_txt.
Proof. vm_compute. reflexivity. Qed.

Lemma block_keys_computed :
  list_eqb name_eqb (map (fun b => normalise_block_name (fst (fst b))) blocks_rs)
                    (map (fun b => strip_spaces (fst (fst b))) blocks_txt) = true.
Proof. vm_compute. reflexivity. Qed.

(* both block look-ups as a fold over one list of (key, start, end) *)
Definition lk (l : list (list N * N * N)) (name : list N) : option (N * N) :=
  fold_left (fun acc b => let '(k, lo, hi) := b in if name_eqb k name then Some (lo, hi) else acc) l None.
Definition keyed_rs := map (fun b : list N * N * N => let '(nm, lo, hi) := b in (normalise_block_name nm, lo, hi)) blocks_rs.
Definition keyed_txt := map (fun b : list N * N * N => let '(nm, lo, hi) := b in (strip_spaces nm, lo, hi)) blocks_txt.

Lemma keyed_equal : keyed_rs = keyed_txt.
Proof. vm_compute. reflexivity. Qed.

Lemma fold_lk_rs name (l : list (list N * N * N)) acc :
  fold_left (fun acc b => let '(nm, lo, hi) := b in
                          if list_eqb N.eqb (normalise_block_name nm) name then Some (lo, hi) else acc) l acc
  = fold_left (fun acc b => let '(k, lo, hi) := b in if name_eqb k name then Some (lo, hi) else acc)
              (map (fun b : list N * N * N => let '(nm, lo, hi) := b in (normalise_block_name nm, lo, hi)) l) acc.
Proof. revert acc; induction l as [|[[nm lo] hi] t IH]; intros acc; cbn [fold_left map]; auto. Qed.
Lemma fold_lk_txt name (l : list (list N * N * N)) acc :
  fold_left (fun acc b => let '(bn, lo, hi) := b in
                          if name_eqb (strip_spaces bn) name then Some (lo, hi) else acc) l acc
  = fold_left (fun acc b => let '(k, lo, hi) := b in if name_eqb k name then Some (lo, hi) else acc)
              (map (fun b : list N * N * N => let '(nm, lo, hi) := b in (strip_spaces nm, lo, hi)) l) acc.
Proof. revert acc; induction l as [|[[nm lo] hi] t IH]; intros acc; cbn [fold_left map]; auto. Qed.

Lemma block_lookup_lk name : block_lookup name = lk keyed_txt name.
Proof. unfold block_lookup, lk. rewrite fold_lk_rs. fold keyed_rs. rewrite keyed_equal. reflexivity. Qed.

Lemma lk_none_iff (l : list (list N * N * N)) (name : list N) acc :
  fold_left (fun acc b => let '(k, lo, hi) := b in if name_eqb k name then Some (lo, hi) else acc) l acc = None
  <-> acc = None /\ existsb (fun b => let '(k, _, _) := b in name_eqb k name) l = false.
Proof.
  revert acc; induction l as [|[[k lo] hi] t IH]; intros acc; cbn [fold_left existsb].
  - split; [intros ->; auto|intros [-> _]; auto].
  - rewrite IH. destruct (name_eqb k name); cbn [orb]; split; intros [H1 H2]; try discriminate; auto.
Qed.

Lemma existsb_keyed name :
  existsb (fun b : list N * N * N => let '(k, _, _) := b in name_eqb k name) keyed_txt
  = existsb (fun b : list N * N * N => let '(bn, _, _) := b in name_eqb (strip_spaces bn) name) blocks_txt.
Proof.
  unfold keyed_txt. induction blocks_txt as [|[[nm lo] hi] t IH]; cbn [map existsb]; auto. rewrite IH. reflexivity.
Qed.

Lemma block_ranges_ok : forallb (fun b : list N * N * N => let '(_, lo, hi) := b in (lo <=? hi) && (hi <=? max_cp)) keyed_txt = true.
Proof. vm_compute. reflexivity. Qed.

Lemma lk_in (l : list (list N * N * N)) (name : list N) (lo hi : N) acc :
  fold_left (fun acc b => let '(k, lo, hi) := b in if name_eqb k name then Some (lo, hi) else acc) l acc = Some (lo, hi) ->
  acc = Some (lo, hi) \/ exists k, In (k, lo, hi) l.
Proof.
  revert acc; induction l as [|[[k l0] h0] t IH]; intros acc H; cbn [fold_left] in H; auto.
  destruct (IH _ H) as [E|[k' Hin]].
  - destruct (name_eqb k name).
    + injection E as -> ->. right. exists k. left. reflexivity.
    + auto.
  - right. exists k'. right. exact Hin.
Qed.

Lemma private_use_computed :
  block_special_name = private_use /\ wf block_special_set = true /\
  cset_eqb block_special_set [(57344, 63743); (983040, 1048573); (1048576, 1114109)] = true.
Proof. vm_compute. repeat split. Qed.

Lemma spec_lookup_lk name :
  fold_left (fun acc b => let '(bn, lo, hi) := b in
                          if name_eqb (strip_spaces bn) name then Some (lo, hi) else acc) blocks_txt None
  = lk keyed_txt name.
Proof. unfold lk, keyed_txt. apply fold_lk_txt. Qed.

Lemma private_mem c :
  mem [(57344, 63743); (983040, 1048573); (1048576, 1114109)] c
  = ((57344 <=? c) && (c <=? 63743)) || ((983040 <=? c) && (c <=? 1048573)) || ((1048576 <=? c) && (c <=? 1114109)).
Proof. cbn. unfold inr; cbn [fst snd]. rewrite orb_false_r, orb_assoc. reflexivity. Qed.

Opaque keyed_txt keyed_rs blocks_txt blocks_rs.

(* \p{IsB}: the model's set is the code-point range of block B of the shipped list (name with spaces
   removed, compatibility names, PrivateUse); unknown names have no set (the compiler rejects them) *)
Theorem block_set_spec name :
  match block_set name with
  | Some s => spec_block_known name = true /\ forall c, mem s c = block_mem name c
  | None => spec_block_known name = false
  end.
Proof.
  destruct private_use_computed as [Ep [Wp Cp]]. apply cset_eqb_eq in Cp.
  unfold block_set, spec_block_known, block_mem. rewrite Ep.
  change (list_eqb N.eqb name private_use) with (name_eqb name private_use).
  destruct (name_eqb name private_use) eqn:E.
  - split; [reflexivity|]. intros c. rewrite Cp. apply private_mem.
  - cbn [orb]. rewrite block_lookup_lk, spec_lookup_lk, <- existsb_keyed.
    destruct (lk keyed_txt name) as [[lo hi]|] eqn:L.
    + split.
      * destruct (existsb _ keyed_txt) eqn:X; auto.
        exfalso. assert (lk keyed_txt name = None) by (apply lk_none_iff; auto). congruence.
      * intros c. unfold lk in L. apply lk_in in L as [L|[k Hin]]; [discriminate|].
        pose proof block_ranges_ok as R. rewrite forallb_forall in R. specialize (R _ Hin). cbn beta iota in R.
        apply andb_true_iff in R as [R1 R2]. apply N.leb_le in R1, R2.
        rewrite mem_add_range by auto. cbn [mem existsb empty]. rewrite orb_false_r. reflexivity.
    + apply lk_none_iff in L as [_ L]. exact L.
Qed.
