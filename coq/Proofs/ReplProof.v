(* C15 core: the index-juggling expansion loop of ReMatcher::replace equals the list-based
   replacement grammar and never panics or runs out of fuel. *)
From RX Require Import Base.Prelude Spec.Repl Model.Engine Model.Api.

Section P.
Variable r : list N.
Variable maxc : nat.
Variable cap : nat -> option (list N).
Let len := length r.
Let capf := fun g : nat => @Ok (option (list N)) (cap g).

Lemma skipn_nth (i : nat) c : nth_error r i = Some c -> skipn i r = c :: skipn (S i) r.
Proof.
  revert i. induction r as [|x l IH]; intros [|i] H; cbn in *; try discriminate.
  - injection H as ->. reflexivity.
  - apply IH; auto.
Qed.
Lemma nth_none_ge i : nth_error r i = None -> len <= i.
Proof. apply nth_error_None. Qed.
Lemma skipn_ge i : len <= i -> skipn i r = [].
Proof. apply skipn_all2. Qed.

Lemma digits_loop_spec : forall fuel i g, i < len -> len - i < fuel ->
  exists i' g', digits_loop r maxc fuel i g = Some (i', g') /\ i <= i' /\ i' <= len /\
                take_digits maxc g (skipn (S i) r) = (g', skipn (S i') r).
Proof.
  induction fuel as [|f IH]; intros i g Hi Hf; [lia|].
  cbn [digits_loop]. fold len. replace (i + 1) with (S i) by lia.
  destruct (Nat.leb len (S i)) eqn:E.
  - apply Nat.leb_le in E. exists (S i), g. repeat split; try lia.
    rewrite (skipn_ge (S i)) by lia. rewrite (skipn_ge (S (S i))) by lia. reflexivity.
  - apply Nat.leb_gt in E.
    destruct (nth_error r (S i)) as [c|] eqn:En; [|apply nth_none_ge in En; lia].
    rewrite (skipn_nth _ _ En). cbn [take_digits].
    destruct (is_digit c) eqn:Ed; cbn [andb].
    + destruct (Nat.ltb maxc (g * 10 + dval c)) eqn:Em.
      * apply Nat.ltb_lt in Em.
        replace (Nat.leb (g * 10 + dval c) maxc) with false by (symmetry; apply Nat.leb_gt; lia).
        exists i, g. replace (S i - 1) with i by lia. repeat split; try lia.
        rewrite <- (skipn_nth _ _ En). reflexivity.
      * apply Nat.ltb_ge in Em.
        replace (Nat.leb (g * 10 + dval c) maxc) with true by (symmetry; apply Nat.leb_le; lia).
        destruct (IH (S i) (g * 10 + dval c)) as (i' & g' & H1 & H2 & H3 & H4); try lia.
        exists i', g'. repeat split; auto; lia.
    + exists i, g. replace (S i - 1) with i by lia. repeat split; try lia.
      rewrite <- (skipn_nth _ _ En). reflexivity.
Qed.

(* what the loop returns, given what the grammar says about the rest of the string *)
Definition lift (acc : list N) (simple : bool) (rest : list N) (x : parsed) : res (list N * bool) :=
  match x with
  | PItems its => Ok (acc ++ render maxc cap its, simple && plain rest)
  | PFuel => Out
  | PInvalid => Err EInvalidRepl
  end.

Lemma take_digits_le g l : g <= maxc -> fst (take_digits maxc g l) <= maxc.
Proof.
  revert g; induction l as [|d t IH]; intros g Hg; cbn; auto.
  destruct (is_digit d && Nat.leb (g * 10 + dval d) maxc) eqn:E; cbn; auto.
  apply IH. apply andb_true_iff in E as [_ E]. apply Nat.leb_le in E. auto.
Qed.
Lemma take_digits_len g l : length (snd (take_digits maxc g l)) <= length l.
Proof.
  revert g; induction l as [|d t IH]; intros g; cbn; [lia|].
  destruct (_ && _); cbn; [specialize (IH (g * 10 + dval d)); lia|lia].
Qed.

Lemma lift_lit acc simple c rest x :
  negb (N.eqb c 92) && negb (N.eqb c 36) = true ->
  lift (acc ++ [c]) simple rest x = lift acc simple (c :: rest) (cons_item (Lit c) x).
Proof.
  intros Hc. destruct x as [its| |]; cbn [lift cons_item render flat_map plain forallb]; auto.
  rewrite Hc. cbn [andb]. rewrite <- app_assoc. reflexivity.
Qed.
(* after an escape or a group reference the flag is false whatever follows *)
Lemma lift_false acc rest rest' x : lift acc false rest x = lift acc false rest' x.
Proof. destruct x; reflexivity. Qed.
Lemma lift_esc acc c x rest :
  lift (acc ++ [c]) false rest x = lift acc false rest (cons_item (Lit c) x).
Proof.
  destruct x as [its| |]; cbn [lift cons_item render flat_map]; auto.
  rewrite <- app_assoc. reflexivity.
Qed.
Lemma lift_grp acc g x rest : g <= maxc ->
  lift (match cap g with Some t => acc ++ t | None => acc end) false rest x
  = lift acc false rest (cons_item (Grp g) x).
Proof.
  intros Hg. destruct x as [its| |]; cbn [lift cons_item render flat_map]; auto.
  replace (Nat.leb g maxc) with true by (symmetry; apply Nat.leb_le; auto).
  destruct (cap g); [rewrite <- app_assoc|]; reflexivity.
Qed.
Lemma lift_grp_big acc g x rest : maxc < g ->
  lift acc false rest x = lift acc false rest (cons_item (Grp g) x).
Proof.
  intros Hg. destruct x as [its| |]; cbn [lift cons_item render flat_map]; auto.
  replace (Nat.leb g maxc) with false by (symmetry; apply Nat.leb_gt; auto). reflexivity.
Qed.

Lemma plain_special c rest : N.eqb c 92 = true \/ N.eqb c 36 = true -> plain (c :: rest) = false.
Proof. intros [H|H]; cbn [plain forallb]; rewrite H; cbn; auto. destruct (N.eqb c 92); reflexivity. Qed.

Lemma expand_loop_spec : forall fuel i acc simple, len - i < fuel ->
  expand_loop r maxc capf fuel i acc simple
  = lift acc simple (skipn i r) (parse_repl_f maxc fuel (skipn i r)).
Proof.
  induction fuel as [|f IH]; intros i acc simple Hf; [lia|].
  cbn [expand_loop parse_repl_f]. fold len.
  destruct (Nat.leb len i) eqn:E.
  - apply Nat.leb_le in E. rewrite skipn_ge by lia. cbn. rewrite app_nil_r, andb_true_r. reflexivity.
  - apply Nat.leb_gt in E.
    destruct (nth_error r i) as [ch|] eqn:En; [|apply nth_none_ge in En; lia].
    rewrite (skipn_nth _ _ En). replace (i + 1) with (S i) by lia.
    destruct (N.eqb ch 92) eqn:E92.
    { destruct (Nat.leb len (S i)) eqn:E2.
      - apply Nat.leb_le in E2. rewrite skipn_ge by lia. reflexivity.
      - apply Nat.leb_gt in E2.
        destruct (nth_error r (S i)) as [c2|] eqn:En2; [|apply nth_none_ge in En2; lia].
        rewrite (skipn_nth _ _ En2). replace (S i + 1) with (S (S i)) by lia.
        destruct (N.eqb c2 92 || N.eqb c2 36); [|reflexivity].
        rewrite IH by lia. rewrite lift_esc.
        destruct (cons_item _ _); cbn [lift]; auto.
        rewrite plain_special by auto. rewrite andb_false_r. reflexivity. }
    destruct (N.eqb ch 36) eqn:E36.
    { destruct (Nat.leb len (S i)) eqn:E2.
      - apply Nat.leb_le in E2. rewrite skipn_ge by lia. reflexivity.
      - apply Nat.leb_gt in E2.
        destruct (nth_error r (S i)) as [c2|] eqn:En2; [|apply nth_none_ge in En2; lia].
        rewrite (skipn_nth _ _ En2). replace (S i + 1) with (S (S i)) by lia.
        destruct (is_digit c2) eqn:Ed; cbn [negb]; [|reflexivity].
        assert (Hfalse : forall a x rest, lift a false rest x = lift a simple (ch :: c2 :: skipn (S (S i)) r) x).
        { intros a x rest. destruct x; cbn [lift]; auto.
          rewrite plain_special by auto. rewrite andb_false_r. reflexivity. }
        destruct (Nat.leb maxc 9) eqn:E9.
        + unfold push_cap, capf. cbn [rbind].
          destruct (Nat.leb (dval c2) maxc) eqn:Ec; cbn [rbind].
          * apply Nat.leb_le in Ec. rewrite IH by lia.
            rewrite (lift_grp _ _ _ _ Ec). apply Hfalse.
          * apply Nat.leb_gt in Ec. rewrite IH by lia.
            rewrite (lift_grp_big _ _ _ _ Ec). apply Hfalse.
        + apply Nat.leb_gt in E9.
          destruct (digits_loop_spec (S len) (S i) (dval c2)) as (i' & g' & H1 & H2 & H3 & H4); try lia.
          fold len in H1. rewrite H1. rewrite H4. cbn [fst snd].
          unfold push_cap, capf. cbn [rbind].
          replace (i' + 1) with (S i') by lia.
          rewrite IH by lia.
          assert (Hd : dval c2 <= maxc).
          { unfold is_digit in Ed. apply andb_true_iff in Ed as [_ Ed]. apply N.leb_le in Ed.
            unfold dval. lia. }
          pose proof (take_digits_le (dval c2) (skipn (S (S i)) r) Hd) as K. rewrite H4 in K.
          cbn [fst] in K. rewrite (lift_grp _ _ _ _ K). apply Hfalse. }
    rewrite IH by lia. apply lift_lit. rewrite E92, E36. reflexivity.
Qed.

Lemma parse_repl_fuel : forall fuel l, length l < fuel -> parse_repl_f maxc fuel l <> PFuel.
Proof.
  induction fuel as [|f IH]; intros l Hl; [lia|]. cbn [parse_repl_f].
  assert (forall it x, x <> PFuel -> cons_item it x <> PFuel) as C.
  { intros it [its| |] Hx; cbn; congruence. }
  destruct l as [|c t]; [discriminate|]. cbn [length] in Hl.
  destruct (N.eqb c 92).
  { destruct t as [|c2 t2]; [discriminate|]. cbn [length] in Hl.
    destruct (_ || _); [|discriminate]. apply C, IH. lia. }
  destruct (N.eqb c 36).
  { destruct t as [|d t2]; [discriminate|]. cbn [length] in Hl.
    destruct (negb _); [discriminate|].
    destruct (Nat.leb maxc 9); apply C, IH; [lia|].
    pose proof (take_digits_len (dval d) t2). lia. }
  apply C, IH. lia.
Qed.

Theorem expand_eq_spec acc :
  expand r maxc capf acc
  = match parse_repl maxc r with
    | PItems its => Ok (acc ++ render maxc cap its, plain r)
    | PInvalid => Err EInvalidRepl
    | PFuel => Out
    end.
Proof.
  unfold expand, parse_repl. fold len.
  rewrite expand_loop_spec by lia. cbn [skipn]. unfold lift. reflexivity.
Qed.

Theorem parse_repl_total : parse_repl maxc r <> PFuel.
Proof. apply parse_repl_fuel. lia. Qed.

Theorem expansion_total acc :
  match expand r maxc capf acc with Ok _ | Err EInvalidRepl => True | _ => False end.
Proof.
  rewrite expand_eq_spec. pose proof parse_repl_total as T.
  destruct (parse_repl maxc r); auto.
Qed.
End P.
