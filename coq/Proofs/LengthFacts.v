(* O1 on the fragment: every end position of the list-of-successes function lies at or after the
   start, and at least get_minimum_match_length characters after it. *)
From RX Require Import Base.Prelude Base.InvList Tables.Consts Model.Case Model.Op Model.Engine Proofs.EngineFacts.

Lemma sadd_le a b : (sadd a b <= a + b)%N.
Proof. unfold sadd. apply N.le_min_l. Qed.
Lemma smul_le a b : (smul a b <= a * b)%N.
Proof. unfold smul. apply N.le_min_l. Qed.

Lemma int_stepR_in len limit : forall fuel cur q, In q (int_stepR len limit fuel cur) -> limit <= q <= cur.
Proof.
  induction fuel as [|f IH]; intros cur q H; cbn [int_stepR] in H; [inversion H|].
  destruct (Nat.leb limit cur) eqn:E; [|inversion H]. apply Nat.leb_le in E.
  destruct H as [<-|H]; [lia|].
  destruct (Nat.ltb cur len) eqn:E2; [inversion H|]. apply Nat.ltb_ge in E2.
  destruct (Nat.eqb len 0); [inversion H|].
  specialize (IH _ _ H). lia.
Qed.

Lemma gf_probeR_spec body len mx guard :
  forall fuel p m p' m', gf_probeR body len mx guard fuel p m = Some (p', m') ->
    p' = p + (m' - m) * len /\ m <= m' /\ (m < m' -> exists p0, body p0 <> []).
Proof.
  induction fuel as [|f IH]; intros p m p' m' H; cbn [gf_probeR] in H; [discriminate|].
  destruct (Nat.leb p guard); [|injection H as <- <-; repeat split; try lia].
  destruct (body p) as [|x l] eqn:Eb; [injection H as <- <-; repeat split; lia|].
  destruct (neq (S m) mx).
  - injection H as <- <-. repeat split; try lia. intros _. exists p. rewrite Eb. discriminate.
  - destruct (IH _ _ _ _ H) as (E1 & E2 & E3). repeat split; try lia.
    + rewrite E1. replace (m' - m) with (S (m' - S m)) by lia. cbn [Nat.mul]. lia.
    + intros _. exists p. rewrite Eb. discriminate.
Qed.

Lemma un_probeR_spec body mx guard (Hb : forall p q, In q (body p) -> p <= q /\ True) minb
      (Hm : forall p q, In q (body p) -> minb <= q - p) :
  forall fuel p m p' m', un_probeR body mx guard fuel p m = Some (p', m') ->
    m <= m' /\ p <= p' /\ (m' - m) * minb <= p' - p.
Proof.
  induction fuel as [|f IH]; intros p m p' m' H; cbn [un_probeR] in H; [discriminate|].
  destruct (nlt m mx && Nat.leb p guard); [|injection H as <- <-; repeat split; lia].
  destruct (body p) as [|x l] eqn:Eb; [injection H as <- <-; repeat split; lia|].
  assert (Hin : In x (body p)) by (rewrite Eb; left; auto).
  destruct (Hb _ _ Hin) as [Hx _]. pose proof (Hm _ _ Hin) as Hmx.
  destruct (IH _ _ _ _ H) as (E1 & E2 & E3). repeat split; try lia.
  replace (m' - m) with (S (m' - S m)) by lia. cbn [Nat.mul]. lia.
Qed.

Lemma rf_minR_spec body mn minb (Hb : forall p q, In q (body p) -> p <= q /\ minb <= q - p) :
  forall fuel count pos c q, rf_minR body mn fuel count pos = Some (Some (c, q)) ->
    count <= c /\ pos <= q /\ (c - count) * minb <= q - pos /\ nlt c mn = false.
Proof.
  induction fuel as [|f IH]; intros count pos c q H; cbn [rf_minR] in H; [discriminate|].
  destruct (nlt count mn) eqn:E.
  - destruct (body pos) as [|x l] eqn:Eb; [discriminate|].
    assert (Hin : In x (body pos)) by (rewrite Eb; left; auto).
    destruct (Hb _ _ Hin) as [H1 H2].
    destruct (IH _ _ _ _ H) as (A1 & A2 & A3 & A4). repeat split; auto; try lia.
    replace (c - count) with (S (c - S count)) by lia. cbn [Nat.mul]. lia.
  - injection H as <- <-. repeat split; auto; lia.
Qed.
Lemma rf_moreR_spec body mx (Hb : forall p q, In q (body p) -> p <= q) :
  forall fuel count pos l, rf_moreR body mx fuel count pos = Some l -> forall x, In x l -> pos <= x.
Proof.
  induction fuel as [|f IH]; intros count pos l H x Hx; cbn [rf_moreR] in H; [discriminate|].
  destruct (nlt count mx); [|injection H as <-; inversion Hx].
  destruct (body pos) as [|q t] eqn:Eb; [injection H as <-; inversion Hx|].
  assert (Hin : In q (body pos)) by (rewrite Eb; left; auto). pose proof (Hb _ _ Hin).
  destruct (rf_moreR body mx f (S count) q) as [l'|] eqn:E; [|discriminate]. injection H as <-.
  destruct Hx as [<-|Hx]; auto. specialize (IH _ _ _ E x Hx). lia.
Qed.

Lemma fold_min_bound (f : op -> N) : forall l a,
  (fold_left (fun m y => let k := f y in if (k <? m)%N then k else m) l a <= a)%N
  /\ forall x, In x l -> (fold_left (fun m y => let k := f y in if (k <? m)%N then k else m) l a <= f x)%N.
Proof.
  induction l as [|y t IH]; intros a; cbn [fold_left].
  - split; [lia|intros x []].
  - cbv zeta. destruct (N.ltb (f y) a) eqn:L.
    + apply N.ltb_lt in L. destruct (IH (f y)) as [H1 H2]. split.
      * eapply N.le_trans; [exact H1|lia].
      * intros x [<-|Hx]; [exact H1|apply H2; auto].
    + apply N.ltb_ge in L. destruct (IH a) as [H1 H2]. split; [exact H1|].
      intros x [<-|Hx]; [eapply N.le_trans; [exact H1|lia]|apply H2; auto].
Qed.


Section L.
Variable input : list N.
Variable ci multi hb : bool.
Variable K : nat.
Let n := length input.
Let R := Rop input ci multi.
Let simp := simple input ci multi hb K.

(* dist p q = q - p as an N, for p <= q *)
Definition covers (o : op) : Prop :=
  forall p q, In q (R o p) -> p <= q /\ (min_length o <= N.of_nat (q - p))%N.

Theorem min_length_sound : forall o, simp o -> covers o.
Proof.
  unfold simp, covers, R.
  induction o using op_ind2; intros Hsim p q Hin; cbn [Rop min_length] in *; try (cbn in Hsim; tauto).
  - (* Bol *) destruct (Nat.eqb p 0); [|destruct multi; [destruct (_ && _)|]];
      try (inversion Hin; fail); destruct Hin as [<-|[]]; split; lia.
  - (* Eol *) destruct multi; [destruct (_ || _)|destruct (_ || _)];
      try (inversion Hin; fail); destruct Hin as [<-|[]]; split; lia.
  - destruct Hin as [<-|[]]; split; lia.
  - destruct Hin as [<-|[]]; split; lia.
  - (* Atom *) destruct (Nat.ltb _ _); [inversion Hin|]. destruct (starts_with _ _ _); [|inversion Hin].
    destruct Hin as [<-|[]]. split; lia.
  - (* Cls *) destruct (nth_error input p); [|inversion Hin]. destruct (mem i n0); [|inversion Hin].
    destruct Hin as [<-|[]]. split; lia.
  - (* Capture *) cbn in Hsim. destruct Hsim as [Hs _]. apply IHo; auto.
  - (* Choice *) cbn in Hsim. apply in_flat_map in Hin as [b [Hb Hq]].
    assert (Sb : simple input ci multi hb K b).
    { clear -Hsim Hb. induction bs as [|x t IH]; [inversion Hb|]. destruct Hsim as [S1 S2].
      destruct Hb as [<-|Hb]; auto. }
    rewrite Forall_forall in H. destruct (H b Hb Sb p q Hq) as [L1 L2]. split; auto.
    destruct bs as [|b0 rest]; [inversion Hb|].
    destruct (fold_min_bound min_length rest (min_length b0)) as [F1 F2].
    destruct Hb as [<-|Hb]; [eapply N.le_trans; [exact F1|exact L2]|].
    specialize (F2 b Hb). eapply N.le_trans; [exact F2|exact L2].
  - (* Seq *) cbn in Hsim. destruct Hsim as [Hne Hall].
    assert (G : forall acc p q,
      In q ((fix go (os0 : list op) (p0 : nat) {struct os0} : list nat :=
               match os0 with
               | [] => []
               | [o1] => Rop input ci multi o1 p0
               | o1 :: (_ :: _) as os' => flat_map (fun q => go os' q) (Rop input ci multi o1 p0)
               end) os p) ->
      p <= q /\ (fold_left (fun acc x => sadd acc (min_length x)) os acc <= acc + N.of_nat (q - p))%N).
    { clear Hin p q. induction H as [|o1 os Ho Hos IHos]; [congruence|]. intros acc p q Hin.
      destruct Hall as [S1 Srest].
      destruct os as [|o2 os'].
      - destruct (Ho S1 p q Hin) as [L1 L2]. split; auto. cbn [fold_left].
        pose proof (sadd_le acc (min_length o1)). lia.
      - apply in_flat_map in Hin as [q1 [Hq1 Hq]].
        destruct (Ho S1 p q1 Hq1) as [L1 L2].
        destruct (IHos ltac:(discriminate) Srest (sadd acc (min_length o1)) q1 q Hq) as [M1 M2].
        split; [lia|]. cbn [fold_left] in *.
        pose proof (sadd_le acc (min_length o1)). lia. }
    destruct (G 0%N p q Hin) as [G1 G2]. split; [exact G1|]. rewrite N.add_0_l in G2. exact G2.
  - (* GFixed *) cbn in Hsim. destruct Hsim as (Hs2 & Hlen & Hfix).
    destruct (Nat.leb _ _ && N.ltb 0 mn); [inversion Hin|].
    destruct (gf_probeR _ _ _ _ _ _ _) as [[p' m]|] eqn:E; [|inversion Hin].
    destruct (nlt m mn) eqn:Em; [inversion Hin|].
    apply int_stepR_in in Hin. destruct Hin as [Hlo Hhi].
    destruct (gf_probeR_spec _ _ _ _ _ _ _ _ _ E) as (Ep & _ & Hex).
    split; [lia|].
    unfold nlt in Em. apply N.ltb_ge in Em.
    destruct (N.eq_dec mn 0) as [->|Hmn].
    + unfold smul. rewrite N.mul_0_l. rewrite N.min_0_l. lia.
    + assert (0 < m) by lia. destruct (Hex ltac:(lia)) as [p0 Hp0].
      destruct (Rop input ci multi o p0) as [|q0 rest] eqn:E0; [congruence|].
      assert (Hin0 : In q0 (Rop input ci multi o p0)) by (rewrite E0; left; auto).
      destruct (IHo Hs2 p0 q0 Hin0) as [_ Lb]. rewrite (Hfix p0 q0 Hin0) in Lb.
      replace (p0 + N.to_nat l - p0) with (N.to_nat l) in Lb by lia.
      pose proof (smul_le mn (min_length o)).
      assert ((mn * min_length o <= mn * l)%N) by (apply N.mul_le_mono_l; lia).
      assert (N.to_nat l * N.to_nat mn <= q - p) by lia.
      nia.
  - (* RFixed *) cbn in Hsim. destruct Hsim as (Hs2 & Hlen & Hfix).
    destruct (rf_minR _ _ _ _ _) as [[[c pos]|]|] eqn:Em; try (inversion Hin; fail).
    assert (Hb : forall p q, In q (Rop input ci multi o p) -> p <= q /\ N.to_nat (min_length o) <= q - p).
    { intros p0 q0 Hq0. destruct (IHo Hs2 p0 q0 Hq0) as [L1 L2]. split; auto. lia. }
    destruct (rf_minR_spec _ mn _ Hb _ _ _ _ _ Em) as (A1 & A2 & A3 & A4).
    unfold nlt in A4. apply N.ltb_ge in A4.
    assert (Hq : pos <= q).
    { destruct (rf_moreR _ _ _ _ _) as [l0|] eqn:Er; [|inversion Hin].
      destruct Hin as [<-|Hin]; auto.
      eapply (rf_moreR_spec _ mx (fun p q Hq => proj1 (Hb p q Hq))); eauto. }
    split; [lia|].
    pose proof (smul_le mn (min_length o)).
    assert (N.to_nat mn * N.to_nat (min_length o) <= pos - p) by nia.
    lia.
  - (* Unamb *) cbn in Hsim. destruct Hsim as [Hs2 Hbo].
    destruct (un_probeR _ _ _ _ _ _) as [[p' m]|] eqn:E; [|inversion Hin].
    destruct (nlt m mn) eqn:Em; [inversion Hin|]. destruct Hin as [<-|[]].
    unfold nlt in Em. apply N.ltb_ge in Em.
    pose proof (un_probeR_spec (Rop input ci multi o) mx n
                  (fun p q Hq => conj (proj1 (IHo Hs2 p q Hq)) I) (N.to_nat (min_length o))) as U.
    assert (Hm : forall p q, In q (Rop input ci multi o p) -> N.to_nat (min_length o) <= q - p).
    { intros p0 q0 Hq0. destruct (IHo Hs2 p0 q0 Hq0) as [_ L]. lia. }
    destruct (U Hm _ _ _ _ _ E) as (U1 & U2 & U3). split; auto.
    pose proof (smul_le mn (min_length o)).
    assert (N.to_nat mn * N.to_nat (min_length o) <= p' - p) by nia.
    lia.
Qed.
End L.
