(* S*: the scan loops of replace_all and tokenize over an abstract match function (DESIGN.md §3.5).
   Hypothesis [good_step] is the interface fact of ReMatcher::matches for a regex that cannot match
   the empty string: a reported match lies at or after the search position, inside the input, and
   is not empty; the call neither panics nor runs out of fuel. *)
From RX Require Import Base.Prelude Model.Engine Model.Matcher Model.Api.

Section Scan.
Variable matchf : nat -> mstate -> mres.
Variable input : list N.
Let n := length input.

Definition good_step : Prop :=
  forall pos s, pos <= n ->
    match matchf pos s with
    | MTrue s' => exists a b, get_pstart s' 0 = Some a /\ get_pend s' 0 = Some b /\ pos <= a /\ a < b /\ b <= n
    | MFalse _ => True
    | MOut | MPanic _ => False
    end.

(* the same relative to an invariant of the matcher state: asked only of states that satisfy it,
   and every state handed back satisfies it again (for the real matcher: its arrays have matching
   lengths).  good_step is the instance with the trivial invariant. *)
Variable Inv : mstate -> Prop.
Definition good_step_on : Prop :=
  forall pos s, pos <= n -> Inv s ->
    match matchf pos s with
    | MTrue s' => (exists a b, get_pstart s' 0 = Some a /\ get_pend s' 0 = Some b /\ pos <= a /\ a < b /\ b <= n) /\ Inv s'
    | MFalse s' => Inv s'
    | MOut | MPanic _ => False
    end.

(* the spans the loops visit: search from pos, resume at the end of each match *)
Fixpoint scan (fuel pos : nat) (s : mstate) : list (nat * nat) :=
  match fuel with
  | O => []
  | S f =>
      if Nat.ltb pos n then
        match matchf pos s with
        | MTrue s' =>
            match get_pstart s' 0, get_pend s' 0 with
            | Some a, Some b => (a, b) :: scan f b s'
            | _, _ => []
            end
        | _ => []
        end
      else []
  end.

(* text between consecutive spans *)
Fixpoint pieces (spans : list (nat * nat)) (pos : nat) : list (list N) :=
  match spans with
  | [] => [slice input pos n]
  | (a, b) :: t => slice input pos a :: pieces t b
  end.

Lemma rslice_ok a b : a <= b -> b <= n -> rslice input a b = Ok (slice input a b).
Proof.
  intros H1 H2. unfold rslice. fold n.
  replace (Nat.ltb b a) with false by (symmetry; apply Nat.ltb_ge; lia).
  replace (Nat.ltb n b) with false by (symmetry; apply Nat.ltb_ge; lia). reflexivity.
Qed.

(* ------------------------------------------------------------ tokenize *)
Fixpoint tok_all (fuel : nat) (st : tokst) : res (list (list N)) :=
  match fuel with
  | O => Out
  | S f =>
      match tok_next_gen matchf input st with
      | Ok (None, _) => Ok []
      | Ok (Some t, st') => l <- tok_all f st' ;; Ok (t :: l)
      | Err e => Err e
      | Panic k => Panic k
      | Out => Out
      end
  end.

Lemma tok_all_S f st :
  tok_all (S f) st = match tok_next_gen matchf input st with
                     | Ok (None, _) => Ok []
                     | Ok (Some t, st') => l <- tok_all f st' ;; Ok (t :: l)
                     | Err e => Err e
                     | Panic k => Panic k
                     | Out => Out
                     end.
Proof. reflexivity. Qed.
Lemma scan_S f pos s :
  scan (S f) pos s = if Nat.ltb pos n then
                       match matchf pos s with
                       | MTrue s' => match get_pstart s' 0, get_pend s' 0 with
                                     | Some a, Some b => (a, b) :: scan f b s'
                                     | _, _ => []
                                     end
                       | _ => []
                       end
                     else [].
Proof. reflexivity. Qed.

(* at the end of the input the tokenizer asks the matcher once more; a good matcher finds nothing
   there (a match would have to be empty) *)
Lemma no_match_at_end (G : good_step_on) s : Inv s -> match matchf n s with MFalse _ => True | _ => False end.
Proof.
  intros Hi. specialize (G n s (le_n n) Hi). destruct (matchf n s); auto.
  destruct G as [(a & b & _ & _ & H1 & H2 & H3) _]. lia.
Qed.

Theorem tok_all_spec_on (G : good_step_on) : forall k pe s, Inv s -> n - pe < k -> pe <= n ->
  tok_all (S (S k)) {| t_prev := Some pe; t_ms := s |} = Ok (pieces (scan (S k) pe s) pe).
Proof.
  induction k as [|k IH]; intros pe s Hinv Hk Hpe; [lia|].
  rewrite tok_all_S, scan_S. unfold tok_next_gen at 1. cbn [t_prev t_ms].
  pose proof (G pe s Hpe Hinv) as Gp.
  destruct (Nat.ltb pe n) eqn:Lt.
  - apply Nat.ltb_lt in Lt.
    destruct (matchf pe s) as [s'|s'| |e]; cbn [mres_bool rbind]; try contradiction.
    + destruct Gp as [(a & b & Ha & Hb & H1 & H2 & H3) Hinv']. rewrite Ha, Hb.
      rewrite rslice_ok by lia. cbn [rbind].
      rewrite (IH b s' Hinv') by lia. cbn [rbind pieces]. reflexivity.
    + rewrite rslice_ok by lia. cbn [rbind pieces].
      rewrite tok_all_S. unfold tok_next_gen. cbn [t_prev rbind]. reflexivity.
  - apply Nat.ltb_ge in Lt. assert (pe = n) by lia. subst pe.
    pose proof (no_match_at_end G s Hinv) as E.
    destruct (matchf n s) as [s'|s'| |e]; try contradiction. cbn [mres_bool rbind].
    rewrite rslice_ok by lia. cbn [rbind pieces].
    rewrite tok_all_S. unfold tok_next_gen. cbn [t_prev rbind]. reflexivity.
Qed.

Lemma scan_length : forall fuel pos s, length (scan fuel pos s) <= fuel.
Proof.
  induction fuel as [|f IH]; intros pos s; [cbn; lia|].
  rewrite scan_S.
  destruct (Nat.ltb pos n); [|cbn; lia].
  destruct (matchf pos s) as [s'|s'| |e]; try (cbn; lia).
  destruct (get_pstart s' 0) as [a|]; [|cbn; lia].
  destruct (get_pend s' 0) as [b|]; [|cbn; lia].
  cbn [length]. specialize (IH b s'). lia.
Qed.

Lemma scan_bound_on (G : good_step_on) : forall fuel pos s, Inv s -> pos <= n -> length (scan fuel pos s) <= n - pos.
Proof.
  induction fuel as [|f IH]; intros pos s Hinv Hp; [cbn; lia|].
  rewrite scan_S.
  destruct (Nat.ltb pos n) eqn:Lt; [|cbn; lia]. apply Nat.ltb_lt in Lt.
  pose proof (G pos s Hp Hinv) as Gp.
  destruct (matchf pos s) as [s'|s'| |e]; try (cbn; lia).
  destruct Gp as [(a & b & Ha & Hb & H1 & H2 & H3) Hinv']. rewrite Ha, Hb. cbn [length].
  specialize (IH b s' Hinv' H3). lia.
Qed.

Lemma pieces_length spans pos : length (pieces spans pos) = S (length spans).
Proof. revert pos; induction spans as [|[a b] t IH]; intros pos; cbn; auto. Qed.

(* tokenize yields at most len + 1 tokens *)
Theorem tok_count_bound_on (G : good_step_on) s : Inv s ->
  exists l, tok_all (S (S (S n))) {| t_prev := Some 0; t_ms := s |} = Ok l /\ length l <= n + 1.
Proof.
  intros Hinv. eexists. split; [apply tok_all_spec_on; auto; lia|].
  rewrite pieces_length. pose proof (scan_bound_on G (S (S n)) 0 s Hinv). lia.
Qed.

(* once the iterator has returned None it keeps returning None *)
Theorem tok_fused s : tok_next_gen matchf input {| t_prev := None; t_ms := s |}
                      = Ok (None, {| t_prev := None; t_ms := s |}).
Proof. reflexivity. Qed.

(* ------------------------------------------------------------ replace *)
Variable repl : list N.
Variable maxparens : nat.

(* with a literal replacement (flag q) every match is replaced by the replacement verbatim *)
Fixpoint join (ps : list (list N)) : list N :=
  match ps with
  | [] => []
  | [p] => p
  | p :: t => p ++ repl ++ join t
  end.

Lemma replace_loop_literal_on (G : good_step_on) : forall k pos s result,
  Inv s -> n - pos < k -> pos <= n ->
  replace_loop matchf true maxparens input repl (S k) pos s result false true
  = Ok (result ++ join (pieces (scan (S k) pos s) pos)).
Proof.
  induction k as [|k IH]; intros pos s result Hinv Hk Hp; [lia|].
  rewrite scan_S. remember (S k) as k1 eqn:Ek. cbn [replace_loop]. fold n. subst k1.
  destruct (Nat.ltb pos n) eqn:Lt.
  - apply Nat.ltb_lt in Lt. pose proof (G pos s Hp Hinv) as Gp.
    destruct (matchf pos s) as [s'|s'| |e]; cbn [mres_bool rbind]; try contradiction.
    + destruct Gp as [(a & b & Ha & Hb & H1 & H2 & H3) Hinv']. rewrite Ha, Hb.
      rewrite rslice_ok by lia. cbn [rbind negb].
      replace (Nat.eqb b pos) with false by (symmetry; apply Nat.eqb_neq; lia).
      rewrite (IH _ _ _ Hinv') by lia. cbn [pieces]. f_equal.
      rewrite <- !app_assoc. f_equal.
      destruct (pieces (scan (S k) b s') b) eqn:E.
      * pose proof (pieces_length (scan (S k) b s') b) as L. rewrite E in L. discriminate L.
      * cbn [join]. destruct l0; reflexivity.
    + unfold finish. rewrite rslice_ok by lia. reflexivity.
  - apply Nat.ltb_ge in Lt. unfold finish. rewrite rslice_ok by lia. reflexivity.
Qed.

(* text outside matches is copied unchanged; an input without matches is returned as is *)
Theorem replace_no_match literal s0 :
  (forall s, match matchf 0 s with MFalse _ => True | _ => False end) ->
  replace_loop matchf literal maxparens input repl (n + 2) 0 s0 [] true false = Ok input.
Proof.
  intros H. replace (n + 2) with (S (n + 1)) by lia. cbn [replace_loop]. fold n.
  destruct (Nat.ltb 0 n); [|reflexivity].
  specialize (H s0). destruct (matchf 0 s0); try contradiction. reflexivity.
Qed.
End Scan.

(* ---------- the instances with the trivial invariant ---------- *)
Lemma good_step_trivial matchf input : good_step matchf input -> good_step_on matchf input (fun _ => True).
Proof.
  intros G pos s Hp _. specialize (G pos s Hp). destruct (matchf pos s); auto.
Qed.

Theorem tok_all_spec matchf input (G : good_step matchf input) : forall k pe s, length input - pe < k -> pe <= length input ->
  tok_all matchf input (S (S k)) {| t_prev := Some pe; t_ms := s |} = Ok (pieces input (scan matchf input (S k) pe s) pe).
Proof. intros k pe s. apply (tok_all_spec_on matchf input (fun _ => True) (good_step_trivial _ _ G) k pe s I). Qed.

Lemma scan_bound matchf input (G : good_step matchf input) : forall fuel pos s, pos <= length input ->
  length (scan matchf input fuel pos s) <= length input - pos.
Proof. intros fuel pos s. apply (scan_bound_on matchf input (fun _ => True) (good_step_trivial _ _ G) fuel pos s I). Qed.

Theorem tok_count_bound matchf input (G : good_step matchf input) s :
  exists l, tok_all matchf input (S (S (S (length input)))) {| t_prev := Some 0; t_ms := s |} = Ok l /\ length l <= length input + 1.
Proof. apply (tok_count_bound_on matchf input (fun _ => True) (good_step_trivial _ _ G) s I). Qed.

Lemma replace_loop_literal matchf input repl maxparens (G : good_step matchf input) : forall k pos s result,
  length input - pos < k -> pos <= length input ->
  replace_loop matchf true maxparens input repl (S k) pos s result false true
  = Ok (result ++ join repl (pieces input (scan matchf input (S k) pos s) pos)).
Proof. intros k pos s result. apply (replace_loop_literal_on matchf input (fun _ => True) repl maxparens (good_step_trivial _ _ G) k pos s result I). Qed.
