(* A frame property of the engine on the fragment (no back-reference, no variable-length repeat):
   any predicate of the matcher state that every primitive update keeps - group 0's start is one,
   because only Capture writes a start and its group number is at least 1 - holds of every state
   the stream of an operation hands out, as long as it holds of the state it was started with and
   of the states it is resumed with. *)
From RX Require Import Base.Prelude Base.InvList Tables.Consts Model.Case Model.Op Model.Engine.
From RX Require Import Proofs.EngineFacts.
Transparent gf_probe int_step un_probe rf_min rf_more.

Section Frame.
Variable input : list N.
Variable ci multi hb : bool.
Variable Q : mstate -> Prop.
Hypothesis Q_pend : forall g p s, Q s -> Q (set_pend g p s).
Hypothesis Q_pstart : forall g p s, 1 <= g -> Q s -> Q (set_pstart g p s).
Hypothesis Q_pcount : forall k s, Q s -> Q (set_pcount k s).
Hypothesis Q_sb : forall g v s s', set_sb g v s = Some s' -> Q s -> Q s'.
Hypothesis Q_eb : forall g v s s', set_eb g v s = Some s' -> Q s -> Q s'.
Hypothesis Q_clear : forall pos s s', clear_beyond pos s = Some s' -> Q s -> Q s'.
Hypothesis Q_restore : forall s s', Q s -> Q s' -> Q (with_cs (cs_ s) s').

Inductive SP : LS -> Prop :=
| SPNil s : Q s -> SP (LNil s)
| SPCons p s r : Q s -> (forall s', Q s' -> SP (r s')) -> SP (LCons p s r)
| SPOut : SP LOut
| SPPanic k : SP (LPanic k).

Lemma SP_once p s : Q s -> SP (once p s).
Proof. intros H. unfold once. constructor; [exact H|]. intros s' H'. constructor. exact H'. Qed.

Lemma SP_bind l k : SP l -> (forall q s, Q s -> SP (k q s)) -> SP (bind l k).
Proof.
  intros Hl Hk. induction Hl as [s Hs|p s r Hs Hr IH| |]; cbn [bind].
  - constructor. exact Hs.
  - generalize (Hk p s Hs). generalize (k p s). intros m Hm.
    induction Hm as [s' Hs'|q s' r' Hs' Hr' IH'| |].
    + apply IH. exact Hs'.
    + constructor; [exact Hs'|]. intros s'' H''. apply IH'. exact H''.
    + constructor.
    + constructor.
  - constructor.
  - constructor.
Qed.

Lemma SP_append l k : SP l -> (forall s, Q s -> SP (k s)) -> SP (append l k).
Proof.
  intros Hl Hk. induction Hl as [s Hs|p s r Hs Hr IH| |]; cbn [append].
  - apply Hk. exact Hs.
  - constructor; [exact Hs|]. intros s' H'. apply IH. exact H'.
  - constructor.
  - constructor.
Qed.

Lemma SP_map_yield site f l : SP l -> (forall q s s1, f q s = Some s1 -> Q s -> Q s1) -> SP (map_yield site f l).
Proof.
  intros Hl Hf. induction Hl as [s Hs|p s r Hs Hr IH| |]; cbn [map_yield].
  - constructor. exact Hs.
  - destruct (f p s) as [s1|] eqn:E; [|constructor].
    constructor; [eapply Hf; eauto|]. intros s' H'. apply IH. exact H'.
  - constructor.
  - constructor.
Qed.

Lemma SP_on_nil f l : SP l -> (forall s, Q s -> Q (f s)) -> SP (on_nil f l).
Proof.
  intros Hl Hf. induction Hl as [s Hs|p s r Hs Hr IH| |]; cbn [on_nil].
  - constructor. apply Hf. exact Hs.
  - constructor; [exact Hs|]. intros s' H'. apply IH. exact H'.
  - constructor.
  - constructor.
Qed.

Lemma SP_first l : SP l -> match first_of l with FSome _ s | FNone s => Q s | _ => True end.
Proof. intros H. destruct H; cbn [first_of]; auto. Qed.

Section Probes.
Variable body : nat -> mstate -> LS.
Hypothesis Hbody : forall p s, Q s -> SP (body p s).

Lemma gf_probe_Q len mx guard : forall fuel p m s p' m' s1, Q s ->
  gf_probe body len mx guard fuel p m s = Ok (p', m', s1) -> Q s1.
Proof.
  induction fuel as [|f IH]; intros p m s p' m' s1 Hs H; cbn [gf_probe] in H; [discriminate|].
  destruct (Nat.leb p guard); [|injection H as _ _ <-; exact Hs].
  pose proof (SP_first _ (Hbody p s Hs)) as F.
  destruct (first_of (body p s)) as [q s2|s2| |k]; try discriminate.
  - destruct (neq (S m) mx); [injection H as _ _ <-; exact F|]. eapply IH; eauto.
  - injection H as _ _ <-. exact F.
Qed.

Lemma un_probe_Q mx guard : forall fuel p m s p' m' s1, Q s ->
  un_probe body mx guard fuel p m s = Ok (p', m', s1) -> Q s1.
Proof.
  induction fuel as [|f IH]; intros p m s p' m' s1 Hs H; cbn [un_probe] in H; [discriminate|].
  destruct (nlt m mx && Nat.leb p guard); [|injection H as _ _ <-; exact Hs].
  pose proof (SP_first _ (Hbody p s Hs)) as F.
  destruct (first_of (body p s)) as [q s2|s2| |k]; try discriminate.
  - eapply IH; eauto.
  - injection H as _ _ <-. exact F.
Qed.

Lemma rf_min_Q mn : forall fuel count pos s r s1, Q s ->
  rf_min body mn fuel count pos s = Ok (r, s1) -> Q s1.
Proof.
  induction fuel as [|f IH]; intros count pos s r s1 Hs H; cbn [rf_min] in H; [discriminate|].
  destruct (nlt count mn); [|injection H as _ <-; exact Hs].
  pose proof (SP_first _ (Hbody pos s Hs)) as F.
  destruct (first_of (body pos s)) as [q s2|s2| |k]; try discriminate.
  - eapply IH; eauto.
  - injection H as _ <-. exact F.
Qed.

Lemma SP_rf_more mx position : forall fuel count pos s, Q s -> SP (rf_more body mx position fuel count pos s).
Proof.
  induction fuel as [|f IH]; intros count pos s Hs; cbn [rf_more]; [constructor|].
  destruct (nlt count mx); [|constructor; exact Hs].
  destruct (clear_beyond position s) as [s0|] eqn:E; [|constructor].
  pose proof (Hbody pos s0 (Q_clear _ _ _ E Hs)) as B.
  destruct B as [s1 H1|q s1 r H1 Hr| |].
  - constructor. exact H1.
  - constructor; [exact H1|]. intros s' H'. apply IH. exact H'.
  - constructor.
  - constructor.
Qed.
End Probes.

Lemma SP_int_step len limit : forall fuel cur s, Q s -> SP (int_step len limit fuel cur s).
Proof.
  induction fuel as [|f IH]; intros cur s Hs; cbn [int_step]; [constructor|].
  destruct (Nat.leb limit cur); [|constructor; exact Hs].
  constructor; [exact Hs|]. intros s' H'.
  destruct (Nat.ltb cur len); [constructor; exact H'|].
  destruct (Nat.eqb len 0); [constructor|]. apply IH. exact H'.
Qed.

(* the operations of the fragment whose captures are numbered from 1 *)
Fixpoint framed (o : op) : Prop :=
  match o with
  | OBackref _ | ORepeat _ _ _ _ => False
  | OCapture g o' => 1 <= g /\ framed o'
  | OChoice bs | OSeq bs => (fix all l := match l with [] => True | x :: t => framed x /\ all t end) bs
  | OGFixed o' _ _ _ | ORFixed o' _ _ _ | OUnamb o' _ _ => framed o'
  | _ => True
  end.

Theorem mi_frame : forall o, framed o -> forall path p s, Q s -> SP (mi input ci multi hb o path p s).
Proof.
  induction o using op_ind2; intros Hf path p s Hs; cbn [framed] in Hf; try contradiction; cbn [mi].
  - (* Bol *) destruct (Nat.eqb p 0); [apply SP_once; exact Hs|].
    destruct multi; [|constructor; exact Hs].
    destruct (Nat.ltb (length input) p); [constructor|].
    destruct (is_nl input (p - 1) && Nat.ltb p (length input)); [apply SP_once|constructor]; exact Hs.
  - (* Eol *) destruct multi.
    + destruct (Nat.eqb (length input) 0 || Nat.leb (length input) p || is_nl input p); [apply SP_once|constructor]; exact Hs.
    + destruct (Nat.eqb (length input) 0 || Nat.leb (length input) p); [apply SP_once|constructor]; exact Hs.
  - (* Nothing *) apply SP_once. exact Hs.
  - (* End *) destruct (anchored s).
    + destruct (Nat.leb (length input) p); [apply SP_once|constructor]; exact Hs.
    + apply SP_once. apply Q_pend. exact Hs.
  - (* Atom *) destruct (Nat.ltb (length input) (p + length cs)); [constructor; exact Hs|].
    destruct (starts_with (ceq ci) cs (skipn p input)); [apply SP_once|constructor]; exact Hs.
  - (* Cls *) destruct (nth_error input p) as [c|]; [|constructor; exact Hs].
    destruct (mem i c); [apply SP_once|constructor]; exact Hs.
  - (* Capture *) destruct Hf as [Hg Hf].
    apply SP_map_yield; [apply IHo; auto|].
    intros q s1 s4 E Hs1.
    set (s2 := if Nat.leb (pcount (cs_ s1)) g then set_pcount (S g) s1 else s1) in E.
    assert (H2 : Q s2) by (unfold s2; destruct (Nat.leb _ _); auto).
    assert (H3 : Q (set_pend g q (set_pstart g p s2))) by (apply Q_pend; apply Q_pstart; auto).
    destruct hb; [|injection E as <-; exact H3].
    destruct (set_sb g (Some p) (set_pend g q (set_pstart g p s2))) as [s5|] eqn:E5; [|discriminate].
    eapply Q_eb; [exact E|]. eapply Q_sb; eauto.
  - (* Choice *)
    match goal with |- SP (?F bs 0 s) => cut (forall i0 s0, Q s0 -> SP (F bs i0 s0)); [intros G; apply G; exact Hs|] end.
    clear s Hs. induction H as [|b t Hb Ht IH]; intros i0 s Hs; [constructor; exact Hs|].
    destruct Hf as [Hfb Hft].
    destruct (clear_beyond p s) as [s0|] eqn:E; [|constructor].
    apply SP_append; [apply Hb; [exact Hfb|eapply Q_clear; eauto]|].
    intros s' H'. apply IH; auto.
  - (* Seq *)
    apply SP_on_nil.
    + match goal with |- SP (?F os 0 p s) => cut (forall i0 p0 s0, Q s0 -> SP (F os i0 p0 s0)); [intros G; apply G; exact Hs|] end.
      clear p s Hs. induction H as [|o1 t Ho1 Ht IH]; intros i0 p s Hs; [constructor|].
      destruct Hf as [Hf1 Hft]. destruct t as [|o2 t'].
      * apply SP_map_yield; [apply Ho1; auto|]. intros q s1 s2 E H1. eapply Q_clear; eauto.
      * apply SP_bind; [apply Ho1; auto|]. intros q s1 H1.
        destruct (clear_beyond q s1) as [s2|] eqn:E; [|constructor].
        apply IH; [exact Hft|eapply Q_clear; eauto].
    + intros s' H'. destruct (contains_cap (OSeq os)); [apply Q_restore; auto|exact H'].
  - (* GFixed *)
    destruct (Nat.leb _ p && N.ltb 0 mn); [constructor; exact Hs|].
    destruct (gf_probe _ _ _ _ _ _ _ _) as [[[p' m] s1]| | |] eqn:E; try constructor.
    assert (H1 : Q s1) by (eapply (gf_probe_Q (mi input ci multi hb o (0 :: path))); eauto; intros; apply IHo; auto).
    destruct (nlt m mn); [constructor; exact H1|]. apply SP_int_step. exact H1.
  - (* RFixed *)
    destruct (rf_min _ _ _ _ _ _) as [[r s1]| | |] eqn:E; try constructor.
    assert (H1 : Q s1) by (eapply (rf_min_Q (mi input ci multi hb o (0 :: path))); eauto; intros; apply IHo; auto).
    destruct r as [[count pos]|]; [|constructor; exact H1].
    constructor; [exact H1|]. intros s' H'. apply SP_rf_more; [intros; apply IHo; auto|exact H'].
  - (* Unamb *)
    destruct (un_probe _ _ _ _ _ _ _) as [[[p' m] s1]| | |] eqn:E; try constructor.
    assert (H1 : Q s1) by (eapply (un_probe_Q (mi input ci multi hb o (0 :: path))); eauto; intros; apply IHo; auto).
    destruct (nlt m mn); [constructor; exact H1|]. apply SP_once. exact H1.
Qed.
End Frame.
